CONFIG = dict(
    id="C14",
    engine="bubble-timer",
    technique="Lean 4 invariant proof over all histories (and, for liveness, all fair infinite schedules) of a small-step model of "
              "utils/timer.Mgr (+ callback scripts) and of the service-level model of actorex/service.Service's check timer, which refines it "
              "+ differential correspondence with the real timer.Mgr / StandardRunService under a virtual clock (testing/synctest) "
              "+ the property predicate evaluated on the implementation's own callback log",
    level_text="Machine-checked proof in Lean 4, by an inductive invariant over every history of primitive steps (create, cancel, time passing, "
               "expiry goroutine enabled only once the duration has elapsed, consumer receive + Do split into its atomic parts, single actions of "
               "callback scripts incl. cancel-self/cancel-other/create/panic, Stop), that in the model of utils/timer.Mgr no callback is entered "
               "after Cancel, a one-shot fires at most once and exactly once when not cancelled and drained, a repeating timer is always armed/queued/"
               "running, no firing is earlier than creation+delay resp. previous firing+period, callbacks carry the creation arguments and are entered "
               "only by the consumer's Do, and a panic changes nothing else. The model is tied to the Go code on every run: the real timer.Mgr is "
               "driven inside a synctest bubble by the harness acting as the queue consumer (and, in a fifth of the cases, by a real StandardRunService "
               "whose loop goroutine must be the one running every callback); the model must accept every observation (only the order of simultaneous "
               "expiries is read off the implementation) and the property predicate is evaluated on the implementation's callback log. "
               "Liveness is proved as inevitability, not only as possibility: with a consumer that receives in channel order (doNext 0 only) an object at queue "
               "position k has had its callback entered or has been cancelled once k+1 elements were taken, in every continuation (fifo_bounded_wait); "
               "in every fair infinite schedule (consumer, running callback, expiry goroutine of the timer and the clock keep getting turns) a repeating timer "
               "that is never cancelled on a manager that is never stopped fires infinitely often and a one-shot ends up having fired exactly once "
               "(repeating_fires_infinitely_often, oneshot_fires_exactly_once_eventually; fair schedule exhibited). The Stop exception is a theorem "
               "(nothing_new_after_stop), the two-statement After/AddTimer (doLater, then timers.Store) is shown equivalent to the atomic model step "
               "(create_gap_harmless), and the single-owner assumption is shown to be needed (owner_assumption_needed). The timer use of "
               "actorex/service.Service (tryStartCheckTimer / checkExpired / freeTimer) is a model of its own (Model/TimerSvc.lean) whose every history is a "
               "history of the manager model (svc_refines_timer); proved for all service histories: the manager holds no timer but the one the service owns, "
               "an outstanding request always has its live 1 s check timer, the idle tick frees it, a freed timer never fires again. The `svc` run compares "
               "the real Service with exactly this model (every driver step of a service-level case is a TimerSvc.svcStep). "
               "The expiry closure of doLater (read Canceled, read running, send - the send possibly much later, the goroutine blocked on the full channel) "
               "is split in Lemmas/TimerGap.lean and the atomic model step is justified for every interleaving with the owner: any stretch of owner-side "
               "steps (Cancel of that very timer, Stop, creations, callback actions, time) between the checks and the send gives the state and events of "
               "'atomic expiry first, same steps afterwards' (expire_gap_harmless, by induction over the stretch), a receive of an already queued element and "
               "the expiry goroutine of another timer commute as well (expire_gap_receive_and_other_expiry). The panic clause is stated over the two steps "
               "'panic, tail of Do' for every state and script (panic_leaves_rest_alone: no other object, queue, clock, allocator, running flag touched; "
               "repeating re-armed for now+period, one-shot forgotten); callbacks of the acceptance run panic with a string, an error value, a Go runtime "
               "error and a struct value. User code inside Service.checkExpired is in the service model: the completion callback of a timed-out request may "
               "issue a follow-up request from inside the check timer's own callback (SOp.reqAgain); proved for all service histories: no tick creates a "
               "timer (svc_tick_creates_no_timer), the follow-up is in the table and covered by the already owned, re-armed timer "
               "(svc_followup_request_is_covered); the `svc` run issues such requests, lets them time out, answers or drops the follow-up. "
               "'Again and again' at the service level with a bound (svc_check_timer_due_within_period, by the new invariant DueSoon over all service "
               "histories): while a request is outstanding the owned check timer's runtime timer is never set for more than one period ahead, and after "
               "one period + the expiry goroutine its object is in the loop's queue; the spec monitor evaluates exactly this on the real Service "
               "(request outstanding, >= 1 s passes, no tick => C14/check-timer-stopped; request outstanding and timerCheckExpired == 0 => "
               "C14/request-without-check-timer). The selector plumbing of StandardRunService (the timer queue joins the MultiSelector under the name "
               "\"timer\" after Start()) is exercised, not modelled: op `usel` hooks user selectors into the running loop under built-in and repeated "
               "names from the owner and from a foreign goroutine; the model's single consumer must go on draining.",
    level_note="Partial with respect to the Go runtime: time.AfterFunc/Timer.Stop semantics (function runs once, on another goroutine, not before the "
               "duration; virtualised by testing/synctest), FIFO wake-up of senders blocked on the full queue channel (the model's queue is an unbounded "
               "list: its elements beyond 999 are the blocked senders; that a sender which has passed its checks may send later is no longer assumed away: "
               "expire_gap_harmless + case overflow-stop-with-blocked-senders), and atomicity of the unsynchronised Obj.Canceled / Mgr.running flags are "
               "assumptions of the model. Fairness (everybody keeps getting turns) is a hypothesis of the two inevitability theorems: it is what the Go "
               "scheduler and callbacks that return provide. 'Only on the draining goroutine' is a behavioural tie (goroutine identity observed on the real "
               "run service), the model has no goroutines. The theorems are about the models; the correspondence run ties them to the code on sampled "
               "histories only. Id wrap-around of SerialIdService64 (2^64) is not modelled; user callbacks of timed-out requests (Service.checkExpired "
               "calling wait.CB) are empty or issue one follow-up request in the service-level model - a completion callback that PANICS inside "
               "checkExpired is not in the service model (which of the other expired entries are dropped before the panic depends on Go's map iteration "
               "order; at manager level the panic is covered: panic_leaves_rest_alone). The value a callback panics with is not in the model "
               "(recover() takes every value, the handler only prints it): that Mgr.do contains every kind of value is a behavioural tie (string, error, "
               "runtime error, struct on every run), runtime.Goexit and fatal errors inside a callback are outside. utils/sche.MultiSelector "
               "(dynamic select set, dirty flag, chanDirt wake-up) is not modelled: that the timer selector stays in the select set whatever other "
               "selectors are added (op usel) is a behavioural tie.",
    lean_targets=["Cell2v.Props.C14", "modeld_c14"],
    driver="modeld_c14",
    driver_root="Cell2v.Driver.C14",
    audit="Audit/C14.lean",
    required_theorems=["no_callback_after_cancel", "oneshot_at_most_once", "oneshot_exactly_once_if_drained", "repeating_rearms",
                       "repeating_fires_again", "never_early", "args_preserved", "callbacks_only_from_do", "panic_isolated",
                       "fifo_bounded_wait", "repeating_fires_again_fifo", "oneshot_fires_fifo", "expiry_enqueues",
                       "nothing_new_after_stop", "create_gap_harmless", "owner_assumption_needed",
                       "svc_refines_timer", "svc_holds_only_owned_timer", "svc_request_keeps_check_timer",
                       "svc_idle_tick_frees", "svc_freed_timer_never_fires",
                       "repeating_fires_infinitely_often", "oneshot_fires_exactly_once_eventually", "schedule_prefix_is_history",
                       "foreign_creator_leaks_entry",
                       "expire_gap_harmless", "expire_gap_receive_and_other_expiry", "panic_leaves_rest_alone",
                       "svc_tick_creates_no_timer", "svc_followup_request_is_covered",
                       "svc_check_timer_due_within_period"],
    harness_pkg="./c14",
    mode="accept",
    reset_prefix="reset",
    runs={
        "quick": [dict(name="main", env={"VERIF_N": "4000"}, timeout=90),
                  dict(name="svc", test="TestSvc", env={"VERIF_N": "200"}, timeout=90)],
        "thorough": [dict(name="main", env={"VERIF_N": "60000"}, timeout=800),
                     dict(name="seed2", env={"VERIF_N": "30000"}, seed_offset=1000, procs=2, timeout=800),
                     dict(name="seed3", env={"VERIF_N": "30000"}, seed_offset=2000, procs=3, timeout=800),
                     dict(name="svc", test="TestSvc", env={"VERIF_N": "4000"}, timeout=800)],
    },
    trivial=r"^(ok|empty|bad-op|q=\d+|id=\d+ q=\d+|now=\d+ q=0|ev= q=0 loop=1)?$",
    rule="cases generated from one PRNG (VERIF_SEED): each case = reset, 5 callback scripts (cancel self / cancel other id / cancel newest / "
         "After / AddTimer / panic - throwing, at random, a string, an error value, a Go runtime error (write to a nil map) or a struct value; a panic "
         "that leaves Mgr.Do is the observation `panic ...` resp. the death of the run-service process -, creation chains finite by construction), then 8-40 ops among after/add (durations -1..8 ms, so ties are frequent), "
         "cancel (existing, already fired, not yet allocated, absurd ids), adv (virtual ms), do (consumer receives one element and calls Mgr.Do), stop; "
         "30% structured scenarios (cancel while the expiry is queued; cancel inside the own callback; two simultaneous expiries cancelling each other; "
         "panicking repeating timer; boundary duration-1 / duration; many ties; cancel after firing / twice / before creation; late drain of a repeating "
         "timer; Stop), 20% of the cases on a real StandardRunService (ops posted to its loop; every callback must run on the loop goroutine), one "
         "queue-overflow case (1005 timers > channel capacity 999), a second overflow case in which Cancel and Mgr.Stop "
         "arrive while senders are blocked on the full channel (their objects still reach the queue: cancelled one skipped, the others called after Stop), "
         "one malformed stream; corpus first. Run-service cases also get `usel name=<n> by=owner|foreign` ops (at the start of a third of the random cases, "
         "among the random ops, before the owner gets stuck in the busy-stop cases): a user selector with a channel of its own joins the loop of the "
         "running service under the name timer / event / sheduler / c14probe / empty / the same private name twice; it must be served on the loop "
         "(served=1) and every timer must go on firing there (spec: queue-not-drained, oneshot-lost, repeat-not-rearmed on the following ops). A tenth of the cases: the run service's loop is parked in a posted closure while timers expire (their objects "
         "pile up in the queue), then StandardRunService.Stop is called from a foreign goroutine while the loop is still stuck, or after it "
         "resumed, or by the owner itself (no callback may run inside Stop / on the caller's goroutine; how many queued objects the exiting "
         "loop still takes is left open, q=?). Stale cancels (already fired one-shot, 0, never issued id, twice) are followed by new "
         "one-shots, a continuing repeating timer and a real cancel; a real-time watchdog outside the bubble turns an op that never returns "
         "(goroutines stuck on a mutex are not durably blocked) into the observation `blocked in=cancel|expiry`. A quarter of the cases count in microseconds (durations 1, 500, 900, 999 us next to 0 and >= 1 ms; steps of "
         "less than the duration must fire nothing). Half of the run-service cases have a twin StandardRunService created with the same (or the "
         "empty) name, busy with a timer of its own; ops then reach the owner loop through a selector of the harness' own, and every callback must "
         "run on ITS service's loop goroutine. Run `svc`: a real actorex/service.Service "
         "(actor + ScheDisp run service) issues requests to a recording peer, gets them answered or lets them time out, idles across several virtual "
         "seconds and gets busy again; observed per step: callback log of every timer object of the service's manager, ids held in Mgr.timers, "
         "Service.timerCheckExpired, request-table size (spec: a check timer the service gave up never fires again and is gone from the manager; "
         "at most the one owned timer is alive; a non-empty request table has an owned check timer; a stretch of >= 1 s that starts with a non-empty "
         "request table contains at least one tick of the check timer - this clause needs no white-box probe); the model side of this run is the Lean service model TimerSvc (req / reqAgain / resp / tick / expire / advance). "
         "A third of the requests carry a completion callback that, when called with ErrTimeout from inside checkExpired, issues a follow-up request "
         "(tag+1000), which is answered, answered too late, or times out in turn; a third of the cases end with a request that is never answered and retried once. A case is non-trivial when the observation "
         "contains a callback log or a non-empty queue; distinct = distinct (op, observation) pairs",
    trusted_base=[
        "Lean 4.33.0 kernel; axioms of every property theorem audited on each run (allowed: propext, Classical.choice, Quot.sound)",
        "hand-written models lean/Cell2v/Model/Timer.lean and lean/Cell2v/Model/TimerSvc.lean (service level; refines the former by theorem) tied to the "
        "Go code by the acceptance runs of this check (harness/c14 + modeld_c14 accept; run `svc` drives a real actorex/service.Service)",
        "go1.26.8 testing/synctest: virtual clock, quiescence detection (every op: issue, synctest.Wait, observe)",
        "time.AfterFunc runs its function once, on another goroutine, not before the duration; after Cancel either Timer.Stop prevents the run "
        "or the closure's own Canceled test drops the object (same model state); an expiry goroutine that overtakes a Cancel issued later in the "
        "same callback (timer created with no delay and cancelled at once) is accepted as the model's `expire` step between two callback steps",
        "blocked senders on the full queue channel resume in FIFO order; Obj.Canceled and Mgr.running are read/written atomically",
        "harness canonicalisation: callback log tokens (id, virtual ms, args), queue length, goroutine identity reduced to loop=0/1",
    ],
    assumptions=[
        "one owner goroutine creates, cancels and drains (the documented use: StandardRunService loop); other goroutines only run the AfterFunc closure "
        "(theorem owner_assumption_needed: a Cancel from another goroutine between Do's head check and the callback is followed by the callback; "
        "theorem foreign_creator_leaks_entry + harness/c14/foreign_creator_test.go: a creator on another goroutine can leave a finished one-shot in "
        "Mgr.timers for ever - no clause of the property is violated, the entry leaks)",
        "fair scheduling for the inevitability theorems: the consumer keeps receiving, callbacks return, expiry goroutines run, the clock advances",
        "fewer than 2^64 timers per manager (id allocator does not wrap)",
        "callbacks do not block and do not advance the clock themselves in the harness (the model allows time to pass during a callback)",
    ],
)
