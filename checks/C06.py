CONFIG = dict(
    id="C06",
    engine="pure",
    technique="Lean 4 theorems (round trip, decoder totality with checked accesses, packet stream round trip, the composed path message->packet->stream->frame->packet->message, dictionary with trimmed keys and growth, "
              "session read loop as a state machine that never crashes, client read loop under any fragmentation, memory model in which Decode results are values) over a hand-written model + differential correspondence with the real codec, a real ClientSession, the real tcpPlayerConn and the real client read loop",
    level_text="Machine-checked proof in Lean 4 that the model of message.Encode/Decode and of the packet encoder/decoder round-trips every "
               "message/packet list within protocol limits and that no byte string makes a checked index/slice fail (oob = Go panic); the model is tied "
               "to the Go code on every run by executing both on ~74k generated op lines (all byte strings <=2 bytes exhaustively, valid messages, "
               "truncations, mutations, malformed packet streams, encoder output re-read through the real tcpPlayerConn.GetNextMessage under many fragmentations, "
               "zlib round trips up to 17 MiB (32 MiB thorough), SetDictionary calls with blank-padded keys, two/many calls on one long-lived packet decoder "
               "with earlier results read again AFTER the caller overwrote the buffers it had handed to Decode, ~2300 real ClientSessions each fed one generated Data packet, "
               "~250 real ClientSessions driven from status Start by whole scripts of frames (handshake with accepted/rejected JSON, ack, heartbeat, data before the ack, several packets "
               "per frame, garbage), several messages in a row through the whole path Encode -> packet Encode -> fragmented stream -> GetNextMessage -> packet Decode -> message.Decode with "
               "all decoded messages held until the end, the real pomelonet/client readPackets loop over fragmented frames, one *Message encoded twice, Encode / SetDictionary / Decode) "
               "and the property predicate is evaluated on the implementation's own outputs; a death of the harness process (panic on a session's reader goroutine) is a witness (C06/server-crash). "
               "Also proved: the composition (chain_roundtrip), the session read loop never panics on any frame script in any status (session_script_never_crashes) and delivers every message of a "
               "regular session (session_script_delivers), the client read loop returns exactly the packets sent under ANY fragmentation (client_readloop_roundtrip), ParseHeader's index/slice "
               "expressions never fail (parseHeader_checked_total), round trip across dictionary growth (decode_encode_dictionary_growth), and, in a memory model where packets are slices into heap "
               "buffers, that what Decode returned keeps reading the same after any later caller writes / Decode calls (decode_results_are_values).",
    level_note="Trusted: Lean kernel, the harness/driver line protocol and canonicalisation, zlib as an abstract inverse pair (validated per payload), "
               "the dictionary as mutually inverse finite maps, TrimSpace as trimming of space/\\t/\\n/\\r (exact on the ASCII keys generated), encoding/json as an oracle "
               "(the set of handshake bodies json.Unmarshal accepts is supplied per op by the harness). Aliasing of the PACKET decoder's results is expressed in a memory model (buffers with owners, packets as "
               "slices; theorem decode_results_are_values) on which the model side of pdec2/pdecs/pchk runs; aliasing of message.Decode's result with its input (documented by the code) and of InflateData's "
               "result with pooled storage is not in the model: it is covered by the differential mchain stream (messages held across later decodes). Resource exhaustion (a small deflate body that inflates "
               "to gigabytes; InflateData has no output bound) is outside the model: `crash` is an out-of-range access only. Encode REPLACES message.Data by the deflated bytes (encodeMsgM, theorem "
               "reencode_witness): the round trip is about one Encode per message object. The theorems are about the model; the differential run ties it to the code on sampled inputs only. "
               "The tie names no unexported identifier of /repo (no `go test -overlay` shim): the unexported tcpPlayerConn and the client's unexported read loop are reached through exported constructors / entry points "
               "(NewTCPAcceptor+ListenAndServe+GetConnChan, client.New+ConnectTo) with the socket / listener / packet queue swapped in by field TYPE; if that cannot be done on some tree the ops that need it are "
               "skipped and counted (whitebox=unavailable) instead of failing the build.",
    lean_targets=["Cell2v.Props.C06", "modeld_c06"],
    driver="modeld_c06",
    driver_root="Cell2v.Driver.C06",
    audit="Audit/C06.lean",
    required_theorems=["decode_encode", "decode_total", "packets_roundtrip", "varint_roundtrip", "header_roundtrip", "SetDictionary_bijective", "decode_encode_any_dictionary", "frame_ok_iff_valid",
                       "trim_spec", "SetDictionary_stores_trimmed_key", "SetDictionary_order_independent",
                       "earlier_results_unchanged", "session_never_crashes", "session_closed_iff", "session_delivers_encoded",
                       "stream_fragmentation_independent", "fragmented_stream_roundtrip", "stream_fuel_enough",
                       "chain_roundtrip", "encodeM_spec", "encodeM_pure_without_compression", "reencode_witness", "route_too_long_witness",
                       "client_readloop_roundtrip", "client_readloop_roundtrip_partial", "packet_decoder_prefix",
                       "session_script_never_crashes", "session_script_closed_last", "session_status_logic", "session_script_delivers",
                       "decode_encode_dictionary_growth", "SetDictionary_grows", "parseHeader_checked_total", "decode_results_are_values"],
    harness_pkg="./c06",
    mode="diff",
    runs={
        "quick": [dict(name="main", env={"VERIF_N": "4000"}, timeout=240)],
        "thorough": [dict(name="main", env={"VERIF_N": "60000"}, timeout=1500),
                     dict(name="seed2", env={"VERIF_N": "30000"}, seed_offset=1000, timeout=1500),
                     dict(name="len3", test="TestExhaustive3", timeout=1500)],
    },
    trivial=r"^(err|bad-op|encerr|none|working)?$",
    rule="op lines generated from one PRNG (VERIF_SEED): every byte string of length <=2 through message.Decode (exhaustive), "
         "structure-aware valid messages (4 types + invalid types, ids at varint boundaries up to 2^64-1, routes empty/dictionary/255 bytes, "
         "payloads up to 300 B quick / 70 kB thorough, compression on/off) encoded and decoded by the real code, truncations and single-bit "
         "mutations of valid encodings, random strings, id-field stress, packet lists framed and re-split, malformed packet streams; "
         "SetDictionary calls (single entry incl. duplicates of route/code; multi-entry without duplicates) with ASCII keys padded by space/\\t/\\n/\\r or all blank, "
         "GetDictionary sorted, round trips on the trimmed routes; pdec2 (two Decode calls on one decoder, first result rendered before and after the second call), "
         "pdecs/pchk (one decoder for the whole run, last 8 results kept alive and rendered again later); after every Decode call of pdec2/pdecs the harness OVERWRITES the buffer it handed in "
         "(a recycled read buffer); crl: encoder frames (1..6, bodies 0..200 B) cut at explicit positions (frame boundaries, inside headers/bodies, random, several frames per read) and read by the real "
         "pomelonet/client Client.readPackets over its one accumulating bytes.Buffer, packets queued, rendered when returned and again at the end; "
         "mchain: 2..5 messages (most with payload compression and compressible payloads of different content, 40..700 B) through Encode, packet Encode, the fragmented stream, GetNextMessage, "
         "packet Decode, message.Decode, every decoded *Message held until the stream is read and rendered only then; enc2: the same *Message encoded twice, second encoding decoded; "
         "rtd: Encode, then SetDictionary (half of the time the message's own spelled-out route enters the dictionary), then Decode; "
         "sscr/sgo: a real ClientSession from status Start fed a script of frames (regular: handshake, ack, 1..4 messages; irregular: any mix of handshake bodies from a table of valid/invalid JSON, ack, "
         "heartbeat, encoded messages, frames with several packets, malformed frames, raw Data bodies), observation the owner's events in order then closed|open; session stream: a real session.ClientSession over a scripted "
         "PlayerConn with the real pomelo.SessionsImpl/sche.Sche/impls.ClientSessions and a recording ISessionsHandler, handshake + ack, then one Data packet "
         "(every message of length <=1, every flag byte x 7 tails, valid/truncated/mutated/random/varint-stress encodings), observation delivered <reqid,route,data> | closed, "
         "the trace is flushed before the packet is released so that a dying process leaves the staged input as witness; "
         "stream layer: encoder-framed packets (bodies 0..9000 B quick, up to 70 kB thorough, one 100 kB body) cut into fragments (one byte at a time, every K bytes incl. MTU sizes, "
         "inside headers, header|body, at frame boundaries, random cuts, none) and read back through the real tcpPlayerConn.GetNextMessage over a fragmenting net.Conn + packet decoder (srt); "
         "raw malformed/truncated streams in random fragments incl. empty reads (gnm); zlib: DeflateData/InflateData and Encode(compression)/Decode of compressible payloads of "
         "1000 B, 2^24+1 B and 17 MiB in quick, plus 2^24-1, 2^24, 24 MiB, 32 MiB in thorough, compared byte for byte in the harness (observation: length + equality flag) (zrt); "
         "a case is non-trivial when the implementation's observation is a value (not a bare error); distinct = distinct (op, observation) pairs",
    trusted_base=[
        "Lean 4.33.0 kernel; axioms of every property theorem audited on each run (allowed: propext, Classical.choice, Quot.sound)",
        "hand-written model lean/Cell2v/Model/Codec.lean tied to the Go code by the differential run of this check (harness/c06 + modeld_c06)",
        "compress/zlib abstracted as inflate(deflate d) = d (validated on every generated payload by the harness)",
        "route dictionary abstracted as a pair of mutually inverse finite maps; multi-entry SetDictionary calls are issued without duplicates only "
        "(then Go's map iteration order is irrelevant: theorem SetDictionary_order_independent); a call with a duplicate is issued as a single-entry map",
        "strings.TrimSpace modelled as trimming of ASCII space, \\t, \\n, \\r (Cell2v.Codec.trimWs); Go additionally trims \\v, \\f, U+0085, U+00A0 and other Unicode spaces, "
        "which the generator never puts into a key",
        "aliasing of the packet decoder's results: memory model Cell2v.Codec.Heap/PRef/decodeH (Decode copies its input into a fresh decoder-private buffer and returns slices of it; "
        "theorem decode_results_are_values); that the Go decoder really allocates per call and never points into its input is tied by the pdec2/pdecs/pchk/crl streams (inputs are overwritten after the call) only",
        "client read loop (crl), no shim and no unexported identifier named (harness/c06/rig_test.go): a Client from client.New() is started by the exported ConnectTo on a loopback socket inside one "
        "long-lived testing/synctest bubble; the ONE field of type net.Conn of the Client is then replaced BY TYPE (reflect + unsafe) with the harness's gated stand-in socket, one Heartbeat frame on the "
        "dialled socket makes the real read loop come round to it, and once every goroutine of the client is parked (synctest.Wait) the ONE field of type chan *packet.Packet is replaced with the harness's "
        "queue, so the packets the loop publishes are seen by the harness only (the client's own consumer stays parked on the original queue); every fragment is shorter than the 1024-byte scratch and is released "
        "only when the loop is parked in Read again, so one round consumes one fragment; ` readerr` = the loop gave up before all fragments were read. Assumes the loop re-reads the conn / queue fields on every round "
        "(a self-test at start-up checks it; if it fails, or a field type is not unique, crl ops are not run: histogram key whitebox=unavailable, whitebox.client=unavailable)",
        "encoding/json (handshake body) is an oracle: the harness lists in `hsok=` the handshake bodies of the script that json.Unmarshal into session.HandshakeData accepts",
        "mchain/sscr/enc2: zlib is the table of (plain, deflated) pairs recorded from the real DeflateData for the payloads of the op; raw Data bodies in session scripts have the gzip bit cleared",
        "session stream: the harness's scripted PlayerConn replaces the TCP/WS acceptor conn (GetNextMessage hands over one framed packet, as tcpPlayerConn does); "
        "the harness goroutine plays the owner service (drains sche.Sche); a panic on the reader goroutine kills the harness process and is reported by bin/check "
        "as pseudo-op <harness-exit ...>, which the spec monitor maps to C06/server-crash",
        "stream layer (srt/gnm/mchain), no shim and no unexported identifier named (harness/c06/rig_test.go): acceptor.NewTCPAcceptor + ListenAndServe run the real accept loop; the ONE field of type net.Listener "
        "of the TCPAcceptor is replaced BY TYPE (reflect + unsafe) with a listener whose Accept hands out the harness's fragConn (one Read never crosses a fragment boundary, io.EOF at the end; it stands for the TCP socket), "
        "and the exported GetConnChan yields the PlayerConn the real accept loop built around it (self-test at start-up; without a unique net.Listener field the rig falls back to a real loopback TCP connection, "
        "histogram key whitebox.acceptor=tcp-loopback, and when no listener can be had the ops are not run: whitebox=unavailable); "
        "the model reads fragments with readN = ReadAll(LimitReader(conn, n)) at fragment granularity (theorem stream_fragmentation_independent: only the concatenation matters)",
        "zrt: payload equality is decided inside the harness (string compare of inflated vs. original), the observation carries only length and the equality flag; the model side is the "
        "abstract inverse pair inflate(deflate x) = x for every size",
        "harness canonicalisation (error kinds collapsed to 'err', panics caught by recover and mapped to 'panic')",
    ],
    assumptions=[
        "byte slices handed to Decode have capacity = length (the harness makes exact copies), so an out-of-range slice expression is a panic",
        "packet body exactly 2^24 bytes is outside Packet.Valid (theorems d13_witness and frame_ok_iff_valid state what the old and the repaired encoder do there)",
        "dictionary keys are ASCII without \\v/\\f (on these strings.TrimSpace = trimming space/\\t/\\n/\\r)",
        "inputs handed to MESSAGE Decode are never modified afterwards by the harness (message.Decode documents that Message.Data aliases its input: not flagged); inputs handed to the PACKET "
        "decoder are overwritten after the call (pdec2/pdecs) or live in the client's recycled read buffer (crl)",
        "a message object is handed to Encode once (Encode replaces message.Data by the deflated bytes: theorems encodeM_spec, reencode_witness; the enc2 stream ties this behaviour)",
        "messages of a chain/session script fit a packet: encoded length < 2^24 (hypothesis of chain_roundtrip / session_script_delivers)",
        "memory exhaustion by a highly compressible body (InflateData reads without bound) is not a `crash` of the model",
        "ClientMsg carries ClientReqId = uint32(ID), Route, Data (type and error flag are dropped by SessionsImpl.ProcessMessage): that is what `delivered` compares",
    ],
)
