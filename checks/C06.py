CONFIG = dict(
    id="C06",
    engine="pure",
    technique="Lean 4 theorems (round trip, decoder totality with checked accesses, packet stream round trip) over a hand-written model + differential correspondence with the real codec",
    level_text="Machine-checked proof in Lean 4 that the model of message.Encode/Decode and of the packet encoder/decoder round-trips every "
               "message/packet list within protocol limits and that no byte string makes a checked index/slice fail (oob = Go panic); the model is tied "
               "to the Go code on every run by executing both on ~70k generated op lines (all byte strings <=2 bytes exhaustively, valid messages, "
               "truncations, mutations, malformed packet streams) and the property predicate is evaluated on the implementation's own outputs.",
    level_note="Trusted: Lean kernel, the harness/driver line protocol and canonicalisation, zlib as an abstract inverse pair (validated per payload), "
               "the dictionary as mutually inverse finite maps. The theorem is about the model; the differential run ties it to the code on sampled inputs only.",
    lean_targets=["Cell2v.Props.C06", "modeld_c06"],
    driver="modeld_c06",
    driver_root="Cell2v.Driver.C06",
    audit="Audit/C06.lean",
    required_theorems=["decode_encode", "decode_total", "packets_roundtrip", "varint_roundtrip", "header_roundtrip", "SetDictionary_bijective", "decode_encode_any_dictionary", "frame_ok_iff_valid"],
    harness_pkg="./c06",
    mode="diff",
    runs={
        "quick": [dict(name="main", env={"VERIF_N": "4000"}, timeout=240)],
        "thorough": [dict(name="main", env={"VERIF_N": "60000"}, timeout=1500),
                     dict(name="seed2", env={"VERIF_N": "30000"}, seed_offset=1000, timeout=1500),
                     dict(name="len3", test="TestExhaustive3", timeout=1500)],
    },
    trivial=r"^(err|bad-op|encerr)?$",
    rule="op lines generated from one PRNG (VERIF_SEED): every byte string of length <=2 through message.Decode (exhaustive), "
         "structure-aware valid messages (4 types + invalid types, ids at varint boundaries up to 2^64-1, routes empty/dictionary/255 bytes, "
         "payloads up to 300 B quick / 70 kB thorough, compression on/off) encoded and decoded by the real code, truncations and single-bit "
         "mutations of valid encodings, random strings, id-field stress, packet lists framed and re-split, malformed packet streams; "
         "a case is non-trivial when the implementation's observation is a value (not a bare error); distinct = distinct (op, observation) pairs",
    trusted_base=[
        "Lean 4.33.0 kernel; axioms of every property theorem audited on each run (allowed: propext, Classical.choice, Quot.sound)",
        "hand-written model lean/Cell2v/Model/Codec.lean tied to the Go code by the differential run of this check (harness/c06 + modeld_c06)",
        "compress/zlib abstracted as inflate(deflate d) = d (validated on every generated payload by the harness)",
        "route dictionary abstracted as a pair of mutually inverse finite maps (SetDictionary driven with single-entry maps)",
        "harness canonicalisation (error kinds collapsed to 'err', panics caught by recover and mapped to 'panic')",
    ],
    assumptions=[
        "byte slices handed to Decode have capacity = length (the harness makes exact copies), so an out-of-range slice expression is a panic",
        "packet body exactly 2^24 bytes is outside Packet.Valid (theorem d13_excluded_point states what the encoder does there)",
    ],
)
