# NOTE: this check has NO white-box shim any more (no go_flags / -overlay): nothing is compiled into package scenem and the
# harness names no unexported identifier of it (see harness/c19/whitebox_test.go and seeded/C19-h-rename).
CONFIG = dict(
    id="C19",
    engine="bubble (virtual clock); state without an exported query read by type (reflect), no source shim",
    technique="Lean 4 invariant proof over all event histories of a hand-written model of the scene manager + differential "
              "correspondence (acceptance for the two nondeterministic results) with the real scenem package + property monitor on its dumps",
    level_text="Machine-checked proof in Lean 4 about a model of scenem's World/SceneLines/SceneServiceMgr and, around it, of the manager as a "
               "system (SpawnScene, the public-scene keeper's trySpawnScene, the remote AllocScene handler of handler/remote.go with its answer "
               "to the client, the table of allocation requests in flight, the reply callback, the cluster view). (1) Manager level, for every history of create-success/end/refresh/clock/periodic-check/loss/alloc/request "
               "events in which no create-success names a live scene id: scenes and lines are in bijection, line numbers are strictly sorted "
               "hence unique, a new line takes the smallest free number (from 0), end/loss/periodic check remove exactly the affected scenes "
               "and free exactly their lines (as order-preserving filters, for any visiting order), unknown ends and repeated losses are "
               "no-ops, a request returns a live scene of the configuration or nothing for every random draw, AllocScene places only on a "
               "working service of minimal busy weight for every map order. (2) System level, for EVERY history of cluster-view/SpawnScene/"
               "keeper/handler/answer (known or unknown, ok or error)/end/refresh/clock/check/loss events, with no hypothesis on the history: the "
               "hypothesis of (1) holds (sys_history_admissible: ids in flight are pairwise distinct, nonzero, below the counter and not "
               "live), so all of (1) applies; a request answers nothing exactly when the configuration has no live scene; every live scene "
               "and every request in flight was placed by a SpawnScene/keeper/handler event of the history at which its service was known, working "
               "and of minimal weight, with the then current id counter (placement_over_histories); SpawnScene registers nothing, a failed/"
               "unknown answer registers nothing, an answer is consumed at most once, a successful answer registers exactly the scene fixed "
               "at allocation on the smallest free line; the keeper spawns only below the required number of confirmed lines; the handler places exactly like SpawnScene, tells "
               "its client ok only through the answer that registers the scene, and stays silent (client never answered) exactly when no "
               "service is working. (3) Node level (Model/SceneMNode.lean), for EVERY history of system events, addPublicScene calls, whole keeper rounds "
               "(PublicScenes.Update over the whole table, the table and the service map visited in any order) and servings of the service's timer queue "
               "(the three 1 s timers of utils/timer as the real Start functions arm them: keep-alive check from SceneServiceMgr.Start, keeper from "
               "OnServiceRefresh -> CheckToSpawnPublicScenes -> PublicScenes.Start (idempotent), request-expiry check of actorex/service from the first request; "
               "a timer runs once however late the queue is served and is re-armed a full period after it ran), for both values of the two configuration "
               "switches Init reads: the node history is a system history (node_history_is_system_history), so all of (1) and (2) applies with no hypothesis, "
               "placement included when the map orders are orders of the maps and the queue is in firing order (node_placement_over_histories); the public-"
               "scene table has one entry per configuration and addPublicScene keeps the first registration; the keeper's timer is armed exactly when some "
               "scene service has reported; a whole round registers nothing, touches no service and sends at most one request per public scene, only for "
               "those below their required number, with fresh ids; a request unanswered for more than 30 s is completed as a failed answer: it registers "
               "nothing and is no longer in flight; after a serving nothing is left on the queue and a second serving at the same instant is a no-op. "
               "FindIdleService's literal loop (empty string = none yet) equals the model's placement function whenever no service is registered under the empty id. Witness "
               "theorems show what is NOT guaranteed: a late successful answer registers a scene on a service already declared lost; the "
               "keeper overshoots with answers outstanding. The model is tied to the Go code on every run by executing both on generated "
               "histories (configuration ids from five families incl. ids that coincide with line numbers / service numbers / scene ids, "
               "4 services, virtual keep-alive clock, real SpawnScene/PublicScenes.Update/handler Entry.AllocScene + waterfall/app.Request/handleResponse, the real "
               "PublicScenes.Init table and addPublicScene, the real timer.Mgr queue served with timer.Mgr.Do so that the timers registered by the real "
               "SceneServiceMgr.Start / PublicScenes.Start / actorex Service.tryStartCheckTimer fire and re-arm themselves, the real checkExpired) and comparing the "
               "full sorted state dump after every event; the property predicate (scenes <-> lines, smallest free line, exact removal, placement, and: the periodic check declares a "
               "service lost only after 12 s without a refresh, the keeper asks only below need - also per entry of a whole round, at most once per entry -, a client is told ok only for a live scene, "
               "a request is given up only after more than 30 s) "
               "is evaluated on the implementation's own dumps.",
    level_note="Trusted: Lean kernel; harness/driver line protocol; the harness's by-type access (harness/c19/whitebox_test.go: no file is added to package scenem and no unexported "
               "identifier of it is named; scenes are read through QueryScenes/GetScene, lines through the SceneLine getters; the tables of services / lines / public scenes, the world, the keeper and "
               "the id counter are the unique values of their TYPE reachable from the manager; the periodic check (`tick`) is the callback the real Start registered on the timer manager, called directly; "
               "`lost` lets that same real check declare exactly one service lost by making it look overdue and hiding the others for the duration of the call, then puts the doctored fields back; "
               "`wlost`/`update` call the exported World.OnServiceLost / PublicScenes.Update; the `keeper` op replaces the table by one entry, the `update`/`timers` ops use the table as Init built it; "
               "`pubadd` writes the table entry itself (first registration kept) - the code's own unexported registration function is exercised only by Init at every reset, duplicates of the two presets included, not with generated arguments); float32 busy weight abstracted to min(n,5000) "
               "(validated on every adjacent pair 0..5101 and sampled pairs each run); Go map iteration and math/rand as arbitrary choices "
               "(theorems quantify over every visiting order / draw; the driver accepts a SpawnScene/keeper result iff the model produces "
               "it for SOME visiting order; a whole round / a serving of the timer queue iff the model produces result and state for SOME order of the table, "
               "SOME choice among the least busy per entry and SOME queue order compatible with the firing times; the id counter is part of the compared dump). The theorems are about the model; the differential run ties it to the code on sampled histories only.",
    lean_targets=["Cell2v.Props.C19", "modeld_c19"],
    driver="modeld_c19",
    driver_root="Cell2v.Driver.C19",
    audit="Audit/C19.lean",
    required_theorems=["worldInv_reachable", "scenes_lines_bijection", "line_ids_unique_sorted", "new_line_is_mex",
                       "end_removes_exactly_one", "lost_removes_exactly_affected", "end_unknown_noop", "repeated_loss_idempotent",
                       "request_returns_same_cfg_live_or_none", "alloc_only_on_working", "alloc_prefers_least_busy",
                       "alloc_ids_fresh", "failed_spawn_registers_nothing", "tick_removes_exactly_lost", "tick_any_order", "lost_any_order", "loss_only_after_silence",
                       "sysInv_reachable", "sys_history_admissible", "sys_ids_disciplined", "sys_request_none_iff_no_scene",
                       "placement_over_histories", "spawn_registers_nothing", "failed_reply_registers_nothing", "reply_ok_registers_exactly",
                       "keeper_spawns_only_below_need", "handler_places_like_spawn", "handler_ack_only_for_registered_scene",
                       "keeper_overshoots_with_replies_outstanding", "late_confirm_registers_on_lost_service",
                       "node_history_is_system_history", "node_placement_over_histories", "public_table_keys_unique", "add_public_first_wins",
                       "init_table", "keeper_starts_with_first_service", "keeper_round_asks_only_below_need", "timers_serve_queue_once",
                       "request_timeout_registers_nothing", "findIdleGo_eq_findIdle", "empty_service_id_breaks_placement"],
    harness_pkg="./c19",
    mode="accept",
    reset_prefix="reset",
    runs={
        "quick": [dict(name="main", env={"VERIF_N": "1500"}, timeout=240)],
        "thorough": [dict(name="main", env={"VERIF_N": "40000"}, timeout=800),
                     dict(name="seed2", env={"VERIF_N": "30000"}, seed_offset=1000, timeout=800),
                     dict(name="seed3", env={"VERIF_N": "30000"}, seed_offset=2000, timeout=800)],
    },
    trivial=r"^(bad-op|r=ok S= L= V=.*|r=(lt|eq|gt) .*)$",
    rule="op lines generated from one PRNG (VERIF_SEED): cases of 15-65 events over one of five families of configuration ids per case ({100,101,102}; "
         "{0,1,2}, {1,2,3}, {0,1,100}, {2,3,1000}: ids that coincide with line numbers, service numbers and scene ids) and services {1,2,3} (+ a never-"
         "refreshed 4): alloc (placement) and create-success for allocated ids (sometimes delayed or dropped), for own fresh ids, on unknown/lost "
         "services; ends of live / already ended / unknown ids; refreshes with loads 0, ties, 4999/5000/5001/7000/2^24-1; clock steps around the "
         "3000 ms threshold; periodic checks; silences of 1-5 rounds (the 4th declares the loss); manager- and world-level losses, repeated; "
         "requests for populated / empty / unknown configurations; the keeper's creation path through the real SpawnScene (app.Request over a generated cluster view: request sent and later answered ok / with an error / never - also after the service was declared lost -, or failing at once when the chosen service is not routable); the remote AllocScene handler called directly (real Entry.AllocScene on the real scenem Service object, its waterfall tasks "
         "run from the service's scheduler; the client's answer is observed: none / error at once / ok or error with the reply); rounds of the public-scene keeper "
         "(the real PublicScenes.Update over a one-entry table, required numbers 0-5, with and without answers outstanding); the service's loop serving its timer queue (real timers: nothing due / keep-alive check / keeper round over the whole table / request expiry, alone and together, "
         "also second by second for 1-14 s so that the real timers declare a loss after 12 s of silence and give up a request after 30 s); whole keeper rounds called directly; "
         "addPublicScene for new and for existing configurations (table kept to at most 4 entries); busy-weight comparisons (all adjacent pairs 0..5101 exhaustively); 1 in 8 cases "
         "is malformed (create-success for a live id: compared with the model, not judged by the property); 1 in 16 cases is preceded by a short case in which a service reports under the empty id (bare placements only, likewise not judged). A case is non-trivial when scenes exist "
         "or a result other than ok is returned; distinct = distinct (op, observation) pairs",
    trusted_base=[
        "Lean 4.33.0 kernel; axioms of every property theorem audited on each run (allowed: propext, Classical.choice, Quot.sound)",
        "hand-written model lean/Cell2v/Model/SceneM.lean (Mgr and, around it, Sys = manager + requests in flight + cluster view; the driver runs Sys.step/Sys.spawn/Sys.keeper/Sys.reply themselves) and lean/Cell2v/Model/SceneMNode.lean (Node = Sys + public-scene table + the three timers + request deadlines; the driver runs Node.step) tied to the Go code by the acceptance run of this check (harness/c19 + modeld_c19 accept)",
        "scenem Service object built by handler.NewService(); handler Entry.AllocScene called directly; scheduler tasks (waterfall) drained synchronously by the harness",
        "harness/c19/whitebox_test.go (package c19; no overlay, nothing compiled into package scenem, no unexported identifier of scenem named - a rename/move/split of one cannot break the build: seeded/C19-h-rename): "
        "scenes via the exported QueryScenes/GetScene, line fields via the exported SceneLine getters, service stats / public-scene entries via their exported fields, the two config switches via mmo/common/config; "
        "the world, the keeper, the maps of services / lines per configuration / public scenes, the slice of lines and the uint64 id counter are found by TYPE with reflect (exactly one value of the type reachable from the manager through structs of package scenem, any field name or nesting; otherwise the harness panics with a message naming the lookup) and read or written through unsafe pointers; "
        "`tick` calls the callback of the one timer with scenem code that the real SceneServiceMgr.Start left in the timer manager's registry (the registry is utils/timer's only sync.Map field, found by type; timer.Obj.CB is exported), K= is 'another live timer with scenem code exists' (fallback when the registry is unreadable: the keeper's only timer.IdType field); "
        "`lost` on a known service runs that same real check with the service doctored to look overdue (counter 2^20, stamp 0) and every other service temporarily not working, so that the real keep-alive-failed / loss handlers run for it alone, then restores the others' flags and the service's counter and stamp; on an unknown service and for `wlost` the exported World.OnServiceLost is called; "
        "`keeper` replaces the keeper's table by one entry and calls the exported PublicScenes.Update; `pubadd` writes the entry into the table itself, first registration kept (the code's unexported registration function has no exported caller with arguments: its real behaviour is compared at every reset, where Init registers both presets, i.e. three duplicates)",
        "utils/timer and time.AfterFunc inside the testing/synctest bubble: the harness plays the service's loop for the timer queue (synctest.Wait, then every queued timer object is handed to the real timer.Mgr.Do); the model's timer semantics (due time, once on the queue, re-armed a period after it ran, same-instant timers in any order) is compared through what fires and what it does, not proved about utils/timer",
        "float32 GetBusyWeight (CPURate is never set) abstracted to the integer key min(n,5000); compared with the real function on every adjacent pair 0..5101 and on sampled pairs up to 2^24-1 in every run",
        "Go map iteration order and math/rand are arbitrary: the theorems quantify over every visiting order / draw, the driver accepts any least-busy working service and any line of the configuration",
        "SpawnScene requests are routed by the real app.Request/route/cluster directory over a generated view (UpdateClusterTopology); the scene service's answer is a ServiceResponse handed to the real Service.handleResponse",
        "harness canonicalisation (maps sorted, lines in slice order, keep-alive times as virtual idle milliseconds inside a testing/synctest bubble)",
    ],
    assumptions=[
        "manager-level theorems only: create-success events never name a scene id that is live. Proved (not assumed) for every system history, i.e. when scenes are registered through SpawnScene/the keeper and the reply callback (sys_history_admissible); i.e. when scenes are registered through SpawnScene / the keeper / the AllocScene handler and the reply callback - the only callers of OnSceneCreateSucc in the repository; the generated bare alloc / create events (arbitrary ids, services, duplicates) stay under the hypothesis; uint64 wrap-around of the id counter not modelled",
        "an answer is delivered to the reply callback at most once per request (the request table entry is removed on the first answer: modelled and compared via len(ns.Handlers); the request layer itself is C01)",
        "the service's run loop (runservice selector goroutine) is not started: the harness serves the timer queue and the scheduler queue itself, between ops (`timers` op; the `tick` / `keeper` / `update` ops still call the callbacks directly); timers of the same due instant are accepted in any order",
        "the scenem Service (handler.NewService: NodeService + Mgr) is not spawned as an actor: the AllocScene handler is called as a Go method with a stub actor context instead of through the api dispatcher, tasks posted to the service's scheduler are run by the harness after each op; its Receive is called directly with actor.Started / ServiceResponse and its sends are recorded by a stub actor context; request timeouts are driven by the real expiry timer of actorex/service (modelled: deadline = send time + 30 s, checked once a second while requests are in flight); the request layer's own guarantees are C01",
        "scene counts reported by services are non-negative and below 2^24 (a negative count would win every placement)",
        "service ids are non-empty: the placement theorems are about findIdle (an option for 'none yet'); FindIdleService as written (the empty string for 'none yet') is modelled literally as findIdleGo, proved equal to findIdle when no service is registered under the empty id (findIdleGo_eq_findIdle) and compared with the code also when one is (1 case in 16 refreshes a service under the empty id; bare AllocScene decisions only, accepted iff the literal loop gives them for some visiting order; such cases are not judged by the property monitor); that scene services never report an empty id is assumed (witness of what breaks otherwise: empty_service_id_breaks_placement)",
        "scene id 0 is reserved (RandGetScene uses it for 'none'); allocSceneId starts at 1 (proved: no system history produces id 0)",
    ],
)
