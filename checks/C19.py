# NOTE: bin/check merges a VERIF_GO_FLAGS=-overlay=X development overlay with the shim overlay given in go_flags below
# (go honours only the last -overlay flag); harness/c19/overlay/merge_overlay.py does the same by hand.
CONFIG = dict(
    id="C19",
    engine="bubble (virtual clock), white-box shim added by go -overlay",
    technique="Lean 4 invariant proof over all event histories of a hand-written model of the scene manager + differential "
              "correspondence (acceptance for the two nondeterministic results) with the real scenem package + property monitor on its dumps",
    level_text="Machine-checked proof in Lean 4 that, in the model of scenem's World/SceneLines/SceneServiceMgr, after every history of "
               "create-success/end/refresh/clock/periodic-check/loss/alloc/request events in which no create-success names a live scene id "
               "(proved for every history that confirms ids handed out by AllocScene at most once): scenes and lines are in bijection, line "
               "numbers are strictly sorted hence unique, a new line takes the smallest free number (from 0), end/loss/periodic check remove "
               "exactly the affected scenes and free exactly their lines (as order-preserving filters, for any visiting order), unknown ends "
               "and repeated losses are no-ops, a request returns a live scene of the configuration or nothing for every random draw, and "
               "AllocScene places only on a working service of minimal busy weight for every map order. The model is tied to the Go code on "
               "every run by executing both on generated histories (3 configurations x 4 services, virtual keep-alive clock) and comparing the "
               "full sorted state dump after every event; the property predicate is evaluated on the implementation's own dumps.",
    level_note="Trusted: Lean kernel; harness/driver line protocol; the overlay shim (read-only accessors + direct calls of updateWorkingState/"
               "onServiceLost); float32 busy weight abstracted to min(n,5000) (validated on every adjacent pair 0..5101 and sampled pairs each run); "
               "Go map iteration and math/rand as arbitrary choices. The theorems are about the model; the differential run ties it to the code on sampled histories only.",
    lean_targets=["Cell2v.Props.C19", "modeld_c19"],
    driver="modeld_c19",
    driver_root="Cell2v.Driver.C19",
    audit="Audit/C19.lean",
    required_theorems=["worldInv_reachable", "scenes_lines_bijection", "line_ids_unique_sorted", "new_line_is_mex",
                       "end_removes_exactly_one", "lost_removes_exactly_affected", "end_unknown_noop", "repeated_loss_idempotent",
                       "request_returns_same_cfg_live_or_none", "alloc_only_on_working", "alloc_prefers_least_busy",
                       "alloc_ids_fresh", "failed_spawn_registers_nothing", "tick_removes_exactly_lost", "tick_any_order", "lost_any_order", "loss_only_after_silence"],
    harness_pkg="./c19",
    go_flags=["-overlay=/verif/harness/c19/overlay/overlay.json"],
    mode="accept",
    reset_prefix="reset",
    runs={
        "quick": [dict(name="main", env={"VERIF_N": "1500"}, timeout=240)],
        "thorough": [dict(name="main", env={"VERIF_N": "40000"}, timeout=800),
                     dict(name="seed2", env={"VERIF_N": "30000"}, seed_offset=1000, timeout=800),
                     dict(name="seed3", env={"VERIF_N": "30000"}, seed_offset=2000, timeout=800)],
    },
    trivial=r"^(bad-op|r=ok S= L= V=.*|r=(lt|eq|gt) .*)$",
    rule="op lines generated from one PRNG (VERIF_SEED): cases of 15-65 events over configurations {100,101,102} and services {1,2,3} (+ a never-"
         "refreshed 4): alloc (placement) and create-success for allocated ids (sometimes delayed or dropped), for own fresh ids, on unknown/lost "
         "services; ends of live / already ended / unknown ids; refreshes with loads 0, ties, 4999/5000/5001/7000/2^24-1; clock steps around the "
         "3000 ms threshold; periodic checks; silences of 1-5 rounds (the 4th declares the loss); manager- and world-level losses, repeated; "
         "requests for populated / empty / unknown configurations; the keeper's creation path through the real SpawnScene (app.Request over a generated cluster view: request sent and later answered ok / with an error / never, or failing at once when the chosen service is not routable);  busy-weight comparisons (all adjacent pairs 0..5101 exhaustively); 1 in 8 cases "
         "is malformed (create-success for a live id: compared with the model, not judged by the property). A case is non-trivial when scenes exist "
         "or a result other than ok is returned; distinct = distinct (op, observation) pairs",
    trusted_base=[
        "Lean 4.33.0 kernel; axioms of every property theorem audited on each run (allowed: propext, Classical.choice, Quot.sound)",
        "hand-written model lean/Cell2v/Model/SceneM.lean tied to the Go code by the acceptance run of this check (harness/c19 + modeld_c19 accept)",
        "overlay shim harness/c19/overlay/export_verif.go (package scenem, added at build time, /repo untouched): read-only accessors and direct calls of onUpdate / onServiceLost / World.OnServiceLost",
        "float32 GetBusyWeight (CPURate is never set) abstracted to the integer key min(n,5000); compared with the real function on every adjacent pair 0..5101 and on sampled pairs up to 2^24-1 in every run",
        "Go map iteration order and math/rand are arbitrary: the theorems quantify over every visiting order / draw, the driver accepts any least-busy working service and any line of the configuration",
        "SpawnScene requests are routed by the real app.Request/route/cluster directory over a generated view (UpdateClusterTopology); the scene service's answer is a ServiceResponse handed to the real Service.handleResponse",
        "harness canonicalisation (maps sorted, lines in slice order, keep-alive times as virtual idle milliseconds inside a testing/synctest bubble)",
    ],
    assumptions=[
        "create-success events never name a scene id that is live (proved for ids issued by allocSceneId and confirmed at most once; uint64 wrap-around not modelled)",
        "the keep-alive check is driven by calling the timer's callback (onUpdate) directly; the 1 s timer wiring of Start() and the public-scene keeper's own timer loop are not run (its creation path SpawnScene is: AllocScene + app.Request + reply callback)",
        "the manager's NodeService is not spawned as an actor: its Receive is called directly with actor.Started / ServiceResponse and its sends are recorded by a stub actor context; request timeouts (C01) are not driven here, an unanswered request simply stays pending",
        "scene counts reported by services are non-negative and below 2^24",
        "scene id 0 is reserved (RandGetScene uses it for 'none'); allocSceneId starts at 1",
    ],
)
