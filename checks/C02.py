CONFIG = dict(
    id="C02",
    engine="bubble-node",
    technique="Lean 4: per-message characterisation of HandlerComponent.Process / tryCallCol / Forward / ProcessForwardMsg / the sys.call reply "
              "callback (exactly one response, its origin, its content) + a counting invariant over histories of any number of clients and "
              "in-flight requests + a transition system of the WHOLE front-end (one mailbox, session table, request-id allocator and pending table "
              "shared by all requests; back-end queues; adversarial scheduler) with invariants proved over every schedule; differential run of the "
              "model against a whole single-process node (real front + back services, real ClientSession objects created by the REAL accept loop pomelo.StartAcceptor from connections queued together in an in-memory acceptor.Acceptor and read through the "
              "real tcpPlayerConn.GetNextMessage, virtual time) + the property predicate on what the raw clients read",
    level_text="Machine-checked proof in Lean 4, for every configuration (handler tables, route function, directory), session, route string, "
               "payload and id < 2^32: a request (id != 0) yields exactly one Response on the same connection with the same id (request_one_response_partial; the full statement RequestOneResponse over all wire ids is REFUTED by request_one_response_full_fails — known finding D19: the envelope truncates the id to 32 bits, request_answered_with_truncated_id says what happens instead); "
               "when it names a request-shaped handler of a reachable target the handler runs once there and its result is relayed unchanged, "
               "the target being the front iff the route names the front's type, else the live instance of that type the route function selects "
               "(request_served_by_target, target_spec, response_origin_is_target, front_answers_iff_own_type, relay_unchanged); every other request "
               "gets exactly one error response and no handler runs (unserviceable_gets_error + the named cases: no target, malformed route, unknown "
               "method, undecodable payload, request to a notify-shaped method, handler failure/panic, a ROUTE FUNCTION that panics for the session — RouteService.doRoute's recover, model doRoute, theorems route_panic_gets_error / route_panic_notify_dropped); a notification is never answered and runs "
               "the handler exactly once when deliverable (notify_once_no_response); over every history of interleaved requests from any number of "
               "connections and time steps, written + in-flight responses = requests per (connection, id), and 42 s after the last message each "
               "has exactly its responses (history_conservation, history_exactly_one, history_no_response_to_notify). The synchronous frame of a request handler is modelled after "
               "APIContainer.CallMethod + SafeCall as they are since 7b326e6 (the handler gets a wrapper that records a completion that WENT THROUGH; the recover path completes with the error only if none did): for EVERY body "
               "(list of acts complete-through / complete-on-which-the-completion-function-panics / panic) that calls its completion function at most once and is not an empty frame, exactly one completion reaches the "
               "caller (callmethod_exactly_one); for every body whatsoever SafeCall adds nothing to a completion that went through and a frame that ends in a panic is never left uncompleted "
               "(safecall_adds_nothing_after_completion, panicked_frame_is_completed); the per-message model's behaviour table is that function on each behaviour's frame (behResult_is_callMethod), hence complete-then-panic "
               "yields exactly the handler's result and a panicking completion function exactly one error response, front-local and forwarded (complete_then_panic_one_response, completion_panic_gets_error; d23_witness = the code before the repair). Requests are NOT assumed independent: "
               "Model/ClientShared.lean is one state machine for the whole front-end — FIFO mailbox of the owner (session add/remove, client messages, routing-key "
               "changes, back-end replies), session table read when a message is processed, request-id allocator + pending table of RequestEx (a reply completes the "
               "entry stored under the id it carries, a reply without entry is dropped, the expiry scan completes an entry with the timeout error), queues of the "
               "back-ends — driven by an adversarial scheduler (a schedule is ANY list of events, time is abstract, back-end handlers may also never complete or "
               "complete twice). Proved as invariants over every schedule: per connection and id, written + in flight + dropped-for-want-of-a-session = sent "
               "(shared_conservation, shared_never_more, shared_no_response_to_notify); a connection opened before it sends and not closed loses nothing "
               "(shared_nothing_dropped: mailbox order); at rest every such connection has exactly one response per request (shared_exactly_one) and rest is "
               "reachable from every state by the owner, the expiry scan and the timers alone (shared_can_quiesce); every response names a message sent on its own "
               "connection and is justified by THAT message: front-local = the per-message model's response, forwarded = timeout/failure error or the result its "
               "own target computed from its own envelope (shared_response_justified, shared_data_from_own_target, shared_front_local_is_serve, "
               "serve_answer_allowed); the 'missmatch res' branch is dead as an invariant (shared_reply_matches). The accept loop is modelled (acceptLoop: one session per queued connection, on that connection, for any number of connections arriving together: accept_serves_each_connection_once; accept_deferred_witness = session creation deferred to goroutines that read the shared loop variable) and discharges the shared machine's hypothesis wellUsed: for any batch of accepted connections followed by any schedule without a close, every accepted connection loses nothing and at rest has exactly one response per request (accepted_connections_well_used, accepted_connections_exactly_one). The model is tied to the "
               "code on every run: generated cases (1-3 clients whose connections are queued TOGETHER in the acceptor's channel and turned into sessions by the real StartAcceptor loop — each must be served by exactly one session and answer the handshake —, bursts written concurrently, bindings to live / unknown / dead / wrong-type "
               "instances and to a NUMBER instead of a string (the tie's route function does the usual unchecked type assertion and panics), all zoo methods, malformed routes, ids 0/1/127/128/16383/16384/2^32-1 and a stream of ids >= 2^32 (2^32, 2^32+5, 2^33+1, 2^64-1), valid/undecodable/empty/null payloads, slow and "
               "late handlers, 31 s forward timeouts, handler durations of 2 s / 29 s / 33 s / 42 s around the 30 s request timeout, bursts delivered in fragments of 1-64 bytes through the real TCP stream reassembly, back-end handlers that never "
               "complete or complete twice, handler errors with an empty text, handlers that complete and then panic / whose result makes the completion function panic / that panic after an asynchronous completion — at the front and at the back-ends —, "
               "and every handler frame of up to 3 acts + random ones of up to 4 driven directly through the real CallWithSerialize/CallMethod/SafeCall, op frame) run through the real node and compared as multisets per connection; the shared "
               "machine runs next to the per-message model in the driver on the same traffic and must agree with it at the end of every case.",
    level_note="Partial: FRONT-LOCAL handler bodies call their completion function at most once and do not stay silent (never/twice excluded by the Beh type; reproduced on the code and reported: a front-local handler "
               "that never completes — an asynchronous continuation that panics inside the service's timer — leaves the client unanswered: no timeout net). Panics AROUND the completion are inside the model since /repo 7b326e6 (D23 repaired): "
               "complete-then-panic = exactly one response (the handler's result), a completion function that itself panics (the result's MarshalJSON panics) = exactly one error response, on both paths "
               "(model callMethod = CallMethod's completed flag + SafeCall; theorems callmethod_exactly_one over ALL bodies, complete_then_panic_one_response, completion_panic_gets_error; run: zoo.okboom / zoo.mboom / zoo.slowboom at every type + op frame); "
               "forwarded requests need no completes-once assumption (events lose/dup of the shared machine; tied by the back-only handler zoob.hang and by okboom); "
               "the request-id allocator of the shared machine does not wrap (wrap and id re-use are C01's; the run exercises the wrap); sessions that close with responses "
               "in flight are C05's; ids >= 2^32 are inside the check as known finding D19 (model truncates like the code, the spec monitor reports C02/request-id-truncated); routes that are not "
               "valid UTF-8 are modelled (forwarded envelope not serialisable -> error response); a forwarded handler result that cannot be marshalled or a handler error with an EMPTY text reaches the client as a success with an empty body (modelled, theorem unserialisable_result, reported); the timeout instant "
               "is nominal in the per-message model (31 s, observed at 5 s granularity; abstract in the shared machine: both outcomes of the race are schedules); the session-creating loop pomelo.StartAcceptor is inside the run since round 8 (in-memory acceptor.Acceptor; every reset queues its connections together); the socket listeners (TCPAcceptor/WSAcceptor ListenAndServe), actor remote and etcd are bypassed by the engine (the TCP connection's framing is the real tcpPlayerConn).",
    lean_targets=["Cell2v.Props.C02", "modeld_c02"],
    driver="modeld_c02",
    driver_root="Cell2v.Driver.C02",
    audit="Audit/C02.lean",
    required_theorems=["request_one_response_partial", "request_one_response_full_fails", "request_answered_with_truncated_id",
                       "request_served_by_target", "response_origin_is_target", "relay_unchanged",
                       "unserviceable_gets_error", "notify_once_no_response", "history_conservation", "history_exactly_one", "d20_witness", "unserialisable_result", "unserialisable_envelope_gets_error",
                       "shared_conservation", "shared_never_more", "shared_exactly_one", "shared_can_quiesce", "shared_nothing_dropped",
                       "shared_no_response_to_notify", "shared_response_justified", "shared_data_from_own_target",
                       "shared_front_local_is_serve", "serve_answer_allowed", "shared_reply_matches", "shared_pending_ids_unique",
                       "callmethod_exactly_one", "safecall_adds_nothing_after_completion", "panicked_frame_is_completed", "behResult_is_callMethod",
                       "d23_witness", "complete_then_panic_one_response", "completion_panic_gets_error",
                       "route_panic_gets_error", "route_panic_notify_dropped", "accept_serves_each_connection_once", "accept_deferred_witness",
                       "accepted_connections_well_used", "accepted_connections_exactly_one"],
    harness_pkg="./c02",
    go_flags=["-overlay=/verif/harness/c02/overlay/overlay.json"],
    mode="diff",
    reset_prefix="reset",
    runs={
        "quick": [dict(name="main", env={"VERIF_N": "3000"}, timeout=240)],
        "thorough": [dict(name="main", env={"VERIF_N": "40000", "VERIF_EXHAUSTIVE": "1"}, timeout=1500),
                     dict(name="seed2", env={"VERIF_N": "40000"}, seed_offset=7919, timeout=1500),
                     dict(name="seed3", env={"VERIF_N": "40000"}, seed_offset=104729, timeout=1500)],
    },
    trivial=r"^(ok|bad-op|r= i=|done=)?$",
    rule="corpus (the D4a/D4b witnesses, an interleaving case, fragmented delivery, misbehaving back-end handlers, the D23 family: complete-then-panic / panicking completion function on both paths), all 85 handler frames of up to 3 acts (op frame), then generated cases from one PRNG (VERIF_SEED): reset with 1-3 clients that connect at the same moment (all connections queued in the in-memory acceptor's channel before the real accept loop pomelo.StartAcceptor takes the first; observation lists every connection not served by exactly one session / without handshake response), then handshaken; "
         "binds of the routing key to chat-1/chat-2/unknown/dead/wrong-type/empty/a number (#7: the route function's type assertion panics, doRoute recovers); bursts of 1-6 messages written by all clients at once "
         "(1 burst in 4 reaches the server in pieces of 1/2/3/5/7/16/64 bytes: op token frag=<k>; route: 85% type{gate,chat,hall,room} x group{zoo,nogrp,\"\"} x method{echo,fail,fail0,boom,slow,late,s29,s33,tell,nan,login,loginw,okboom,mboom,slowboom,nosuch,\"\"}, 4% {chat,hall,gate}.zoob.{hang,okboom} (back-only group: never completes / completes twice), 15% malformed; id: 0 and "
         "varint boundaries or random, unique per connection also modulo 2^32; 1 message in 64 carries an id >= 2^32 on a serviceable route (known finding D19); payload 80% valid with a case-unique value, else undecodable/empty/wrong type/null); "
         "1-2 MORE clients that connect together in the middle of a case (op join: a reconnect storm while sessions exist and requests are in flight; same path and observation as reset); new clients (accepted by the same loop) that pipeline 1-4 messages behind their handshake while the front's owner goroutine is kept busy (AddSession posted, not yet run; repaired defect D20); re-handshakes on working connections with replies in flight (hs/ack; data packets sent in between are ignored by the reader), handlers whose result cannot be marshalled (zoo.nan), cases that start with the front's service-request counter 1-4 below MaxReqId (wrap); routes that are not valid UTF-8 (the forwarded envelope cannot be serialised); one flood per run: a client that stops reading, pipelines 10080 requests (more than the session's 9999-slot send queue) and resumes; cluster-view changes (node n2 carrying chat-2 and hall-2 becomes Init/Working/Retiring/Retired while sessions are bound to chat-2; the default route of type hall picks the first working instance); handlers that bind a user id and push the session to the front before completing, with and without waiting (zoo.login / zoo.loginw, first bind and re-bind); 1 step in 20 is op frame body=<0-4 acts over c,m,e,p>: one request-handler frame driven directly through the real CallWithSerialize / APICollection.Call / CallMethod / SafeCall with a completion function shaped like Process's (observation: the completions it received, in order); 5 s time steps; a final 45 s flush. One evaluation = one op; observation = per-connection multiset of (kind,id,errflag,payload hex) "
         "read by the clients + multiset of handler invocations per service (op frame: done=<d|e…>); non-trivial = something was read, invoked or completed",
    trusted_base=[
        "Lean 4.33.0 kernel; axioms audited per theorem (propext, Classical.choice, Quot.sound)",
        "hand-written model lean/Cell2v/Model/ClientServe.lean tied to node/client/impls/{handler,forwarder,sessions}.go, builtin/system.go, "
        "apimapper/apientry, actorex/service by the differential run (harness/c02 + harness/node + modeld_c02); its function callMethod (CallMethod's completed flag + SafeCall) is tied twice: through the node (zoo.okboom/mboom/boom/fail/nan on both paths) and directly (op frame: arbitrary bodies through the real apientry.CallWithSerialize)",
        "engine harness/node: real components assembled in one process; sessions are created by the real pomelo.StartAcceptor loop over an in-memory acceptor.Acceptor (Node.Accept; the step that queues the connections runs on one P so that 'arrived together' is what the loop sees on every run; a client write nobody reads within 2 s of virtual time counts as buffered by the transport, like a TCP send); bypassed: the socket listeners TCPAcceptor/WSAcceptor.ListenAndServe (net.Pipe wrapped in the REAL tcpPlayerConn through the one-line shim harness/c02/overlay/export_verif.go, mapped into package acceptor with go test -overlay; nothing under /repo is modified), actor remote, etcd",
        "the shared-state machine Model/ClientShared.lean is tied to the code through the per-message model: it is built from the same functions (tryCallCol, processForward, splitClientRoute, routeSerialisable, envelope), theorem serve_answer_allowed / shared_front_local_is_serve relate the two, and modeld_c02 runs both on every generated case and reports 'shared-model-diverges' in the flush observation if their responses or handler invocations differ",
        "go1.26.8 testing/synctest (virtual time, quiescence detection)",
        "harness canonicalisation: multisets (sorted) per op, heartbeats/handshake filtered, error responses carry no payload on the wire",
    ],
    assumptions=[
        "every FRONT-LOCAL handler body calls its completion function at most once and either completes or panics in its synchronous frame or completes later from a timer (a front-local handler that never completes / calls its completion function twice leaves the client without / with two responses: reproduced, reported, excluded; panics before, after and INSIDE the completion are modelled and proved: callMethod); back-end handlers may do either (shared machine events lose/dup; zoob.hang in the run)",
        "the completion function handed to CallMethod panics, if at all, before it has written anything (true of Process's and ProcessForwardMsg's closures: the only call that can panic is serializer.Marshal, which precedes ResponseMID / the reply) and does not panic on an error completion",
        "a back-end reply that is not the msgs.Response built by ProcessForwardMsg (other type, wrong SessionId/ClientReqId) is dropped silently by the front (theorem mismatched_reply_dropped); that this never happens to a reply of ProcessForwardMsg is an invariant of the shared machine (shared_reply_matches), given that request ids are not re-used while pending (C01)",
        "a request forwarded to an instance of the wrong type, to a PID without a living actor, or to a handler slower than 30 s is answered by the request-timeout error",
        "routes <= 255 bytes (a route that is not valid UTF-8 is modelled: the forwarded envelope cannot be serialised -> one error response; a genuine U+FFFD in a route is not generated)",
        "the connection stays open until the response is written (session life cycle is C05); in the shared machine: the exactly-one theorems are about connections that are opened before they send and not closed (wellUsed; 'opened before they send' is PROVED for connections created by the accept loop: accepted_connections_well_used — what remains assumed is 'not closed'), a message whose session the owner does not find is counted as dropped",
        "an application route function either returns or panics (a panic is recovered by RouteService.doRoute: modelled, proved, tied by binding the key to a number); a route function that blocks is not modelled",
        "the user id bound to a session is stamped on later envelopes (msgs.ClientMsg.ID) but nothing a client observes depends on it: login/loginw are modelled as echo-like handlers",
        "a request of a history is one the session's reader delivered: data packets sent between a repeated Handshake packet and its HandshakeAck are ignored by ClientSession.processPacket (modelled in the driver, not a theorem)",
        "a forwarded handler result the client serializer cannot marshal is relayed as a success with an empty body (ProcessForwardMsg ignores the Marshal error; theorem unserialisable_result states it; the spec accepts error or empty success there); the same for a handler error whose text is empty (zoo.fail0)",
    ],
)
