CONFIG = dict(
    id="C16",
    engine="pure",
    technique="Lean 4 theorems (refinement of the concrete sync.Map/slice state to folds over the history, by induction over all histories) "
              "over a hand-written model of channel.Service / Channel / FrontGroup / ClientSessions.PushMsg / pushLocal + differential "
              "correspondence with the real code through a recording IPushMessager and recording fake client sessions",
    level_text="Machine-checked proof in Lean 4 that, for every history of create/fetch/delete/join/leave/broadcast operations over any "
               "channels, fronts and ids (duplicates, removals at any position) interleaved with session adds/removes, a broadcast hands the push "
               "layer exactly one tuple per front that was joined since the channel was (re)created, whose id list is the fold of joins and "
               "first-occurrence removals (count = adds - successful leaves; a subsequence of the join sequence), nothing for other fronts or a "
               "missing channel; that operations on other channels/fronts and leaves of absent ids change nothing; that the service obeys the map "
               "laws; that ClientSessions.PushMsg delivers once per listed live id in order and skips unknown ids; and that the issuing "
               "front-end's own connections receive exactly the listed live ids in place. All three slice cases of FrontGroup.Remove are modelled "
               "literally and proved equal to erase-first. The model is tied to the Go code on every run by executing both on generated histories "
               "(3 channels + temp channels x 3 fronts x ids with duplicates, targeted first/middle/last removals, malformed lines) and the "
               "property predicate (an independent flat bookkeeping in the driver) is evaluated on the implementation's own observations.",
    level_note="Trusted: Lean kernel, harness/driver line protocol and canonicalisation (tuples sorted by front; tuples with an empty id list are not compared, only counted for the once-per-front flag), sync.Map as a linearizable map used "
               "from one goroutine, the JSON client serializer on [A-Za-z0-9._-] strings. The theorems are about the model; the differential run "
               "ties it to the code on sampled histories plus a bounded-exhaustive enumeration (thorough tier). Not covered: the actor transport "
               "between a back-end's PushMessageByIds and a remote front-end's sys.pushmsg (property C03), concurrent use of one channel service "
               "from several goroutines.",
    lean_targets=["Cell2v.Props.C16", "modeld_c16"],
    driver="modeld_c16",
    driver_root="Cell2v.Driver.C16",
    audit="Audit/C16.lean",
    required_theorems=["broadcast_lists_current_members", "count_eq", "order_is_join_order", "at_most_once_per_front",
                       "isolation", "isolation_history", "leave_absent_is_noop", "remove_is_erase_first", "removed_or_never_added_not_listed", "service_is_a_map", "front_fanout", "bcast_local_delivery", "push_reaches_only_the_addressed_front", "closed_connection_does_not_affect_others",
                       "push_inside_session_add_reaches_new_connection", "push_inside_session_remove_skips_removed"],
    harness_pkg="./c16",
    mode="diff",
    reset_prefix="reset",
    runs={
        "quick": [dict(name="main", env={"VERIF_N": "1200"}, timeout=240),
                  dict(name="exh4", test="TestExhaustive", env={"VERIF_DEPTH": "4"}, timeout=240)],
        "thorough": [dict(name="main", env={"VERIF_N": "20000", "VERIF_BIG": "80", "VERIF_SESS": "2000", "VERIF_RACE": "400", "VERIF_TWO": "600", "VERIF_CLOSED": "600"}, timeout=1500),
                     dict(name="seed2", env={"VERIF_N": "10000", "VERIF_BIG": "80", "VERIF_SESS": "1000"}, seed_offset=1000, timeout=1500),
                     dict(name="exh6", test="TestExhaustive", env={"VERIF_DEPTH": "6"}, timeout=1500)],
    },
    trivial=r"^(ok|nil|bad-op|dl=|dl= cb=1|n=0 \| once=1 dl= sent= dlb=)?$",
    rule="op lines generated from one PRNG (VERIF_SEED): cases of 10-80 operations after `reset local=<front>` over channels a,b,c and temp "
         "channels (AllocTempChannel/FreeTempChannel), fronts f1,f2,f3, ids 1..7 plus 0 and 2^32-1; joins (a quarter of them duplicates of a "
         "listed id), leaves (two thirds aimed at the first/middle/last/random element of a real group, the rest at random incl. absent ids, "
         "missing groups and channels), broadcasts, create/fetch/delete, session add/remove, direct ClientSessions.PushMsg and sys.pushmsg with "
         "live/unknown/duplicate ids, ~2% malformed lines; every case ends with a broadcast on each channel; corpus first; large-group cases (9 quick / 80 thorough per run): one group of 130-600 ids from a counter (a third with a run of duplicates) emptied from the newest end, the oldest end or at random through range ops, with a broadcast after every chunk and single steps around sizes 32/64/128/212; concurrent-membership cases (40 / 400): while a broadcast is in flight — after the channel took a front's id list, before the push layer reads it — another goroutine issues a leave (mostly of a middle member) or join on that same front; every front must receive the snapshot; two-front-end cases (60 / 600): two front-end services in one process whose connections are numbered alike but differ in which are live, ClientSessions.PushMsg and sys.pushmsg (through the one shared sys entry object) addressed to each in turn in both orders, broadcasts of channels spanning the issuing front-end, the second one and a remote-only third, issued through the real impls.PushMessageByIds (requests sent onward are captured from ns.RequestEx and handed to the addressed service); three quarters of the ordinary cases also host a second front-end; closed-connection cases (60 / 600): a registered connection whose Push returns an error (socket closed, not yet removed; the recording fake session does that after `sclose`) listed at the first, a middle and the last position of multi-id ClientSessions.PushMsg / sys.pushmsg calls and among the members of a broadcast, on the issuing and on the second front-end; session-callback cases (60 / 2000): a recording ISessionsHandler whose OnSessionAdd pushes (ClientSessions.PushMsg) or joins+broadcasts (through the real push impl, in place) to lists naming the connection being added, and whose OnSessionRemove pushes to lists naming the one being removed; plus every history "
         "of length <= 4 (quick) / 6 (thorough) over a 7-operation alphabet followed by a broadcast. A case is non-trivial when its observation "
         "is a value (channel identity, tuples, deliveries); distinct = distinct (op, observation) pairs",
    trusted_base=[
        "Lean 4.33.0 kernel; axioms of every property theorem audited on each run (allowed: propext, Classical.choice, Quot.sound)",
        "hand-written model lean/Cell2v/Model/Channel.lean tied to the Go code by the differential run of this check (harness/c16 + modeld_c16)",
        "sync.Map / Go map modelled as association lists (Load = first entry, Store = replace in place or append, Delete = remove the key); "
        "Range order is not observed (tuples sorted by front in harness and driver)",
        "the harness's recording IPushMessager copies the id slice at call time (the channel passes its own backing array under the group lock)",
        "the harness stands in for the actor transport: ns.RequestEx on an unstarted NodeService with a recording actor context (Send) and the "
        "directory {f1,f2,f3} set through Cluster.UpdateClusterTopology; a captured sys.pushmsg for the second front-end is deserialized and "
        "handed to the shared builtin.Entry.PushMsg with that service as the owning actor",
        "client serializer = encoding/json on a string of [A-Za-z0-9._-] (quote, bytes, quote)",
        "harness canonicalisation (channel objects numbered in order of first appearance, panics mapped to 'panic')",
    ],
    assumptions=[
        "sync.Mutex gives mutual exclusion: the group lock held by Channel.PushMessage across the push call keeps a concurrent Leave/Add of that "
        "front out until the tuple was consumed (the harness's sink starts that operation on another goroutine and gives it 1 ms before reading "
        "the list; in the unchanged code it cannot run, so the observation does not depend on timing)",
        "one goroutine uses a channel service at a time (the code's own stated discipline; getGroup/AddChannel are Load-then-Store, not LoadOrStore)",
        "fewer than 2^32 sessions are allocated by one front-end (SerialIdService wrap is modelled but not reached by the harness)",
        "the push layer does not retain the id slice beyond the call (true for impls: serialized or iterated synchronously)",
    ],
)
