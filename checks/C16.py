CONFIG = dict(
    id="C16",
    engine="pure",
    technique="Lean 4 theorems (refinement of the concrete sync.Map/slice state to folds over the history, by induction over all histories) "
              "over a hand-written model of channel.Service (channels by name, direct pushes PushMessageByIds / PushMessageById) / Channel (by name and through retained *Channel handles, bound or stale) / FrontGroup / ClientSessions.PushMsg / impls.PushMessageByIds / PushMessageById / pushLocal + differential "
              "correspondence with the real code through a recording IPushMessager and recording fake client sessions",
    level_text="Machine-checked proof in Lean 4 that, for every history of create/fetch/delete/join/leave/broadcast operations over any "
               "channels, fronts and ids (duplicates, removals at any position) interleaved with session adds/removes, a broadcast hands the push "
               "layer exactly one tuple per front that was joined since the channel was (re)created, whose id list is the fold of joins and "
               "first-occurrence removals (count = adds - successful leaves; a subsequence of the join sequence), nothing for other fronts or a "
               "missing channel; that operations on other channels/fronts and leaves of absent ids change nothing; that the service obeys the map "
               "laws; that ClientSessions.PushMsg delivers once per listed live id in order and skips unknown ids; and that the issuing "
               "front-end's own connections receive exactly the listed live ids in place. Retained *Channel handles are inside the model: "
               "DeleteChannel only unbinds the name and the object lives on; proved, for every history mixing by-name and handle operations "
               "(c.Add, c.Leave, c.PushMessage, FreeTempChannel(c)), that every channel OBJECT, bound or detached, holds per front exactly the fold "
               "of the membership operations that resolved to it (AddToChannel(c) to the object AddChannel(c) returns at that moment, "
               "LeaveFromChannel(c) to the object c denotes at that moment, handle operations to their object; by induction over all histories) "
               "and that a broadcast through any handle lists exactly that; that a handle whose object is still bound is the by-name operation, that "
               "a broadcast through a stale handle lists per front exactly what the name listed when it was deleted changed only by Add/Leave "
               "through that very handle (re-creating, joining, leaving or deleting the name, other handles and FreeTempChannel do not touch it), "
               "that stale-handle operations change nothing a by-name operation sees, and that such histories reach no by-name state that "
               "by-name histories do not reach (so the by-name theorems hold for them); the by-name fold theorems (count, order, isolation_history) "
               "are statements about the fold that broadcast_lists_current_members ties to the model, and broadcast_tuple_count_and_order restates them "
               "on the tuples the model's Channel.PushMessage emits. The pushLocal branch for an issuing service WITHOUT a \"sessions\" component "
               "(a back-end service) is modelled: nothing is delivered in place, the tuples are unchanged and every front the directory knows - the "
               "issuer's own name included - is sent exactly one sys.pushmsg (issuer_without_sessions_requests_every_known_front). Direct pushes "
               "(channel.Service.PushMessageByIds / PushMessageById -> impls.PushMessageByIds / PushMessageById, no channel involved) are inside the model: "
               "proved for every state, front name, id list and directory that the push layer is handed exactly the caller's one tuple, that it is delivered "
               "in place (pushMsg on the open live connections) iff it addresses the issuing service and that has the component, that otherwise exactly one "
               "sys.pushmsg with the list goes to the front iff the directory knows it (an unknown front gets nothing), never both, and that the single-id "
               "form is the one-element list (direct_push_reaches_exactly_the_listed_connections), and that under the issuer's own name every registered open "
               "connection receives it exactly as often as it is listed, closed and unregistered ones never, in list order (direct_push_in_place_counts). The dropped Marshal error "
               "(`pmsg.Data, _ = Serializer.Marshal(msg)`) is inside the model as a serializer returning the empty payload: proved for any two serializers "
               "that the connections reached, their order, multiplicity and routes are the same in place and at a front-end handling the onward requests "
               "(recipients_do_not_depend_on_the_serializer). All three slice cases of FrontGroup.Remove are modelled "
               "literally and proved equal to erase-first. The model is tied to the Go code on every run by executing both on generated histories "
               "(3 channels + temp channels x 3 fronts x ids with duplicates, targeted first/middle/last removals, retained handles used after their name "
               "was deleted or re-bound, direct pushes through the real single-id and multi-id paths, messages the JSON serializer rejects, malformed lines) and the "
               "property predicate (an independent flat bookkeeping in the driver) is evaluated on the implementation's own observations.",
    level_note="Trusted: Lean kernel, harness/driver line protocol and canonicalisation (tuples sorted by front; tuples with an empty id list are not compared, only counted for the once-per-front flag), sync.Map as a linearizable map used "
               "from one goroutine, the JSON client serializer on [A-Za-z0-9._-] strings and on +Inf (rejected: empty payload). The theorems are about the model; the differential run "
               "ties it to the code on sampled histories plus a bounded-exhaustive enumeration (thorough tier). Not covered: the actor transport "
               "between a back-end's PushMessageByIds and a remote front-end's sys.pushmsg (property C03), concurrent use of one channel service "
               "from several goroutines, a client whose send queue is full (Session.Push blocks the loop: no liveness claim), a push implementation "
               "that queues the id slice (IPushMessager is an interface; impls serializes or iterates it synchronously). sys.pushmsg handled by a service that has no \"sessions\" component is not exercised (Entry.PushMsg does an unchecked type assertion on a nil component and panics instead of reaching its `sc == nil` branch; harness and driver answer bad-op). FreeTempChannel deletes by name: "
               "called with a stale handle whose name was re-created it unbinds the NEW object (proved as free_is_delete_of_the_name + witness, "
               "exercised by the harness; unreachable through AllocTempChannel names before the 2^32 wrap of the process-global counter).",
    lean_targets=["Cell2v.Props.C16", "modeld_c16"],
    driver="modeld_c16",
    driver_root="Cell2v.Driver.C16",
    audit="Audit/C16.lean",
    required_theorems=["broadcast_lists_current_members", "count_eq", "order_is_join_order", "at_most_once_per_front",
                       "isolation", "isolation_history", "leave_absent_is_noop", "remove_is_erase_first", "removed_or_never_added_not_listed", "service_is_a_map", "front_fanout", "bcast_local_delivery", "push_reaches_only_the_addressed_front", "closed_connection_does_not_affect_others",
                       "push_inside_session_add_reaches_new_connection", "push_inside_session_remove_skips_removed",
                       "handle_histories_reach_only_name_states", "handle_on_bound_channel_is_the_name_operation",
                       "stale_handle_broadcast_lists_the_objects_members", "deleted_channel_object_keeps_its_members",
                       "stale_handle_ops_do_not_touch_the_map", "stale_object_changes_only_through_its_handle", "free_is_delete_of_the_name",
                       "broadcast_tuple_count_and_order", "issuer_without_sessions_requests_every_known_front", "session_ids_fresh_before_wrap",
                       "object_members_are_the_fold_of_resolved_operations", "handle_broadcast_lists_object_members",
                       "object_changes_only_by_operations_resolved_to_it",
                       "direct_push_reaches_exactly_the_listed_connections", "direct_push_in_place_counts",
                       "recipients_do_not_depend_on_the_serializer"],
    harness_pkg="./c16",
    mode="diff",
    reset_prefix="reset",
    runs={
        "quick": [dict(name="main", env={"VERIF_N": "1200"}, timeout=240),
                  dict(name="exh4", test="TestExhaustive", env={"VERIF_DEPTH": "4"}, timeout=240),
                  dict(name="exhh4", test="TestHandlesExhaustive", env={"VERIF_DEPTH": "4"}, timeout=240)],
        "thorough": [dict(name="main", env={"VERIF_N": "20000", "VERIF_BIG": "80", "VERIF_SESS": "2000", "VERIF_RACE": "400", "VERIF_TWO": "600", "VERIF_CLOSED": "600", "VERIF_HANDLE": "2000", "VERIF_BACKEND": "600", "VERIF_DIRECT": "1500"}, timeout=1500),
                     dict(name="seed2", env={"VERIF_N": "10000", "VERIF_BIG": "80", "VERIF_SESS": "1000"}, seed_offset=1000, timeout=1500),
                     dict(name="exh6", test="TestExhaustive", env={"VERIF_DEPTH": "6"}, timeout=1500),
                     dict(name="exhh6", test="TestHandlesExhaustive", env={"VERIF_DEPTH": "6"}, timeout=1500)],
    },
    trivial=r"^(ok|nil|bad-op|dl=|dl= cb=1|n=0 \| once=1 dl= sent= dlb=( cb=1)?)?$",
    rule="op lines generated from one PRNG (VERIF_SEED): cases of 10-80 operations after `reset local=<front>` over channels a,b,c and temp "
         "channels (AllocTempChannel/FreeTempChannel), fronts f1,f2,f3, ids 1..7 plus 0 and 2^32-1; joins (a quarter of them duplicates of a "
         "listed id), leaves (two thirds aimed at the first/middle/last/random element of a real group, the rest at random incl. absent ids, "
         "missing groups and channels), broadcasts, create/fetch/delete, session add/remove, direct ClientSessions.PushMsg and sys.pushmsg with "
         "live/unknown/duplicate ids, ~2% malformed lines; every case ends with a broadcast on each channel; corpus first; large-group cases (9 quick / 80 thorough per run): one group of 130-600 ids from a counter (a third with a run of duplicates) emptied from the newest end, the oldest end or at random through range ops, with a broadcast after every chunk and single steps around sizes 32/64/128/212; concurrent-membership cases (40 / 400): while a broadcast is in flight — after the channel took a front's id list, before the push layer reads it — another goroutine issues a leave (mostly of a middle member) or join on that same front; every front must receive the snapshot; two-front-end cases (60 / 600): two front-end services in one process whose connections are numbered alike but differ in which are live, ClientSessions.PushMsg and sys.pushmsg (through the one shared sys entry object) addressed to each in turn in both orders, broadcasts of channels spanning the issuing front-end, the second one and a remote-only third, issued through the real impls.PushMessageByIds (requests sent onward are captured from ns.RequestEx and handed to the addressed service); three quarters of the ordinary cases also host a second front-end; closed-connection cases (60 / 600): a registered connection whose Push returns an error (socket closed, not yet removed; the recording fake session does that after `sclose`) listed at the first, a middle and the last position of multi-id ClientSessions.PushMsg / sys.pushmsg calls and among the members of a broadcast, on the issuing and on the second front-end; session-callback cases (60 / 2000): a recording ISessionsHandler whose OnSessionAdd pushes (ClientSessions.PushMsg) or joins+broadcasts (through the real push impl, in place) to lists naming the connection being added, and whose OnSessionRemove pushes to lists naming the one being removed; retained-handle cases (80 / 2000, generated last): the harness keeps every *Channel it was handed; names a, b and temp channels are deleted and re-created while c.Add / c.Leave (two thirds aimed at a listed id) / c.PushMessage / FreeTempChannel go through bound handles, stale handles and stale handles whose name denotes a newer object (and now and then a handle not handed out yet), interleaved with the by-name operations; each case ends with a broadcast through every handle and on every name; issuer-without-sessions cases (40 / 600, generated after those): `reset ... nosess=1` builds the issuing service without a \"sessions\" component (names f1, f2, f3 and chat-1, which the directory does not know), members are joined under the issuer's own name, other fronts and an unknown name, broadcasts by name and through handles go through the real impls.PushMessageByIds: no in-place delivery, one captured sys.pushmsg per known front with members incl. the issuer itself; direct-push cases (60 / 1500, generated last): `dpush front=F ids=.. ` = channel.Service.PushMessageByIds and `dpush1 front=F id=N` = channel.Service.PushMessageById (the recorder hands the latter to the real impls.PushMessageById, the former to impls.PushMessageByIds) addressed to the issuing service (half of the chat-1/f3 cases without a \"sessions\" component), the second front-end, a remote-only front and a name the directory does not know, with id lists of 0-5 ids naming live, unknown, duplicate and closed connections, interleaved with joins, broadcasts, sclose/sdel; a sixth of the messages is `~inf` (+Inf, which encoding/json rejects: the push must go out to the same connections with empty data); observation = tuples, in-place deliveries, captured sys.pushmsg requests, second front-end deliveries, completions of the callback; plus every history "
         "of length <= 4 (quick) / 6 (thorough) over a 7-operation alphabet followed by a broadcast, and every history of that length over a second 7-letter alphabet mixing join / delete / re-create by name with Add / Leave / FreeTempChannel through the handles of the first two objects, followed by a broadcast through both handles and by name. A case is non-trivial when its observation "
         "is a value (channel identity, tuples, deliveries); distinct = distinct (op, observation) pairs",
    trusted_base=[
        "Lean 4.33.0 kernel; axioms of every property theorem audited on each run (allowed: propext, Classical.choice, Quot.sound)",
        "hand-written model lean/Cell2v/Model/Channel.lean tied to the Go code by the differential run of this check (harness/c16 + modeld_c16)",
        "sync.Map / Go map modelled as association lists (Load = first entry, Store = replace in place or append, Delete = remove the key); "
        "Range order is not observed (tuples sorted by front in harness and driver)",
        "the harness's recording IPushMessager copies the id slice at call time (the channel passes its own backing array under the group lock)",
        "the harness stands in for the actor transport: ns.RequestEx on an unstarted NodeService with a recording actor context (Send) and the "
        "directory {f1,f2,f3} set through Cluster.UpdateClusterTopology; a captured sys.pushmsg for the second front-end is deserialized and "
        "handed to the shared builtin.Entry.PushMsg with that service as the owning actor",
        "client serializer = encoding/json on a string of [A-Za-z0-9._-] (quote, bytes, quote); on +Inf it returns an error and no bytes (driver: `~inf` -> empty payload)",
        "for a direct push the tuple line of the observation is written by the harness's recorder from the arguments it was called with (channel.Service -> IPushMessager); "
        "what the real impls path did with it is observed through deliveries and captured requests",
        "harness canonicalisation (channel objects numbered in order of first appearance, panics mapped to 'panic'); a handle `h=N` is the N-th "
        "object so numbered — every creating call returns the object, so the numbering is the creation order the model counts",
    ],
    assumptions=[
        "sync.Mutex gives mutual exclusion: the group lock held by Channel.PushMessage across the push call keeps a concurrent Leave/Add of that "
        "front out until the tuple was consumed (the harness's sink starts that operation on another goroutine and gives it 1 ms before reading "
        "the list; in the unchanged code it cannot run, so the observation does not depend on timing)",
        "one goroutine uses a channel service at a time (the code's own stated discipline; getGroup/AddChannel are Load-then-Store, not LoadOrStore)",
        "fewer than 2^32 - 2 sessions are allocated by one front-end: under exactly that bound on the history session_ids_fresh_before_wrap proves the "
        "hypotheses of session_id_fresh in every reachable state (the SerialIdService wrap itself is modelled but not reached by the harness; on a wrap Go "
        "overwrites the table entry of a still-live id with the new connection, which the model's id set cannot tell apart)",
        "the push layer does not retain the id slice beyond the call (true for impls: serialized or iterated synchronously)",
    ],
)
