CONFIG = dict(
    id="C13",
    engine="pure",
    technique="Lean 4 theorems (shape predicate = handler shape, route table = declarative description for every entry list, "
              "exactly-once completion / no escaping panic as statements about EXECUTIONS (event lists) of an event-emitting, panicking program "
              "that mirrors CallWithSerialize / Call / CallMethod / SafeCall / Dispatch / handleRequest statement by statement, the summary model "
              "proved to be what those executions do) over a hand-written model of apimapper + differential correspondence with the real code on a method zoo",
    level_text="Machine-checked proof in Lean 4 that the model of formater.IsValidMethod / APIContainer / APICollection / CallWithSerialize / "
               "APIDispatcher / Service.handleRequest exposes exactly the exported handler-shaped methods under group.method with the naming applied "
               "(for every list of registered entries and options), decodes into the declared message type and invokes exactly that handler, and - "
               "stated on executions, i.e. lists of the events 'handler entered' / 'completion function invoked (by whom, with an error?)' emitted by a "
               "program with panic and defer/recover that is written statement by statement after the Go code - runs a handler at most once in every "
               "execution, invokes a completion function exactly once on every path except a request on a notify-shaped method (D11, known finding; "
               "full statement refuted, D11 proved the only such path), makes every error path the single event 'framework completion with an error', "
               "never lets the framework complete without an error, and lets no panic escape when the serializer itself does not panic.  CallMethod's "
               "two closures around the local variable 'completed' (fix of D23, /repo 7b326e6: the handler is handed handlerCB = cbFunc, then completed = true; "
               "SafeCall's recover is handed panicCB = cbFunc only if !completed) are modelled as function values with the variable threaded through the handler "
               "body, and it is proved for EVERY handler behaviour (any number of completions, values the completion function panics on, panicking or not) that "
               "the framework's own 'panic in rpc' completion is made iff the handler's frame panicked and none of its completions had gone through "
               "(exec_panic_completion_iff_not_completed); hence the exactly-once theorems now cover a handler that completes once and THEN panics, and a "
               "completion function that itself panics (unserialisable result) still gets the error (exec_choking_callback_still_gets_error).  The helper every handler of the repository completes through "
               "(CheckInvokeCBFunc with any (e, result): nil test, then the call) is modelled as checkInvokeAny and proved transparent for every function value, "
               "argument and state of 'completed' (helper_is_transparent), so a handler body that reports through it has the same execution as one that calls the "
               "function itself (handler_through_helper_same_execution, call_method_body_through_helper) and a choking completion function still gets the error "
               "(helper_choking_callback_still_gets_error); that the helper must NOT recover is shown on the variant with a deferred recover: the call is then "
               "completed zero times (recovering_helper_loses_the_completion, recovering_helper_never_reaches_recover).  Completions made AFTER the call returned "
               "(the handler kept the function: Exec.thenLate) are inside the model: one the function can take goes through once (late_completion_completes_once), "
               "one it chokes on ESCAPES as a panic with nothing completed - there is no SafeCall above it (late_choking_completion_escapes; observed on the real "
               "code on every run, judged 'outside-statement').  The fall-through of Service.handleRequest deserialises the body BEFORE it looks for a legacy receiver and "
               "panics when it cannot (handleRequestXB): a request the dispatcher processes never gets there (handle_request_routed_ignores_body), an unknown route with such a "
               "body is answered 'no method' once and THEN the panic escapes (handle_request_unknown_route_bad_body_escapes, handle_request_unrouted_bad_body_escapes; observed "
               "on the real code on every run, judged 'outside-statement').  The code before "
               "that fix is kept as callMethodXPre / completionsGPre with the witness that it completed twice (prefix_complete_then_panic_completed_twice).  The summary "
               "model (Outcome + completions table) the older theorems are about is PROVED to be what the executions do (execution_refines_summary, "
               "dispatch_execution_refines_summary).  Proved to be FALSE for the code as it is, each with a concrete witness reproduced on the real code "
               "on every run: 'exposed = handler-shaped' when the 4th parameter must accept the completion function (func(int)/func()/func with result are "
               "exposed and can never be invoked: exposed_route_callable_iff), no-escaping-panic when Unmarshal panics (user serializer, or a message "
               "type whose UnmarshalJSON panics under the JSON serializer: outside SafeCall), answered-once for an unknown route at the service level "
               "when the legacy receiver answers too (Dispatch answers 'no method', returns false, handleRequest falls through).  The model is tied to the "
               "Go code on every run by executing both on a zoo of ~80 real methods plus thousands of synthetic reflect.Method shapes, all naming options, "
               "JSON/protobuf/nil/panicking serializers, zoo handlers that complete through apientry.CheckInvokeCBFunc (half of all calls) or by calling the function themselves,  routes from a malformed stream, valid/undecodable/empty payloads, caller-supplied arguments that are "
               "assignable but not identical to the declared type (named pointer types), requests without sender, Service.Receive with absent/silent/"
               "answering legacy receivers, nil entries; the observations of the model side are printed from the executions; the property predicate is "
               "evaluated on the implementation's own observations with the declarative route table.",
    level_note="Trusted: Lean kernel, the harness/driver line protocol, reflect facts as dumped by the harness (Kind, Implements(IContext), "
               "AssignableTo between the declared parameter types and the dynamic types of the harness's value pool, the type of reflect.New(t.Elem()), "
               "the zero value of a struct-typed parameter, method sets), the serializer as an abstract function of (declared type, payload) -> value | error | panic.  The theorems are about the "
               "model; the differential run ties it to the code on sampled inputs only.  An arbitrary IAPIFormatter handed to SetFormater is a "
               "parameter of the model (buildX, custom_formater_can_escape, escapes_iff_message_type_has_no_elem); the harness drives the default formater, nil, and two "
               "formaters of its own (message by value admitted: argType.Elem() panics outside SafeCall; every exported method admitted: mt.In(1) panics in Build) - "
               "for those collections only the model is compared, the property predicate is not evaluated (its claims are about the default formater).  Late completions (scripts 'late' / 'latebad') are played by the harness on the calling goroutine after the call returned, "
               "not from a second goroutine (the event order call-then-late is what the model has; a completion racing with the call's own return is not modelled).  "
               "The fall-through of handleRequest is modelled with the result of remote.Deserialize as a parameter (handleRequestXB: body deserialises | not; the harness "
               "drives 'not' with a type name the process does not know); what Deserialize itself does with bytes is C07's.  Not modelled: concurrent Register while Registry.Build iterates, non-ASCII type names.",
    gen=["cd /verif/harness && go1.26 run ./c13/extract -repo /repo -out /verif/lean/Cell2v/Gen/C13Registry.lean"],
    lean_targets=["Cell2v.Props.C13", "modeld_c13"],
    driver="modeld_c13",
    driver_root="Cell2v.Driver.C13",
    audit="Audit/C13.lean",
    required_theorems=["shape_predicate_exact", "route_table_eq_spec", "exposed_iff_handler_shaped", "naming_applied",
                       "decodes_into_declared_type", "call_with_cb_completes_once_partial", "call_with_cb_completes_once_full_fails",
                       "never_completed_iff_notify_shaped", "no_escaping_panic", "call_without_cb_never_completes",
                       "malformed_route_error", "unknown_route_error", "undecodable_payload_error", "panicking_handler_error",
                       "dispatch_request_answered_once_partial", "dispatch_notify_never_answered", "dispatch_unknown_route",
                       "registry_add_collection_atomic", "registry_same_name_same_collection", "registry_split_lookup_insert_loses",
                       "execution_refines_summary", "exec_completes_exactly_once_partial", "exec_error_paths_one_error_completion",
                       "exec_framework_completions_are_errors", "exec_handler_runs_at_most_once", "exec_no_escaping_panic",
                       "exec_serializer_panic_escapes", "panicking_handler_completions", "panicking_handler_completes_once_iff",
                       "panicking_handler_completes_once_full_fails", "dispatch_complete_then_panic_answers_once",
                       "exec_panic_completion_iff_not_completed", "exec_complete_then_panic_completes_once",
                       "exec_choking_callback_still_gets_error", "panicking_handler_completes_once",
                       "exec_completes_exactly_once_any_callback",
                       "complete_then_panic_completes_once", "prefix_panicking_handler_completions",
                       "prefix_complete_then_panic_completed_twice",
                       "shape_predicate_strict_fails", "exposed_route_callable_iff", "named_pointer_parameter_invoked",
                       "build_does_not_panic", "build_nil_entry_panics", "escapes_iff_message_type_has_no_elem", "custom_formater_can_escape",
                       "dispatch_execution_refines_summary", "exec_dispatch_request_answered_once_partial",
                       "request_without_sender_never_answered", "handle_request_unknown_route", "unknown_route_answered_once_full_fails",
                       "handle_request_unknown_route_legacy_answers_twice", "handle_request_routed_is_dispatch",
                       "helper_is_transparent", "handler_through_helper_same_execution", "call_method_body_through_helper",
                       "helper_choking_callback_still_gets_error", "recovering_helper_loses_the_completion",
                       "recovering_helper_never_reaches_recover",
                       "late_completion_completes_once", "late_choking_completion_escapes", "late_nothing_without_handler",
                       "handle_request_routed_ignores_body", "handle_request_unknown_route_bad_body_escapes",
                       "handle_request_unrouted_bad_body_escapes"],
    harness_pkg="./c13",
    mode="diff",
    reset_prefix="reset",
    runs={
        "quick": [dict(name="main", env={"VERIF_N": "40000"}, timeout=240)],
        "thorough": [dict(name="main", env={"VERIF_N": "800000", "VERIF_RACES": "3000"}, timeout=800),
                     dict(name="seed2", env={"VERIF_N": "400000"}, seed_offset=1000, timeout=800),
                     dict(name="seed3", env={"VERIF_N": "400000"}, seed_offset=2000, timeout=800)],
    },
    trivial=r"^(ok|0|valid=0|bad-op|n=0 |ran=- comps=(-|f:err)|(ret|legacy)=0 ran=- comps=(-|f:err#\d+))?$",
    rule="corpus (D11 witness + one op per clause + a registry race + the D23 family: every complete/panic/choke script) first; registry concurrency stream: in every 5th case 2-4 goroutines call "
         "Registry.AddCollection with the same fresh name inside a forced window (the harness holds the registry's write lock until the goroutine dump "
         "shows all of them parked inside AddCollection, then releases it), each handle gets an entry of its own, Registry.Build(), then every handle is "
         "asked for every route; the lock/lookup/insert structure of AddCollection is re-extracted from the source (go/ast) on every run; bounded exhaustive: every synthetic method shape with <=3 (thorough: <=4) parameters over a pool "
         "of 34 parameter types x exported/unexported through the real IsValidMethod, every route of <=3 (thorough: <=4) segments over an 8-segment "
         "alphabet against a fixed two-entry collection (HasMethod, call with and without completion function); then op lines from one PRNG "
         "(VERIF_SEED): every method of the zoo (8 entry types, ~80 methods: unexported, 1-5 parameters, context by value / "
         "interface / pointer not implementing IContext / pointer-to-pointer, message by value / interface / map / slice / *int / **T / a NAMED pointer type / "
         "a type whose UnmarshalJSON panics, 4th parameter "
         "non-func / func(int) / func() / named func type / func with result, variadic, results, value vs pointer receivers, promoted methods, "
         "anonymous and unexported entry types, names colliding under a name function) and synthetic reflect.Method shapes through IsValidMethod; every "
         "pointer-typed parameter is dumped with the value-pool types reflect says are assignable to it and the type reflect.New(t.Elem()) has; "
         "cases = reset + descriptors + 1-3 collections (plain / registry / aliased / nil formater / 1 in 12 plain ones a formater of the harness's own: message-by-value admitted, or every exported method) + 1-4 entries with group name (WithGroupName/"
         "WithName/WithInnerGroupName) and name function (none/ToLower/ToUpper/ToLowerCamelCase), in every 8th non-registry case one NIL entry (typed nil "
         "pointer / nil interface, with or without a group name an earlier entry owns) + Build (and re-Build after a late Register) + 25-75 "
         "calls: HasMethod/GetArgType, CallWithSerialize (json/proto/nil serializer, 1 in 40 a user serializer whose Unmarshal panics), Collection.Call "
         "with typed/nil/wrong arguments and, for *MsgA / the named pointer type PM, the assignable-but-not-identical other one, "
         "APIDispatcher.Dispatch over several collections (request and notify; 1 in 12 without sender), 1 in 3 of those through Service.Receive/handleRequest "
         "with an absent / silent / answering legacy receiver, with or without a dispatcher, with an empty route, 1 in 8 of those with a body the process cannot deserialise (body=bad: unknown type name); routes: 60% aimed at a real method, else case variants, 0-4 segments, "
         "empty parts, unknown group/method, random bytes; payloads valid/undecodable/empty/truncated/valid JSON value + trailing junk (extra brace, trailing comma, second document, other bytes; trailing white space still decodes); contexts nil/matching/other type; with a plain completion function, "
         "a picky one (1 in 6 of those that carry one: panics on the value the 'bad' scripts complete with, as the dispatcher's closure does) and without; handler scripts "
         "ok/err/twice/err-then-ok/none/panic/runtime-panic/complete-then-panic/error-then-panic/twice-then-panic/late/unserialisable value/error-then-unserialisable value/"
         "late unserialisable value "
         "(corpus d23.txt: each of them through CallWithSerialize with both kinds of completion function, Dispatch and handleRequest; helper.txt: the same with hc=helper; "
         "late.txt: late / latebad through all of them); in half of the calls (hc=helper) the zoo handler completes through apientry.CheckInvokeCBFunc - the helper "
         "every handler of the repository uses - instead of calling the function it was handed. "
         "A case is non-trivial when a handler ran, a table was non-empty or a method was accepted; distinct = distinct (op, observation) pairs",
    trusted_base=[
        "Lean 4.33.0 kernel; axioms of every property theorem audited on each run (allowed: propext, Classical.choice, Quot.sound)",
        "hand-written model lean/Cell2v/Model/ApiMap.lean (summary functions and the execution semantics callX / callWithSerializeX / dispatchX / handleRequestX / buildX) "
        "tied to the Go code by the differential run of this check (harness/c13 + modeld_c13; the model side prints its observations from the executions)",
        "reflect facts (Kind, Implements(IContext), AssignableTo(HandlerCBFunc), AssignableTo between declared parameter types and the dynamic types of the values the "
        "harness passes, reflect.PtrTo(t.Elem()), method sets, PkgPath) are taken from the harness dump of the real reflect.Method values; one Go rule is built into the "
        "model: a value of the unnamed type *E is assignable to a named pointer type with underlying type *E",
        "serializers abstracted as a function (declared type, payload) -> value | error | panic given by REFERENCE decoders the harness calls directly, never through utils/serialize (which is code under test): json = the whole byte string is one JSON value (encoding/json.Valid) that encoding/json.Unmarshal stores into the type (a panic of the type's own UnmarshalJSON is the result 'panic'); proto = proto.Unmarshal into a proto.Message; the result is passed as hints",
        "sync.RWMutex gives mutual exclusion, so a body that looks up and inserts inside one write-locked section is one atomic step (the section structure itself is "
        "extracted from api_registry.go by harness/c13/extract into Gen/C13Registry.lean and checked by theorem registry_add_collection_atomic)",
        "harness canonicalisation (map iteration sorted, error texts dropped, completions tagged by who issued them, a ServiceResponse counted when it is handed to Context.Send, panics caught by recover and mapped to 'panic')",
    ],
    assumptions=[
        "handler discipline: the exactly-once guarantee is about handlers that complete exactly once (and then return OR PANIC: D23 is fixed, a framework completion "
        "on top of a handler's own is alarmed on as C13/callback-completed-twice), or panic before completing; a handler that never completes, or that ITSELF invokes "
        "the completion function more than once, is outside the statement (the framework hands the function over and cannot prevent it: "
        "panicking_handler_completes_once_iff, panicking_handler_completes_once_full_fails)",
        "the completion function passed by the caller does not panic on an ERROR completion; one that panics on a VALUE it cannot take is inside the model (a 'picky' completion "
        "function: the dispatcher's own closure, and a picky function of the harness's own driven through CallWithSerialize / Call directly, cb=2; "
        "exec_completes_exactly_once_any_callback, exec_choking_callback_still_gets_error)",
        "the serializer's Unmarshal returns (a value or an error): when it PANICS (user serializer; message type whose UnmarshalJSON panics under the JSON serializer) the panic "
        "leaves CallWithSerialize and the completion function is never invoked (exec_serializer_panic_escapes, observed on the real code on every run, judged "
        "'outside-statement', NOT alarmed on - a candidate finding for the lead to classify)",
        "'exposes exactly the handler-shaped methods' is checked with 'completion function' = any func-kinded 4th parameter, as the code has it; read strictly "
        "(the parameter must accept HandlerCBFunc) it is false (shape_predicate_strict_fails): such methods are exposed, HasMethod says true, and every call is recovered "
        "into one error completion (exposed_route_callable_iff, reflect_mismatch_recovered; observed on the real code: ZooA.CbFuncInt / CbFuncNone / CbRetBool) - a candidate finding",
        "service level: a request carries a sender (without one nothing is ever answered: request_without_sender_never_answered, tied), and the legacy receiver a request with an "
        "unknown route falls through to does not answer it as well (with an answering receiver the requester gets 'no method' AND that answer: "
        "unknown_route_answered_once_full_fails, observed on the real code, judged 'outside-statement')",
        "entries handed to Register are not nil (a nil entry makes Build panic: build_nil_entry_panics, tied, judged 'outside-statement': start-up programmer error) and the "
        "formater is the default one or nil (an arbitrary IAPIFormatter can make Build panic and calls escape: custom_formater_can_escape; tied for two formaters of the harness, not judged)",
        "type and method names are ASCII (isExported / name functions are modelled on bytes); assignability of the CONTEXT argument is what reflect reports for the context "
        "values of the harness (for a parameter the predicate admits - an unnamed pointer type implementing IContext - that is type identity)",
        "a handler that completes AFTER the call returned does so with a value its completion function can take: one it chokes on (the dispatcher's closure: "
        "Response on an unserialisable result) panics with no SafeCall above it, nothing is completed and the goroutine dies (late_choking_completion_escapes, "
        "observed on the real code on every run, judged 'outside-statement', NOT alarmed on - a candidate finding for the lead to classify)",
        "service level: the body of a request that falls through to the legacy path (no dispatcher, no route, unknown route) deserialises in the receiving process; when it "
        "does not (type name unknown there) handleRequest panics - after 'no method' was answered for an unknown route (handle_request_unknown_route_bad_body_escapes, "
        "observed on the real code on every run, judged 'outside-statement', NOT alarmed on - a candidate finding for the lead to classify)",
        "D11 (known finding C13/request-on-notify-shaped-never-completes) is pinned by the baseline test apientry::TestCall and stays: the model returns 'nothing' there",
    ],
)
