CONFIG = dict(
    id="C13",
    engine="pure",
    technique="Lean 4 theorems (shape predicate = handler shape, route table = declarative description for every entry list, "
              "exactly-once completion / no escaping panic for every route, payload, serializer, context and disciplined handler, dispatcher answers once) "
              "over a hand-written model of apimapper + differential correspondence with the real code on a method zoo",
    level_text="Machine-checked proof in Lean 4 that the model of formater.IsValidMethod / APIContainer / APICollection / CallWithSerialize / "
               "APIDispatcher exposes exactly the exported handler-shaped methods under group.method with the naming applied (for every list of "
               "registered entries and options), decodes into the declared message type and invokes exactly that handler once, completes a "
               "completion function exactly once on every path except a request on a notify-shaped method (D11, known finding; the full statement "
               "is refuted by a concrete witness and D11 is proved to be the only such path), and lets no panic escape.  The model is tied to the Go "
               "code on every run by executing both on a zoo of ~75 real methods plus thousands of synthetic reflect.Method shapes, all naming "
               "options, JSON/protobuf/nil serializers, routes from a malformed stream and valid/undecodable/empty payloads; the property predicate "
               "is evaluated on the implementation's own observations with the declarative route table.",
    level_note="Trusted: Lean kernel, the harness/driver line protocol, reflect facts as dumped by the harness (Kind, Implements(IContext), "
               "AssignableTo, method sets), the serializer as an abstract function of (declared type, payload). The theorems are about the model; "
               "the differential run ties it to the code on sampled inputs only.",
    gen=["cd /verif/harness && go1.26 run ./c13/extract -repo /repo -out /verif/lean/Cell2v/Gen/C13Registry.lean"],
    lean_targets=["Cell2v.Props.C13", "modeld_c13"],
    driver="modeld_c13",
    driver_root="Cell2v.Driver.C13",
    audit="Audit/C13.lean",
    required_theorems=["shape_predicate_exact", "route_table_eq_spec", "exposed_iff_handler_shaped", "naming_applied",
                       "decodes_into_declared_type", "call_with_cb_completes_once_partial", "call_with_cb_completes_once_full_fails",
                       "never_completed_iff_notify_shaped", "no_escaping_panic", "call_without_cb_never_completes",
                       "malformed_route_error", "unknown_route_error", "undecodable_payload_error", "panicking_handler_error",
                       "dispatch_request_answered_once_partial", "dispatch_notify_never_answered", "dispatch_unknown_route",
                       "registry_add_collection_atomic", "registry_same_name_same_collection", "registry_split_lookup_insert_loses"],
    harness_pkg="./c13",
    mode="diff",
    reset_prefix="reset",
    runs={
        "quick": [dict(name="main", env={"VERIF_N": "40000"}, timeout=240)],
        "thorough": [dict(name="main", env={"VERIF_N": "800000", "VERIF_RACES": "3000"}, timeout=800),
                     dict(name="seed2", env={"VERIF_N": "400000"}, seed_offset=1000, timeout=800),
                     dict(name="seed3", env={"VERIF_N": "400000"}, seed_offset=2000, timeout=800)],
    },
    trivial=r"^(ok|0|valid=0|bad-op|n=0 |ran=- comps=(-|f:err)|ret=0 ran=- comps=(-|f:err#\d+))?$",
    rule="corpus (D11 witness + one op per clause + a registry race) first; registry concurrency stream: in every 5th case 2-4 goroutines call "
         "Registry.AddCollection with the same fresh name inside a forced window (the harness holds the registry's write lock until the goroutine dump "
         "shows all of them parked inside AddCollection, then releases it), each handle gets an entry of its own, Registry.Build(), then every handle is "
         "asked for every route; the lock/lookup/insert structure of AddCollection is re-extracted from the source (go/ast) on every run; bounded exhaustive: every synthetic method shape with <=3 (thorough: <=4) parameters over a pool "
         "of 33 parameter types x exported/unexported through the real IsValidMethod, every route of <=3 (thorough: <=4) segments over an 8-segment "
         "alphabet against a fixed two-entry collection (HasMethod, call with and without completion function); then op lines from one PRNG "
         "(VERIF_SEED): every method of the zoo (8 entry types, ~75 methods: unexported, 1-5 parameters, context by value / "
         "interface / pointer not implementing IContext / pointer-to-pointer, message by value / interface / map / slice / *int / **T, 4th parameter "
         "non-func / func(int) / func() / named func type / func with result, variadic, results, value vs pointer receivers, promoted methods, "
         "anonymous and unexported entry types, names colliding under a name function) and synthetic reflect.Method shapes through IsValidMethod; "
         "cases = reset + descriptors + 1-3 collections (plain / registry / aliased / nil formater) + 1-4 entries with group name (WithGroupName/"
         "WithName/WithInnerGroupName) and name function (none/ToLower/ToUpper/ToLowerCamelCase) + Build (and re-Build after a late Register) + 25-75 "
         "calls: HasMethod/GetArgType, CallWithSerialize (json/proto/nil serializer), Collection.Call with typed/nil/wrong arguments, "
         "APIDispatcher.Dispatch over several collections (request and notify); routes: 60% aimed at a real method, else case variants, 0-4 segments, "
         "empty parts, unknown group/method, random bytes; payloads valid/undecodable/empty/truncated/valid JSON value + trailing junk (extra brace, trailing comma, second document, other bytes; trailing white space still decodes); contexts nil/matching/other type; with and "
         "without completion function; handler scripts ok/err/twice/none/panic/runtime-panic/complete-then-panic/late/unserialisable value. "
         "A case is non-trivial when a handler ran, a table was non-empty or a method was accepted; distinct = distinct (op, observation) pairs",
    trusted_base=[
        "Lean 4.33.0 kernel; axioms of every property theorem audited on each run (allowed: propext, Classical.choice, Quot.sound)",
        "hand-written model lean/Cell2v/Model/ApiMap.lean tied to the Go code by the differential run of this check (harness/c13 + modeld_c13)",
        "reflect facts (Kind, Implements(IContext), AssignableTo(HandlerCBFunc), method sets, PkgPath) are taken from the harness dump of the real reflect.Method values",
        "serializers abstracted as a function (declared type, payload) -> value | error given by REFERENCE decoders the harness calls directly, never through utils/serialize (which is code under test): json = the whole byte string is one JSON value (encoding/json.Valid) that encoding/json.Unmarshal stores into the type; proto = proto.Unmarshal into a proto.Message; the result is passed as hints",
        "sync.RWMutex gives mutual exclusion, so a body that looks up and inserts inside one write-locked section is one atomic step (the section structure itself is "
        "extracted from api_registry.go by harness/c13/extract into Gen/C13Registry.lean and checked by theorem registry_add_collection_atomic)",
        "harness canonicalisation (map iteration sorted, error texts dropped, completions tagged by who issued them, panics caught by recover and mapped to 'panic')",
    ],
    assumptions=[
        "handler discipline: the exactly-once guarantee is about handlers that complete exactly once and return, or panic before completing; a handler that "
        "completes and THEN panics gets a second completion ('panic in rpc') from SafeCall (theorem complete_then_panic_completes_twice, observed on the "
        "real code, not alarmed on); a handler that never completes or completes twice is outside the statement",
        "the completion function passed by the caller does not itself panic (the dispatcher's own callback may: that case is modelled)",
        "type and method names are ASCII (isExported / name functions are modelled on bytes); assignability of context and message arguments = type identity "
        "(holds for the pointer types the shape predicate admits)",
        "D11 (known finding C13/request-on-notify-shaped-never-completes) is pinned by the baseline test apientry::TestCall and stays: the model returns 'nothing' there",
    ],
)
