CONFIG = dict(
    id="C03",
    engine="bubble-node",
    technique="Lean 4 invariant proof over all schedules of a hand-written FIFO-network model (issuer threads -> task queue -> per-sender transport "
              "-> front mailbox as an arbitrary order-preserving merge -> per-connection send queue -> socket), the sche overflow-path constant "
              "re-extracted from the Go source by a go/ast translator, + differential run of a whole single-process node (real front/back services, "
              "real sessions over in-memory connections) inside a testing/synctest bubble, accepted by the model and judged by the property predicate",
    level_text="Machine-checked proof in Lean 4 that in the model of the push/response path (Model/FifoNet.lean), for every schedule, any number of "
               "services, worker goroutines, clients and burst sizes, any interleaving of the senders in the front's mailbox, full task queues with "
               "blocked posters, and sessions closing under way: for every issuing thread S (a service's own goroutine or a worker posting closures; "
               "back-end reached through forwarding, or the front-end that owns the connection) and every client c, the part of c's socket stream "
               "that originates from S is an initial segment of S's issue order towards c (projection_preserved, socket_in_issue_order), its counters "
               "are 0,1,2,.. (no gap, repetition or inversion), whatever was issued before a response has arrived before it (push_before_response), "
               "and once the stages are drained everything has arrived exactly once (drained_all_arrived); a closing session loses a suffix only. "
               "The SERVICE as the unit of order (Lemmas/FifoNetSvc.lean): with the hand-over log e of a schedule (ReachableX: every item in the order in which a "
               "service goroutine handed it to the framework - handler code, timer callbacks and the closures of ALL its workers as executed), for every service S "
               "and client c the part of c's stream that comes from S, whatever thread issued it, is an initial segment of S's hand-over order (service_order_preserved, "
               "socket_in_service_order), so a push handed over before the completion arrives before the response also when a worker's posted closure completes the "
               "request (service_push_before_response); the hand-over log restricted to a thread is a prefix of that thread's issue/Post order (handed_over_in_issue_order); "
               "and no reachable state is stuck: a continuation of deliver/process/write steps that issues nothing brings everything S handed over to an open "
               "connection, also from a front blocked on a full send queue (service_eventually_all_arrived; induction on queue lengths). "
               "The pre-repair behaviour of D8 (front-local push through the front's own mailbox) and the selfBlockDefend overflow path of Sche.Post are "
               "and a send queue that spills over to helper goroutines instead of blocking are proved to break the statement (small witnesses); the bounded send "
               "queue with a blocked sender is part of the model. selfBlockDefend=false / assigned nowhere / QueueSize are re-extracted from utils/sche on "
               "every run. The model is tied to the code by running the real node (gate-1 + chat-1..3, real ClientSession/ClientSessions/Handler/Forwarder/"
               "sys.pushmsg/sys.call, SmoothFrameMailbox, Sche) in a synctest bubble: scripted handlers issue counted pushes before/after completing, bursts "
               "of 10^3 (quick) to 10^4 (thorough) pushes, virtual sleeps past the 20 ms frame budget (smoothing pauses on back-ends and, via naps, on "
               "the front), timers, PushMessageByIds, workers posting >999 closures into a busy service (blocking posts), clients closing mid-burst, clients that stop "
               "reading until the 9999-slot send queue is full and the front blocks on it (GOMAXPROCS 8 and 1); the "
               "a client closing while the front is busy so that multi-target pushes name the dead, not yet removed connection before live ones, with on-close "
               "callbacks of the front (SetOnCloseHandler / AddOnSessionOnClose) that push to the others; clients repeating HandshakeAck / the whole handshake on a "
               "working connection over a link that holds single packets up for some ms; pushes of a value the serializer rejects (empty body, ids in the route); the "
               "model must accept every client's stream (a confluent search for a front schedule that writes exactly the observed streams) and the "
               "property predicate is evaluated on the implementation's own issue logs and arrival streams - per thread AND per service (arrivals from one service, all "
               "threads together, must follow the service goroutine's own execution log).",
    level_note="Partial: proto.actor per-(sender,receiver) FIFO, Go channel FIFO (chSend, chanTask) and net.Conn/TCP ordering are assumptions of the "
               "model; the front mailbox's own FIFO is C09's theorem (delivered_prefix), the task queue's per-poster FIFO is C15's; a response that "
               "reaches the front after its 30 s request timeout is dropped there (outside the model); actor `remote`, the TCP/WS acceptors and etcd are "
               "bypassed by the engine. Per-ITEM drops are outside the model (its only loss is the suffix of a closed session): ClientSession.send drops a packet the "
               "encoder refuses (PomeloPacketEncoder: payload >= 2^24 bytes) and later items are still delivered - reproduced on the real code (reset n=1; req c=0 to=0 "
               "r=1/p0,p0b16777216,p0,r,p0 -> the client reads #0,#2,#3r,#4) and stated as an assumption below, the generator stays below 64 KB. The configuration the "
               "theorems are instantiated at takes selfBlockDefend/QueueSize from the source; localDirect=true (pushLocal) and sendOverflow=false (pushToSend blocks) are "
               "tied behaviourally only: the D8 corpus case, the front-local sweep and the two stalled-client cases run on every run and the model driver uses the same "
               "Cfg. A multi-target PushMessageByIds is one mailbox message in Go and independent items in the model (more interleavings: an over-approximation, safe "
               "for the prefix theorems; the fan-out loop itself - re-entrancy, a block in the middle - is covered by the differential run only). Progress is proved as "
               "'never stuck' (a draining continuation exists), not under a fairness assumption about the Go scheduler. The theorems are about the model; the "
               "differential run ties it to the code on sampled schedules only.",
    gen=["cd harness && go1.26 run ./extract/c15 -out ../lean/Cell2v/Gen/C15Consts.lean"],
    lean_targets=["Cell2v.Props.C03", "modeld_c03"],
    driver="modeld_c03",
    driver_root="Cell2v.Driver.C03",
    audit="Audit/C03.lean",
    required_theorems=["shipped_overflow_path_off", "projection_preserved", "socket_in_issue_order", "arrived_counters", "arrival_position",
                       "push_before_response", "nothing_duplicated", "drained_all_arrived", "closed_loses_only_a_suffix", "front_local_order",
                       "front_local_order_pre_fix_fails", "overflow_path_reorders", "send_overflow_path_reorders",
                       "full_queue_blocks_the_front", "no_stage_blocks",
                       "service_order_preserved", "socket_in_service_order", "service_push_before_response", "handed_over_in_issue_order",
                       "service_drained_all_arrived", "service_eventually_all_arrived", "every_schedule_has_a_hand_over_log"],
    harness_pkg="./c03",
    mode="accept",
    reset_prefix="reset",
    runs={
        "quick": [dict(name="main", env={"VERIF_N": "2500"}, timeout=150),
                  dict(name="p1", env={"VERIF_N": "500"}, seed_offset=500, procs=1, timeout=150)],
        "thorough": [dict(name="main", env={"VERIF_N": "40000"}, timeout=800),
                     dict(name="seed2", env={"VERIF_N": "25000"}, seed_offset=1000, timeout=800),
                     dict(name="seed3", env={"VERIF_N": "25000"}, seed_offset=2000, timeout=800),
                     dict(name="p1", env={"VERIF_N": "20000"}, seed_offset=3000, procs=1, timeout=800)],
    },
    trivial=r"^(-|ok n=\d+|open=[\d,]*|bad-op)?$",
    rule="one PRNG (VERIF_SEED). A case = reset n=<1-4 clients> then rounds of requests (one or more per frame) to the front (gate-1) or a back-end "
         "(chat-1..3, routed by a session key), each carrying a handler script: pushes to its own / other clients before and after the response (response "
         "first / middle / last), small bursts, PushMessageByIds to all, sleeps of 1-40 ms on the service goroutine (around the 10/20 ms mailbox frame budget), "
         "timers firing later, worker goroutines posting closures (the last of which may complete the request), naps that make the front sleep inside its "
         "mailbox run; scripts of one round start at the same virtual instant on different service goroutines (real parallelism, GOMAXPROCS 8, extra "
         "Gosched at the mailbox's verif yield points). Special cases: front-local push/response shapes (D8), bursts of 200-1000 (quick) / up to 10^4 "
         "(thorough) pushes from 2-4 issuers to one client, a worker posting 990-4000 closures into a sleeping service (task queue full, blocking posts), "
         "a client closing while bursts for it are under way, a client that STOPS READING while > 10000 messages plus the response are issued towards it "
         "(the session's writer blocks in conn.Write, chSend (9999) fills, the front's goroutine blocks in pushToSend - front-local issuer: inside the handler, "
         "back-end issuer: inside its mailbox run) with a second client that keeps reading, then reads again (two such cases in the deterministic sweep of "
         "every run + random ones); a write on a client's connection failing with a timeout net.Error (1-3 times in a row, optionally after half the packet) while later packets are "
         "queued behind it (the session must end or go on in order; the model closes the connection once the client's stream is consumed); "
         "payload sizes mixed within one burst (mostly small; 4000-4097 bytes around a 4 KB boundary, 5 KB, 8 KB, 64 KB) for pushes and responses, towards "
         "stalled and reading clients (ten such cases in the sweep of every run; ids sit in the payload head, independent of size); "
         "the front-end held for 31.5-35 s of virtual time (longer than the 30 s request timeout + expiry tick) while a back-end's timers push to its clients "
         "(the expired sys.pushmsg requests must not be delivered twice); handlers that Set a session value without pushing it (dirty BackSession) before "
         "answering, followed at once by a push / a pipelined response of the same service; one PushMessageByIds to 257-344 connections of the front (four "
         "observed clients listed #1, #256, #257 and last among unobserved real sessions) followed at once by a push/response to a late-listed connection; "
         "a client closing while the front sleeps inside a handler (its session closed, the posted RemoveSession not yet run) followed by PushMessageByIds of the "
         "front and of another service whose id lists name the dead connection before live ones, with on-close callbacks (reset bye=1: SetOnCloseHandler for even, "
         "AddOnSessionOnClose for odd clients) pushing a notice to the other clients when the removal runs - also in a third of the mixed and half of the close cases; "
         "a client that sends one or two more HandshakeAck packets (or a whole second handshake) on its working connection and whose link then holds 1-3 single "
         "packets up for 1-25 ms each (op lag) while a burst and the response are queued; pushes of a value encoding/json rejects (NaN: action u<c>, travels with an "
         "empty body, ids in the route) before / after the response, front-local and from back-ends (two cases of each of these three in the sweep of every run); "
         "runs with GOMAXPROCS 8 and 1. Each op runs to quiescence (synctest.Wait) and reports the issue logs (per worker in Post "
         "order, per service goroutine in execution order) and per client the arrival stream; corpus (the D8 witness) first. Non-trivial = an op that "
         "produced issue or arrival records; distinct = distinct (op, observation) pairs.",
    trusted_base=[
        "Lean 4.33.0 kernel; axioms of every property theorem audited on each run (allowed: propext, Classical.choice, Quot.sound)",
        "the hand-over log of Lemmas/FifoNetSvc.lean (ReachableX/handed) is defined over the same model steps; tied to the code by the service goroutines' own logs (L sections) judged by the spec monitor",
        "hand-written model lean/Cell2v/Model/FifoNet.lean, tied to the Go code by the differential run of this check (harness/c03 + modeld_c03 accept/spec)",
        "translator harness/extract/c15 (go/ast): selfBlockDefend initial value and absence of assignments, QueueSize (shared with C15)",
        "C09: the front mailbox delivers user messages once, in push order (theorem delivered_prefix of Props/C09) - cited, the model's mailbox is a list",
        "C15: Sche.Post/chanTask per-poster FIFO for blocked posters (theorem per_poster_fifo of Props/C15) - the model's task queue restates it",
        "proto.actor: messages from one sender to one receiver are delivered in send order, each once (local process registry here; `remote` not exercised)",
        "Go channel FIFO (ClientSession.chSend, Sche.chanTask), net.Conn write order = read order (net.Pipe here, TCP in production)",
        "shared bubble-node engine harness/node (real components, in-memory connections) and testing/synctest (go1.26) quiescence / virtual time",
        "harness canonicalisation: payload tags decoded to (service, thread, counter, kind) - for a push with an empty body from its route; heartbeats/handshakes ignored",
    ],
    assumptions=[
        "issue order of a thread = order in which its code called PushMessageById(s) / completed the request (for a worker goroutine: order of its Service.Post calls)",
        "a handler completes each request at most once and within the 30 s request timeout (a later response is dropped by the front: C01/C02)",
        "every push / response encodes to a packet the pomelo encoder accepts (payload < 2^24 bytes, route <= 255 bytes): a refused packet is dropped alone by ClientSession.send and later items still arrive (reproduced, see level_note)",
        "one front-end per connection; the connection is not re-opened under the same session id",
        "code running on the service goroutine does not Post to its own full task queue (documented deadlock, C15)",
    ],
)
