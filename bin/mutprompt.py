import json,sys
pid=sys.argv[1]; n=sys.argv[2] if len(sys.argv)>2 else "3"
for l in open('/verif/properties.jsonl'):
    p=json.loads(l)
    if p['id']==pid: break
wt="/tmp/wt-"+pid.lower()
print(f"""You are testing how good a (hidden) verification suite is at catching regressions. Work ONLY inside the git worktree {wt} (a checkout of the Go repository dfklegend/cell2: a game-server framework on proto.actor). Do not look at or touch /repo, /verif or any other directory outside {wt} and /tmp/mut-{pid.lower()} (your scratch). Go environment for every shell call: `export GOFLAGS=-mod=mod GOPROXY=off GOSUMDB=off GOTOOLCHAIN=local` (no network; default `go` is 1.23, `go1.26` also exists). The repository has several Go modules: the root module, ./utils, ./apimapper, ./pomelonet (pomelonet does not build standalone: build its packages through the root module, e.g. `go build ./...` in the root compiles everything reachable), and `_projects/mmo/server` (module `mmo`, does not resolve offline on its own; its packages servers/center, servers/scenem, servers/scene/space compile when imported from a scratch module with `replace mmo => {wt}/_projects/mmo/server` plus `replace` pins github.com/magiconair/properties=>v1.8.6, github.com/fatih/color=>v1.13.0, github.com/mattn/go-colorable=>v0.1.12, github.com/mattn/go-isatty=>v0.0.14 and a go.sum made of the union of the repo's go.sum files).

The property under attack (this text is all you get about it):
  id: {p['id']}
  title: {p['title']}
  statement: {p['statement']}
  quantified over: {p['quantifier']['text']}
  code it is anchored in: {', '.join(p['anchors']['files'])}

Your task: produce {n} DIFFERENT realistic source changes (each independent, each applied to a clean checkout) to the non-test Go code of this repository that BREAK the property, while (1) the repository still compiles (`go build ./...` in the root module and in ./utils, ./apimapper as applicable), and (2) the repository's existing tests of the packages you touched and of their direct users still pass (`go test -vet=off -count=1 ./<pkg>/...` in the right module; some tests are slow — run only the relevant packages; note three tests already fail on the clean tree and do not count: utils/common Test_AutoRound, utils/sche Test_Panic, utils/waterfall Test_Simple). Make them the kind of bug a tired maintainer could really introduce (an off-by-one, a dropped re-check, a reordered pair of statements, a condition weakened, a missing return/unlock/cleanup, a wrong variable), NOT sabotage that ordinary use exposes at once: each change must need something specific to manifest — a particular interleaving, a fault at a particular point, a multi-step sequence, an unusual input, or two cooperating sites that each look fine alone. Do not touch build-tag `verif` hook files (verifhook_*.go) and do not remove `vy(...)` calls; do not edit tests.

For each change i = 1..{n} create the directory /tmp/mut-{pid.lower()}/m<i>/ containing:
  * patch.diff — `git diff` of the change against the worktree's HEAD (apply-able with `git apply` at the repository root);
  * a demonstration: a Go test file (or small program) plus a `run.sh` that, given the path of a checkout as $1, copies the test where it needs to be (or builds a scratch module with replace directives pointing at $1) and runs it; it must FAIL (non-zero exit) on a checkout with the patch applied and PASS (exit 0) on a clean checkout. Deterministic please: if the failure needs an interleaving, force it (sleeps/channels/hooks in the test, `testing/synctest` with go1.26 if you need virtual time — a go.mod saying `go 1.26.8` enables it) rather than hoping for it;
  * meta.json — {{"property": "{p['id']}", "summary": "...what was changed...", "why_it_breaks": "...", "needs_to_manifest": "...", "tests_run": ["commands you ran and their outcome"]}}.
Verify everything yourself: for each change start from a clean worktree (`git -C {wt} checkout -- . && git -C {wt} clean -fd -e _mut` ), apply, build, run the relevant existing tests, run the demonstration (fails), revert, run the demonstration (passes). Leave the worktree clean at the end. Final message: for each change two lines (what, what it needs to manifest) and the verification results.""")
