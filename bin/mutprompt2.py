import json,sys,glob,os
pid=sys.argv[1]; n=sys.argv[2] if len(sys.argv)>2 else "3"; rnd=sys.argv[3] if len(sys.argv)>3 else "2"
base=os.popen("python3 /verif/bin/mutprompt.py %s %s"%(pid,n)).read()
base=base.replace("/tmp/mut-%s"%pid.lower(), "/tmp/mut%s-%s"%(rnd,pid.lower())).replace("/tmp/wt-%s"%pid.lower(), "/tmp/wt%s-%s"%(rnd,pid.lower()))
tried=[]
for d in sorted(glob.glob("/verif/seeded/%s-ind*-m*"%pid)):
    try:
        m=json.load(open(d+"/meta.json"))
        s=m.get("summary") or m.get("kind") or ""
        if s: tried.append("- "+" ".join(str(s).split())[:400])
    except Exception: pass
extra=""
if tried:
    extra="\n\nChanges ALREADY TRIED by earlier testers (do NOT repeat these or trivial variants of them; choose other functions, other files of the anchor list, other clauses of the property, other failure mechanisms — e.g. state left behind on an error path, an edge of a numeric range, a re-entrant call, a second caller of a helper, behaviour only under a full queue / wrap-around / concurrent start, a cleanup skipped on one of several exits):\n"+"\n".join(tried)+"\n"
print(base.rstrip()+extra)
