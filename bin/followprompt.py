#!/usr/bin/env python3
"""followprompt.py <Cxx> [seed-prefix]: prompt for the builder agent that MAINTAINS an existing check:
(a) escaped independent mutations of that property (seeded/<Cxx>-<prefix>*-m*/ with check_result NOT DETECTED),
(b) deepening goals: what checks/Cxx.py itself lists as assumed / partial / not modelled."""
import sys, os, json, glob, importlib.util
VERIF = os.path.dirname(os.path.dirname(os.path.abspath(__file__)))
pid = sys.argv[1]
prefix = sys.argv[2] if len(sys.argv) > 2 else "ind"
spec = importlib.util.spec_from_file_location("c", os.path.join(VERIF, "checks", pid + ".py"))
m = importlib.util.module_from_spec(spec); spec.loader.exec_module(m)
C = m.CONFIG
esc, weak = [], []
for d in sorted(glob.glob(os.path.join(VERIF, "seeded", "%s-%s*" % (pid, prefix)))):
    try:
        meta = json.load(open(os.path.join(d, "meta.json")))
    except Exception:
        continue
    if meta.get("expected", "").startswith("harmless"):
        continue
    r = meta.get("check_result", "")
    if "NOT DETECTED" in r or "no violation" in r:
        esc.append((os.path.basename(d), meta))
    elif "no-failing-input-found" in r and "witness" not in r and "C" + pid[1:] + "_" not in r:
        weak.append((os.path.basename(d), meta))
lc = pid.lower()
print(f"""You maintain ONE property's verification check inside the existing framework at /verif for the Go repository /repo (dfklegend/cell2). Property {pid}. The check exists, is claimed in MANIFEST.json and passes on the unchanged tree. Technique (fixed): machine-checked proof in Lean 4 about a hand-written executable model + a correspondence run between that model and the real Go code + the property predicate ("spec") evaluated on the implementation's own observations.

Read first, in this order: /verif/BUILDING.md (rules, layout, line protocol, locking, the overlay method for trying a mutated file, the list of shared files you must not edit); /verif/DESIGN.md Part I (A.1, A.5, A.7) and the plan for {pid} in section 6; the record of {pid} in /verif/properties.jsonl; then YOUR files: /verif/checks/{pid}.py, the Lean modules it names (lean_targets / driver_root / audit, and what they import under /verif/lean/Cell2v/Model, Lemmas, Props, Driver, Spec, Gen), /verif/harness/{lc}/ (and harness/node or harness/extract/{lc} if the config uses them), /verif/harness/corpus/{pid}/; /verif/bin/check (how verdicts are formed); and the anchored Go code.

You have two jobs. Job A comes first.
""")
print("## Job A - independent mutations that ESCAPED the check\n")
if not esc and not weak:
    print("None are open for this property at the moment. Go straight to job B.\n")
else:
    print("Each directory below holds patch.diff (a change to /repo that breaks the property, still compiles, passes the repo's own tests), the author's "
          "demonstration (run.sh + test) and meta.json (what it breaks, what it needs to manifest). Reproduce with `bin/tryseed <name>` (runs your check "
          "against the patched sources by overlay; prints the whole output; never touches /repo). For each one: find out WHY the check misses it (an input class "
          "the generator never produces? an observable the harness does not record? behaviour the model abstracts away?) and extend generator / observation / "
          "model / spec so that the check reports it - with a concrete failing input from the spec monitor (a witness) wherever possible, not merely "
          "`no-failing-input-found`. Where the model grows, add the theorem(s) that cover the new component. Do NOT special-case the mutation: the extension must "
          "be a natural widening (a new op kind, a new generator stream, a new observation) that would also catch neighbours of that mutation. Keep the unchanged "
          "tree silent (VERIF_SEED 1..5 quick, and the thorough tier) and keep the quick tier within ~60-90 s wall.\n")
    for name, meta in esc:
        print(f"* /verif/seeded/{name}  [ESCAPED]  {' '.join(str(meta.get('summary',''))[:500].split())}\n    needs: {' '.join(str(meta.get('needs_to_manifest',''))[:400].split())}")
    for name, meta in weak:
        print(f"* /verif/seeded/{name}  [detected only as no-failing-input-found - try to get a witness]  {' '.join(str(meta.get('summary',''))[:300].split())}")
    print()
print("## Job B - bring more of the code inside the model, prove more, tighten the tie\n")
print("The check's own configuration lists what is assumed, partial or not modelled today:\n")
print("level_note: " + C.get("level_note", "") + "\n")
for a in C.get("assumptions", []):
    print("assumption: " + a)
rv = os.path.join(VERIF, "reviews", pid + ".md")
if os.path.exists(rv):
    print("\nAn independent sceptical reviewer compared the property statement, your theorems and the Go code; the findings are in /verif/reviews/%s.md. "
          "Read them. For each finding decide: valid -> fix it (add the missing theorem, strengthen the weak one, remove a vacuous hypothesis, make the model follow the code, "
          "extend generator/observation so the tie covers it); not valid -> say why in one line of your report. A finding that shows the model does NOT do what the Go code "
          "does has priority over everything else in job B: reproduce it on the real code first (the default repair is to the model).\n" % pid)
print(f"""
Pick the items that are LOGIC of the code rather than Go-runtime facts (a branch of the code that is 'not modelled', a path that is 'outside the model', a component that is 'bypassed', an assumption about ANOTHER part of cell2 that a model could discharge, a structural fact that is only asserted) and move as many as you can inside: extend the executable model so it mirrors that code, extend the harness generator and observation so the correspondence run exercises it on every run, state and prove the theorems the property needs about the new component (unbounded quantification by induction / invariants / refinement; a `decide` over samples is a test), with a non-vacuity example per conditional theorem. Also: replace hypotheses of existing theorems by proved facts where the model can carry them; where a structural fact about the source is load-bearing for a theorem, prefer a behavioural tie (drive the real code) over a syntactic one, and if it must be syntactic make the extractor robust to helper extraction, renaming, moving code between files and reordering of independent statements. Update `level_text` / `level_note` / `assumptions` / `trusted_base` / `required_theorems` / `rule` in checks/{pid}.py so they describe exactly what is now proved, tied and assumed (they are copied into MANIFEST.json and the evidence file). Never weaken or delete an existing theorem, never loosen the spec monitor to make something quiet, never touch properties.jsonl.

## Acceptance (run all of it yourself before you report)
* `cd /verif && bin/check {pid}` exits 0 with no VIOLATION line for VERIF_SEED=1..5 (quick tier, ~60-90 s wall at most), and `bin/check {pid} --tier thorough` passes too (<= 15 min).
* every seeded change of this property still gives the recorded result or better: `bin/runseeds -j1 {pid}` (takes a while; harmless rewrites `*-h*` must stay silent, mutations must stay detected).
* no sorry/admit/axiom/native_decide/bv_decide/unsafe/implemented_by/maxHeartbeats 0; axioms only propext, Classical.choice, Quot.sound; every tactic block fast.
* evidence validates against /root/.vp/EVIDENCE.schema.json (bin/check writes it; run a plain `bin/check {pid}` LAST so the evidence file comes from the unchanged tree).
Do not commit anything (the lead commits). Do not edit shared files (BUILDING.md lists them) or other properties' files; do not modify /repo (overlays only; if you need a `verif`-tagged hook in /repo, describe it in your report). While you ITERATE on Lean, work in a private copy so that you never wait for the lock: `mkdir -p /tmp/{lc}-work && cp -a /verif/lean /tmp/{lc}-work/lean` (278 MB, includes the compiled .lake), edit and `lake build Cell2v.Props.{pid} modeld_{lc}` there freely, then copy the finished .lean files back into /verif/lean. In /verif/lean itself `lake` runs only under the lock (`flock /verif/lean/.verif.lock lake build ...`; bin/check takes it by itself) - use it for the final verification, not for every proof attempt; other builders are working on other properties at the same time, so expect to wait for the lock and never kill processes you did not start. Scratch under /tmp/{lc}-work, removed at the end.

Final message (the only thing the lead sees), compact: for each job-A item what was missing and what now catches it (signature); for job B what was moved inside the model, the new theorems (one line each), what was tried and dropped; files changed; quick/thorough wall time; runseeds summary (any change of result); anything the lead must do; any suspected genuine defect of /repo with a concrete failing input (reproduced on the real code).""")
