package c05

import (
	"errors"
	"fmt"
	"net"
	"runtime"
	"testing"
	"testing/synctest"
	"time"

	"github.com/dfklegend/cell2/node/builtin/msgs"
	"github.com/dfklegend/cell2/node/client/impls"
	"github.com/dfklegend/cell2/node/client/impls/pomelo"
	cs "github.com/dfklegend/cell2/node/client/session"
	"github.com/dfklegend/cell2/pomelonet/common/conn/codec"
	"github.com/dfklegend/cell2/pomelonet/common/conn/message"
	"github.com/dfklegend/cell2/pomelonet/common/conn/packet"
	"github.com/dfklegend/cell2/pomelonet/server/session"
	"github.com/dfklegend/cell2/utils/sche"
)

type pconn struct {
	in     chan []byte
	closed chan struct{}
	nclose int
	hold chan bool
}

func (c *pconn) GetNextMessage() ([]byte, error) {
	select {
	case b := <-c.in:
		if c.hold != nil {
			<-c.hold
		}
		if b == nil {
			return nil, errors.New("x")
		}
		return b, nil
	case <-c.closed:
		return nil, errors.New("closed")
	}
}
func (c *pconn) Read(b []byte) (int, error)         { return 0, nil }
func (c *pconn) Write(b []byte) (int, error)        { return len(b), nil }
func (c *pconn) Close() error                       { c.nclose++; if c.nclose == 1 { close(c.closed) }; return nil }
func (c *pconn) LocalAddr() net.Addr                { return nil }
func (c *pconn) RemoteAddr() net.Addr               { return nil }
func (c *pconn) SetDeadline(t time.Time) error      { return nil }
func (c *pconn) SetReadDeadline(t time.Time) error  { return nil }
func (c *pconn) SetWriteDeadline(t time.Time) error { return nil }

type hrec struct{ log []string }

func (h *hrec) Process(fs *cs.FrontSession, m *msgs.ClientMsg) {
	h.log = append(h.log, fmt.Sprintf("msg fsnil=%v sid=%d req=%d", fs == nil, m.SessionId, m.ClientReqId))
}
func (h *hrec) OnSessionAdd(fs *cs.FrontSession)    { h.log = append(h.log, fmt.Sprintf("add %d", fs.GetNetId())) }
func (h *hrec) OnSessionRemove(fs *cs.FrontSession) { h.log = append(h.log, fmt.Sprintf("rm %d", fs.GetNetId())) }

func TestProbe(t *testing.T) {
	synctest.Test(t, func(t *testing.T) {
		sc := sche.NewSche()
		css := impls.NewClientSessions("gate-1")
		h := &hrec{}
		css.SetHandler(h)
		cfg := session.NewSessionConfig(nil)
		cfg.Impl = pomelo.NewSessionsImpl(sc, css)
		drain := func() {
			for {
				select {
				case tk := <-sc.GetChanTask():
					sc.DoTask(tk)
				default:
					return
				}
			}
		}
		g0 := runtime.NumGoroutine()
		c := &pconn{in: make(chan []byte), closed: make(chan struct{})}
		s := session.NewClientSession(c, cfg)
		s.Handle()
		synctest.Wait()
		drain()
		enc := codec.NewPomeloPacketEncoder()
		me := message.NewMessagesEncoder(false)
		hs, _ := enc.Encode(packet.Handshake, []byte(`{"sys":{}}`))
		ack, _ := enc.Encode(packet.HandshakeAck, nil)
		mk := func(id uint) []byte {
			b, _ := me.Encode(&message.Message{Type: message.Request, ID: id, Route: "a.b.c", Data: []byte("x")})
			p, _ := enc.Encode(packet.Data, b)
			return p
		}
		c.in <- hs
		synctest.Wait()
		c.in <- ack
		synctest.Wait()
		c.in <- mk(1)
		synctest.Wait()
		drain()
		// race: reader took a frame with two data packets; kick in between is simulated by closing first then delivering
		// (here: frame of ack+data after close: deliver frame via a goroutine that closes first)
		fr := append(mk(2), mk(3)...)
		done := make(chan bool)
		c.hold = make(chan bool)
		go func() { c.in <- fr; done <- true }()
		// emulate: reader has the frame, kick happens before it processes: we can't park here, so use 2-step: close happens inside Impl? skip: just do close then see
		<-done
		synctest.Wait()
		s.Close()
		synctest.Wait()
		c.hold <- true
		synctest.Wait()
		drain()
		fmt.Println(h.log, "status", s.GetStatus(), "nclose", c.nclose, "gor", runtime.NumGoroutine()-g0)
		s.Close()
		synctest.Wait()
		drain()
		fmt.Println(h.log, "status", s.GetStatus(), "nclose", c.nclose, "gor", runtime.NumGoroutine()-g0)
		time.Sleep(30 * time.Second)
		synctest.Wait()
		fmt.Println("gor", runtime.NumGoroutine()-g0)
	})
}
