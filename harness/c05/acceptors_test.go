// C05 acceptor smoke cases (real sockets on 127.0.0.1, real time, a handful of cases):
//
//	reset-accept n=N   the real TCPAcceptor while nobody consumes GetConnChan(): N clients connect (a login burst in front
//	                   of a busy owner), then the channel is consumed: every accepted connection must be handed over.
//	                   Observation: handed=<n>,of=<N>
//	reset-ws           the real WSAcceptor, a websocket client that stops reading, the server pushes until the session's
//	                   writer is stuck inside conn.Write, then the session is closed from another goroutine (what a kick or
//	                   the heartbeat expiry do).  Runs in a child process (re-exec of this test binary) so that a crash of
//	                   the server process is an observation.  Observation: close_returned=..,creates=..,closes=..,peer_end=..
//	reset-race n=N k=K hold=<0|1>
//	                   N fresh sessions, each ended by K+2 INDEPENDENT close causes at the same instant: K direct Close()
//	                   calls (kick / heartbeat expiry), the client's EOF (reader) and a failing write (writer).  hold=1: the
//	                   causes arrive while Close's critical section is occupied (the harness holds the session's own mutex
//	                   until all of them are waiting at it, then lets go: they pass through Close one after the other);
//	                   hold=0: they are released together from a spin barrier.  Child process, as `reset-ws`.
//	                   Observation: n=..,creates=..,removed1=<sessions with exactly one OnSessionClose>,closed1=<.. one
//	                   conn.Close>,thrown=<Close calls that panicked>,left=<goroutines not released>
package c05

import (
	"bufio"
	"encoding/hex"
	"fmt"
	"io"
	"net"
	"os"
	"os/exec"
	"reflect"
	"runtime"
	"strings"
	"sync"
	"sync/atomic"
	"testing"
	"time"
	"unsafe"

	"cell2verif/hx"

	"github.com/dfklegend/cell2/pomelonet/common/conn/message"
	pi "github.com/dfklegend/cell2/pomelonet/interfaces"
	"github.com/dfklegend/cell2/pomelonet/server/acceptor"
	"github.com/dfklegend/cell2/pomelonet/server/session"
)

// wsDial: a minimal websocket client (opening handshake only; the harness module must not gain a
// direct dependency): the connection is upgraded, after that the client never reads
func wsDial(addr string) (net.Conn, error) {
	c, err := net.DialTimeout("tcp", addr, 5*time.Second)
	if err != nil {
		return nil, err
	}
	fmt.Fprintf(c, "GET / HTTP/1.1\r\nHost: %s\r\nUpgrade: websocket\r\nConnection: Upgrade\r\n"+
		"Sec-WebSocket-Key: dGhlIHNhbXBsZSBub25jZQ==\r\nSec-WebSocket-Version: 13\r\n\r\n", addr)
	c.SetReadDeadline(time.Now().Add(5 * time.Second))
	br := bufio.NewReader(c)
	status, err := br.ReadString('\n')
	if err != nil || !strings.Contains(status, "101") {
		c.Close()
		return nil, fmt.Errorf("no upgrade: %q %v", status, err)
	}
	for {
		l, err := br.ReadString('\n')
		if err != nil {
			c.Close()
			return nil, err
		}
		if l == "\r\n" {
			break
		}
	}
	c.SetReadDeadline(time.Time{})
	return c, nil
}

func execAccept(op string) string {
	ws := hx.Words(op)
	n := hx.KVInt(ws, "n")
	if n <= 0 || n > 400 {
		return "bad-op"
	}
	a := acceptor.NewTCPAcceptor("127.0.0.1:0")
	go a.ListenAndServe()
	for i := 0; i < 1000 && a.GetAddr() == ""; i++ {
		time.Sleep(2 * time.Millisecond)
	}
	addr := a.GetAddr()
	if addr == "" {
		return "listen-failed"
	}
	defer a.Stop()
	// nobody consumes GetConnChan() while the clients connect
	var clients []net.Conn
	defer func() {
		for _, c := range clients {
			c.Close()
		}
	}()
	for i := 0; i < n; i++ {
		c, err := net.DialTimeout("tcp", addr, 5*time.Second)
		if err != nil {
			return fmt.Sprintf("dial-failed at %d", i)
		}
		clients = append(clients, c)
	}
	// the accept loop has taken what it can: the channel is full (or everything fits)
	for i := 0; i < 500 && len(a.GetConnChan()) < cap(a.GetConnChan()) && len(a.GetConnChan()) < n; i++ {
		time.Sleep(2 * time.Millisecond)
	}
	time.Sleep(100 * time.Millisecond) // connections beyond the channel's capacity are being accepted now
	// now the consumer runs
	handed := 0
	idle := time.NewTimer(1500 * time.Millisecond)
	defer idle.Stop()
loop:
	for handed < n {
		select {
		case pc := <-a.GetConnChan():
			handed++
			pc.Close()
			if !idle.Stop() {
				select {
				case <-idle.C:
				default:
				}
			}
			idle.Reset(1500 * time.Millisecond)
		case <-idle.C:
			break loop
		}
	}
	return fmt.Sprintf("handed=%d,of=%d", handed, n)
}

// ---------------------------------------------------------------- websocket

type wsImpl struct {
	mu              sync.Mutex
	creates, closes int
}

func (r *wsImpl) ProcessMessage(pi.IClientSession, *message.Message) {}
func (r *wsImpl) OnSessionCreate(pi.IClientSession)                  { r.mu.Lock(); r.creates++; r.mu.Unlock() }
func (r *wsImpl) OnSessionClose(pi.IClientSession)                   { r.mu.Lock(); r.closes++; r.mu.Unlock() }

// TestWSChild is the child process of `reset-ws` (it does nothing unless VERIF_WS_CHILD is set)
func TestWSChild(t *testing.T) {
	if os.Getenv("VERIF_WS_CHILD") == "" {
		return
	}
	quiet()
	fmt.Println("WSRESULT " + wsScenario())
}

func wsScenario() string {
	w := acceptor.NewWSAcceptor("127.0.0.1:0")
	go w.ListenAndServe()
	for i := 0; i < 1000 && w.GetAddr() == ""; i++ {
		time.Sleep(2 * time.Millisecond)
	}
	if w.GetAddr() == "" {
		return "listen-failed"
	}
	client, err := wsDial(w.GetAddr())
	if err != nil {
		return "dial-failed"
	}
	defer client.Close()
	var pc acceptor.PlayerConn
	select {
	case pc = <-w.GetConnChan():
	case <-time.After(5 * time.Second):
		return "not-accepted"
	}
	impl := &wsImpl{}
	cfg := session.NewSessionConfig(nil)
	cfg.Impl = impl
	s := session.NewClientSession(pc, cfg)
	s.Handle()
	// the client never reads: push until the writer is stuck in conn.Write (socket buffers full)
	payload := make([]byte, 1<<20)
	stalled := false
	for i := 0; i < 200 && !stalled; i++ {
		if err := s.Push("front.h.m", payload); err != nil {
			break
		}
		took := false
		for j := 0; j < 25; j++ {
			if room, ok := chanRoom(s); !ok || room == 9999 {
				took = true
				break
			}
			time.Sleep(10 * time.Millisecond)
		}
		stalled = !took
	}
	time.Sleep(100 * time.Millisecond)
	// the session is closed from another goroutine (kick / heartbeat expiry); no recover there, as on the heartbeat goroutine
	done := make(chan struct{})
	go func() {
		s.Close()
		close(done)
	}()
	returned := 0
	select {
	case <-done:
		returned = 1
	case <-time.After(4 * time.Second):
	}
	time.Sleep(150 * time.Millisecond)
	impl.mu.Lock()
	creates, closes := impl.creates, impl.closes
	impl.mu.Unlock()
	// the socket must be released: the peer sees the connection end
	peerEnd := 0
	client.SetReadDeadline(time.Now().Add(3 * time.Second))
	if _, err := io.Copy(io.Discard, client); err == nil {
		peerEnd = 1 // EOF
	} else if ne, ok := err.(interface{ Timeout() bool }); !ok || !ne.Timeout() {
		peerEnd = 1 // reset
	}
	st := 0
	if stalled {
		st = 1
	}
	return fmt.Sprintf("close_returned=%d,creates=%d,closes=%d,peer_end=%d stalled=%d", returned, creates, closes, peerEnd, st)
}

func execWS(x *hx.T) string {
	cmd := exec.Command(os.Args[0], "-test.run", "^TestWSChild$", "-test.timeout", "60s")
	cmd.Env = append(os.Environ(), "VERIF_WS_CHILD=1", "VERIF_OUT=/dev/null")
	out, err := cmd.CombinedOutput()
	text := string(out)
	for _, l := range strings.Split(text, "\n") {
		if strings.HasPrefix(l, "WSRESULT ") {
			r := strings.TrimPrefix(l, "WSRESULT ")
			if i := strings.Index(r, " stalled="); i >= 0 {
				// whether the writer could be stalled on this machine is not part of the observation
				x.Count("ws:" + r[i+1:])
				r = r[:i]
			}
			return r
		}
	}
	// the server process died
	tail := text
	if i := strings.Index(tail, "panic:"); i >= 0 {
		tail = tail[i:]
	}
	if len(tail) > 300 {
		tail = tail[:300]
	}
	return fmt.Sprintf("panic server process died (%v): %s", err, strings.ReplaceAll(tail, "\n", " | "))
}

// ---------------------------------------------------------------- simultaneous close causes

type raceConn struct {
	mu       sync.Mutex
	closes   int
	inWrite  int32
	gone     chan struct{} // the client went away: the pending read ends with EOF
	wfail    chan struct{} // the pending write fails
	closedCh chan struct{}
}

func (c *raceConn) GetNextMessage() ([]byte, error) {
	select {
	case <-c.gone:
		return nil, io.EOF
	case <-c.closedCh:
		return nil, io.ErrClosedPipe
	}
}
func (c *raceConn) Read(b []byte) (int, error) { return 0, io.EOF }
func (c *raceConn) Write(b []byte) (int, error) {
	atomic.StoreInt32(&c.inWrite, 1)
	select {
	case <-c.wfail:
		return 0, io.ErrShortWrite
	case <-c.closedCh:
		return 0, io.ErrClosedPipe
	}
}
func (c *raceConn) Close() error {
	c.mu.Lock()
	c.closes++
	if c.closes == 1 {
		close(c.closedCh)
	}
	c.mu.Unlock()
	return nil
}
func (c *raceConn) LocalAddr() net.Addr                { return &net.TCPAddr{} }
func (c *raceConn) RemoteAddr() net.Addr               { return &net.TCPAddr{} }
func (c *raceConn) SetDeadline(t time.Time) error      { return nil }
func (c *raceConn) SetReadDeadline(t time.Time) error  { return nil }
func (c *raceConn) SetWriteDeadline(t time.Time) error { return nil }

type raceImpl struct {
	mu      sync.Mutex
	creates int
	removes map[pi.IClientSession]int
}

func (r *raceImpl) ProcessMessage(pi.IClientSession, *message.Message) {}
func (r *raceImpl) OnSessionCreate(pi.IClientSession)                  { r.mu.Lock(); r.creates++; r.mu.Unlock() }
func (r *raceImpl) OnSessionClose(s pi.IClientSession)                 { r.mu.Lock(); r.removes[s]++; r.mu.Unlock() }

// sessionMutex: the one sync.Mutex among the fields of the session (whatever its name); nil if there is not exactly one
func sessionMutex(s *session.ClientSession) (m *sync.Mutex) {
	defer func() {
		if e := recover(); e != nil {
			m = nil
		}
	}()
	v := reflect.ValueOf(s).Elem()
	mt := reflect.TypeOf(sync.Mutex{})
	n := 0
	for i := 0; i < v.NumField(); i++ {
		if v.Field(i).Type() == mt {
			m = (*sync.Mutex)(unsafe.Pointer(v.Field(i).UnsafeAddr()))
			n++
		}
	}
	if n != 1 {
		return nil
	}
	return m
}

// mutexWaiters: goroutines queued at the mutex (the runtime's own count, read-only peek at its state word)
func mutexWaiters(m *sync.Mutex) int {
	return int(atomic.LoadInt32((*int32)(unsafe.Pointer(m))) >> 3)
}

// TestRaceChild is the child process of `reset-race`
func TestRaceChild(t *testing.T) {
	op := os.Getenv("VERIF_RACE_CHILD")
	if op == "" {
		return
	}
	quiet()
	fmt.Println("RACERESULT " + raceScenario(op))
}

func raceScenario(op string) string {
	ws := hx.Words(op)
	n, k, hold := hx.KVInt(ws, "n"), hx.KVInt(ws, "k"), hx.KVInt(ws, "hold") == 1
	impl := &raceImpl{removes: map[pi.IClientSession]int{}}
	cfg := session.NewSessionConfig(nil)
	cfg.Impl = impl
	time.Sleep(20 * time.Millisecond)
	base := runtime.NumGoroutine()
	var panics, early, latePush int32
	conns := make([]*raceConn, 0, n)
	sessions := make([]*session.ClientSession, 0, n)
	held := 0
	noCount := false
	for i := 0; i < n; i++ {
		c := &raceConn{gone: make(chan struct{}), wfail: make(chan struct{}), closedCh: make(chan struct{})}
		s := session.NewClientSession(c, cfg)
		s.Handle()
		conns = append(conns, c)
		sessions = append(sessions, s)
		// the writer goes into conn.Write
		s.Push("front.h.m", []byte("x"))
		for j := 0; j < 2000 && atomic.LoadInt32(&c.inWrite) == 0; j++ {
			time.Sleep(50 * time.Microsecond)
		}
		var m *sync.Mutex
		if hold {
			m = sessionMutex(s)
		}
		var start int32
		var wg sync.WaitGroup
		closer := func() {
			defer wg.Done()
			defer func() {
				if e := recover(); e != nil {
					atomic.AddInt32(&panics, 1)
				}
			}()
			for atomic.LoadInt32(&start) == 0 {
			}
			s.Close()
			// a Close() that has returned - whoever did the work - leaves a completely closed session behind
			impl.mu.Lock()
			nr := impl.removes[s]
			impl.mu.Unlock()
			c.mu.Lock()
			nc := c.closes
			c.mu.Unlock()
			if nr != 1 || nc != 1 {
				atomic.AddInt32(&early, 1)
			}
		}
		// pushers run freely beside the closers: a push that races with Close is accepted or refused, never a crash
		pusher := func() {
			defer wg.Done()
			defer func() {
				if e := recover(); e != nil {
					atomic.AddInt32(&panics, 1)
				}
			}()
			for atomic.LoadInt32(&start) == 0 {
				runtime.Gosched()
			}
			for r := 0; r < 3; r++ {
				s.Push("front.h.m", []byte("y"))
			}
		}
		if m != nil {
			// Close's critical section is occupied while the causes arrive
			m.Lock()
			held++
			atomic.StoreInt32(&start, 1)
		}
		for j := 0; j < k; j++ {
			wg.Add(1)
			go closer()
		}
		for j := 0; j < 2; j++ {
			wg.Add(1)
			go pusher()
		}
		if m != nil {
			close(c.gone)
			close(c.wfail)
			if noCount {
				time.Sleep(2 * time.Millisecond)
			} else {
				j := 0
				for ; j < 4000 && mutexWaiters(m) < k+2; j++ {
					time.Sleep(25 * time.Microsecond)
				}
				// the waiter count cannot be read like this (another runtime): a plain pause from now on
				noCount = j == 4000
			}
			m.Unlock()
		} else {
			time.Sleep(20 * time.Microsecond)
			atomic.StoreInt32(&start, 1)
			close(c.gone)
			close(c.wfail)
		}
		wg.Wait()
		// after the close a push is refused
		if func() (accepted bool) {
			defer func() {
				if e := recover(); e != nil {
					atomic.AddInt32(&panics, 1)
				}
			}()
			return s.Push("front.h.m", []byte("z")) == nil
		}() {
			atomic.AddInt32(&latePush, 1)
		}
	}
	// everything settles: one OnSessionClose and one conn.Close per session, all goroutines gone
	left := 0
	for i := 0; i < 2000; i++ {
		left = runtime.NumGoroutine() - base
		if left <= 0 {
			break
		}
		time.Sleep(2 * time.Millisecond)
	}
	if left < 0 {
		left = 0
	}
	removed1, closed1 := 0, 0
	impl.mu.Lock()
	for i, s := range sessions {
		if impl.removes[s] == 1 {
			removed1++
		}
		conns[i].mu.Lock()
		if conns[i].closes == 1 {
			closed1++
		}
		conns[i].mu.Unlock()
	}
	creates := impl.creates
	impl.mu.Unlock()
	return fmt.Sprintf("n=%d,creates=%d,removed1=%d,closed1=%d,thrown=%d,left=%d,early=%d,latepush=%d held=%d", n, creates, removed1, closed1,
		atomic.LoadInt32(&panics), left, atomic.LoadInt32(&early), atomic.LoadInt32(&latePush), held)
}

func execRace(x *hx.T, op string) string {
	ws := hx.Words(op)
	if n, k := hx.KVInt(ws, "n"), hx.KVInt(ws, "k"); n <= 0 || n > 20000 || k <= 0 || k > 64 {
		return "bad-op"
	}
	cmd := exec.Command(os.Args[0], "-test.run", "^TestRaceChild$", "-test.timeout", "120s")
	cmd.Env = append(os.Environ(), "VERIF_RACE_CHILD="+op, "VERIF_OUT=/dev/null")
	out, err := cmd.CombinedOutput()
	text := string(out)
	for _, l := range strings.Split(text, "\n") {
		if strings.HasPrefix(l, "RACERESULT ") {
			r := strings.TrimPrefix(l, "RACERESULT ")
			if i := strings.Index(r, " held="); i >= 0 {
				// whether the session still has exactly one mutex to hold is not part of the observation
				if r[i+1:] == "held=0" && hx.KVInt(ws, "hold") == 1 {
					x.Count("race:no-mutex-to-hold")
				}
				r = r[:i]
			}
			return r
		}
	}
	// the server process died
	tail := text
	if i := strings.Index(tail, "panic:"); i >= 0 {
		tail = tail[i:]
	}
	if i := strings.Index(tail, "goroutine "); i > 0 {
		tail = tail[:i]
	}
	if len(tail) > 200 {
		tail = tail[:200]
	}
	return fmt.Sprintf("panic server process died (%v): %s", err, strings.TrimSpace(strings.ReplaceAll(strings.ReplaceAll(tail, "\n", " "), "\t", " ")))
}

// ---------------------------------------------------------------- websocket connections
//
//	reset-wsc pk=<pk,..> tail=<hex> [frag=1] [glue=1]
//
// one whole connection through the real WSAcceptor: every packet is one binary websocket message (frag=1: sent as two
// fragments), then a message with the raw tail bytes (if any), then the client half-closes.  glue=1: the LAST two packets
// travel in one message (WSConn.GetNextMessage takes exactly one packet per message: "bigger than expected" ends the
// session).  Observation as for reset-tcp.

func wsFrame(op byte, fin bool, payload []byte) []byte {
	b0 := op
	if fin {
		b0 |= 0x80
	}
	hdr := []byte{b0}
	n := len(payload)
	switch {
	case n < 126:
		hdr = append(hdr, 0x80|byte(n))
	case n < 65536:
		hdr = append(hdr, 0x80|126, byte(n>>8), byte(n))
	default:
		hdr = append(hdr, 0x80|127, 0, 0, 0, 0, byte(n>>24), byte(n>>16), byte(n>>8), byte(n))
	}
	key := [4]byte{0x12, 0x34, 0x56, 0x78}
	hdr = append(hdr, key[:]...)
	out := make([]byte, len(hdr)+n)
	copy(out, hdr)
	for i := range payload {
		out[len(hdr)+i] = payload[i] ^ key[i%4]
	}
	return out
}

func wsMessage(payload []byte, frag bool) []byte {
	if !frag || len(payload) < 2 {
		return wsFrame(2, true, payload)
	}
	h := len(payload) / 2
	return append(wsFrame(2, false, payload[:h]), wsFrame(0, true, payload[h:])...)
}

func (e *tcpEnv) execWSC(op string) string {
	ws := hx.Words(op)
	if len(ws) == 0 || ws[0] != "reset-wsc" || e.addr == "" {
		return "bad-op"
	}
	frag := hx.KVInt(ws, "frag") == 1
	glue := hx.KVInt(ws, "glue") == 1
	var msgs [][]byte
	if v, _ := hx.KV(ws, "pk"); v != "" {
		for _, w := range strings.Split(v, ",") {
			b, ok := encPkt(w)
			if !ok {
				return "bad-op"
			}
			msgs = append(msgs, b)
		}
	}
	if glue {
		if len(msgs) < 2 {
			return "bad-op"
		}
		n := len(msgs)
		msgs = append(msgs[:n-2], append(append([]byte{}, msgs[n-2]...), msgs[n-1]...))
	}
	tailHex, _ := hx.KV(ws, "tail")
	tail, err := hex.DecodeString(tailHex)
	if err != nil {
		return "bad-op"
	}
	if len(tail) > 0 {
		msgs = append(msgs, tail)
	}
	return e.runConn(func() (net.Conn, error) { return wsDial(e.addr) }, func(conn net.Conn) {
		for _, m := range msgs {
			conn.Write(wsMessage(m, frag))
		}
	})
}

func genWSC(x *hx.T, i int) string {
	op := genTCP(x, i)
	ws := hx.Words(op)
	pk, _ := hx.KV(ws, "pk")
	tail, _ := hx.KV(ws, "tail")
	op = fmt.Sprintf("reset-wsc pk=%s tail=%s", pk, tail)
	if x.R.Intn(3) == 0 {
		op += " frag=1"
	}
	if strings.Count(pk, ",") >= 1 && x.R.Intn(6) == 0 {
		op += " glue=1"
	}
	return op
}
