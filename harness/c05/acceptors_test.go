// C05 acceptor smoke cases (real sockets on 127.0.0.1, real time, a handful of cases):
//
//	reset-accept n=N   the real TCPAcceptor while nobody consumes GetConnChan(): N clients connect (a login burst in front
//	                   of a busy owner), then the channel is consumed: every accepted connection must be handed over.
//	                   Observation: handed=<n>,of=<N>
//	reset-ws           the real WSAcceptor, a websocket client that stops reading, the server pushes until the session's
//	                   writer is stuck inside conn.Write, then the session is closed from another goroutine (what a kick or
//	                   the heartbeat expiry do).  Runs in a child process (re-exec of this test binary) so that a crash of
//	                   the server process is an observation.  Observation: close_returned=..,creates=..,closes=..,peer_end=..
package c05

import (
	"bufio"
	"fmt"
	"io"
	"net"
	"os"
	"os/exec"
	"strings"
	"sync"
	"testing"
	"time"

	"cell2verif/hx"

	"github.com/dfklegend/cell2/pomelonet/common/conn/message"
	pi "github.com/dfklegend/cell2/pomelonet/interfaces"
	"github.com/dfklegend/cell2/pomelonet/server/acceptor"
	"github.com/dfklegend/cell2/pomelonet/server/session"
)

// wsDial: a minimal websocket client (opening handshake only; the harness module must not gain a
// direct dependency): the connection is upgraded, after that the client never reads
func wsDial(addr string) (net.Conn, error) {
	c, err := net.DialTimeout("tcp", addr, 5*time.Second)
	if err != nil {
		return nil, err
	}
	fmt.Fprintf(c, "GET / HTTP/1.1\r\nHost: %s\r\nUpgrade: websocket\r\nConnection: Upgrade\r\n"+
		"Sec-WebSocket-Key: dGhlIHNhbXBsZSBub25jZQ==\r\nSec-WebSocket-Version: 13\r\n\r\n", addr)
	c.SetReadDeadline(time.Now().Add(5 * time.Second))
	br := bufio.NewReader(c)
	status, err := br.ReadString('\n')
	if err != nil || !strings.Contains(status, "101") {
		c.Close()
		return nil, fmt.Errorf("no upgrade: %q %v", status, err)
	}
	for {
		l, err := br.ReadString('\n')
		if err != nil {
			c.Close()
			return nil, err
		}
		if l == "\r\n" {
			break
		}
	}
	c.SetReadDeadline(time.Time{})
	return c, nil
}

func execAccept(op string) string {
	ws := hx.Words(op)
	n := hx.KVInt(ws, "n")
	if n <= 0 || n > 400 {
		return "bad-op"
	}
	a := acceptor.NewTCPAcceptor("127.0.0.1:0")
	go a.ListenAndServe()
	for i := 0; i < 1000 && a.GetAddr() == ""; i++ {
		time.Sleep(2 * time.Millisecond)
	}
	addr := a.GetAddr()
	if addr == "" {
		return "listen-failed"
	}
	defer a.Stop()
	// nobody consumes GetConnChan() while the clients connect
	var clients []net.Conn
	defer func() {
		for _, c := range clients {
			c.Close()
		}
	}()
	for i := 0; i < n; i++ {
		c, err := net.DialTimeout("tcp", addr, 5*time.Second)
		if err != nil {
			return fmt.Sprintf("dial-failed at %d", i)
		}
		clients = append(clients, c)
	}
	// the accept loop has taken what it can: the channel is full (or everything fits)
	for i := 0; i < 500 && len(a.GetConnChan()) < cap(a.GetConnChan()) && len(a.GetConnChan()) < n; i++ {
		time.Sleep(2 * time.Millisecond)
	}
	time.Sleep(100 * time.Millisecond) // connections beyond the channel's capacity are being accepted now
	// now the consumer runs
	handed := 0
	idle := time.NewTimer(1500 * time.Millisecond)
	defer idle.Stop()
loop:
	for handed < n {
		select {
		case pc := <-a.GetConnChan():
			handed++
			pc.Close()
			if !idle.Stop() {
				select {
				case <-idle.C:
				default:
				}
			}
			idle.Reset(1500 * time.Millisecond)
		case <-idle.C:
			break loop
		}
	}
	return fmt.Sprintf("handed=%d,of=%d", handed, n)
}

// ---------------------------------------------------------------- websocket

type wsImpl struct {
	mu              sync.Mutex
	creates, closes int
}

func (r *wsImpl) ProcessMessage(pi.IClientSession, *message.Message) {}
func (r *wsImpl) OnSessionCreate(pi.IClientSession)                  { r.mu.Lock(); r.creates++; r.mu.Unlock() }
func (r *wsImpl) OnSessionClose(pi.IClientSession)                   { r.mu.Lock(); r.closes++; r.mu.Unlock() }

// TestWSChild is the child process of `reset-ws` (it does nothing unless VERIF_WS_CHILD is set)
func TestWSChild(t *testing.T) {
	if os.Getenv("VERIF_WS_CHILD") == "" {
		return
	}
	quiet()
	fmt.Println("WSRESULT " + wsScenario())
}

func wsScenario() string {
	w := acceptor.NewWSAcceptor("127.0.0.1:0")
	go w.ListenAndServe()
	for i := 0; i < 1000 && w.GetAddr() == ""; i++ {
		time.Sleep(2 * time.Millisecond)
	}
	if w.GetAddr() == "" {
		return "listen-failed"
	}
	client, err := wsDial(w.GetAddr())
	if err != nil {
		return "dial-failed"
	}
	defer client.Close()
	var pc acceptor.PlayerConn
	select {
	case pc = <-w.GetConnChan():
	case <-time.After(5 * time.Second):
		return "not-accepted"
	}
	impl := &wsImpl{}
	cfg := session.NewSessionConfig(nil)
	cfg.Impl = impl
	s := session.NewClientSession(pc, cfg)
	s.Handle()
	// the client never reads: push until the writer is stuck in conn.Write (socket buffers full)
	payload := make([]byte, 1<<20)
	stalled := false
	for i := 0; i < 200 && !stalled; i++ {
		if err := s.Push("front.h.m", payload); err != nil {
			break
		}
		took := false
		for j := 0; j < 25; j++ {
			if room, ok := chanRoom(s); !ok || room == 9999 {
				took = true
				break
			}
			time.Sleep(10 * time.Millisecond)
		}
		stalled = !took
	}
	time.Sleep(100 * time.Millisecond)
	// the session is closed from another goroutine (kick / heartbeat expiry); no recover there, as on the heartbeat goroutine
	done := make(chan struct{})
	go func() {
		s.Close()
		close(done)
	}()
	returned := 0
	select {
	case <-done:
		returned = 1
	case <-time.After(4 * time.Second):
	}
	time.Sleep(150 * time.Millisecond)
	impl.mu.Lock()
	creates, closes := impl.creates, impl.closes
	impl.mu.Unlock()
	// the socket must be released: the peer sees the connection end
	peerEnd := 0
	client.SetReadDeadline(time.Now().Add(3 * time.Second))
	if _, err := io.Copy(io.Discard, client); err == nil {
		peerEnd = 1 // EOF
	} else if ne, ok := err.(interface{ Timeout() bool }); !ok || !ne.Timeout() {
		peerEnd = 1 // reset
	}
	st := 0
	if stalled {
		st = 1
	}
	return fmt.Sprintf("close_returned=%d,creates=%d,closes=%d,peer_end=%d stalled=%d", returned, creates, closes, peerEnd, st)
}

func execWS(x *hx.T) string {
	cmd := exec.Command(os.Args[0], "-test.run", "^TestWSChild$", "-test.timeout", "60s")
	cmd.Env = append(os.Environ(), "VERIF_WS_CHILD=1", "VERIF_OUT=/dev/null")
	out, err := cmd.CombinedOutput()
	text := string(out)
	for _, l := range strings.Split(text, "\n") {
		if strings.HasPrefix(l, "WSRESULT ") {
			r := strings.TrimPrefix(l, "WSRESULT ")
			if i := strings.Index(r, " stalled="); i >= 0 {
				// whether the writer could be stalled on this machine is not part of the observation
				x.Count("ws:" + r[i+1:])
				r = r[:i]
			}
			return r
		}
	}
	// the server process died
	tail := text
	if i := strings.Index(tail, "panic:"); i >= 0 {
		tail = tail[i:]
	}
	if len(tail) > 300 {
		tail = tail[:300]
	}
	return fmt.Sprintf("panic server process died (%v): %s", err, strings.ReplaceAll(tail, "\n", " | "))
}
