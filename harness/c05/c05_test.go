// C05 correspondence harness (engine "bubble-session").
//
// The real session.ClientSession runs over a scripted in-memory
// acceptor.PlayerConn; its Impl is a tee: a recorder plus the real
// pomelo.SessionsImpl posting to a real sche.Sche in front of the real
// impls.ClientSessions, whose ISessionsHandler is again a recorder (plus the real
// HandlerComponent for the per-session close callbacks).  Everything runs in one
// testing/synctest bubble.  Every goroutine of a session is parked at a gate of
// THIS file whenever it calls out of the session (GetNextMessage, conn.Write,
// Impl.ProcessMessage); an op line is one grant of the controlling scheduler,
// followed by synctest.Wait() (quiescence) and one observation line.
//
// Ops (a case starts with `reset [next=N]`):
//
//	open c=K [cbp=<h|c>] [ce=<1|f>] [oa=<k|p>] | in c=K it=<f:pk,..|bad|err|eof> | rd c=K [w=0] | rds c=K [w=0] | wr c=K ok=<0|1> |
//	adv dt=MS | kick c=K | okick c=K | dokick | push c=K | spush c=K | drain | end
//
// `reset kh=1`: the owner's ClientSessions has a custom IKickHandler (like the mmo gate's: a notice is pushed to the
// session at once, the id is kept, ClientSessions.DoKick comes later: `dokick` = the DoKick of the oldest id kept).
package c05

import (
	"errors"
	"fmt"
	"io"
	"log"
	"net"
	"reflect"
	"runtime"
	"sort"
	"strconv"
	"strings"
	"sync"
	"syscall"
	"testing"
	"testing/synctest"
	"time"
	"unsafe"

	"cell2verif/hx"

	"github.com/dfklegend/cell2/node/builtin/msgs"
	"github.com/dfklegend/cell2/node/client/impls"
	"github.com/dfklegend/cell2/node/client/impls/pomelo"
	cs "github.com/dfklegend/cell2/node/client/session"
	"github.com/dfklegend/cell2/node/service"
	"github.com/dfklegend/cell2/pomelonet/common/conn/codec"
	"github.com/dfklegend/cell2/pomelonet/common/conn/message"
	"github.com/dfklegend/cell2/pomelonet/common/conn/packet"
	"github.com/dfklegend/cell2/pomelonet/constants"
	pi "github.com/dfklegend/cell2/pomelonet/interfaces"
	"github.com/dfklegend/cell2/pomelonet/server/session"
	"github.com/dfklegend/cell2/utils/common"
	"github.com/dfklegend/cell2/utils/logger"
	"github.com/dfklegend/cell2/utils/logger/proxy"
	"github.com/dfklegend/cell2/utils/sche"
	"github.com/sirupsen/logrus"
)

var (
	errClosedConn = errors.New("use of closed connection")
	errWrite      = errors.New("scripted write failure")
	errRead       = errors.New("scripted read failure")
	errReset      = errors.New("close: connection reset by peer")
)

type grant struct {
	step bool // park before the next message post
	hsOK bool // result of a handshake-response write during this run
}

type item struct {
	data []byte
	err  error
}

// pconn: scripted acceptor.PlayerConn of connection k
type pconn struct {
	k        int
	mu       sync.Mutex
	in       chan item
	rdGrant  chan grant
	wrGrant  chan bool
	closedCh chan struct{}
	closed   bool
	nclose   int
	rdState  byte // w: waiting for input, h: holding an item, m: message gate, x: not in the harness's code
	wrParked bool
	step     bool
	hsOK     bool
	nw, hw   int
	sess     *session.ClientSession
	ev       []string // Impl-level callbacks
	ow       []string // owner handler callbacks
	cbp      string   // scripted close callbacks that panic: h = handler's per-session one, c = the sessions' one
	filled   bool     // its send queue was filled up by `fill`
	ce       string   // conn.Close() returns an error: "1" every call, "f" the first call only (client-side abort, ECONNRESET)
	np       int      // pushes that reached this session through the owner's ClientSessions (PushMsg)
	oa       string   // what the owner's handler does with the session from inside OnSessionAdd: k = kicks it (refuses it), p = pushes a greeting to its id
	tb       string   // the owner's table as the handler finds it from inside its callbacks: at the add (1 = the announced session is registered
	// under its id, 0 = nothing / something else is), then at the remove (0 = the id is gone, 1 = still registered)
	w        *wsess
}

// wsess: what the owner's ClientSessions holds for a connection — the real session behind a
// counter of the pushes the owner aims at it
type wsess struct {
	pi.IClientSession
	c *pconn
}

func (w *wsess) Push(route string, v interface{}) error {
	w.c.np++ // owner goroutine = the controller
	return w.IClientSession.Push(route, v)
}

func (c *pconn) set(b byte) { c.mu.Lock(); c.rdState = b; c.mu.Unlock() }

func (c *pconn) apply(g grant) { c.mu.Lock(); c.step, c.hsOK = g.step, g.hsOK; c.mu.Unlock() }

func (c *pconn) GetNextMessage() ([]byte, error) {
	c.mu.Lock()
	if c.closed {
		c.rdState = 'x'
		c.mu.Unlock()
		return nil, errClosedConn
	}
	c.rdState = 'w'
	c.mu.Unlock()
	var it item
	select {
	case it = <-c.in:
	case <-c.closedCh:
		c.set('x')
		return nil, errClosedConn
	}
	c.set('h')
	g := <-c.rdGrant
	c.apply(g)
	c.set('x')
	return it.data, it.err
}

func (c *pconn) Write(b []byte) (int, error) {
	isHs := len(b) > 0 && b[0] == byte(packet.Handshake)
	c.mu.Lock()
	if c.closed {
		c.mu.Unlock()
		return 0, errClosedConn
	}
	if isHs {
		ok := c.hsOK
		if ok {
			c.hw++
		}
		c.mu.Unlock()
		if !ok {
			return 0, errWrite
		}
		return len(b), nil
	}
	c.wrParked = true
	c.mu.Unlock()
	var ok bool
	select {
	case ok = <-c.wrGrant:
	case <-c.closedCh:
		ok = false
	}
	c.mu.Lock()
	c.wrParked = false
	if ok {
		c.nw++
	}
	c.mu.Unlock()
	if !ok {
		return 0, errWrite
	}
	return len(b), nil
}

func (c *pconn) Close() error {
	c.mu.Lock()
	c.nclose++
	n := c.nclose
	if !c.closed {
		c.closed = true
		close(c.closedCh)
	}
	ce := c.ce
	c.mu.Unlock()
	if ce == "1" || (ce == "f" && n == 1) {
		// the socket is gone all the same; the caller only learns that the peer had reset it
		return errReset
	}
	return nil
}

func (c *pconn) Read(b []byte) (int, error)         { return 0, io.EOF }
func (c *pconn) LocalAddr() net.Addr                { return nil }
func (c *pconn) RemoteAddr() net.Addr               { return nil }
func (c *pconn) SetDeadline(t time.Time) error      { return nil }
func (c *pconn) SetReadDeadline(t time.Time) error  { return nil }
func (c *pconn) SetWriteDeadline(t time.Time) error { return nil }

// goroutines: runtime.NumGoroutine() can still count a goroutine that has left the
// bubble (synctest.Wait no longer waits for it) but is not yet dead.  The count
// only ever converges downwards to the true value, so when it is above what the
// harness expects to see it is re-sampled for a bounded number of yields; what is
// reported is always a real sample.  A leak that persisted once switches the
// patience off for the rest of the run.
var patience = 300000

func goroutines(expect int) int {
	n := runtime.NumGoroutine()
	for i := 0; n > expect && i < patience; i++ {
		runtime.Gosched()
		if m := runtime.NumGoroutine(); m < n {
			n = m
		}
	}
	if n > expect && patience > 2000 {
		patience = 2000
	}
	return n
}

// H: one case
type H struct {
	mu      sync.Mutex
	conns   map[int]*pconn
	order   []int
	bySess  map[pi.IClientSession]*pconn
	opening *pconn
	sc      *sche.Sche
	css     *impls.ClientSessions
	hc      *impls.HandlerComponent
	cfg     *session.SessionConfig
	base    int
	base0   int
	cbH     int
	x       *hx.T
	armed   string
	kh      bool     // a custom kick handler is installed
	pendK   []uint32 // ids the kick handler was handed and has not yet passed to DoKick
}

// kickH: a custom impls.IKickHandler in the way of the mmo gate's (servers/gate/handler/kick_handler.go): tell the client,
// close a little later through ClientSessions.DoKick
type kickH struct{ h *H }

func (k *kickH) HandleKick(ns *service.NodeService, ss *impls.ClientSessions, id uint32) {
	var c *pconn
	if fs := ss.GetSession(id); fs != nil {
		if s, ok := fs.Session.(pi.IClientSession); ok {
			c = k.h.connOf(s)
		}
	}
	// (a notice that would park the owner on a full send queue is not pushed)
	if c == nil || !k.h.wouldBlock(c) {
		ss.PushMsg(&msgs.PushMsg{Ids: []uint32{id}, Route: "onKick", Data: []byte(`{"why":"kicked"}`)})
	}
	k.h.pendK = append(k.h.pendK, id)
}

func (h *H) connOf(s pi.IClientSession) *pconn {
	h.mu.Lock()
	defer h.mu.Unlock()
	return h.bySess[s]
}

// tee: records the Impl-level callbacks, gates the reader before a message post, forwards to the real SessionsImpl
type tee struct {
	h    *H
	real pi.IClientSessionImpl
}

func (t *tee) OnSessionCreate(s pi.IClientSession) {
	t.h.mu.Lock()
	c := t.h.opening
	var fwd pi.IClientSession = s
	if c != nil {
		c.w = &wsess{IClientSession: s, c: c}
		t.h.bySess[s] = c
		t.h.bySess[c.w] = c
		fwd = c.w
	}
	t.h.mu.Unlock()
	if c != nil {
		c.mu.Lock()
		c.ev = append(c.ev, "A")
		c.mu.Unlock()
	}
	t.real.OnSessionCreate(fwd)
}

// fwd: the session as the owner knows it
func (t *tee) fwd(s pi.IClientSession) pi.IClientSession {
	if c := t.h.connOf(s); c != nil && c.w != nil {
		return c.w
	}
	return s
}

func (t *tee) OnSessionClose(s pi.IClientSession) {
	if c := t.h.connOf(s); c != nil {
		c.mu.Lock()
		c.ev = append(c.ev, "R")
		c.mu.Unlock()
	}
	t.real.OnSessionClose(t.fwd(s))
}

func (t *tee) ProcessMessage(s pi.IClientSession, m *message.Message) {
	c := t.h.connOf(s)
	if c != nil {
		c.mu.Lock()
		st := c.step
		c.mu.Unlock()
		if st {
			c.set('m')
			g := <-c.rdGrant
			c.apply(g)
			c.set('x')
		}
		c.mu.Lock()
		// messages posted after the remove are not part of the observation (the owner drops them)
		if len(c.ev) == 0 || c.ev[len(c.ev)-1] != "R" {
			c.ev = append(c.ev, fmt.Sprintf("M%d", m.ID))
		}
		c.mu.Unlock()
	}
	t.real.ProcessMessage(t.fwd(s), m)
}

// rec: the owner's ISessionsHandler
type rec struct{ h *H }

func (r *rec) connOfFS(fs *cs.FrontSession) *pconn {
	if fs == nil || fs.Session == nil {
		return nil
	}
	s, _ := fs.Session.(pi.IClientSession)
	return r.h.connOf(s)
}

func (r *rec) Process(fs *cs.FrontSession, m *msgs.ClientMsg) {
	c := r.h.conns[int(m.ClientReqId)/1000]
	if c == nil {
		return
	}
	if fs == nil {
		c.ow = append(c.ow, fmt.Sprintf("n%d", m.ClientReqId))
	} else if !sentMatches(m) {
		// handled with a route/payload other than the one that arrived under this id (the message may have waited in the
		// owner's queue while the reader went on)
		c.ow = append(c.ow, fmt.Sprintf("p%d", m.ClientReqId))
	} else {
		c.ow = append(c.ow, fmt.Sprintf("m%d", m.ClientReqId))
	}
}

func (r *rec) OnSessionAdd(fs *cs.FrontSession) {
	c := r.connOfFS(fs)
	if c == nil {
		return
	}
	c.ow = append(c.ow, fmt.Sprintf("a%d", fs.GetNetId()))
	// the announced session is a live session of the table from this moment on: lookups, kicks and pushes by its id work
	if r.h.css.GetSession(fs.GetNetId()) == fs {
		c.tb += "1"
	} else {
		c.tb += "0"
	}
	defer func() {
		switch c.oa {
		case "k":
			// the handler refuses the connection (server full, banned address)
			r.h.css.Kick(fs.GetNetId())
		case "p":
			// a greeting (a push that would park the owner on a full send queue is not made)
			if !r.h.wouldBlock(c) {
				r.h.css.PushMsg(&msgs.PushMsg{Ids: []uint32{fs.GetNetId()}, Route: "onWelcome", Data: []byte(`{"n":0}`)})
			}
		}
	}()
	// a per-session close callback registered with the real HandlerComponent
	r.h.hc.AddOnSessionClose(fs.GetNetId(), func(ns *service.NodeService, fs *cs.FrontSession) {
		r.h.cbH++
		if strings.Contains(c.cbp, "h") {
			panic("scripted panic in the handler's close callback")
		}
	})
}

func (r *rec) OnSessionRemove(fs *cs.FrontSession) {
	c := r.connOfFS(fs)
	r.h.cbH = 0
	if c != nil && fs != nil {
		if r.h.css.GetSession(fs.GetNetId()) != nil {
			c.tb += "1"
		} else {
			c.tb += "0"
		}
	}
	// recorded whatever the callback does (a panic travels on to the scheduler's recover)
	defer func() {
		if c != nil {
			c.ow = append(c.ow, fmt.Sprintf("r%d", r.h.cbH))
		}
	}()
	r.h.hc.OnSessionRemove(fs)
}

// chanRoom: free slots of the session's send queue (read-only peek at the unexported channel);
// ok=false when the field is not there any more (then nothing ever fills the queue)
func chanRoom(s *session.ClientSession) (room int, ok bool) {
	defer func() {
		if e := recover(); e != nil {
			ok = false
		}
	}()
	f := reflect.ValueOf(s).Elem().FieldByName("chSend")
	if !f.IsValid() || f.Kind() != reflect.Chan {
		return 0, false
	}
	return f.Cap() - f.Len(), true
}

func (h *H) wouldBlock(c *pconn) bool {
	c.mu.Lock()
	closed := c.closed
	c.mu.Unlock()
	if closed || c.sess.GetStatus() == session.StatusClosed {
		return false
	}
	room, ok := chanRoom(c.sess)
	return ok && room == 0
}

func setCounter(css *impls.ClientSessions, n uint32) (ok bool) {
	defer func() {
		if e := recover(); e != nil {
			ok = false
		}
	}()
	f := reflect.ValueOf(css).Elem().FieldByName("idService")
	if !f.IsValid() || f.Kind() != reflect.Ptr {
		return false
	}
	svc := (*common.SerialIdService)(unsafe.Pointer(f.Pointer()))
	nf := reflect.ValueOf(svc).Elem().FieldByName("nextId")
	if !nf.IsValid() || nf.Kind() != reflect.Uint32 {
		return false
	}
	*(*uint32)(unsafe.Pointer(nf.UnsafeAddr())) = n
	return true
}

var (
	pktEnc = codec.NewPomeloPacketEncoder()
	msgEnc = message.NewMessagesEncoder(false)
)

func mustPkt(t packet.Type, body []byte) []byte {
	b, err := pktEnc.Encode(t, body)
	if err != nil {
		panic(err)
	}
	return b
}

// bigBody: payload of a `b<mid>` message
var bigBody = []byte(strings.Repeat("y", 300000))

// badMsgBody: a Data packet body that message.Decode rejects
var badMsgBody = []byte{0x00}

// sentAs: route and payload of the data message `d<n>` as the client sends it.  The payload is a function of the id, so that
// what the owner's handler is given for message n can be compared with what was sent under n (same lengths as ever: 7 bytes
// for even ids, n%37 for odd ones - a request, the id is what the owner sees, longer route and payload)
func sentAs(n uint32) (string, []byte) {
	if n%2 == 0 {
		return "gate.api.echo", []byte(fmt.Sprintf(`{"x":%d}`, (n/2)%10))
	}
	b := make([]byte, int(n%37))
	for i := range b {
		b[i] = byte('a' + (int(n)*7+i*3)%26)
	}
	return "chat.room.say", b
}

func encPkt(w string) ([]byte, bool) {
	switch {
	case w == "hs1":
		return mustPkt(packet.Handshake, []byte(`{"sys":{"platform":"verif","libVersion":"1"},"user":{}}`)), true
	case w == "hs0":
		return mustPkt(packet.Handshake, []byte(`{"sys":`)), true
	case w == "ack":
		return mustPkt(packet.HandshakeAck, nil), true
	case w == "hb":
		return mustPkt(packet.Heartbeat, nil), true
	case w == "ot":
		return mustPkt(packet.Kick, nil), true
	case strings.HasPrefix(w, "d"):
		n, err := strconv.ParseUint(w[1:], 10, 32)
		if err != nil {
			return nil, false
		}
		route, payload := sentAs(uint32(n))
		mb, err := msgEnc.Encode(&message.Message{Type: message.Request, ID: uint(n), Route: route, Data: payload})
		if err != nil {
			panic(err)
		}
		return mustPkt(packet.Data, mb), true
	case strings.HasPrefix(w, "b"):
		// a decodable request with a body larger than the socket buffers (it cannot arrive in one piece)
		n, err := strconv.ParseUint(w[1:], 10, 32)
		if err != nil {
			return nil, false
		}
		mb, err := msgEnc.Encode(&message.Message{Type: message.Request, ID: uint(n), Route: "chat.room.say", Data: bigBody})
		if err != nil {
			panic(err)
		}
		return mustPkt(packet.Data, mb), true
	case strings.HasPrefix(w, "x"):
		if _, err := strconv.ParseUint(w[1:], 10, 32); err != nil {
			return nil, false
		}
		return mustPkt(packet.Data, badMsgBody), true
	}
	return nil, false
}

func parseItem(v string) (item, bool) {
	switch {
	case v == "bad":
		// a header with an invalid packet type: Decoder.Decode fails
		return item{data: []byte{0x09, 0x00, 0x00, 0x01, 0x41}}, true
	case v == "err":
		return item{err: errRead}, true
	case v == "eof":
		return item{err: constants.ErrConnectionClosed}, true
	case strings.HasPrefix(v, "f:"):
		body := v[2:]
		if body == "" {
			// shorter than a header: "Read no packets"
			return item{data: []byte{0x04, 0x00}}, true
		}
		var data []byte
		for _, w := range strings.Split(body, ",") {
			b, ok := encPkt(w)
			if !ok {
				return item{}, false
			}
			data = append(data, b...)
		}
		return item{data: data}, true
	}
	return item{}, false
}

func (h *H) drain() {
	for {
		select {
		case t := <-h.sc.GetChanTask():
			if t != nil {
				h.sc.DoTask(t)
			}
		default:
			return
		}
	}
}

func (h *H) reset(next int, hasNext bool, kh bool) string {
	// leftovers of the previous case (only when it had no `end`)
	if h.conns != nil {
		h.finish()
	}
	h.conns = map[int]*pconn{}
	h.order = nil
	h.bySess = map[pi.IClientSession]*pconn{}
	h.sc = sche.NewSche()
	h.css = impls.NewClientSessions("gate-1")
	h.kh, h.pendK = kh, nil
	if kh {
		h.css.SetKickHandler(&kickH{h: h})
	}
	if hasNext {
		if !setCounter(h.css, uint32(next)) {
			return "none"
		}
	}
	h.hc = impls.NewHandler(nil)
	h.hc.Init((*service.NodeService)(nil))
	r := &rec{h: h}
	h.css.SetHandler(r)
	h.css.SetOnCloseHandler(func(ns *service.NodeService, fs *cs.FrontSession) {
		if c := r.connOfFS(fs); c != nil && len(c.ow) > 0 && strings.HasPrefix(c.ow[len(c.ow)-1], "r") {
			c.ow[len(c.ow)-1] += "1"
			if strings.Contains(c.cbp, "c") {
				panic("scripted panic in the sessions' close callback")
			}
		}
	})
	h.cfg = session.NewSessionConfig(nil)
	h.cfg.Impl = &tee{h: h, real: pomelo.NewSessionsImpl(h.sc, h.css)}
	synctest.Wait()
	if h.base0 == 0 {
		// first case: the minimum over a bounded number of samples
		h.base0 = runtime.NumGoroutine()
		for i := 0; i < 20000; i++ {
			runtime.Gosched()
			if m := runtime.NumGoroutine(); m < h.base0 {
				h.base0 = m
			}
		}
	}
	h.base = goroutines(h.base0)
	return "ok"
}

func (h *H) grantReader(c *pconn, g grant) bool {
	c.mu.Lock()
	st := c.rdState
	c.mu.Unlock()
	if st != 'h' && st != 'm' {
		return false
	}
	c.rdGrant <- g
	synctest.Wait()
	return true
}

// finish: close every session, let every parked goroutine go, run the owner
func (h *H) finish() {
	for _, k := range h.order {
		h.conns[k].sess.Close()
		synctest.Wait()
	}
	for _, k := range h.order {
		c := h.conns[k]
		for i := 0; i < 50; i++ {
			if !h.grantReader(c, grant{step: false, hsOK: true}) {
				break
			}
		}
	}
	h.drain()
	synctest.Wait()
}

func (h *H) obs(k int, extra string) string {
	var sb strings.Builder
	for i, ck := range h.order {
		c := h.conns[ck]
		if i > 0 {
			sb.WriteByte(';')
		}
		c.mu.Lock()
		wr := "-"
		if c.wrParked {
			wr = "p"
		}
		fmt.Fprintf(&sb, "c%d:st=%d,rd=%c,wr=%s,cc=%d,nw=%d,hw=%d,np=%d,ev=%s,ow=%s,tb=%s", c.k, c.sess.GetStatus(), c.rdState, wr, c.nclose, c.nw, c.hw, c.np,
			strings.Join(c.ev, ""), strings.Join(c.ow, ""), c.tb)
		c.mu.Unlock()
		if ck == k {
			sb.WriteString(extra)
		}
	}
	// what the harness expects to be alive: 3 goroutines per connection that was not closed, the parked reader of a closed one
	expect := h.base
	for _, ck := range h.order {
		c := h.conns[ck]
		c.mu.Lock()
		if !c.closed {
			expect += 3
		} else if c.rdState == 'h' || c.rdState == 'm' {
			expect++
		}
		c.mu.Unlock()
	}
	var ids []int
	h.css.VisitSession(func(fs *cs.FrontSession) { ids = append(ids, int(fs.GetNetId())) })
	sort.Ints(ids)
	strs := make([]string, len(ids))
	for i, id := range ids {
		strs[i] = strconv.Itoa(id)
	}
	fmt.Fprintf(&sb, " | live=%s g=%d", strings.Join(strs, ","), goroutines(expect)-h.base)
	return sb.String()
}

// exec interprets one op line against the real code
func (h *H) exec(op string) string {
	ws := hx.Words(op)
	if len(ws) == 0 {
		return "bad-op"
	}
	k := hx.KVInt(ws, "c")
	var c *pconn
	if h.conns != nil {
		c = h.conns[k]
	}
	if ws[0] != "reset" && h.conns == nil {
		return "bad-op"
	}
	if strings.HasPrefix(ws[0], "<harness-exit") {
		// replay of a run that died: the armed op is what killed it
		ws = []string{"go"}
	}
	switch ws[0] {
	case "arm":
		// only recorded; the trace is flushed so that a process death during `go` leaves the case on disk
		h.armed = strings.Join(ws[1:], " ")
		if h.x != nil {
			h.x.Flush()
		}
		return "ok"
	case "go":
		if h.armed == "" {
			return "none"
		}
		op := h.armed
		h.armed = ""
		return h.exec(op)
	case "fill":
		if c == nil {
			return "none"
		}
		n := hx.KVInt(ws, "n")
		c.mu.Lock()
		ok := c.wrParked && !c.closed
		c.mu.Unlock()
		room, known := chanRoom(c.sess)
		if !ok || c.sess.GetStatus() == session.StatusClosed || (known && n > room) || n > 9999 {
			return "none"
		}
		for i := 0; i < n; i++ {
			c.sess.Push("onFill", []byte("z"))
		}
		c.filled = true
		synctest.Wait()
		room, known = chanRoom(c.sess)
		if !known {
			room = 9999 - n
		}
		return h.obs(k, fmt.Sprintf(",q=%d", 9999-room))
	case "reset":
		h.armed = ""
		_, has := hx.KV(ws, "next")
		khv, _ := hx.KV(ws, "kh")
		return h.reset(hx.KVInt(ws, "next"), has, khv == "1")
	case "open":
		if c != nil || k == 0 {
			return "none"
		}
		c = &pconn{k: k, in: make(chan item), rdGrant: make(chan grant), wrGrant: make(chan bool), closedCh: make(chan struct{}),
			rdState: 'x', hsOK: true}
		c.cbp, _ = hx.KV(ws, "cbp")
		c.ce, _ = hx.KV(ws, "ce")
		c.oa, _ = hx.KV(ws, "oa")
		h.conns[k] = c
		h.order = append(h.order, k)
		h.mu.Lock()
		h.opening = c
		h.mu.Unlock()
		c.sess = session.NewClientSession(c, h.cfg)
		h.mu.Lock()
		h.opening = nil
		h.mu.Unlock()
		c.sess.Handle()
		synctest.Wait()
		return h.obs(k, "")
	case "in":
		if c == nil {
			return "none"
		}
		v, _ := hx.KV(ws, "it")
		it, ok := parseItem(v)
		if !ok {
			return "none"
		}
		c.mu.Lock()
		st := c.rdState
		c.mu.Unlock()
		if st != 'w' {
			return "none"
		}
		c.in <- it
		synctest.Wait()
		return h.obs(k, "")
	case "rd", "rds":
		if c == nil {
			return "none"
		}
		w, _ := hx.KV(ws, "w")
		if !h.grantReader(c, grant{step: ws[0] == "rds", hsOK: w != "0"}) {
			return "none"
		}
		return h.obs(k, "")
	case "wr":
		if c == nil {
			return "none"
		}
		c.mu.Lock()
		p := c.wrParked
		c.mu.Unlock()
		if !p {
			return "none"
		}
		okv, _ := hx.KV(ws, "ok")
		c.wrGrant <- (okv != "0")
		synctest.Wait()
		return h.obs(k, "")
	case "adv":
		time.Sleep(time.Duration(hx.KVInt(ws, "dt")) * time.Millisecond)
		synctest.Wait()
		return h.obs(0, "")
	case "kick":
		if c == nil {
			return "none"
		}
		c.sess.Close()
		synctest.Wait()
		return h.obs(k, "")
	case "okick":
		if c == nil {
			return "none"
		}
		h.css.Kick(c.sess.GetId())
		synctest.Wait()
		return h.obs(k, "")
	case "dokick":
		// the kick handler's delayed DoKick of the oldest id it was handed
		if len(h.pendK) == 0 {
			return "none"
		}
		id := h.pendK[0]
		h.pendK = h.pendK[1:]
		h.css.DoKick(id)
		synctest.Wait()
		return h.obs(0, "") + fmt.Sprintf(" kid=%d", id)
	case "push":
		if c == nil {
			return "none"
		}
		if h.css.GetSession(c.sess.GetId()) != nil && h.wouldBlock(c) {
			return "none"
		}
		h.css.PushMsg(&msgs.PushMsg{Ids: []uint32{c.sess.GetId()}, Route: "onNews", Data: []byte(`{"n":1}`)})
		synctest.Wait()
		return h.obs(k, "")
	case "qfill":
		// a backlogged owner: N filler closures in its scheduler queue (never to within 9 of its capacity:
		// the scenario's own posts must not find it full)
		n := hx.KVInt(ws, "n")
		if n <= 0 || len(h.sc.GetChanTask())+n > sche.QueueSize-9 {
			return "none"
		}
		for i := 0; i < n; i++ {
			h.sc.Post(func() {})
		}
		synctest.Wait()
		return h.obs(0, "")
	case "mpush":
		// one PushMsg for several ids: cK = the id connection K has (0 before its add was processed), u<n> = an id nobody has
		v, _ := hx.KV(ws, "ids")
		var ids []uint32
		aimed := map[*pconn]int{}
		for _, w := range strings.Split(v, ",") {
			switch {
			case strings.HasPrefix(w, "c"):
				n, err := strconv.Atoi(w[1:])
				tc := h.conns[n]
				if err != nil || tc == nil {
					return "none"
				}
				if h.css.GetSession(tc.sess.GetId()) != nil {
					// a push that finds the queue full would park the owner (= the controller): such an op is not run
					aimed[tc]++
					tc.mu.Lock()
					closed := tc.closed
					tc.mu.Unlock()
					if room, ok := chanRoom(tc.sess); ok && !closed && tc.sess.GetStatus() != session.StatusClosed && aimed[tc] > room {
						return "none"
					}
				}
				ids = append(ids, tc.sess.GetId())
			case strings.HasPrefix(w, "u"):
				n, err := strconv.Atoi(w[1:])
				if err != nil {
					return "none"
				}
				ids = append(ids, uint32(3000000000+n))
			default:
				return "none"
			}
		}
		h.css.PushMsg(&msgs.PushMsg{Ids: ids, Route: "onNews", Data: []byte(`{"n":3}`)})
		synctest.Wait()
		return h.obs(0, "")
	case "spush":
		if c == nil || h.wouldBlock(c) {
			return "none"
		}
		err := c.sess.Push("onNews", []byte(`{"n":2}`))
		synctest.Wait()
		if err != nil {
			return h.obs(k, ",r=closed")
		}
		return h.obs(k, ",r=ok")
	case "drain":
		h.drain()
		synctest.Wait()
		return h.obs(0, "")
	case "end":
		h.finish()
		return h.obs(0, "")
	}
	return "bad-op"
}

// ---------------------------------------------------------------- generator

type gen struct {
	h    *H
	hx   *hx.T
	nmid map[int]int
	ph   map[int]int // what the generator believes: 0 nothing sent, 1 handshake sent, 2 ack sent
	fills bool       // this case may fill a send queue (10k pushes: not every case)
}

func (g *gen) mid(k int) int {
	g.nmid[k]++
	return k*1000 + g.nmid[k]
}

func (g *gen) dataPkts(k int, n int) []string {
	var ps []string
	for i := 0; i < n; i++ {
		switch r := g.hx.R.Intn(20); {
		case r < 13:
			ps = append(ps, fmt.Sprintf("d%d", g.mid(k)))
		case r < 15:
			ps = append(ps, "hb")
		case r < 16:
			ps = append(ps, "ot")
		case r < 17:
			ps = append(ps, fmt.Sprintf("x%d", g.mid(k)))
		case r < 18:
			ps = append(ps, "ack")
		default:
			ps = append(ps, fmt.Sprintf("d%d", g.mid(k)))
		}
	}
	return ps
}

func (g *gen) inputFor(k int) string {
	R := g.hx.R
	if R.Intn(100) < 4 {
		return []string{"bad", "err", "eof", "f:"}[R.Intn(4)]
	}
	switch g.ph[k] {
	case 0:
		switch r := R.Intn(20); {
		case r < 8:
			g.ph[k] = 1
			return "f:hs1"
		case r < 13:
			g.ph[k] = 2
			return "f:hs1,ack"
		case r < 15:
			g.ph[k] = 2
			return "f:hs1,ack," + strings.Join(g.dataPkts(k, 1+R.Intn(2)), ",")
		case r < 16:
			return "f:hs0"
		case r < 17:
			return "f:" + strings.Join(g.dataPkts(k, 1), ",") // data before the handshake: ignored
		case r < 18:
			g.ph[k] = 2
			return "f:ack" // ack without handshake: the code goes Working
		case r < 19:
			return "bad"
		default:
			return "eof"
		}
	case 1:
		switch r := R.Intn(10); {
		case r < 6:
			g.ph[k] = 2
			return "f:ack"
		case r < 8:
			g.ph[k] = 2
			return "f:ack," + strings.Join(g.dataPkts(k, 1+R.Intn(2)), ",")
		case r < 9:
			return "f:" + strings.Join(g.dataPkts(k, 1), ",")
		default:
			return "f:hs1"
		}
	default:
		switch r := R.Intn(20); {
		case r < 12:
			return "f:" + strings.Join(g.dataPkts(k, 1+R.Intn(3)), ",")
		case r < 15:
			return "f:hb"
		case r < 16:
			return "f:hs1"
		case r < 17:
			return "f:hs0"
		case r < 18:
			return "err"
		case r < 19:
			return "eof"
		default:
			return "f:" + strings.Join(g.dataPkts(k, 4+R.Intn(3)), ",")
		}
	}
}

var advChoices = []int{1, 10, 5000, 9999, 10000, 10001, 19999, 20000, 20001, 30000, 60000}

// next picks the next op from what the harness can see of the real sessions
func (g *gen) next(maxConn int) string {
	R := g.hx.R
	h := g.h
	if len(h.order) == 0 || (len(h.order) < maxConn && R.Intn(6) == 0) {
		op := fmt.Sprintf("open c=%d", len(h.order)+1)
		switch R.Intn(12) {
		case 0:
			op += " cbp=h"
		case 1:
			op += " cbp=c"
		}
		switch R.Intn(8) {
		case 0:
			op += " ce=1" // closing the socket reports an error (the peer had reset it)
		case 1:
			op += " ce=f"
		}
		switch R.Intn(14) {
		case 0:
			op += " oa=k" // the owner's handler kicks the session from inside OnSessionAdd
		case 1:
			op += " oa=p" // ... pushes a greeting to it
		}
		return op
	}
	k := h.order[R.Intn(len(h.order))]
	c := h.conns[k]
	c.mu.Lock()
	st, parked, closed := c.rdState, c.wrParked, c.closed
	c.mu.Unlock()
	// a non-reading client: the writer is parked in Write, the application fills the send queue
	if parked && !closed && !c.filled && g.fills && c.sess.GetStatus() == session.StatusWorking && R.Intn(4) == 0 {
		if room, ok := chanRoom(c.sess); ok && room > 0 {
			return fmt.Sprintf("fill c=%d n=%d", k, room)
		}
	}
	if c.filled && !closed && R.Intn(3) == 0 {
		return "adv dt=10000" // the heartbeat tick parks on the full queue
	}
	if h.kh {
		// a front-end with a kick handler: kick requests for sessions that are up, the handler's DoKick some time later
		if len(h.pendK) > 0 && R.Intn(4) == 0 {
			return "dokick"
		}
		if g.ph[k] >= 2 && R.Intn(10) == 0 {
			return fmt.Sprintf("okick c=%d", k)
		}
	}
	r := R.Intn(100)
	// mostly: what moves this connection forward
	switch {
	case r < 50:
		switch st {
		case 'w':
			return fmt.Sprintf("in c=%d it=%s", k, g.inputFor(k))
		case 'h', 'm':
			switch q := R.Intn(20); {
			case q < 12:
				return fmt.Sprintf("rd c=%d", k)
			case q < 17:
				return fmt.Sprintf("rds c=%d", k)
			case q < 18:
				return fmt.Sprintf("rd c=%d w=0", k)
			default:
				// something else happens while the reader holds its frame
				return g.disturb(k)
			}
		}
		if parked {
			return fmt.Sprintf("wr c=%d ok=1", k)
		}
		if closed {
			return g.disturb(k)
		}
		return "drain"
	case r < 60:
		if parked {
			if R.Intn(5) == 0 {
				return fmt.Sprintf("wr c=%d ok=0", k)
			}
			return fmt.Sprintf("wr c=%d ok=1", k)
		}
		return "drain"
	case r < 72:
		return "drain"
	case r < 84:
		return fmt.Sprintf("adv dt=%d", advChoices[R.Intn(len(advChoices))])
	case r < 90:
		if st == 'w' && !closed {
			return fmt.Sprintf("in c=%d it=f:hb", k)
		}
		if R.Intn(2) == 0 {
			return g.mpush()
		}
		return fmt.Sprintf("push c=%d", k)
	case r < 97:
		if g.ph[k] < 2 && R.Intn(3) != 0 {
			return "drain"
		}
		return g.disturb(k)
	default:
		// an op that is probably not enabled
		return []string{fmt.Sprintf("rd c=%d", k), fmt.Sprintf("wr c=%d ok=1", k), fmt.Sprintf("in c=%d it=f:hb", k), fmt.Sprintf("open c=%d", k),
			fmt.Sprintf("rds c=%d", k+7)}[R.Intn(5)]
	}
}

// mpush: one push for several ids: live, gone and never-existing ids mixed in every position
func (g *gen) mpush() string {
	R := g.hx.R
	n := 1 + R.Intn(5)
	var ids []string
	for i := 0; i < n; i++ {
		if R.Intn(3) == 0 {
			ids = append(ids, fmt.Sprintf("u%d", R.Intn(50)))
		} else {
			ids = append(ids, fmt.Sprintf("c%d", g.h.order[R.Intn(len(g.h.order))]))
		}
	}
	return "mpush ids=" + strings.Join(ids, ",")
}

func (g *gen) disturb(k int) string {
	if g.hx.R.Intn(5) == 0 {
		return g.mpush()
	}
	switch r := g.hx.R.Intn(20); {
	case r < 5:
		return fmt.Sprintf("kick c=%d", k)
	case r < 8:
		return fmt.Sprintf("okick c=%d", k)
	case r < 12:
		return fmt.Sprintf("push c=%d", k)
	case r < 14:
		return fmt.Sprintf("spush c=%d", k)
	case r < 17:
		return fmt.Sprintf("adv dt=%d", advChoices[g.hx.R.Intn(len(advChoices))])
	default:
		return "drain"
	}
}

func opKind(op string) string {
	ws := hx.Words(op)
	if len(ws) == 0 {
		return "?"
	}
	if ws[0] == "in" {
		v, _ := hx.KV(ws, "it")
		switch {
		case strings.HasPrefix(v, "f:"):
			n := 0
			if len(v) > 2 {
				n = len(strings.Split(v[2:], ","))
			}
			tag := "in:frame"
			if n == 0 {
				tag = "in:frame-empty"
			} else if n > 1 {
				tag = "in:frame-multi"
			}
			for _, w := range []string{"hs0", "hs1", "ack", "x", "hb", "ot"} {
				if strings.Contains(v, w) {
					return tag + "+" + w
				}
			}
			return tag
		default:
			return "in:" + v
		}
	}
	return ws[0]
}

func quiet() {
	logger.SetLogLevel(logrus.PanicLevel)
	if l := proxy.GetLogs().GetLog("exception"); l != nil {
		l.SetLogLevel(logrus.PanicLevel) // recovered panics of scripted callbacks are logged with a stack
	}
	log.SetOutput(io.Discard)
}

// TestTCP: the tcp smoke engine (real sockets, real time)
func TestTCP(t *testing.T) {
	quiet()
	x := hx.Open()
	runTCP(x, nil)
	x.Close()
}

func TestRun(t *testing.T) {
	quiet()
	if ops := hx.ReplayOps(); ops != nil && isTCPReplay(ops) {
		x := hx.Open()
		runTCP(x, ops)
		x.Close()
		return
	}
	synctest.Test(t, func(t *testing.T) {
		x := hx.Open()
		h := &H{x: x}
		count := func(op, obs string) {
			x.Count("op:" + opKind(op))
			if obs == "none" {
				x.Count("not-enabled")
			}
		}
		run := func(op string) string {
			obs := hx.Guard(func() string { return h.exec(op) })
			x.Emit(op, obs)
			if strings.HasPrefix(op, "arm ") {
				// the step that follows may kill the process: the case so far must be on disk
				x.Flush()
			}
			count(op, obs)
			return obs
		}
		if ops := hx.ReplayOps(); ops != nil {
			for _, op := range ops {
				run(op)
			}
		} else {
			for _, op := range hx.CorpusOps(hx.Env("VERIF_DIR", "/verif") + "/harness/corpus/C05") {
				run(op)
			}
			n := hx.EnvInt("VERIF_N", 3000)
			canWrap := setCounter(impls.NewClientSessions("probe"), 5)
			for x.N < n {
				g := &gen{h: h, hx: x, nmid: map[int]int{}, ph: map[int]int{}, fills: x.R.Intn(25) == 0}
				reset := "reset"
				if canWrap && x.R.Intn(12) == 0 {
					// ids around the wrap of the 32-bit counter (0 is skipped)
					reset = fmt.Sprintf("reset next=%d", 4294967295-uint32(x.R.Intn(4)))
					x.Count("case:id-wrap")
				}
				if x.R.Intn(5) == 0 {
					reset += " kh=1"
					x.Count("case:kick-handler")
				}
				run(reset)
				if x.R.Intn(15) == 0 {
					// backlogged owner: its queue within 10 of capacity while one connection lives its whole life
					x.Count("case:owner-backlog")
					run(fmt.Sprintf("qfill n=%d", sche.QueueSize-10+x.R.Intn(2)))
					run("open c=1")
					left := 5
					first := true
					for left > 0 && x.R.Intn(4) != 0 {
						k := 1 + x.R.Intn(3)
						if k > left {
							k = left
						}
						left -= k
						pk := g.dataPkts(1, k)
						if first {
							pk = append([]string{"hs1", "ack"}, pk...)
							first = false
						}
						run("in c=1 it=f:" + strings.Join(pk, ","))
						run([]string{"rd c=1", "rd c=1", "rds c=1"}[x.R.Intn(3)])
						run("rd c=1")
					}
					switch x.R.Intn(4) {
					case 0:
						run("kick c=1")
					case 1:
						run("in c=1 it=eof")
						run("rd c=1")
					case 2:
						run("adv dt=30000")
					}
					run("drain")
					run("end")
					continue
				}
				maxConn := []int{1, 1, 1, 2, 2, 3}[x.R.Intn(6)]
				x.Count(fmt.Sprintf("case:conns=%d", maxConn))
				length := 4 + x.R.Intn(36)
				firstClose := map[int]bool{}
				lastIn := map[int]string{}
				for i := 0; i < length; i++ {
					op := g.next(maxConn)
					// what the generator can see just before the grant
					pre := map[int][2]bool{}
					for _, k := range h.order {
						c := h.conns[k]
						c.mu.Lock()
						pre[k] = [2]bool{c.rdState == 'h' || c.rdState == 'm', c.wrParked}
						c.mu.Unlock()
					}
					anyFilled := false
					for _, k := range h.order {
						if h.conns[k].filled {
							anyFilled = true
						}
					}
					var obs string
					if anyFilled {
						// a sender may be parked on a full queue: a step that closes the session could kill the process
						run("arm " + op)
						obs = run("go")
						x.Count("armed-step")
					} else {
						obs = run(op)
					}
					ows := hx.Words(op)
					if ows[0] == "in" && obs != "none" {
						lastIn[hx.KVInt(ows, "c")] = opKind(op)
					}
					for _, k := range h.order {
						c := h.conns[k]
						c.mu.Lock()
						cl := c.closed
						st := c.sess.GetStatus()
						nev := len(c.ev)
						c.mu.Unlock()
						if cl && !firstClose[k] {
							firstClose[k] = true
							kind := opKind(op)
							if kind == "rd" || kind == "rds" {
								kind += ":" + lastIn[k]
							}
							x.Count("closed-by:" + kind)
							x.Count(fmt.Sprintf("closed-in-status:%d", st))
							if pre[k][0] && opKind(op) != "rd" && opKind(op) != "rds" {
								x.Count("race:closed-while-reader-holds-a-frame")
							}
							if pre[k][1] {
								x.Count("race:closed-while-writer-in-Write")
							}
							if nev > 2 {
								x.Count("closed-after-messages")
							}
						}
						if cl && st != 4 {
							x.Count("state:status-regressed-after-close")
						}
					}
				}
				open := 0
				for _, k := range h.order {
					if !firstClose[k] {
						open++
					}
				}
				if open > 0 {
					x.Count("closed-by:end")
				}
				run("arm end")
				run("go")
			}
		}
		x.Close()
		syscall.Exit(0)
	})
}
