// C05 tcp smoke engine: the real acceptor.TCPAcceptor on 127.0.0.1 (real time, no
// bubble), pomelo.StartAcceptor creating real ClientSessions over the acceptor's
// own tcpPlayerConn (GetNextMessage framing), SessionsImpl + ClientSessions drained
// by sche.Handler.  One op = one whole connection:
//
//	reset-tcp pk=<pk,pk,..> tail=<hex> [lens=<body length of every packet> cut=<byte offsets>] [passive=1] [lag=1]
//
// the client writes the packets, then the raw tail bytes, then half-closes and
// reads until the server closes.  `cut`: the byte stream does not arrive in one
// piece: the client pauses at each of these offsets of the stream (TCP segmentation:
// a header split from its body, a body in two halves, two packets glued together);
// `b<mid>` is a data packet with a body larger than the socket buffers.  `lens` (the
// body lengths as encoded) lets the model frame the same stream byte for byte.  `passive=1`: the client does NOT
// half-close and never closes first: it keeps its side open and silent; the connection is ended by the server - by the
// reader when the stream ends in a malformed header, otherwise by an owner-side kick (ClientSessions.Kick posted to the
// owner's scheduler) once the owner has seen every data message of the script; goroutines are counted while the client's
// socket is still open, then the client writes again: a socket that was really closed answers with a reset (`rel`).
// Observation (after everything settled):
//
//	ev=<A M.. R>,ow=<a m.. r11>,eof=<client saw the server close>,g=<goroutines left>[,rel=<the server's socket is gone>]
package c05

import (
	"encoding/hex"
	"fmt"
	"io"
	"net"
	"runtime"
	"sort"
	"strconv"
	"strings"
	"sync"
	"sync/atomic"
	"time"

	"cell2verif/hx"

	"github.com/dfklegend/cell2/node/builtin/msgs"
	"github.com/dfklegend/cell2/node/client/impls"
	"github.com/dfklegend/cell2/node/client/impls/pomelo"
	cs "github.com/dfklegend/cell2/node/client/session"
	"github.com/dfklegend/cell2/node/service"
	"github.com/dfklegend/cell2/pomelonet/common/conn/codec"
	"github.com/dfklegend/cell2/pomelonet/common/conn/message"
	pi "github.com/dfklegend/cell2/pomelonet/interfaces"
	"github.com/dfklegend/cell2/pomelonet/server/acceptor"
	"github.com/dfklegend/cell2/pomelonet/server/session"
	"github.com/dfklegend/cell2/utils/sche"
)

type tcpEnv struct {
	mu   sync.Mutex
	ev   map[pi.IClientSession][]string
	ow   map[pi.IClientSession][]string
	bad  map[pi.IClientSession][]string // ids of the messages the handler got with a route/payload other than the one sent under the id
	last pi.IClientSession
	addr string
	real pi.IClientSessionImpl
	hc   *impls.HandlerComponent
	cbH  int
	sc   *sche.Sche
	css  *impls.ClientSessions
}

func (e *tcpEnv) OnSessionCreate(s pi.IClientSession) {
	e.mu.Lock()
	e.ev[s] = append(e.ev[s], "A")
	e.last = s
	e.mu.Unlock()
	e.real.OnSessionCreate(s)
}

func (e *tcpEnv) OnSessionClose(s pi.IClientSession) {
	e.mu.Lock()
	e.ev[s] = append(e.ev[s], "R")
	e.mu.Unlock()
	e.real.OnSessionClose(s)
}

func (e *tcpEnv) ProcessMessage(s pi.IClientSession, m *message.Message) {
	e.mu.Lock()
	if l := e.ev[s]; len(l) == 0 || l[len(l)-1] != "R" {
		e.ev[s] = append(e.ev[s], fmt.Sprintf("M%d", m.ID))
	}
	e.mu.Unlock()
	e.real.ProcessMessage(s, m)
}

func (e *tcpEnv) sessOf(fs *cs.FrontSession) pi.IClientSession {
	if fs == nil || fs.Session == nil {
		return nil
	}
	s, _ := fs.Session.(pi.IClientSession)
	return s
}

func (e *tcpEnv) Process(fs *cs.FrontSession, m *msgs.ClientMsg) {
	e.mu.Lock()
	defer e.mu.Unlock()
	if s := e.sessOf(fs); s != nil {
		e.ow[s] = append(e.ow[s], fmt.Sprintf("m%d", m.ClientReqId))
		// the message as the handler gets it NOW (it may have waited in the owner's queue while the reader went on)
		if !sentMatches(m) {
			e.bad[s] = append(e.bad[s], strconv.Itoa(int(m.ClientReqId)))
		}
	} else if e.last != nil {
		e.ow[e.last] = append(e.ow[e.last], fmt.Sprintf("n%d", m.ClientReqId))
	}
}

func (e *tcpEnv) OnSessionAdd(fs *cs.FrontSession) {
	e.mu.Lock()
	if s := e.sessOf(fs); s != nil {
		e.ow[s] = append(e.ow[s], "a")
	}
	e.mu.Unlock()
	e.hc.AddOnSessionClose(fs.GetNetId(), func(ns *service.NodeService, fs *cs.FrontSession) { e.cbH++ })
}

func (e *tcpEnv) OnSessionRemove(fs *cs.FrontSession) {
	e.cbH = 0
	e.hc.OnSessionRemove(fs)
	e.mu.Lock()
	if s := e.sessOf(fs); s != nil {
		e.ow[s] = append(e.ow[s], fmt.Sprintf("r%d", e.cbH))
	}
	e.mu.Unlock()
}

// sentMatches: route and payload are those the client sent under this id (`d<n>` / `b<n>` packets of encPkt)
func sentMatches(m *msgs.ClientMsg) bool {
	if len(m.Data) == len(bigBody) {
		return m.Route == "chat.room.say" && string(m.Data) == string(bigBody)
	}
	route, payload := sentAs(m.ClientReqId)
	return m.Route == route && string(m.Data) == string(payload)
}

func newTCPEnv() *tcpEnv { return newAccEnv(acceptor.NewTCPAcceptor("127.0.0.1:0")) }

// newAccEnv: the real SessionsImpl + ClientSessions drained by sche.Handler behind the given real acceptor
func newAccEnv(a acceptor.Acceptor) *tcpEnv {
	e := &tcpEnv{ev: map[pi.IClientSession][]string{}, ow: map[pi.IClientSession][]string{}, bad: map[pi.IClientSession][]string{}}
	sc := sche.NewSche()
	css := impls.NewClientSessions("gate-tcp")
	e.hc = impls.NewHandler(nil)
	e.hc.Init((*service.NodeService)(nil))
	css.SetHandler(e)
	css.SetOnCloseHandler(func(ns *service.NodeService, fs *cs.FrontSession) {
		e.mu.Lock()
		if s := e.sessOf(fs); s != nil {
			if l := e.ow[s]; len(l) > 0 && strings.HasPrefix(l[len(l)-1], "r") {
				l[len(l)-1] += "1"
			}
		}
		e.mu.Unlock()
	})
	e.real = pomelo.NewSessionsImpl(sc, css)
	e.sc, e.css = sc, css
	go sc.Handler()
	cfg := session.NewSessionConfig(nil)
	cfg.Impl = e
	pomelo.StartAcceptor(a, cfg)
	for i := 0; i < 500 && a.GetAddr() == ""; i++ {
		time.Sleep(2 * time.Millisecond)
	}
	e.addr = a.GetAddr()
	// StartAcceptor's own logging goroutine sleeps 1 s: let it finish before goroutines are counted
	time.Sleep(1100 * time.Millisecond)
	return e
}

func (e *tcpEnv) exec(op string) string {
	ws := hx.Words(op)
	if len(ws) == 0 || ws[0] != "reset-tcp" || e.addr == "" {
		return "bad-op"
	}
	var data []byte
	var lens []string
	if v, _ := hx.KV(ws, "pk"); v != "" {
		for _, w := range strings.Split(v, ",") {
			b, ok := encPkt(w)
			if !ok {
				return "bad-op"
			}
			data = append(data, b...)
			lens = append(lens, strconv.Itoa(len(b)-codec.HeadLength))
		}
	}
	if v, has := hx.KV(ws, "lens"); has && v != strings.Join(lens, ",") {
		return "bad-op" // the model would frame another stream
	}
	tailHex, _ := hx.KV(ws, "tail")
	tail, err := hex.DecodeString(tailHex)
	if err != nil {
		return "bad-op"
	}
	data = append(data, tail...)
	var cuts []int
	if v, _ := hx.KV(ws, "cut"); v != "" {
		prev := 0
		for _, w := range strings.Split(v, ",") {
			n, err := strconv.Atoi(w)
			if err != nil || n <= prev || n >= len(data) {
				return "bad-op"
			}
			cuts = append(cuts, n)
			prev = n
		}
	}
	send := func(conn net.Conn) { e.sendCut(conn, data, cuts) }
	if v, _ := hx.KV(ws, "lag"); v == "1" {
		// a busy owner: a task of its scheduler does not return until the reader has posted every data message of the
		// script or has ended the session (or 3 s have passed): the client's packets all arrive while the earlier messages
		// are still waiting in the owner's queue
		all := 0
		if v, _ := hx.KV(ws, "pk"); v != "" {
			for _, w := range strings.Split(v, ",") {
				if strings.HasPrefix(w, "d") || strings.HasPrefix(w, "b") {
					all++
				}
			}
		}
		e.mu.Lock()
		e.last = nil
		e.mu.Unlock()
		release := make(chan struct{})
		e.sc.Post(func() { <-release })
		go func() {
			defer close(release)
			for i := 0; i < 1500; i++ {
				_, ev, _ := e.logs()
				nm := 0
				for _, t := range ev {
					if strings.HasPrefix(t, "M") {
						nm++
					}
				}
				if len(ev) > 0 && (ev[len(ev)-1] == "R" || nm >= all) {
					break
				}
				time.Sleep(2 * time.Millisecond)
			}
			// the reader is a step ahead of what it has posted: let it take what is left of the stream
			time.Sleep(3 * time.Millisecond)
		}()
	}
	if v, _ := hx.KV(ws, "passive"); v == "1" {
		want := 0
		if v, _ := hx.KV(ws, "pk"); v != "" {
			for _, w := range strings.Split(v, ",") {
				if strings.HasPrefix(w, "d") || strings.HasPrefix(w, "b") {
					want++
				}
			}
		}
		return e.runConnPassive(func() (net.Conn, error) { return net.Dial("tcp", e.addr) }, send, want)
	}
	return e.runConn(func() (net.Conn, error) { return net.Dial("tcp", e.addr) }, send)
}

// badOf: ids of the connection's messages that were not handled with the payload sent under them
func (e *tcpEnv) badOf() string {
	e.mu.Lock()
	defer e.mu.Unlock()
	if e.last == nil {
		return ""
	}
	return strings.Join(e.bad[e.last], "+")
}

// logs of the connection being run
func (e *tcpEnv) logs() (s pi.IClientSession, ev, ow []string) {
	e.mu.Lock()
	defer e.mu.Unlock()
	s = e.last
	if s != nil {
		ev, ow = append([]string(nil), e.ev[s]...), append([]string(nil), e.ow[s]...)
	}
	return
}

// runConnPassive: one whole connection of a client that sends its stream and then keeps its side open and silent; the
// server ends it
func (e *tcpEnv) runConnPassive(dial func() (net.Conn, error), send func(net.Conn), want int) string {
	e.mu.Lock()
	e.last = nil
	e.mu.Unlock()
	base := runtime.NumGoroutine()
	conn, err := dial()
	if err != nil {
		return "dial-failed"
	}
	defer conn.Close()
	send(conn)
	// the owner has seen the add and every data message of the script (or the server has ended the connection by itself)
	var s pi.IClientSession
	for i := 0; i < tcpPassivePolls; i++ {
		var ev, ow []string
		s, ev, ow = e.logs()
		nm := 0
		for _, t := range ow {
			if strings.HasPrefix(t, "m") {
				nm++
			}
		}
		if s != nil && (len(ev) > 0 && ev[len(ev)-1] == "R" || (len(ow) > 0 && nm >= want)) {
			break
		}
		time.Sleep(2 * time.Millisecond)
	}
	if s == nil {
		return "no-session"
	}
	// the owner kicks the session (nothing happens when the reader has already ended it)
	e.sc.Post(func() { e.css.Kick(s.GetId()) })
	eof := 0
	conn.SetReadDeadline(time.Now().Add(tcpReadWait))
	if _, err := io.Copy(io.Discard, conn); err == nil {
		eof = 1
	} else if ne, ok := err.(net.Error); !ok || !ne.Timeout() {
		eof = 1
	}
	// everything of the connection is released although the client has not closed its side
	var ev, ow string
	g := 0
	settled := false
	for i := 0; i < tcpPolls; i++ {
		_, evl, owl := e.logs()
		ev, ow = strings.Join(evl, ""), strings.Join(owl, "")
		g = runtime.NumGoroutine() - base
		if strings.HasSuffix(ev, "R") && strings.HasSuffix(ow, "r11") && g <= 0 {
			settled = true
			break
		}
		time.Sleep(2 * time.Millisecond)
	}
	if !settled {
		tcpPolls = 150
		tcpReadWait = time.Second
		tcpPassivePolls = 150
	}
	if g < 0 {
		g = 0
	}
	// the server's socket is gone: what the client writes now is answered by a reset, the next write fails
	rel := 0
	conn.SetWriteDeadline(time.Now().Add(2 * time.Second))
	for i := 0; i < 400 && rel == 0; i++ {
		if _, err := conn.Write([]byte{3}); err != nil {
			if ne, ok := err.(net.Error); !ok || !ne.Timeout() {
				rel = 1
			}
			break
		}
		time.Sleep(2 * time.Millisecond)
	}
	return fmt.Sprintf("ev=%s,ow=%s,eof=%d,g=%d,pl=%s,rel=%d", ev, ow, eof, g, e.badOf(), rel)
}

// how long a passive client's connection waits for the owner to have seen its messages (2 ms apart)
var tcpPassivePolls = 2500

// sendCut: the client's byte stream, with a pause at every cut
func (e *tcpEnv) sendCut(conn net.Conn, data []byte, cuts []int) {
	// the stream leaves in pieces: what was written before a pause has reached the server before the rest is sent
	if tc, ok := conn.(*net.TCPConn); ok && len(cuts) > 0 {
		tc.SetNoDelay(true)
	}
	at := 0
	for _, n := range cuts {
		conn.Write(data[at:n])
		at = n
		time.Sleep(tcpPause)
	}
	conn.Write(data[at:])
}

// runConn: one whole client connection: dial, send, half-close, read until the server closes; the observation
func (e *tcpEnv) runConn(dial func() (net.Conn, error), send func(net.Conn)) string {
	e.mu.Lock()
	e.last = nil
	e.mu.Unlock()
	base := runtime.NumGoroutine()
	conn, err := dial()
	if err != nil {
		return "dial-failed"
	}
	send(conn)
	if tc, ok := conn.(*net.TCPConn); ok {
		tc.CloseWrite()
	}
	// read until the server closes (handshake response, heartbeats are discarded)
	eof := 0
	conn.SetReadDeadline(time.Now().Add(tcpReadWait))
	if _, err := io.Copy(io.Discard, conn); err == nil {
		eof = 1
	} else if ne, ok := err.(net.Error); !ok || !ne.Timeout() {
		// a reset (the server closed with unread bytes pending) is a close as well
		eof = 1
	}
	conn.Close()
	var ev, ow string
	g := 0
	settled := false
	for i := 0; i < tcpPolls; i++ {
		e.mu.Lock()
		s := e.last
		if s != nil {
			ev, ow = strings.Join(e.ev[s], ""), strings.Join(e.ow[s], "")
		}
		e.mu.Unlock()
		g = runtime.NumGoroutine() - base
		if strings.HasSuffix(ev, "R") && strings.HasSuffix(ow, "r11") && g <= 0 {
			settled = true
			break
		}
		time.Sleep(2 * time.Millisecond)
	}
	if !settled {
		// something really does not end: do not spend 10 s on every further connection
		tcpPolls = 150
		tcpReadWait = time.Second
	}
	if g < 0 {
		g = 0
	}
	return fmt.Sprintf("ev=%s,ow=%s,eof=%d,g=%d,pl=%s", ev, ow, eof, g, e.badOf())
}

// pause of the client at a cut of its byte stream
var tcpPause = 4 * time.Millisecond

// how often the end of a connection is polled for (2 ms apart)
var tcpPolls = 5000

// how long the client waits for the server to close the socket
var tcpReadWait = 15 * time.Second

var tcpTails = []string{"", "", "", "09000001", "04", "0400", "040000", "0400000a4142", "ff", "04ffffff", "00000000", "06000000"}

// tails of a passive client's stream: nothing, complete malformed headers (the reader ends the session), incomplete
// headers / bodies (the reader stays parked in Read)
var tcpPassiveTails = []string{"", "", "", "09000001", "00000000", "06000000", "04", "040000", "0400000a4142", "04ffffff"}

func genTCP(x *hx.T, i int) string {
	R := x.R
	var ps []string
	n := 0
	mid := func() int { n++; return 1000 + n }
	big := false
	passive := R.Intn(4) == 0
	if passive {
		// the client keeps its side open and silent: a well-formed script (every data message must arrive), ended by the server
		switch R.Intn(8) {
		case 0:
		case 1:
			ps = append(ps, "hs1")
		default:
			ps = append(ps, "hs1", "ack")
			for j, m := 0, R.Intn(6); j < m; j++ {
				switch R.Intn(10) {
				case 0:
					ps = append(ps, "hb")
				case 1:
					ps = append(ps, "ot")
				case 2:
					if !big {
						big = true
						ps = append(ps, fmt.Sprintf("b%d", mid()))
						break
					}
					fallthrough
				default:
					ps = append(ps, fmt.Sprintf("d%d", mid()))
				}
			}
		}
	}
	sel := R.Intn(8)
	if passive {
		sel = -1
	}
	switch sel {
	case -1: // chosen above
	case 0: // nothing or garbage only
	case 1:
		ps = append(ps, "hs0")
	case 2:
		ps = append(ps, "hs1")
	default:
		ps = append(ps, "hs1", "ack")
		for j, m := 0, R.Intn(6); j < m; j++ {
			switch R.Intn(10) {
			case 0:
				ps = append(ps, "hb")
			case 1:
				ps = append(ps, "ot")
			case 2:
				ps = append(ps, fmt.Sprintf("x%d", mid()))
			case 3:
				if !big {
					// one message larger than the socket buffers
					big = true
					ps = append(ps, fmt.Sprintf("b%d", mid()))
					break
				}
				fallthrough
			default:
				ps = append(ps, fmt.Sprintf("d%d", mid()))
			}
		}
	}
	if !passive && R.Intn(10) == 0 {
		ps = append([]string{fmt.Sprintf("d%d", mid())}, ps...) // data before the handshake
	}
	tail := tcpTails[R.Intn(len(tcpTails))]
	if passive {
		tail = tcpPassiveTails[R.Intn(len(tcpPassiveTails))]
	}
	// the byte stream as the client sends it: packet boundaries, body lengths
	var lens []string
	var bounds []int // offsets of the packet starts and of the end of the last packet
	total := 0
	for _, w := range ps {
		b, _ := encPkt(w)
		bounds = append(bounds, total)
		lens = append(lens, strconv.Itoa(len(b)-codec.HeadLength))
		total += len(b)
	}
	bounds = append(bounds, total)
	total += len(tail) / 2
	op := fmt.Sprintf("reset-tcp pk=%s tail=%s lens=%s", strings.Join(ps, ","), tail, strings.Join(lens, ","))
	// 2 of 3 connections: the stream arrives in 2-4 pieces, cut inside a header, between header and body, inside a body,
	// at a packet boundary or anywhere
	if total > 1 && R.Intn(3) != 0 {
		set := map[int]bool{}
		for j, m := 0, 1+R.Intn(3); j < m; j++ {
			c := 1 + R.Intn(total-1)
			if len(ps) > 0 {
				i := R.Intn(len(ps))
				body := bounds[i+1] - bounds[i] - codec.HeadLength
				switch R.Intn(5) {
				case 0:
					c = bounds[i] + 1 + R.Intn(codec.HeadLength-1) // inside the header
				case 1:
					c = bounds[i] + codec.HeadLength // header | body
				case 2, 3:
					if body > 1 {
						c = bounds[i] + codec.HeadLength + 1 + R.Intn(body-1) // inside the body
					}
				}
			}
			if c > 0 && c < total {
				set[c] = true
			}
		}
		var cs []int
		for c := range set {
			cs = append(cs, c)
		}
		sort.Ints(cs)
		var ss []string
		for _, c := range cs {
			ss = append(ss, strconv.Itoa(c))
		}
		if len(ss) > 0 {
			op += " cut=" + strings.Join(ss, ",")
		}
	}
	if passive {
		op += " passive=1"
	}
	if R.Intn(2) == 0 {
		op += " lag=1"
	}
	return op
}

// ---------------------------------------------------------------- accept burst
//
//	reset-burst n=N
//
// the real pomelo.StartAcceptor in front of a fake acceptor.Acceptor whose
// connection channel already holds N stub connections (a connect burst).  Every
// connection must be served by exactly one session: one OnSessionCreate per
// connection, exactly one reader in its GetNextMessage; then every client
// disconnects: one OnSessionClose and one conn.Close per connection.
// Observation: n=N,served1=<connections with exactly one reader>,adds=..,removes=..,closes=<connections closed exactly once>

type burstConn struct {
	mu      sync.Mutex
	readers int
	closes  int
	gone    chan struct{} // the client went away
	closed  chan struct{}
}

func (c *burstConn) GetNextMessage() ([]byte, error) {
	c.mu.Lock()
	c.readers++
	c.mu.Unlock()
	select {
	case <-c.gone:
		return nil, io.EOF
	case <-c.closed:
		return nil, io.ErrClosedPipe
	}
}
func (c *burstConn) Read(b []byte) (int, error)  { return 0, io.EOF }
func (c *burstConn) Write(b []byte) (int, error) { return len(b), nil }
func (c *burstConn) Close() error {
	c.mu.Lock()
	c.closes++
	if c.closes == 1 {
		close(c.closed)
	}
	c.mu.Unlock()
	return nil
}
func (c *burstConn) LocalAddr() net.Addr                { return &net.TCPAddr{} }
func (c *burstConn) RemoteAddr() net.Addr               { return &net.TCPAddr{} }
func (c *burstConn) SetDeadline(t time.Time) error      { return nil }
func (c *burstConn) SetReadDeadline(t time.Time) error  { return nil }
func (c *burstConn) SetWriteDeadline(t time.Time) error { return nil }

type burstAcceptor struct{ ch chan acceptor.PlayerConn }

func (a *burstAcceptor) ListenAndServe()                       {}
func (a *burstAcceptor) Stop()                                 {}
func (a *burstAcceptor) GetAddr() string                       { return "burst" }
func (a *burstAcceptor) GetConnChan() chan acceptor.PlayerConn { return a.ch }

type burstImpl struct{ adds, removes int32 }

func (i *burstImpl) ProcessMessage(pi.IClientSession, *message.Message) {}
func (i *burstImpl) OnSessionCreate(pi.IClientSession)                  { atomic.AddInt32(&i.adds, 1) }
func (i *burstImpl) OnSessionClose(pi.IClientSession)                   { atomic.AddInt32(&i.removes, 1) }

func execBurst(op string) string {
	ws := hx.Words(op)
	n := hx.KVInt(ws, "n")
	if n <= 0 || n > 512 {
		return "bad-op"
	}
	// one P, as in production under load: the accept loop keeps running while sessions are being set up
	defer runtime.GOMAXPROCS(runtime.GOMAXPROCS(1))
	impl := &burstImpl{}
	cfg := session.NewSessionConfig(nil)
	cfg.Impl = impl
	a := &burstAcceptor{ch: make(chan acceptor.PlayerConn, n)}
	conns := make([]*burstConn, n)
	for i := range conns {
		conns[i] = &burstConn{gone: make(chan struct{}), closed: make(chan struct{})}
		a.ch <- conns[i]
	}
	pomelo.StartAcceptor(a, cfg)
	close(a.ch)
	wait := func(done func() bool) {
		for i := 0; i < 1500 && !done(); i++ {
			time.Sleep(2 * time.Millisecond)
		}
	}
	readers := func() (total int) {
		for _, c := range conns {
			c.mu.Lock()
			total += c.readers
			c.mu.Unlock()
		}
		return
	}
	wait(func() bool { return int(atomic.LoadInt32(&impl.adds)) >= n && readers() >= n })
	time.Sleep(20 * time.Millisecond) // a surplus session would show up now
	served1 := 0
	for _, c := range conns {
		c.mu.Lock()
		if c.readers == 1 {
			served1++
		}
		c.mu.Unlock()
	}
	adds := int(atomic.LoadInt32(&impl.adds))
	for _, c := range conns {
		close(c.gone)
	}
	wait(func() bool { return int(atomic.LoadInt32(&impl.removes)) >= adds })
	time.Sleep(20 * time.Millisecond)
	closed1 := 0
	for _, c := range conns {
		c.mu.Lock()
		if c.closes == 1 {
			closed1++
		}
		c.mu.Unlock()
	}
	return fmt.Sprintf("n=%d,served1=%d,adds=%d,removes=%d,closes=%d", n, served1, adds, atomic.LoadInt32(&impl.removes), closed1)
}

func isTCPReplay(ops []string) bool {
	for _, op := range ops {
		if strings.HasPrefix(op, "reset-burst") || strings.HasPrefix(op, "reset-accept") || strings.HasPrefix(op, "reset-ws") || strings.HasPrefix(op, "reset-race") {
			return true
		}
		if strings.HasPrefix(op, "reset-tcp") || strings.HasPrefix(op, "reset-wsc") {
			return true
		}
	}
	return false
}

func runTCP(x *hx.T, ops []string) {
	burst := func(op string) {
		x.Emit(op, hx.Guard(func() string { return execBurst(op) }))
		x.Count("burst")
	}
	other := func(op string) {
		switch {
		case strings.HasPrefix(op, "reset-accept"):
			x.Emit(op, hx.Guard(func() string { return execAccept(op) }))
			x.Count("accept-while-consumer-stalled")
		case strings.HasPrefix(op, "reset-ws"):
			x.Emit(op, hx.Guard(func() string { return execWS(x) }))
			x.Count("ws-close-while-writer-stalled")
		case strings.HasPrefix(op, "reset-race"):
			x.Emit(op, hx.Guard(func() string { return execRace(x, op) }))
			if strings.Contains(op, "hold=1") {
				x.Count("race:close-causes-arrive-while-Close-is-running")
			} else {
				x.Count("race:close-causes-released-together")
			}
		}
	}
	if ops == nil {
		// accept bursts first
		for _, n := range []int{1, 2, 64, 8 + x.R.Intn(100)} {
			burst(fmt.Sprintf("reset-burst n=%d", n))
		}
		other(fmt.Sprintf("reset-accept n=%d", 150+x.R.Intn(30)))
		other("reset-ws")
		// simultaneous independent close causes (scaled with the tier)
		scale := 1 + hx.EnvInt("VERIF_N", 40)/500
		other(fmt.Sprintf("reset-race n=%d k=%d hold=1", 150*scale+x.R.Intn(50), 1+x.R.Intn(4)))
		other(fmt.Sprintf("reset-race n=%d k=%d hold=0", 300*scale+x.R.Intn(100), 2+x.R.Intn(7)))
	} else {
		tcp := false
		for _, op := range ops {
			if strings.HasPrefix(op, "reset-burst") {
				burst(op)
			}
			other(op)
			tcp = tcp || strings.HasPrefix(op, "reset-tcp") || strings.HasPrefix(op, "reset-wsc")
		}
		if !tcp {
			return
		}
	}
	e := newTCPEnv()
	run := func(op string) {
		obs := hx.Guard(func() string { return e.exec(op) })
		x.Emit(op, obs)
		ws := hx.Words(op)
		v, _ := hx.KV(ws, "tail")
		x.Count("tcp:tail=" + v)
		pk, _ := hx.KV(ws, "pk")
		if cv, _ := hx.KV(ws, "cut"); cv != "" {
			x.Count(fmt.Sprintf("tcp:stream-pieces=%d", 1+len(strings.Split(cv, ","))))
		} else {
			x.Count("tcp:stream-pieces=1")
		}
		if pv, _ := hx.KV(ws, "passive"); pv == "1" {
			x.Count("tcp:passive-client-ended-by-server")
		}
		if lv, _ := hx.KV(ws, "lag"); lv == "1" {
			x.Count("tcp:owner-busy-while-packets-arrive")
			if strings.Count(pk, "d")+strings.Count(pk, "b") >= 2 {
				x.Count("tcp:owner-busy-2+-messages-queued")
			}
		}
		if strings.HasPrefix(pk, "b") || strings.Contains(pk, ",b") {
			x.Count("tcp:body-larger-than-socket-buffer")
		}
		switch {
		case pk == "":
			x.Count("tcp:no-packets")
		case strings.Contains(pk, "hs0"):
			x.Count("tcp:bad-handshake")
		case strings.Contains(pk, "x"):
			x.Count("tcp:undecodable-message")
		case strings.Contains(pk, "ack"):
			x.Count("tcp:working-session")
		default:
			x.Count("tcp:handshake-only")
		}
	}
	var we *tcpEnv
	runWS := func(op string) {
		if we == nil {
			we = newAccEnv(acceptor.NewWSAcceptor("127.0.0.1:0"))
		}
		obs := hx.Guard(func() string { return we.execWSC(op) })
		x.Emit(op, obs)
		ws := hx.Words(op)
		v, _ := hx.KV(ws, "tail")
		x.Count("wsc:tail=" + v)
		if f, _ := hx.KV(ws, "frag"); f == "1" {
			x.Count("wsc:messages-fragmented")
		}
		if g, _ := hx.KV(ws, "glue"); g == "1" {
			x.Count("wsc:two-packets-in-one-message")
		}
	}
	if ops != nil {
		for _, op := range ops {
			if strings.HasPrefix(op, "reset-tcp") {
				run(op)
			}
			if strings.HasPrefix(op, "reset-wsc") {
				runWS(op)
			}
		}
		return
	}
	n := hx.EnvInt("VERIF_N", 40)
	for i := 0; i < n; i++ {
		run(genTCP(x, i))
	}
	// the same scripts through the real WSAcceptor: one packet per websocket message
	for i := 0; i < n/3+1; i++ {
		runWS(genWSC(x, i))
	}
}
