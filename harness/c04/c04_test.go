// C04 dynamic half: two instrumented harness services A and B — real
// node NodeService actors built by node/service.NewServiceWithDispatcher on the
// real StandardRunService / scheDisp / SmoothFrameMailbox — record at EVERY
// kind of entry point the goroutine they run on and how many goroutines are
// inside the service's code at that moment, while concurrent producers
// (poster goroutines, runtime timers, event publishers, the peer service,
// root-context notifies, scripted network readers driving the real
// pomelo.SessionsImpl) keep all queues busy.
//
// The whole run is inside a testing/synctest bubble: goroutines still run in
// parallel, only time is virtual, so the 30 s request timeout costs nothing and
// synctest.Wait() tells when a burst has drained.  A handler "dwells" inside
// the service (virtual sleep = until every other goroutine is blocked, yields,
// or a short spin) so that a second goroutine entering the service is seen.
//
// Op language (a case = `reset` followed by bursts):
//
//	reset
//	burst p=<producer goroutines> post=<n> tmr=<n> rep=<n> lev=<n> gev=<n> req=<n> raw=<n> ntf=<n>
//	      tmo=<0|1> sfl=<n> ses=<n> msg=<n> slow=<n> z=<n> sib=<n> dw=<sleep|yield|spin|mix>
//
// slow = notifies whose handler outlasts the mailbox's 20 ms frame budget, each with three more notifies
// queued behind it (smoothing pause, helper goroutine); z = timers armed with zero / negative delay, from
// the service and from a foreign goroutine; sib = how many of the 12 sibling actors that share A's
// dispatcher get a notify while A's goroutine is kept busy (more than its 9-slot channel holds).
//
// Observation: `ok A:<kind>=<count>/<gids>/<maxinflight>,… B:…` with the kinds in
// a fixed order, zero counts omitted; <gids> = the distinct goroutines the kind
// ran on, numbered in order of first appearance per service and case ("1" = the
// service's goroutine); <maxinflight> = largest number of distinct goroutines
// inside the service's code seen at an entry of that kind.
package c04

import (
	"fmt"
	"os"
	"runtime"
	"strconv"
	"strings"
	"sync"
	"sync/atomic"
	"syscall"
	"testing"
	"testing/synctest"
	"time"

	"cell2verif/hx"

	"github.com/asynkron/protoactor-go/actor"

	"github.com/dfklegend/cell2/actorex/mailbox"
	as "github.com/dfklegend/cell2/actorex/service"
	messages "github.com/dfklegend/cell2/actorex/service/servicemsgs"
	api "github.com/dfklegend/cell2/apimapper"
	"github.com/dfklegend/cell2/apimapper/apientry"
	"github.com/dfklegend/cell2/apimapper/registry"
	"github.com/dfklegend/cell2/node/builtin/msgs"
	"github.com/dfklegend/cell2/node/client/impls"
	"github.com/dfklegend/cell2/node/client/impls/pomelo"
	cs "github.com/dfklegend/cell2/node/client/session"
	ns "github.com/dfklegend/cell2/node/service"
	"github.com/dfklegend/cell2/pomelonet/common/conn/message"
	"github.com/dfklegend/cell2/utils/event"
	"github.com/dfklegend/cell2/utils/timer"
	"github.com/dfklegend/cell2/utils/waterfall"
)

// ---------------------------------------------------------------- monitor

var kindOrder = []string{"post", "tmr", "tz", "lev", "dlev", "gev", "req", "mute", "raw", "ntf", "slow", "sib", "rsp", "tmo", "sfl", "sadd", "smsg", "srem",
	"kick", "sio", "wstep", "wfin", "boom"}

type kstat struct {
	n     int
	gids  []int
	maxIn int
}

type mon struct {
	label  string           // "A" / "B"
	early  func(obs string) // called once per op at the first off-goroutine or overlapping entry
	told   bool
	mu     sync.Mutex
	canon  map[uint64]int
	inside map[uint64]int
	total  int // pieces of service code in progress, on whatever goroutine (a nested piece counts)
	stats  map[string]*kstat
	dwell  string
	tick   uint64
	latest *hsvc // newest incarnation of the actor (set by the producer)
	born   int   // how often the producer ran
}

func newMon() *mon {
	return &mon{canon: map[uint64]int{}, inside: map[uint64]int{}, stats: map[string]*kstat{}, dwell: "yield"}
}

func goid() uint64 {
	var buf [64]byte
	n := runtime.Stack(buf[:], false)
	s := strings.TrimPrefix(string(buf[:n]), "goroutine ")
	if i := strings.IndexByte(s, ' '); i > 0 {
		s = s[:i]
	}
	id, _ := strconv.ParseUint(s, 10, 64)
	return id
}

var spinSink uint64

// pieces that run synchronously inside another piece by design: the callback of a request that could
// not be serialised (inside Request), a listener of an event centre in direct mode (inside Publish)
// likewise the kick handler (called by ClientSessions.Kick inside the piece that kicks) and every use the
// framework makes of the connection object on the service's behalf (`sio`: id assignment in AddSession, id
// reads of the posted message / remove closures, Close of a kick)
var nestedByDesign = map[string]bool{"sfl": true, "dlev": true, "kick": true, "sio": true}

// kinds whose number of entries is an implementation detail (how often the framework reads the id of a
// connection): only the goroutines and the overlap are observed
var uncounted = map[string]bool{"sio": true}

// enter records one entry into the service's code; the returned function marks the exit.
func (m *mon) enter(kind string) func() {
	g := goid()
	m.mu.Lock()
	c, ok := m.canon[g]
	if !ok {
		c = len(m.canon) + 1
		m.canon[g] = c
	}
	m.inside[g]++
	// `sfl` (the callback of a request that could not be serialised) is called synchronously inside
	// Request by design; every other kind is a piece of its own and must not start inside another
	if !nestedByDesign[kind] {
		m.total++
	}
	in := m.total
	if len(m.inside) > in {
		in = len(m.inside)
	}
	st := m.stats[kind]
	if st == nil {
		st = &kstat{}
		m.stats[kind] = st
	}
	st.n++
	seen := false
	for _, x := range st.gids {
		if x == c {
			seen = true
		}
	}
	if !seen {
		st.gids = append(st.gids, c)
	}
	if in > st.maxIn {
		st.maxIn = in
	}
	var tell string
	if (c != 1 || in > 1) && !m.told && m.early != nil {
		// written (and flushed) at once: a second goroutine inside a service often crashes the
		// process soon after (unsynchronised maps), and the record must survive that
		m.told = true
		tell = fmt.Sprintf("%s=1/%d/%d", kind, c, in)
	}
	m.tick++
	mode := m.dwell
	if mode == "mix" {
		mode = []string{"sleep", "yield", "spin", "none"}[m.tick%4]
	}
	if kind == "sio" {
		mode = "none" // an accessor of the connection object, not a handler: recorded, no dwelling
	}
	m.mu.Unlock()
	if tell != "" {
		m.early("ok " + m.label + ":" + tell)
	}
	switch mode {
	case "sleep":
		time.Sleep(time.Microsecond) // virtual: returns when every other goroutine of the bubble is blocked
	case "yield":
		runtime.Gosched()
		runtime.Gosched()
	case "spin":
		var x uint64
		for i := 0; i < 400; i++ {
			x += uint64(i) * 2654435761
		}
		atomic.AddUint64(&spinSink, x)
	}
	return func() {
		m.mu.Lock()
		if m.inside[g]--; m.inside[g] <= 0 {
			delete(m.inside, g)
		}
		if !nestedByDesign[kind] {
			m.total--
		}
		m.mu.Unlock()
	}
}

func (m *mon) report(wild ...string) string {
	m.mu.Lock()
	defer m.mu.Unlock()
	var parts []string
	for _, k := range kindOrder {
		st := m.stats[k]
		if st == nil || st.n == 0 {
			continue
		}
		var gs []string
		for i, g := range st.gids {
			if i == 4 {
				gs = append(gs, "more")
				break
			}
			gs = append(gs, strconv.Itoa(g))
		}
		cnt := strconv.Itoa(st.n)
		if uncounted[k] {
			cnt = "~"
		}
		for _, wk := range wild {
			if wk == k {
				cnt = "~" // how many of these ran is legitimately up to the scheduler
			}
		}
		parts = append(parts, fmt.Sprintf("%s=%s/%s/%d", k, cnt, strings.Join(gs, "+"), st.maxIn))
	}
	for k := range m.stats {
		known := false
		for _, o := range kindOrder {
			if o == k {
				known = true
			}
		}
		if !known {
			parts = append(parts, k+"=?")
		}
	}
	m.stats = map[string]*kstat{}
	m.told = false
	return strings.Join(parts, ",")
}

// ---------------------------------------------------------------- the instrumented service

type hsvc struct {
	*ns.NodeService
	m        *mon
	tag      string
	peer     *actor.PID
	sessions *impls.ClientSessions
	simpl    *pomelo.SessionsImpl
}

// raw requests (route ""): as.IRequestReceiver
func (s *hsvc) ReceiveRequest(ctx actor.Context, request *messages.ServiceRequest, raw interface{}) {
	defer s.m.enter("raw")()
	m, _ := raw.(*messages.TestHello)
	v := int32(0)
	if m != nil {
		v = m.I
	}
	s.Response(request, 0, "", &messages.TestHello{I: v + 1})
}

// impls.IKickHandler: called by ClientSessions.Kick, inside the piece of service code that kicks
func (s *hsvc) HandleKick(n *ns.NodeService, sessions *impls.ClientSessions, netId uint32) {
	defer s.m.enter("kick")()
	sessions.DoKick(netId)
}

// boom: a message whose handling panics (the supervisor then restarts the actor: the producer runs again)
type boom struct{}

func (s *hsvc) Receive(ctx actor.Context) {
	if _, ok := ctx.Message().(*boom); ok {
		defer s.m.enter("boom")()
		panic("c04: boom")
	}
	s.NodeService.Receive(ctx)
}

// client.ISessionsHandler
func (s *hsvc) Process(session *cs.FrontSession, msg *msgs.ClientMsg) { defer s.m.enter("smsg")() }
func (s *hsvc) OnSessionAdd(session *cs.FrontSession)                 { defer s.m.enter("sadd")() }
func (s *hsvc) OnSessionRemove(session *cs.FrontSession)              { defer s.m.enter("srem")() }

// API entries (collection "c04.remote"): routes c04.hit (request), c04.mute (request never
// completed), c04.note (notify)
type Entry struct{ api.APIEntry }

func svcOf(ctx *as.RemoteContext) *hsvc {
	s, _ := ctx.ActorContext.Actor().(*hsvc)
	return s
}

func (e *Entry) Hit(ctx *as.RemoteContext, msg *messages.TestHello, cb apientry.HandlerCBFunc) error {
	s := svcOf(ctx)
	defer s.m.enter("req")()
	apientry.CheckInvokeCBFunc(cb, nil, &messages.TestHello{I: msg.I + 1})
	return nil
}

// Later: a request handler that answers from a helper goroutine (Response is documented as callable
// from any goroutine); the response still has to reach the requester through its mailbox
func (e *Entry) Later(ctx *as.RemoteContext, msg *messages.TestHello, cb apientry.HandlerCBFunc) error {
	s := svcOf(ctx)
	defer s.m.enter("req")()
	v := msg.I
	go func() {
		time.Sleep(time.Microsecond)
		apientry.CheckInvokeCBFunc(cb, nil, &messages.TestHello{I: v + 1})
	}()
	return nil
}

func (e *Entry) Mute(ctx *as.RemoteContext, msg *messages.TestHello, cb apientry.HandlerCBFunc) error {
	s := svcOf(ctx)
	defer s.m.enter("mute")()
	return nil
}

func (e *Entry) Note(ctx *as.RemoteContext, msg *messages.TestHello) error {
	s := svcOf(ctx)
	defer s.m.enter("ntf")()
	return nil
}

// Slow: a handler that takes longer (25 ms, virtual) than the mailbox's 20 ms frame budget, so that the
// mailbox ends the frame and starts a smoothing pause (helper goroutine, 1 ms) with the backlog queued
func (e *Entry) Slow(ctx *as.RemoteContext, msg *messages.TestHello) error {
	s := svcOf(ctx)
	defer s.m.enter("slow")()
	time.Sleep(25 * time.Millisecond)
	return nil
}

// Sib: notify handled by a sibling actor that shares the service's dispatcher / run service
func (e *Entry) Sib(ctx *as.RemoteContext, msg *messages.TestHello) error {
	s := svcOf(ctx)
	defer s.m.enter("sib")()
	return nil
}

var pauses int64 // smoothing pauses started (mailbox hook point "hp.sleep", build tag verif)

var regOnce sync.Once

func register() {
	regOnce.Do(func() {
		registry.Registry.AddCollection("c04.remote").
			Register(&Entry{}, apientry.WithGroupName("c04"), apientry.WithNameFunc(strings.ToLower))
		registry.Registry.Build()
		mailbox.VerifYield = func(point string) {
			if point == "hp.sleep" {
				atomic.AddInt64(&pauses, 1)
			}
		}
	})
}

// scripted connection: what pomelonet's session hands to IClientSessionImpl
// Whatever the framework does with the connection object it does for the owner service (AddSession assigns
// the id, the posted message / remove closures read it, a kick closes it): recorded as entry kind `sio`.
type fakeSession struct {
	id     uint32
	closed uint32
	m      *mon
}

func (f *fakeSession) Reserve() {}
func (f *fakeSession) GetId() uint32 {
	defer f.m.enter("sio")()
	return atomic.LoadUint32(&f.id)
}
func (f *fakeSession) SetId(v uint32) {
	defer f.m.enter("sio")()
	atomic.StoreUint32(&f.id, v)
}
func (f *fakeSession) Push(route string, v interface{}) error {
	defer f.m.enter("sio")()
	return nil
}
func (f *fakeSession) ResponseMID(mid uint, v interface{}, e error) error {
	defer f.m.enter("sio")()
	return nil
}
func (f *fakeSession) Close() {
	defer f.m.enter("sio")()
	atomic.StoreUint32(&f.closed, 1)
}
func (f *fakeSession) IsClosed() bool { return atomic.LoadUint32(&f.closed) == 1 }

type plain struct{ X int } // not a proto.Message: remote.Serialize fails

// ---------------------------------------------------------------- world

type world struct {
	early  func(obs string)
	sys    *actor.ActorSystem
	nCase  int
	a, b   *hsvc
	u, v   *hsvc // two services created with the EMPTY run-service name
	pa     *actor.PID
	pb     *actor.PID
	crashed bool // B was restarted by its supervisor in this case (at most once per case)
	direct bool // event centres of this case are in direct mode (SetLocalUseChan(false))
	open   []*fakeSession
	sibs   []*actor.PID // 12 more actors spawned from A's props: same dispatcher, same run service
	lev    string
	gev    string
}

const nSibs = 12

func (w *world) spawn(tag string, nsib int, unnamed ...bool) (*hsvc, *actor.PID, []*actor.PID) {
	name := fmt.Sprintf("c04%s%d", tag, w.nCase)
	rsName := name
	if len(unnamed) > 0 && unnamed[0] {
		rsName = "" // the run service picks its own name ("rs<n>"), as NewServicePropsWithNewScheDisp(p, "") services do
	}
	var s *hsvc
	m := newMon()
	m.label, m.early = strings.ToUpper(tag), w.early
	props, _ := ns.NewServiceWithDispatcher(func() actor.Actor {
		x := &hsvc{NodeService: ns.NewService(), m: m, tag: tag}
		x.Service.InitReqReceiver(x)
		if s == nil {
			s = x
		}
		m.mu.Lock()
		m.latest = x // a supervisor restart runs the producer again: the newest incarnation
		m.born++
		m.mu.Unlock()
		return x
	}, rsName, "c04.remote")
	pid, err := w.sys.Root.SpawnNamed(props, name)
	if err != nil {
		panic(err)
	}
	synctest.Wait()
	var sibs []*actor.PID
	for i := 0; i < nsib; i++ {
		p, err := w.sys.Root.SpawnNamed(props, fmt.Sprintf("%ss%d", name, i))
		if err != nil {
			panic(err)
		}
		sibs = append(sibs, p)
	}
	synctest.Wait()
	s.sessions = impls.NewClientSessions(name)
	s.sessions.SetHandler(s)
	s.sessions.SetKickHandler(s)
	s.simpl = pomelo.NewSessionsImpl(s.GetRunService().GetScheduler(), s.sessions)
	return s, pid, sibs
}

func (w *world) reset() string {
	w.nCase++
	w.a, w.pa, w.sibs = w.spawn("a", nSibs)
	w.b, w.pb, _ = w.spawn("b", 0)
	w.u, _, _ = w.spawn("u", 0, true)
	w.v, _, _ = w.spawn("v", 0, true)
	w.a.peer, w.b.peer = w.pb, w.pa
	w.direct = false
	w.crashed = false
	w.lev = fmt.Sprintf("c04.lev%d", w.nCase)
	w.gev = fmt.Sprintf("c04.gev%d", w.nCase)
	for _, s := range []*hsvc{w.a, w.b} {
		s := s
		// the first entry of a case defines goroutine "1" of the service; subscriptions are made
		// from the service's own goroutine, as service code does — one service after the other:
		// GlobalEventCenter.getECList does Load-then-Store, so two centres subscribing the same
		// fresh global event at the same moment can lose one subscription (not C04's subject)
		s.Post(func() {
			defer s.m.enter("post")()
			ec := s.GetRunService().GetEventCenter()
			ec.Subscribe(w.lev, func(args ...interface{}) {
				if w.direct {
					defer s.m.enter("dlev")()
				} else {
					defer s.m.enter("lev")()
				}
			})
			ec.GSubscribe(w.gev, func(args ...interface{}) { defer s.m.enter("gev")() })
		})
		settle()
	}
	for _, s := range []*hsvc{w.u, w.v} {
		s := s
		s.Post(func() { defer s.m.enter("post")() })
		settle()
	}
	return "ok A:" + w.a.m.report() + " B:" + w.b.m.report() + " U:" + w.u.m.report() + " V:" + w.v.m.report()
}

type burst struct {
	p, post, tmr, rep, lev, gev, req, raw, ntf, tmo, sfl, ses, msg, slow, z, sib, own int
	dw                                                                                string
}

func parseBurst(ws []string) (burst, bool) {
	var b burst
	fields := map[string]*int{"p": &b.p, "post": &b.post, "tmr": &b.tmr, "rep": &b.rep, "lev": &b.lev, "gev": &b.gev,
		"req": &b.req, "raw": &b.raw, "ntf": &b.ntf, "tmo": &b.tmo, "sfl": &b.sfl, "ses": &b.ses, "msg": &b.msg,
		"slow": &b.slow, "z": &b.z, "sib": &b.sib, "own": &b.own}
	for k, ptr := range fields {
		v, ok := hx.KV(ws, k)
		if !ok {
			return b, false
		}
		n, err := strconv.Atoi(v)
		if err != nil || n < 0 || n > 400 {
			return b, false
		}
		*ptr = n
	}
	b.dw, _ = hx.KV(ws, "dw")
	switch b.dw {
	case "sleep", "yield", "spin", "mix":
	default:
		return b, false
	}
	if b.p < 1 || b.p > 16 || b.tmo > 1 || b.ses > 40 || b.msg > 40 || b.slow > 10 || b.sib > nSibs || b.own > 1 {
		return b, false
	}
	return b, true
}

// split n pieces of work over p goroutines
func fanout(p, n int, f func(j int)) {
	for i := 0; i < p; i++ {
		i := i
		go func() {
			for j := i; j < n; j += p {
				f(j)
			}
		}()
	}
}

func (w *world) burst(b burst) string {
	for _, s := range []*hsvc{w.a, w.b} {
		s.m.mu.Lock()
		s.m.dwell = b.dw
		s.m.mu.Unlock()
	}
	for _, s := range []*hsvc{w.a, w.b} {
		s := s
		// posted closures from p concurrent posters
		fanout(b.p, b.post, func(j int) { s.Post(func() { defer s.m.enter("post")() }) })
		// timers: armed from the service (one posted closure), fired by runtime timer goroutines
		if b.tmr+b.rep+b.z > 0 {
			s.Post(func() {
				defer s.m.enter("post")()
				tm := s.GetRunService().GetTimerMgr()
				// "next tick" and already-overdue timers armed by service code: still pieces of their own
				for j := 0; j < b.z; j++ {
					tm.After(-time.Duration(j%2)*time.Millisecond, func(args ...interface{}) { defer s.m.enter("tz")() })
				}
				for j := 0; j < b.tmr; j++ {
					tm.After(time.Duration(j%7)*time.Millisecond, func(args ...interface{}) { defer s.m.enter("tmr")() })
				}
				if b.rep > 0 {
					left := b.rep
					var tid timer.IdType
					tid = tm.AddTimer(time.Millisecond, func(args ...interface{}) {
						defer s.m.enter("tmr")()
						left--
						if left == 0 {
							tm.Cancel(tid)
						}
					})
				}
			})
		}
		// zero / negative delays armed from a foreign goroutine
		fanout(1, b.z, func(j int) {
			s.GetRunService().GetTimerMgr().After(-time.Duration(j%3)*time.Millisecond, func(args ...interface{}) { defer s.m.enter("tz")() })
		})
		// local events: published from p goroutines through the centre's channel
		// (own=1: from the service's own goroutine; a centre in direct mode may only be published to by
		// its owner — the listener then runs inside Publish — so there the owner always publishes);
		// own=1 also makes A the publisher of the global events
		ownLev := b.lev > 0 && (b.own == 1 || w.direct)
		ownGev := b.gev > 0 && b.own == 1 && s == w.a
		if ownLev || ownGev {
			s.Post(func() {
				defer s.m.enter("post")()
				for j := 0; ownLev && j < b.lev; j++ {
					s.GetRunService().GetEventCenter().Publish(w.lev, j)
				}
				for j := 0; ownGev && j < b.gev; j++ {
					event.GetGlobalEC().Publish(w.gev, j)
				}
			})
		}
		if !ownLev {
			fanout(b.p, b.lev, func(j int) { s.GetRunService().GetEventCenter().Publish(w.lev, j) })
		}
		// notifies from outside any service
		pid := w.pa
		if s == w.b {
			pid = w.pb
		}
		fanout(2, b.ntf, func(j int) { as.DirectSendNotify(w.sys.Root, pid, "c04.note", &messages.TestHello{I: int32(j)}) })
		// frames longer than the mailbox budget with a backlog behind them → smoothing pauses
		fanout(1, b.slow, func(j int) {
			as.DirectSendNotify(w.sys.Root, pid, "c04.slow", &messages.TestHello{I: int32(j)})
			for k := 0; k < 3; k++ {
				as.DirectSendNotify(w.sys.Root, pid, "c04.note", &messages.TestHello{I: int32(k)})
			}
		})
		// requests issued by this service towards its peer (from its own goroutine, as required)
		if b.req+b.raw+b.tmo+b.sfl > 0 {
			s.Post(func() {
				defer s.m.enter("post")()
				cb := func(kind string) as.ResCBFunc {
					return func(err error, msg interface{}) { defer s.m.enter(kind)() }
				}
				for j := 0; j < b.req || j < b.raw || j < b.sfl; j++ {
					if j < b.req {
						s.RequestEx(s.peer, "c04.hit", &messages.TestHello{I: int32(j)}, func(err error, msg interface{}) {
							defer s.m.enter("rsp")()
						})
					}
					if j < b.raw {
						s.Request(s.peer, &messages.TestHello{I: int32(j)}, cb("rsp"))
					}
					if j < b.sfl {
						s.RequestEx(s.peer, "c04.hit", plain{j}, cb("sfl"))
					}
				}
				if b.tmo > 0 {
					s.RequestEx(s.peer, "c04.mute", &messages.TestHello{I: 1}, func(err error, msg interface{}) {
						kind := "rsp"
						if err == as.ErrTimeout {
							kind = "tmo"
						}
						defer s.m.enter(kind)()
					})
				}
			})
		}
	}
	// more mailbox runs pending on A's dispatcher than its 9-slot channel holds, while A's goroutine is busy:
	// the blocker (a posted closure) starts the sender and stays inside the service until everything else is blocked
	if b.sib > 0 {
		w.a.Post(func() {
			defer w.a.m.enter("post")()
			go func() {
				for i := 0; i < b.sib; i++ {
					as.DirectSendNotify(w.sys.Root, w.sibs[i], "c04.sib", &messages.TestHello{I: int32(i)})
				}
			}()
			time.Sleep(time.Millisecond)
		})
	}
	// global events: one publisher, both services are subscribed
	if b.own == 0 {
		fanout(1, b.gev, func(j int) { event.GetGlobalEC().Publish(w.gev, j) })
	}
	// client connections of front-end A: one network goroutine per connection
	for i := 0; i < b.ses; i++ {
		i := i
		go func() {
			fs := &fakeSession{m: w.a.m}
			w.a.simpl.OnSessionCreate(fs)
			// a client speaks only after its handshake was answered: by then the service has
			// registered the session (a message for an unknown session is dropped by ClientSessions)
			time.Sleep(time.Millisecond)
			for j := 0; j < b.msg; j++ {
				w.a.simpl.ProcessMessage(fs, &message.Message{Type: message.Request, ID: uint(j + 1), Route: "x.y.z", Data: []byte{byte(i)}})
			}
			w.a.simpl.OnSessionClose(fs)
		}()
	}
	synctest.Wait()
	// let the timers fire (at most 6 ms one-shot, rep × (1 ms + queueing delay) repeating)
	time.Sleep(time.Duration(20+3*b.rep+40*b.slow) * time.Millisecond)
	synctest.Wait()
	if b.tmo > 0 {
		time.Sleep(33 * time.Second) // request timeout 30 s + the 1 s expiry scan
		synctest.Wait()
	}
	settle()
	return "ok A:" + w.a.m.report() + " B:" + w.b.m.report()
}

func (w *world) exec(op string) string {
	ws := hx.Words(op)
	if len(ws) == 0 {
		return "bad-op"
	}
	switch ws[0] {
	case "reset":
		if len(ws) != 1 {
			return "bad-op"
		}
		return w.reset()
	case "burst":
		b, ok := parseBurst(ws[1:])
		if !ok || w.a == nil || len(ws) != 19 {
			return "bad-op"
		}
		return w.burst(b)
	case "anon":
		p, post, k, m, busy := hx.KVInt(ws, "p"), hx.KVInt(ws, "post"), hx.KVInt(ws, "ses"), hx.KVInt(ws, "msg"), hx.KVInt(ws, "busy")
		if len(ws) != 6 || !allNum(ws[1:], "p", "post", "ses", "msg", "busy") || p < 1 || p > 16 || post > 400 || k > 40 || m > 40 || busy > 1 || w.u == nil {
			return "bad-op"
		}
		return w.anon(p, post, k, m, busy == 1)
	case "flood":
		who, _ := hx.KV(ws, "who")
		n := hx.KVInt(ws, "n")
		if len(ws) != 3 || !allNum(ws[1:], "n") || (who != "foreign" && who != "owner") || n < 1 || n > 1500 ||
			(who == "owner" && n > 900) || w.a == nil || w.direct {
			return "bad-op"
		}
		return w.flood(who == "owner", n)
	case "selfreq":
		how, _ := hx.KV(ws, "how")
		n := hx.KVInt(ws, "n")
		if len(ws) != 3 || !allNum(ws[1:], "n") || (how != "helper" && how != "sync") || n < 1 || n > 200 || w.a == nil {
			return "bad-op"
		}
		return w.selfreq(how == "helper", n)
	case "wfall":
		n, steps, fail := hx.KVInt(ws, "n"), hx.KVInt(ws, "steps"), hx.KVInt(ws, "fail")
		by, _ := hx.KV(ws, "by")
		if len(ws) != 5 || !allNum(ws[1:], "n", "steps", "fail") || n < 1 || n > 40 || steps < 1 || steps > 4 || fail > steps ||
			(by != "loop" && by != "helper") || w.a == nil {
			return "bad-op"
		}
		return w.wfall(n, steps, fail, by == "helper")
	case "talk":
		n, kick := hx.KVInt(ws, "n"), hx.KVInt(ws, "kick")
		if len(ws) != 3 || !allNum(ws[1:], "n", "kick") || n < 1 || n > 3000 || kick > 1 || w.a == nil {
			return "bad-op"
		}
		return w.talk(n, kick == 1)
	case "tcancel":
		n := hx.KVInt(ws, "n")
		if len(ws) != 2 || !allNum(ws[1:], "n") || n < 1 || n > 50 || w.a == nil {
			return "bad-op"
		}
		return w.tcancel(n)
	case "crash":
		q, post, tmr := hx.KVInt(ws, "q"), hx.KVInt(ws, "post"), hx.KVInt(ws, "tmr")
		if len(ws) != 4 || !allNum(ws[1:], "q", "post", "tmr") || q > 40 || post > 100 || tmr > 20 || w.a == nil || w.crashed {
			return "bad-op"
		}
		return w.crash(q, post, tmr)
	case "evmode":
		v, ok := hx.KV(ws, "chan")
		if len(ws) != 2 || !ok || (v != "0" && v != "1") || w.a == nil {
			return "bad-op"
		}
		return w.evmode(v == "1")
	case "stop":
		who, _ := hx.KV(ws, "who")
		q, okq := hx.KV(ws, "q")
		k, okk := hx.KV(ws, "ses")
		qn, e1 := strconv.Atoi(q)
		kn, e2 := strconv.Atoi(k)
		// optional 5th token tmr=<n>: timers of A still pending when its run service is stopped
		tn := 0
		if len(ws) == 5 {
			if !allNum(ws[1:], "tmr") {
				return "bad-op"
			}
			tn = hx.KVInt(ws, "tmr")
		}
		if (len(ws) != 4 && len(ws) != 5) || !okq || !okk || e1 != nil || e2 != nil || qn < 0 || qn > 400 || kn < 0 || kn > 40 || tn > 60 ||
			(who != "foreign" && who != "loop") || w.a == nil {
			return "bad-op"
		}
		return w.stop(who == "loop", qn, kn, tn)
	case "relay":
		to, _ := hx.KV(ws, "to")
		n, busy := hx.KVInt(ws, "n"), hx.KVInt(ws, "busy")
		if len(ws) != 4 || !allNum(ws[1:], "n", "busy") || n < 1 || n > 40 || busy > 1 ||
			(to != "dead" && to != "peer" && to != "direct") || w.a == nil {
			return "bad-op"
		}
		return w.relay(to, n, busy == 1)
	}
	return "bad-op"
}

// allNum: every named key is present exactly as key=<decimal digits>
func allNum(ws []string, keys ...string) bool {
	for _, k := range keys {
		v, ok := hx.KV(ws, k)
		if !ok || v == "" || len(v) > 6 {
			return false
		}
		for _, c := range v {
			if c < '0' || c > '9' {
				return false
			}
		}
	}
	return true
}

// anon: the posted-closure and client-session streams on the two services whose run service was created
// with the empty name; with busy, U is kept inside a long piece meanwhile
func (w *world) anon(p, post, k, m int, busy bool) string {
	if busy {
		u := w.u
		u.Post(func() {
			defer u.m.enter("post")()
			time.Sleep(time.Millisecond)
		})
	}
	for _, s := range []*hsvc{w.u, w.v} {
		s := s
		fanout(p, post, func(j int) { s.Post(func() { defer s.m.enter("post")() }) })
		for i := 0; i < k; i++ {
			i := i
			go func() {
				fs := &fakeSession{m: s.m}
				s.simpl.OnSessionCreate(fs)
				time.Sleep(time.Millisecond)
				for j := 0; j < m; j++ {
					s.simpl.ProcessMessage(fs, &message.Message{Type: message.Request, ID: uint(j + 1), Route: "x.y.z", Data: []byte{byte(i)}})
				}
				s.simpl.OnSessionClose(fs)
			}()
		}
	}
	settle()
	return "ok U:" + w.u.m.report() + " V:" + w.v.m.report()
}

// flood: more local events than the centre's 999-slot queue holds, published while the owner A is kept
// inside a long piece — by a foreign goroutine (which then waits on the full queue until A is released)
// or, as the control, at most 900 by the long piece itself
func (w *world) flood(owner bool, n int) string {
	a := w.a
	pub := func() {
		for j := 0; j < n; j++ {
			a.GetRunService().GetEventCenter().Publish(w.lev, j)
		}
	}
	a.Post(func() {
		defer a.m.enter("post")()
		if owner {
			pub()
		} else {
			go pub()
		}
		time.Sleep(2 * time.Millisecond)
	})
	settle()
	return "ok A:" + a.m.report() + " B:" + w.b.m.report()
}

// selfreq: A sends n requests to its OWN pid; the handler answers synchronously or from a helper
// goroutine; either way the response is a piece of its own, delivered through A's mailbox
func (w *world) selfreq(helper bool, n int) string {
	a := w.a
	route := "c04.hit"
	if helper {
		route = "c04.later"
	}
	a.Post(func() {
		defer a.m.enter("post")()
		for j := 0; j < n; j++ {
			a.RequestEx(w.pa, route, &messages.TestHello{I: int32(j)}, func(err error, msg interface{}) { defer a.m.enter("rsp")() })
		}
	})
	settle()
	return "ok A:" + a.m.report() + " B:" + w.b.m.report()
}

// wfall: A starts n waterfall.Sche chains on its scheduler (how gate login / scene enter chain their
// asynchronous steps).  Every step completes through the chain's callback, either inline or from a helper
// goroutine (a db / network worker); step number `fail` (1-based, 0 = none) reports failure.  Steps and
// the final callback are pieces of A's code.
func (w *world) wfall(n, steps, fail int, helper bool) string {
	a := w.a
	a.Post(func() {
		defer a.m.enter("post")()
		for i := 0; i < n; i++ {
			var tasks []waterfall.Task
			for k := 0; k < steps; k++ {
				k := k
				tasks = append(tasks, func(cb waterfall.Callback, args ...interface{}) {
					defer a.m.enter("wstep")()
					bad := k+1 == fail
					if helper {
						go func() {
							time.Sleep(time.Microsecond)
							cb(bad, k)
						}()
					} else {
						cb(bad, k)
					}
				})
			}
			waterfall.Sche(a.GetRunService().GetScheduler(), tasks, func(err bool, args ...interface{}) {
				defer a.m.enter("wfin")()
			})
		}
	})
	settle()
	return "ok A:" + a.m.report() + " B:" + w.b.m.report()
}

// talk: ONE client connection of front-end A sends n messages back to back (up to 3000 within one virtual
// millisecond); with kick, service code then kicks the connection (ClientSessions.Kick from A's goroutine:
// kick handler, DoKick, Close of the connection); finally the connection closes.
func (w *world) talk(n int, kick bool) string {
	a := w.a
	drained := make(chan struct{})
	go func() {
		fs := &fakeSession{m: a.m}
		a.simpl.OnSessionCreate(fs)
		time.Sleep(time.Millisecond)
		for j := 0; j < n; j++ {
			a.simpl.ProcessMessage(fs, &message.Message{Type: message.Request, ID: uint(j + 1), Route: "x.y.z", Data: []byte{1}})
		}
		if kick {
			a.Post(func() {
				defer a.m.enter("post")()
				a.sessions.Kick(fs.GetId())
			})
		}
		time.Sleep(time.Millisecond)
		a.simpl.OnSessionClose(fs)
		// a marker behind everything this connection queued (harness code, not a piece of A)
		a.Post(func() { close(drained) })
	}()
	// a dwelling handler takes virtual time per message: wait for the marker, not for a fixed span
	select {
	case <-drained:
	case <-time.After(30 * time.Second):
	}
	settle()
	return "ok A:" + a.m.report() + " B:" + w.b.m.report()
}

// tcancel: A, inside one long piece, arms n one-shot timers, stays busy until they have expired (they wait
// in A's timer queue), cancels them all, and is still inside the piece while B arms n timers of its own.
// A cancelled timer never runs; B's timers run on B.
func (w *world) tcancel(n int) string {
	a, b := w.a, w.b
	a.Post(func() {
		defer a.m.enter("post")()
		tm := a.GetRunService().GetTimerMgr()
		var ids []timer.IdType
		for j := 0; j < n; j++ {
			ids = append(ids, tm.After(time.Millisecond, func(args ...interface{}) { defer a.m.enter("tmr")() }))
		}
		time.Sleep(2 * time.Millisecond)
		for _, id := range ids {
			tm.Cancel(id)
		}
		b.Post(func() {
			defer b.m.enter("post")()
			tmb := b.GetRunService().GetTimerMgr()
			for j := 0; j < n; j++ {
				tmb.After(time.Millisecond, func(args ...interface{}) { defer b.m.enter("tmr")() })
			}
		})
		time.Sleep(500 * time.Microsecond)
	})
	settle()
	return "ok A:" + a.m.report() + " B:" + b.m.report()
}

// crash: while B is inside a long piece, a message whose handling panics and q notifies queue up in its
// mailbox: the supervisor restarts the actor (the producer runs again, on B's goroutine, in the middle of
// the mailbox run), the q notifies are handled by the new incarnation; then posted closures, timers and q
// more notifies for the new incarnation.  All of it is B's code: one goroutine, one piece at a time.
func (w *world) crash(q, post, tmr int) string {
	b := w.b
	w.crashed = true
	b.Post(func() {
		defer b.m.enter("post")()
		time.Sleep(time.Millisecond)
	})
	go func() {
		w.sys.Root.Send(w.pb, &boom{})
		for j := 0; j < q; j++ {
			as.DirectSendNotify(w.sys.Root, w.pb, "c04.note", &messages.TestHello{I: int32(j)})
		}
	}()
	settle()
	b.m.mu.Lock()
	nb := b.m.latest
	b.m.mu.Unlock()
	if nb != nil && nb != b {
		nb.peer = b.peer
		w.b = nb
	}
	nb = w.b
	fanout(2, post, func(j int) { nb.Post(func() { defer nb.m.enter("post")() }) })
	if tmr > 0 {
		nb.Post(func() {
			defer nb.m.enter("post")()
			tm := nb.GetRunService().GetTimerMgr()
			for j := 0; j < tmr; j++ {
				tm.After(time.Duration(j%3)*time.Millisecond, func(args ...interface{}) { defer nb.m.enter("tmr")() })
			}
		})
	}
	fanout(1, q, func(j int) { as.DirectSendNotify(w.sys.Root, w.pb, "c04.note", &messages.TestHello{I: int32(j)}) })
	settle()
	time.Sleep(10 * time.Millisecond)
	settle()
	return "ok A:" + w.a.m.report() + " B:" + nb.m.report()
}

// relayActor: an intermediary that is not a service (a router / forwarder on proto.actor's default
// dispatcher: its own goroutine per mailbox run): it passes every ServiceRequest on, unchanged, to `target`
type relayActor struct{ target *actor.PID }

func (r *relayActor) Receive(ctx actor.Context) {
	if req, ok := ctx.Message().(*messages.ServiceRequest); ok {
		ctx.Send(r.target, req)
	}
}

// relay: A, inside one piece, issues n requests that do not go straight to a living service:
// to=peer through the intermediary on to B (B answers: `req` on B, `rsp` on A); to=dead through the
// intermediary on to a pid that does not exist (the intermediary's goroutine hands the request to the
// dead-letter process; nobody answers, A's callback gets the 30 s timeout: `tmo`); to=direct A itself sends
// to the pid that does not exist.  With busy, A stays inside the issuing piece while the requests travel.
// The completion callback of a request is A's code whatever becomes of the request.
func (w *world) relay(to string, n int, busy bool) string {
	a := w.a
	nobody := actor.NewPID(w.sys.Address(), fmt.Sprintf("c04nobody%d", w.nCase))
	target := nobody
	if to == "peer" {
		target = w.pb
	}
	dest := target
	if to != "direct" {
		dest = w.sys.Root.Spawn(actor.PropsFromProducer(func() actor.Actor { return &relayActor{target: target} }))
		synctest.Wait()
	}
	a.Post(func() {
		defer a.m.enter("post")()
		for j := 0; j < n; j++ {
			a.RequestEx(dest, "c04.hit", &messages.TestHello{I: int32(j)}, func(err error, msg interface{}) {
				kind := "rsp"
				if err == as.ErrTimeout {
					kind = "tmo"
				}
				defer a.m.enter(kind)()
			})
		}
		if busy {
			time.Sleep(time.Millisecond)
		}
	})
	settle()
	if to != "peer" {
		time.Sleep(33 * time.Second) // request timeout 30 s + the 1 s expiry scan
		synctest.Wait()
		settle()
	}
	if to != "direct" {
		w.sys.Root.Stop(dest)
		synctest.Wait()
	}
	return "ok A:" + a.m.report() + " B:" + w.b.m.report()
}

// settle waits until the work that is under way has drained: synctest.Wait returns when every goroutine
// is blocked, and a handler dwelling in a (virtual) 1 µs sleep counts as blocked, so virtual time is let
// pass and quiescence is awaited again
func settle() {
	synctest.Wait()
	time.Sleep(5 * time.Millisecond)
	synctest.Wait()
	time.Sleep(time.Millisecond)
	synctest.Wait()
}

// evmode switches the local event centres of both services between queue mode and direct mode,
// from the owner's goroutine
func (w *world) evmode(useChan bool) string {
	for _, s := range []*hsvc{w.a, w.b} {
		s := s
		s.Post(func() {
			defer s.m.enter("post")()
			s.GetRunService().GetEventCenter().SetLocalUseChan(useChan)
		})
	}
	settle()
	w.direct = !useChan
	return "ok A:" + w.a.m.report() + " B:" + w.b.m.report()
}

// stop ends service A: k client connections are open; while A is inside a long piece with q more
// posted closures queued behind it, its run service is stopped (by a foreign goroutine, or by the piece
// itself); afterwards the connections close.  How many of the queued closures still run before the loop
// sees the close signal is up to reflect.Select, so their count is not compared ("~"); after the stop
// nothing of A may run anywhere but on A's goroutine (and in fact nothing runs at all).
//
// tn > 0: the long piece first arms tn one-shot timers (due alternately while the piece is still in progress
// after the Stop, and after the piece has ended) and, from the third on, one repeating timer: StandardRunService.Stop
// stops the timer manager first and does not wait for the loop, so all of them become due on a stopped manager.
// A due timer of a stopped manager is dropped; whatever the code does with it, none of A's callbacks may run
// on the runtime's timer goroutines.
func (w *world) stop(fromLoop bool, q, k, tn int) string {
	a := w.a
	var conns []*fakeSession
	for i := 0; i < k; i++ {
		fs := &fakeSession{m: a.m}
		conns = append(conns, fs)
		go a.simpl.OnSessionCreate(fs)
	}
	settle()
	a.Post(func() {
		defer a.m.enter("post")()
		for j := 0; j < q; j++ {
			a.Post(func() { defer a.m.enter("post")() })
		}
		tm := a.GetRunService().GetTimerMgr()
		for j := 0; j < tn; j++ {
			d := 500 * time.Microsecond
			if j%2 == 1 {
				d = 3 * time.Millisecond
			}
			tm.After(d, func(args ...interface{}) { defer a.m.enter("tmr")() })
		}
		if tn > 2 {
			tm.AddTimer(700*time.Microsecond, func(args ...interface{}) { defer a.m.enter("tmr")() })
		}
		if fromLoop {
			a.GetRunService().Stop()
		} else {
			go a.GetRunService().Stop()
		}
		time.Sleep(time.Millisecond) // still inside this piece while Stop runs elsewhere
	})
	settle()
	for _, fs := range conns {
		fs := fs
		go a.simpl.OnSessionClose(fs)
	}
	settle()
	obs := "ok A:" + a.m.report("post") + " B:" + w.b.m.report()
	w.a = nil // the case is over: A is gone
	return obs
}

// ---------------------------------------------------------------- generator

func genBurst(h *hx.T) string {
	r := h.R
	pick := func(max int, pzero int) int {
		if r.Intn(100) < pzero {
			return 0
		}
		return 1 + r.Intn(max)
	}
	dw := []string{"sleep", "yield", "spin", "mix"}[r.Intn(4)]
	p := []int{1, 2, 4, 8, 8, 8, 16}[r.Intn(7)]
	var b burst
	switch x := r.Intn(10); {
	case x < 5: // everything at once
		h.Count("burst.all-kinds")
		b = burst{post: pick(120, 5), tmr: pick(40, 10), rep: pick(6, 40), lev: pick(80, 10), gev: pick(60, 10), req: pick(40, 10),
			raw: pick(20, 20), ntf: pick(40, 10), tmo: r.Intn(4) / 3, sfl: pick(5, 50), ses: pick(8, 20), msg: pick(12, 10)}
	case x < 7: // one or two kinds, heavy
		h.Count("burst.focused")
		switch r.Intn(6) {
		case 0:
			b = burst{post: 200 + r.Intn(200)}
		case 1:
			b = burst{tmr: 100 + r.Intn(200), rep: r.Intn(20)}
		case 2:
			b = burst{lev: 100 + r.Intn(200), gev: 50 + r.Intn(100)}
		case 3:
			b = burst{req: 50 + r.Intn(100), raw: r.Intn(60), ntf: r.Intn(100)}
		case 4:
			b = burst{ses: 5 + r.Intn(30), msg: r.Intn(30)}
		default:
			b = burst{tmo: 1, req: r.Intn(5), sfl: 1 + r.Intn(10)}
		}
	case x < 9: // small
		h.Count("burst.small")
		b = burst{post: r.Intn(4), tmr: r.Intn(3), rep: r.Intn(2), lev: r.Intn(3), gev: r.Intn(3), req: r.Intn(3), raw: r.Intn(2),
			ntf: r.Intn(3), sfl: r.Intn(2), ses: r.Intn(2), msg: r.Intn(3)}
	default: // timers racing posted work and events
		h.Count("burst.timer-race")
		b = burst{post: 50 + r.Intn(100), tmr: 50 + r.Intn(100), rep: 1 + r.Intn(10), lev: 20 + r.Intn(50), gev: r.Intn(30)}
	}
	// frames over the mailbox budget (smoothing pauses), zero / negative timer delays, siblings on one dispatcher
	if r.Intn(10) < 3 {
		b.slow = 1 + r.Intn(3)
		h.Count("burst.with-slow-frames")
	}
	if r.Intn(10) < 4 {
		b.z = 1 + r.Intn(20)
		h.Count("burst.with-zero-delay-timers")
	}
	switch y := r.Intn(12); {
	case y < 2:
		b.sib = nSibs
		h.Count("burst.siblings>9")
	case y == 2:
		b.sib = 11
		h.Count("burst.siblings>9")
	case y == 3:
		b.sib = 1 + r.Intn(9)
		h.Count("burst.siblings<=9")
	}
	if b.tmo > 0 {
		h.Count("burst.with-timeout")
	}
	if r.Intn(4) == 0 {
		b.own = 1
		h.Count("burst.events-published-by-owner")
	}
	h.Count("dwell." + dw)
	return fmt.Sprintf("burst p=%d post=%d tmr=%d rep=%d lev=%d gev=%d req=%d raw=%d ntf=%d tmo=%d sfl=%d ses=%d msg=%d slow=%d z=%d sib=%d own=%d dw=%s",
		p, b.post, b.tmr, b.rep, b.lev, b.gev, b.req, b.raw, b.ntf, b.tmo, b.sfl, b.ses, b.msg, b.slow, b.z, b.sib, b.own, dw)
}

const z13 = "tmr=0 rep=0 lev=0 gev=0 req=0 raw=0 ntf=0"

var malformed = []string{"burst", "burst p=0 post=1 " + z13 + " tmo=0 sfl=0 ses=0 msg=0 slow=0 z=0 sib=0 own=0 dw=spin",
	"burst p=2 post=x " + z13 + " tmo=0 sfl=0 ses=0 msg=0 slow=0 z=0 sib=0 own=0 dw=spin",
	"burst p=2 post=1 " + z13 + " tmo=2 sfl=0 ses=0 msg=0 slow=0 z=0 sib=0 own=0 dw=spin",
	"burst p=2 post=1 " + z13 + " tmo=0 sfl=0 ses=0 msg=0 slow=0 z=0 sib=0 own=0 dw=nap",
	"burst p=2 post=1 " + z13 + " tmo=0 sfl=0 ses=0 msg=0 slow=0 z=0 sib=13 own=0 dw=spin",
	"burst p=2 post=1 " + z13 + " tmo=0 sfl=0 ses=0 msg=0 slow=0 z=0 sib=0 own=2 dw=spin",
	"evmode", "evmode chan=2", "anon p=0 post=1 ses=0 msg=0 busy=0", "anon p=1 post=1 ses=0 msg=0", "anon p=1 post=1 ses=41 msg=0 busy=0",
	"flood who=owner n=901", "flood who=foreign n=0", "flood who=x n=5", "selfreq how=later n=3", "selfreq how=sync n=201", "selfreq how=sync", "stop who=me q=1 ses=1", "stop who=loop q=1", "stop who=foreign q=401 ses=0",
	"burst p=2 post=1 " + z13 + " tmo=0 sfl=0 ses=0 msg=0 slow=11 z=0 sib=0 own=0 dw=spin",
	"burst p=2 post=1 " + z13 + " tmo=0 sfl=0 ses=0 msg=0 dw=spin",
	"wfall n=0 steps=1 fail=0 by=loop", "wfall n=3 steps=2 fail=3 by=loop", "wfall n=3 steps=5 fail=0 by=helper", "wfall n=3 steps=2 fail=1 by=me", "wfall n=3 steps=2 fail=1",
	"talk n=0 kick=0", "talk n=3001 kick=0", "talk n=5 kick=2", "talk n=5", "tcancel n=0", "tcancel n=51", "tcancel", "crash q=41 post=0 tmr=0", "crash q=1 post=101 tmr=0",
	"crash q=1 post=1 tmr=21", "crash q=1 post=1",
	"relay to=dead n=0 busy=0", "relay to=dead n=41 busy=0", "relay to=nowhere n=3 busy=0", "relay to=peer n=3 busy=2", "relay to=peer n=3",
	"stop who=loop q=1 ses=1 tmr=61", "stop who=loop q=1 ses=1 tmr=x", "stop who=loop q=1 ses=1 rep=3",
	"burst p=2 post=1", "reset now", "frobnicate", "burst p=2 post=401 " + z13 + " tmo=0 sfl=0 ses=0 msg=0 slow=0 z=0 sib=0 own=0 dw=spin"}

func TestRun(t *testing.T) {
	synctest.Test(t, func(t *testing.T) {
		h := hx.Open()
		register()
		w := &world{sys: actor.NewActorSystem()}
		var emitMu sync.Mutex
		curOp := ""
		w.early = func(obs string) {
			emitMu.Lock()
			h.Emit(curOp, obs)
			h.Flush()
			emitMu.Unlock()
		}
		run := func(op string) {
			emitMu.Lock()
			curOp = op
			emitMu.Unlock()
			p0 := atomic.LoadInt64(&pauses)
			obs := w.exec(op)
			for n := atomic.LoadInt64(&pauses) - p0; n > 0; n-- {
				h.Count("seen.smoothing-pause")
			}
			emitMu.Lock()
			h.Emit(op, obs)
			h.Flush()
			emitMu.Unlock()
			for _, tok := range strings.Fields(obs) {
				if i := strings.IndexByte(tok, ':'); i == 1 {
					for _, e := range strings.Split(tok[2:], ",") {
						if j := strings.IndexByte(e, '='); j > 0 {
							h.Count("seen." + e[:j])
						}
					}
				}
			}
		}
		finish := func() {
			h.Close()
			os.Stdout.Sync()
			syscall.Exit(0)
		}
		if ops := hx.ReplayOps(); ops != nil {
			for _, op := range ops {
				run(op)
			}
			finish()
		}
		for _, op := range hx.CorpusOps("corpus/C04") {
			run(op)
		}
		n := hx.EnvInt("VERIF_N", 120)
		for done := 0; done < n; {
			run("reset")
			// a third of the cases run their event centres in direct mode (SetLocalUseChan(false))
			if h.R.Intn(3) == 0 {
				h.Count("case.direct-mode-centres")
				run("evmode chan=0")
			}
			k := 1 + h.R.Intn(5)
			for i := 0; i < k; i++ {
				switch x := h.R.Intn(67); {
				case x >= 63:
					// requests that travel through an intermediary actor, to the peer or to a pid that does not exist
					to := []string{"dead", "dead", "peer", "direct"}[h.R.Intn(4)]
					h.Count("op.relay." + to)
					run(fmt.Sprintf("relay to=%s n=%d busy=%d", to, []int{1, 3, 12, 40}[h.R.Intn(4)], h.R.Intn(2)))
					done++
					continue
				case x >= 50 && x < 55:
					by := []string{"helper", "helper", "loop"}[h.R.Intn(3)]
					steps := 1 + h.R.Intn(4)
					fail := h.R.Intn(steps + 1)
					h.Count("op.wfall." + by)
					if fail > 0 {
						h.Count("op.wfall.step-fails")
					}
					run(fmt.Sprintf("wfall n=%d steps=%d fail=%d by=%s", 1+h.R.Intn(12), steps, fail, by))
					done++
					continue
				case x >= 55 && x < 58:
					n := []int{1, 40, 499, 500, 501, 640, 1200, 3000}[h.R.Intn(8)]
					h.Count("op.talk")
					if n > 500 {
						h.Count("op.talk.over-500-messages")
					}
					run(fmt.Sprintf("talk n=%d kick=%d", n, h.R.Intn(2)))
					done++
					continue
				case x >= 58 && x < 61:
					h.Count("op.tcancel")
					run(fmt.Sprintf("tcancel n=%d", []int{1, 2, 8, 30, 50}[h.R.Intn(5)]))
					done++
					continue
				case x >= 61:
					h.Count("op.crash") // a second one in the same case is rejected by both sides
					run(fmt.Sprintf("crash q=%d post=%d tmr=%d", []int{0, 1, 3, 20}[h.R.Intn(4)], []int{0, 5, 60}[h.R.Intn(3)], []int{0, 2, 12}[h.R.Intn(3)]))
					done++
					continue
				case x < 2:
					h.Count("op.malformed")
					run(malformed[h.R.Intn(len(malformed))])
					continue
				case x < 5:
					h.Count("op.evmode")
					run(fmt.Sprintf("evmode chan=%d", h.R.Intn(2)))
					continue
				case x < 10:
					// posted closures and client sessions on the two services with the empty run-service name
					h.Count("op.anon")
					run(fmt.Sprintf("anon p=%d post=%d ses=%d msg=%d busy=%d", []int{1, 4, 8}[h.R.Intn(3)], []int{1, 20, 150}[h.R.Intn(3)],
						[]int{0, 2, 10}[h.R.Intn(3)], h.R.Intn(6), h.R.Intn(2)))
					done++
					continue
				case x < 13:
					// more local events than the queue holds while the owner is stalled (rejected in direct mode)
					who, n := "foreign", []int{5, 999, 1000, 1001, 1300}[h.R.Intn(5)]
					if h.R.Intn(4) == 0 {
						who, n = "owner", []int{1, 300, 900}[h.R.Intn(3)]
					}
					h.Count("op.flood." + who)
					if n >= 1000 {
						h.Count("op.flood.over-capacity")
					}
					run(fmt.Sprintf("flood who=%s n=%d", who, n))
					done++
					continue
				case x < 17:
					how := []string{"helper", "helper", "sync"}[h.R.Intn(3)]
					h.Count("op.selfreq." + how)
					run(fmt.Sprintf("selfreq how=%s n=%d", how, 1+h.R.Intn(40)))
					done++
					continue
				}
				run(genBurst(h))
				done++
			}
			// a third of the cases end with the front-end service being stopped under load
			if h.R.Intn(3) == 0 {
				who := []string{"foreign", "foreign", "loop"}[h.R.Intn(3)]
				h.Count("case.stop-by-" + who)
				op := fmt.Sprintf("stop who=%s q=%d ses=%d", who, []int{0, 1, 5, 40, 200}[h.R.Intn(5)], []int{0, 1, 6, 30}[h.R.Intn(4)])
				if h.R.Intn(2) == 0 {
					// timers of A still pending when the run service stops
					h.Count("case.stop-with-pending-timers")
					op += fmt.Sprintf(" tmr=%d", []int{1, 2, 7, 30, 60}[h.R.Intn(5)])
				}
				run(op)
				done++
				if h.R.Intn(6) == 0 {
					h.Count("op.after-stop")
					run(genBurst(h)) // the service is gone: rejected by both sides
				}
			}
		}
		finish()
	})
}
