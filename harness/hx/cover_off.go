//go:build !verifcover

package hx

// FlushCoverage does nothing in the binaries the registered checks build (see cover_on.go).
func FlushCoverage() {}
