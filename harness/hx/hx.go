// Package hx: shared helpers of the correspondence harness — one PRNG derived
// from VERIF_SEED, the trace writer (one "op<TAB>observation" line per
// operation, flushed per line so a crash loses nothing), generator statistics.
package hx

import (
	"bufio"
	"encoding/hex"
	"encoding/json"
	"fmt"
	"math/rand"
	"os"
	"sort"
	"strconv"
	"strings"
)

type T struct {
	R     *rand.Rand
	Seed  int64
	Tier  string
	w     *bufio.Writer
	f     *os.File
	Stats map[string]int
	N     int
}

func Env(key, def string) string {
	if v := os.Getenv(key); v != "" {
		return v
	}
	return def
}

func EnvInt(key string, def int) int {
	if v := os.Getenv(key); v != "" {
		if n, err := strconv.Atoi(v); err == nil {
			return n
		}
	}
	return def
}

// Open creates the trace writer; VERIF_OUT names the trace file.
func Open() *T {
	seed, _ := strconv.ParseInt(Env("VERIF_SEED", "1"), 10, 64)
	out := Env("VERIF_OUT", "/dev/stdout")
	f, err := os.Create(out)
	if err != nil {
		panic(err)
	}
	return &T{R: rand.New(rand.NewSource(seed)), Seed: seed, Tier: Env("VERIF_TIER", "quick"),
		w: bufio.NewWriterSize(f, 1<<16), f: f, Stats: map[string]int{}}
}

func (t *T) Thorough() bool { return t.Tier == "thorough" }

// Emit writes one op/observation pair. Neither may contain a tab or newline.
func (t *T) Emit(op, obs string) {
	op = strings.ReplaceAll(strings.ReplaceAll(op, "\t", " "), "\n", " ")
	obs = strings.ReplaceAll(strings.ReplaceAll(obs, "\t", " "), "\n", " ")
	t.w.WriteString(op)
	t.w.WriteByte('\t')
	t.w.WriteString(obs)
	t.w.WriteByte('\n')
	t.N++
	if t.N%256 == 0 {
		t.w.Flush()
	}
}

func (t *T) Flush() { t.w.Flush() }

func (t *T) Count(key string) { t.Stats[key]++ }

// Close flushes the trace and writes <out>.stats.json (generator histogram).
func (t *T) Close() {
	t.w.Flush()
	t.f.Close()
	FlushCoverage()
	out := Env("VERIF_OUT", "")
	if out == "" {
		return
	}
	keys := make([]string, 0, len(t.Stats))
	for k := range t.Stats {
		keys = append(keys, k)
	}
	sort.Strings(keys)
	m := map[string]interface{}{"ops": t.N, "seed": t.Seed, "tier": t.Tier, "histogram": t.Stats}
	b, _ := json.MarshalIndent(m, "", " ")
	os.WriteFile(out+".stats.json", b, 0o644)
}

func Hex(b []byte) string { return hex.EncodeToString(b) }

func B2i(b bool) int {
	if b {
		return 1
	}
	return 0
}

// Guard runs f and maps a panic to the observation "panic".
func Guard(f func() string) (obs string) {
	defer func() {
		if e := recover(); e != nil {
			obs = "panic"
			_ = fmt.Sprint(e)
		}
	}()
	return f()
}

// Bytes draws n bytes.
func (t *T) Bytes(n int) []byte {
	b := make([]byte, n)
	for i := range b {
		b[i] = byte(t.R.Intn(256))
	}
	return b
}

// Pick returns one of the given ints.
func (t *T) Pick(xs ...int) int { return xs[t.R.Intn(len(xs))] }

// Words splits an op line into tokens; KV looks up key=value.
func Words(line string) []string { return strings.Fields(line) }

func KV(ws []string, key string) (string, bool) {
	for _, w := range ws {
		if strings.HasPrefix(w, key+"=") {
			return w[len(key)+1:], true
		}
	}
	return "", false
}

func KVInt(ws []string, key string) int {
	v, _ := KV(ws, key)
	n, _ := strconv.ParseUint(v, 10, 64)
	return int(n)
}

func KVU64(ws []string, key string) uint64 {
	v, _ := KV(ws, key)
	n, _ := strconv.ParseUint(v, 10, 64)
	return n
}

func KVHex(ws []string, key string) []byte {
	v, _ := KV(ws, key)
	b, _ := hex.DecodeString(v)
	return b
}

// ReplayOps returns the op lines of VERIF_REPLAY (one per line; a trailing
// "<TAB>obs" part is ignored), or nil when no replay is requested.
func ReplayOps() []string {
	p := os.Getenv("VERIF_REPLAY")
	if p == "" {
		return nil
	}
	b, err := os.ReadFile(p)
	if err != nil {
		panic(err)
	}
	var ops []string
	for _, l := range strings.Split(string(b), "\n") {
		if i := strings.IndexByte(l, '\t'); i >= 0 {
			l = l[:i]
		}
		l = strings.TrimSpace(l)
		if l == "" || strings.HasPrefix(l, "#") {
			continue
		}
		ops = append(ops, l)
	}
	return ops
}

// CorpusOps reads every *.txt under dir (minimised past failures; run first).
func CorpusOps(dir string) []string {
	ents, err := os.ReadDir(dir)
	if err != nil {
		return nil
	}
	var ops []string
	for _, e := range ents {
		if !strings.HasSuffix(e.Name(), ".txt") {
			continue
		}
		b, _ := os.ReadFile(dir + "/" + e.Name())
		for _, l := range strings.Split(string(b), "\n") {
			if i := strings.IndexByte(l, '\t'); i >= 0 {
				l = l[:i]
			}
			l = strings.TrimSpace(l)
			if l == "" || strings.HasPrefix(l, "#") {
				continue
			}
			ops = append(ops, l)
		}
	}
	return ops
}
