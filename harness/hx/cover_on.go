//go:build verifcover

package hx

import (
	"io"
	"os"
	_ "unsafe"
)

// Only for bin/cover (build tags verif,verifcover; -cover -ldflags=-checklinkname=0): a harness that
// ends its synctest bubble with syscall.Exit never reaches the testing package's exit hook, and
// runtime/coverage's public API refuses test binaries, so the trace writer's Close calls the hook
// the generated test main would have called.  Measurement aid; no registered check is built this way.
//
//go:linkname processCoverTestDir internal/coverage/cfile.ProcessCoverTestDir
func processCoverTestDir(dir string, cfile string, cm string, cpkg string, w io.Writer, selpkgs []string) error

// FlushCoverage writes the statement-coverage counters to $GOCOVERDIR.
func FlushCoverage() {
	dir := os.Getenv("GOCOVERDIR")
	if dir == "" {
		return
	}
	_ = processCoverTestDir(dir, "", "atomic", "", io.Discard, nil)
}
