//go:build verifcover

// (empty: lets cover_on.go declare a function without a body)
