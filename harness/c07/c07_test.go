// C07 correspondence harness: drives the real routing code of cell2
// (node/route, node/app: Route, RoutePID, defaultRoute, Request, Notify,
// QuerySession, Kick, the service directory built by MakeMembers) on generated
// and replayed op lines and records one canonical observation per op.
//
// Engine: bubble-actor.  A real service.NodeService actor (real
// actorex/service.Service, ScheDisp, run service, SmoothFrameMailbox) lives on a
// local proto.actor ActorSystem inside a testing/synctest bubble.  The
// directory's PIDs ("host:port/name") resolve, through an AddressResolver, to
// one recording process that notes (target PID, forwarded route, request or
// notify) and answers requests with an empty ServiceResponse.  Every
// Request/Notify/QuerySession/Kick is issued on the service's own goroutine (a
// harness message handled in Receive) and observed after synctest.Wait().
// A second service of the same construction whose run service has been stopped
// issues the same calls (`ctx=stopped`: a refusal must reach the callback without
// the scheduler).  `setdef` replaces the default route function
// (route.SetDefaultRoute), `midview` slips a view update into the next call (while
// its route function is parked), a real-time watchdog outside the bubble reports
// an op that never returns as `blocked`.
// Bypassed: actor `remote` transport, etcd provider (views are installed with
// Cluster.UpdateClusterTopology), real target services.
package c07

import (
	"fmt"
	"sort"
	"strconv"
	"strings"
	"sync/atomic"
	"syscall"
	"testing"
	"testing/synctest"
	"time"

	"cell2verif/hx"

	"github.com/asynkron/protoactor-go/actor"
	"github.com/sirupsen/logrus"

	as "github.com/dfklegend/cell2/actorex/service"
	messages "github.com/dfklegend/cell2/actorex/service/servicemsgs"
	"github.com/dfklegend/cell2/node/app"
	"github.com/dfklegend/cell2/node/cluster"
	"github.com/dfklegend/cell2/node/route"
	nservice "github.com/dfklegend/cell2/node/service"
	"github.com/dfklegend/cell2/utils/logger/proxy"
)

// ---------------------------------------------------------------- recording target

type env struct {
	sys  *actor.ActorSystem
	self *actor.PID
	svc  *reqSvc
	late *reqSvc // a service that is shutting down: spawned and started like svc, then its run service was stopped
	sent []string
	cbs  []string
}

type recProc struct{ e *env }

func (p *recProc) SendUserMessage(pid *actor.PID, message interface{}) {
	_, msg, _ := actor.UnwrapEnvelope(message)
	switch m := msg.(type) {
	case *messages.ServiceRequest:
		kind := "N"
		if m.ReqId != as.NotifyReqID {
			kind = "R"
		}
		p.e.sent = append(p.e.sent, fmt.Sprintf("%s/%s!%s!%s", pid.Address, pid.Id, m.Route, kind))
		if m.ReqId != as.NotifyReqID && m.Sender != nil {
			p.e.sys.Root.Send(m.Sender, &messages.ServiceResponse{ReqId: m.ReqId})
		}
	default:
		p.e.sent = append(p.e.sent, fmt.Sprintf("%s/%s!?%T", pid.Address, pid.Id, msg))
	}
}
func (p *recProc) SendSystemMessage(pid *actor.PID, message interface{}) {}
func (p *recProc) Stop(pid *actor.PID)                                   {}

// ---------------------------------------------------------------- requesting service

type callFn struct{ f func() }

type reqSvc struct{ *nservice.NodeService }

func (s *reqSvc) Receive(ctx actor.Context) {
	if m, ok := ctx.Message().(*callFn); ok {
		m.f()
		return
	}
	s.NodeService.Receive(ctx)
}

func newEnv() *env {
	e := &env{}
	e.sys = actor.NewActorSystem()
	rp := &recProc{e: e}
	e.sys.ProcessRegistry.RegisterAddressResolver(func(pid *actor.PID) (actor.Process, bool) { return rp, true })
	props, _ := as.NewServicePropsWithNewScheDisp(func() actor.Actor {
		e.svc = &reqSvc{NodeService: nservice.NewService()}
		return e.svc
	}, "c07req")
	pid, err := e.sys.Root.SpawnNamed(props, "c07req")
	if err != nil {
		panic(err)
	}
	e.self = pid
	// the stopping service: same construction, then what Service.onStop does (runService.Stop()).  Its actor
	// context stays usable (late responses / timers issue follow-up requests during shutdown).
	props2, _ := as.NewServicePropsWithNewScheDisp(func() actor.Actor {
		e.late = &reqSvc{NodeService: nservice.NewService()}
		return e.late
	}, "c07late")
	if _, err := e.sys.Root.SpawnNamed(props2, "c07late"); err != nil {
		panic(err)
	}
	synctest.Wait()
	e.late.GetRunService().Stop()
	synctest.Wait()
	return e
}

// onStopped runs f on behalf of the stopping service (its loop no longer runs, so the caller is whoever
// still holds the service: here the harness goroutine) and waits for quiescence.
func (e *env) onStopped(f func()) (panicked bool) {
	e.sent, e.cbs = e.sent[:0], e.cbs[:0]
	func() {
		defer func() {
			if r := recover(); r != nil {
				panicked = true
			}
		}()
		f()
	}()
	synctest.Wait()
	return
}

// call issues f from the running service (its own goroutine) or from the stopping one.
func (e *env) call(stopped bool, f func(ns *nservice.NodeService)) string {
	if stopped {
		p := e.onStopped(func() { f(e.late.NodeService) })
		if !p && len(e.sent) > 0 {
			// the reply goes to a service whose loop no longer runs: completion of a SENT request is C01/C09
			return "sent=" + strings.Join(e.sent, ",") + " cb=~"
		}
		return e.outcome(p)
	}
	return e.outcome(e.onService(func() { f(e.svc.NodeService) }))
}

// onService runs f on the service's own goroutine and waits for quiescence.
func (e *env) onService(f func()) (panicked bool) {
	e.sent, e.cbs = e.sent[:0], e.cbs[:0]
	e.sys.Root.Send(e.self, &callFn{f: func() {
		defer func() {
			if r := recover(); r != nil {
				panicked = true
			}
		}()
		f()
	}})
	synctest.Wait()
	return
}

func (e *env) cb(tag string) func(error, any) {
	return func(err error, _ any) {
		switch {
		case err == nil:
			e.cbs = append(e.cbs, "ok")
		case err == app.ErrorNoService:
			e.cbs = append(e.cbs, "noservice")
		case err == as.ErrTimeout:
			e.cbs = append(e.cbs, "timeout")
		default:
			e.cbs = append(e.cbs, "err")
		}
	}
}

func (e *env) outcome(panicked bool) string {
	if panicked {
		return "panic"
	}
	s, c := "-", "-"
	if len(e.sent) > 0 {
		s = strings.Join(e.sent, ",")
	}
	if len(e.cbs) > 0 {
		c = strings.Join(e.cbs, ",")
	}
	return "sent=" + s + " cb=" + c
}

// ---------------------------------------------------------------- op language

// a session-like route parameter (any IRouteParam implementation)
type sessParam struct{ m map[string]interface{} }

func (s *sessParam) Get(k string, def interface{}) interface{} {
	if v, ok := s.m[k]; ok {
		return v
	}
	return def
}

func parseKVs(s string) map[string]interface{} {
	m := map[string]interface{}{}
	if s == "" {
		return m
	}
	for _, e := range strings.Split(s, ";") {
		kv := strings.SplitN(e, "~", 2)
		if len(kv) != 2 || kv[1] == "" {
			continue
		}
		switch kv[1][0] {
		case 's':
			m[kv[0]] = kv[1][1:]
		case 'n': // key present, value nil (JSON null)
			m[kv[0]] = nil
		case 'b':
			m[kv[0]] = false
		case 'l':
			m[kv[0]] = []string{}
		case 'p': // typed nil pointer
			m[kv[0]] = (*string)(nil)
		default:
			n, _ := strconv.Atoi(kv[1][1:])
			m[kv[0]] = n
		}
	}
	return m
}

// p=nil | p=tnil | p=sess:<kvs> | p=map:<kvs> | p=str:<s> | p=other:<int|smap|slice|ptr>
func parseParam(ws []string) any {
	v, _ := hx.KV(ws, "p")
	switch {
	case v == "nil" || v == "":
		return nil
	case v == "tnil":
		return (*route.MapParam)(nil)
	case v == "nilmap":
		var m map[string]interface{}
		return m
	case strings.HasPrefix(v, "sess:"):
		return &sessParam{m: parseKVs(v[5:])}
	case strings.HasPrefix(v, "map:"):
		return parseKVs(v[4:])
	case strings.HasPrefix(v, "str:"):
		return v[4:]
	case v == "other:smap":
		return map[string]string{"k": "v"}
	case v == "other:slice":
		return []string{"c1"}
	case v == "other:ptr":
		x := "c1"
		return &x
	}
	return 7
}

var (
	nestDepth int
	parkHook  func() // one-shot: parks the route function that is about to read its parameter (op `race`)
)

func park() {
	if h := parkHook; h != nil {
		parkHook = nil
		h()
	}
}

// beh=const:<name> | key:<k> | nest:<k>,<typeB>,<kvs> | empty | panic | none
func mkFunc(beh string) route.RouteFunc {
	switch {
	case strings.HasPrefix(beh, "const:"):
		name := beh[6:]
		return func(string, route.IRouteParam) string { return name }
	case strings.HasPrefix(beh, "key:"):
		k := beh[4:]
		// the shape of every route function shipped with cell2 (mmo, chat2)
		return func(_ string, p route.IRouteParam) string { park(); return p.Get(k, "").(string) }
	case strings.HasPrefix(beh, "keyd:"):
		// keyd:<k>,<default instance>: param.Get(k, default).(string)
		f := strings.SplitN(beh[5:], ",", 2)
		if len(f) != 2 {
			return nil
		}
		k, d := f[0], f[1]
		return func(_ string, p route.IRouteParam) string { park(); return p.Get(k, d).(string) }
	case strings.HasPrefix(beh, "nilor:"):
		// nilor:<name>,<k>: a router that distinguishes "no parameter" from a (possibly empty) key map
		f := strings.SplitN(beh[6:], ",", 2)
		if len(f) != 2 {
			return nil
		}
		nn, k := f[0], f[1]
		return func(_ string, p route.IRouteParam) string {
			if p == nil {
				return nn
			}
			park()
			return p.Get(k, "").(string)
		}
	case strings.HasPrefix(beh, "nest:"):
		// nest:<k>,<typeB>,<inner kvs>: a route function that first asks the router about ANOTHER
		// type with a DIFFERENT key map (re-entrant Route), then answers from its own parameter
		f := strings.SplitN(beh[5:], ",", 3)
		if len(f) != 3 {
			return nil
		}
		k, tb, inner := f[0], f[1], f[2]
		return func(_ string, p route.IRouteParam) string {
			if nestDepth == 0 { // one level: rule tables may point at each other
				nestDepth++
				func() {
					defer func() { nestDepth-- }()
					_ = route.GetRouteService().Route(tb, parseKVs(inner))
				}()
			}
			park()
			return p.Get(k, "").(string)
		}
	case beh == "empty":
		return func(string, route.IRouteParam) string { return "" }
	case beh == "panic":
		return func(string, route.IRouteParam) string { panic("route function panics") }
	}
	return nil
}

// m=<id>|<host>|<port>|<state>|+svc+svc...
func parseMembers(ws []string) []*cluster.Member {
	ms := []*cluster.Member{}
	for _, w := range ws {
		if !strings.HasPrefix(w, "m=") {
			continue
		}
		f := strings.SplitN(w[2:], "|", 5)
		if len(f) != 5 {
			continue
		}
		port, _ := strconv.Atoi(f[2])
		state, _ := strconv.Atoi(f[3])
		m := &cluster.Member{Id: f[0], Host: f[1], Port: int32(port), State: state, Services: []string{}}
		if f[4] != "" {
			m.Services = strings.Split(f[4], "+")[1:]
		}
		ms = append(ms, m)
	}
	return ms
}

func showPID(p *actor.PID) string {
	if p == nil {
		return "nil"
	}
	return p.Address + "/" + p.Id
}

func showItem(it *app.ServiceItem) string {
	return fmt.Sprintf("%s@%s#%d>%s", it.Name, it.ClusterNodeID, it.State, showPID(it.PID))
}

// dumpView reads the directory back through its public getters.  The probe
// set is a superset of every type / instance name the view can contain: each
// service string and each of its dot-separated segments.
func dumpView(ms []*cluster.Member) string {
	set := map[string]bool{"": true}
	for _, m := range ms {
		for _, s := range m.Services {
			set[s] = true
			for _, seg := range strings.Split(s, ".") {
				set[seg] = true
			}
		}
	}
	cands := make([]string, 0, len(set))
	for k := range set {
		cands = append(cands, k)
	}
	sort.Strings(cands)
	c := app.Node.GetCluster()
	var mem, types, work, svc []string
	mm := c.GetMembers()
	ids := make([]string, 0, len(mm))
	for k := range mm {
		ids = append(ids, k)
	}
	sort.Strings(ids)
	for _, id := range ids {
		m := mm[id]
		mem = append(mem, fmt.Sprintf("%s>%s:%d#%d", id, m.Host, m.Port, m.State))
	}
	lst := func(l *app.ServiceList) string {
		var xs []string
		for _, it := range l.Items {
			xs = append(xs, showItem(it))
		}
		return strings.Join(xs, ",")
	}
	for _, k := range cands {
		if l := c.GetServiceList(k); l != nil {
			types = append(types, k+"["+lst(l)+"]")
		}
		if l := c.GetWorkServiceList(k); l != nil {
			work = append(work, k+"["+lst(l)+"]")
		}
		if it := c.GetService(k); it != nil {
			svc = append(svc, k+"="+showItem(it))
		}
	}
	return "mem=" + strings.Join(mem, ";") + " types=" + strings.Join(types, ";") + " work=" + strings.Join(work, ";") + " svc=" + strings.Join(svc, ";")
}

type harness struct {
	e        *env
	rules    map[string]bool
	defGone  bool
	testMsg  *messages.TestHello
	lastView []*cluster.Member
}

// exec interprets one op.  A view armed by `midview` is consumed by the NEXT op (installed while that op's
// route function is parked, if it has one that gets that far) and dropped otherwise.
func (x *harness) exec(op string) string {
	obs := x.exec0(op)
	if !strings.HasPrefix(op, "midview") {
		parkHook = nil
	}
	return obs
}

func (x *harness) exec0(op string) string {
	ws := hx.Words(op)
	if len(ws) == 0 {
		return "bad-op"
	}
	kv := func(k string) string { v, _ := hx.KV(ws, k); return v }
	switch ws[0] {
	case "reset":
		for t := range x.rules {
			route.GetRouteService().Register(t, nil)
		}
		x.rules = map[string]bool{}
		if kv("default") == "0" {
			route.SetDefaultRoute(nil) // cannot be restored from outside the package: generator keeps it monotone
			x.defGone = true
		}
		app.Node.GetCluster().UpdateClusterTopology([]*cluster.Member{})
		if x.defGone {
			return "ok default=0"
		}
		return "ok default=1"
	case "view":
		return hx.Guard(func() string {
			ms := parseMembers(ws)
			app.Node.GetCluster().UpdateClusterTopology(ms)
			return dumpView(ms)
		})
	case "midview":
		// the view update of the etcd watcher landing in the middle of the next call: after Route has called the
		// route function, before the name it returns is looked up
		ms := parseMembers(ws)
		parkHook = func() { app.Node.GetCluster().UpdateClusterTopology(ms) }
		return "ok"
	case "setdef":
		// route.SetDefaultRoute with ANOTHER default function (beh=none: nil); app.defaultRoute cannot be
		// re-installed from outside the package, so the generator emits this only once the default is gone
		route.SetDefaultRoute(mkFunc(kv("beh")))
		x.defGone = true
		return "ok"
	case "rule":
		t := kv("type")
		route.GetRouteService().Register(t, mkFunc(kv("beh")))
		x.rules[t] = true
		return "ok"
	case "route":
		return hx.Guard(func() string {
			return "name=" + route.GetRouteService().Route(kv("type"), parseParam(ws))
		})
	case "pid":
		return hx.Guard(func() string { return "pid=" + showPID(app.RoutePID(kv("type"), parseParam(ws))) })
	case "getpid":
		return hx.Guard(func() string { return "pid=" + showPID(app.GetServicePID(kv("name"))) })
	case "workpid":
		return hx.Guard(func() string { return "pid=" + showPID(app.GetWorkServicePID(kv("name"))) })
	case "firstwork":
		return hx.Guard(func() string { return "pid=" + showPID(app.GetFirstWorkService(kv("type"))) })
	case "race":
		// Route(ta, map pa) is started on its own goroutine and parked inside its route function
		// (just before it reads its parameter); meanwhile Route(tb, map pb) runs to completion here.
		pa, pb := parseKVs(kv("pa")), parseKVs(kv("pb"))
		resume := make(chan struct{})
		done := make(chan struct{})
		var r1 string
		parkHook = func() { <-resume }
		go func() {
			defer close(done)
			r1 = hx.Guard(func() string { return route.GetRouteService().Route(kv("ta"), pa) })
		}()
		synctest.Wait()
		parkHook = nil
		r2 := hx.Guard(func() string { return route.GetRouteService().Route(kv("tb"), pb) })
		close(resume)
		<-done
		return "a=" + r1 + " b=" + r2
	case "split":
		a, b, c := app.SplitClientRoute(kv("r"))
		return fmt.Sprintf("t=%s a=%s m=%s", a, b, c)
	case "req":
		var cb func(error, any)
		if kv("nocb") != "1" {
			cb = x.e.cb("req")
		}
		p := parseParam(ws)
		return x.e.call(kv("ctx") == "stopped", func(ns *nservice.NodeService) { app.Request(ns, kv("r"), p, x.testMsg, cb) })
	case "ntf":
		p := parseParam(ws)
		return x.e.outcome(x.e.onService(func() { app.Notify(x.e.svc.NodeService, kv("r"), p, x.testMsg) }))
	case "qs", "kick":
		var cb func(error, any)
		if kv("nocb") != "1" {
			cb = x.e.cb(ws[0])
		}
		sid := uint32(hx.KVInt(ws, "sid"))
		return x.e.call(kv("ctx") == "stopped", func(ns *nservice.NodeService) {
			if ws[0] == "qs" {
				app.QuerySession(ns, kv("front"), sid, cb)
			} else {
				app.Kick(ns, kv("front"), sid, cb)
			}
		})
	}
	return "bad-op"
}

// ---------------------------------------------------------------- generator

var (
	typeNames = []string{"chat", "gate", "db", "scene", "x"}
	instNames = []string{"c1", "c2", "g1", "g2", "d1", "s1", "dup", "chat", "g-1"}
	sentinels = []string{route.NoService, route.BadRouteParam, route.MissRouteFunc}
	keys      = []string{"chatid", "scene", "k"}
	hosts     = []string{"h1", "h2", "10.0.0.3", ""}
	nodeIds   = []string{"c@n1", "c@n2", "c@n3", "n4", "c@n1"}
)

type gen struct {
	h     *hx.T
	names []string // instance names of the current view (well-formed ones)
	types []string
	ruled []string  // types that got a rule in the current case
	cur   []gmember // the view installed last
}

type gmember struct {
	id, host    string
	port, state int
	svcs        []string
}

func (g *gen) pick(xs []string) string { return xs[g.h.R.Intn(len(xs))] }

func (g *gen) svcName() string {
	h := g.h
	switch h.R.Intn(14) {
	case 0: // malformed full names
		h.Count("view.svc.malformed")
		return g.pick([]string{"", "chat", "a.b.c", ".c1", "chat.", ".", "..", "chat.c1.x", "c1"})
	case 1:
		if h.R.Intn(4) == 0 {
			h.Count("view.svc.sentinel-name")
			return g.pick(typeNames) + "." + g.pick(sentinels)
		}
	case 2:
		h.Count("view.svc.dup-candidate")
		return g.pick(typeNames[:2]) + ".dup"
	}
	return g.pick(typeNames) + "." + g.pick(instNames)
}

func (g *gen) viewOp() string {
	h := g.h
	n := h.R.Intn(5)
	if h.R.Intn(3) == 0 {
		n = 1 + h.R.Intn(2)
	}
	g.cur = nil
	for i := 0; i < n; i++ {
		id := nodeIds[i]
		if h.R.Intn(12) == 0 {
			id = g.pick(nodeIds)
			h.Count("view.member.random-id")
		}
		state := 1
		if h.R.Intn(3) == 0 {
			state = h.R.Intn(6)
		}
		m := gmember{id: id, host: g.pick(hosts), port: h.Pick(1, 2, 3, 0, 65535), state: state}
		for j := h.R.Intn(5); j > 0; j-- {
			m.svcs = append(m.svcs, g.svcName())
		}
		g.cur = append(g.cur, m)
		h.Count(fmt.Sprintf("view.member.state%d", state))
	}
	h.Count(fmt.Sprintf("view.nodes%d", n))
	return g.render()
}

// render prints g.cur as a view op and refreshes the name/type pools.
func (g *gen) render() string {
	h := g.h
	var sb strings.Builder
	sb.WriteString("view")
	g.names, g.types = nil, nil
	for _, m := range g.cur {
		fmt.Fprintf(&sb, " m=%s|%s|%d|%d|", m.id, m.host, m.port, m.state)
		for _, s := range m.svcs {
			sb.WriteString("+" + s)
			if f := strings.Split(s, "."); len(f) == 2 && f[0] != "" && f[1] != "" {
				g.names = append(g.names, f[1])
				g.types = append(g.types, f[0])
			}
		}
	}
	byName := map[string]string{}
	for i, n := range g.names {
		if t, ok := byName[n]; ok && t != g.types[i] {
			h.Count("view.same-name-under-two-types")
			break
		}
		byName[n] = g.types[i]
	}
	return sb.String()
}

// rearrange derives the next view from the current one WITHOUT changing the multiset of nodes and
// service names (a service migrates, two nodes swap services / whole lists / states, members are
// re-ordered) and returns the view op followed by calls aimed at what moved.
func (g *gen) rearrange() []string {
	h := g.h
	if len(g.cur) < 2 {
		return []string{g.viewOp()}
	}
	cp := make([]gmember, len(g.cur))
	for i, m := range g.cur {
		cp[i] = m
		cp[i].svcs = append([]string(nil), m.svcs...)
	}
	g.cur = cp
	a := h.R.Intn(len(cp))
	b := (a + 1 + h.R.Intn(len(cp)-1)) % len(cp)
	var moved []string
	switch k := h.R.Intn(6); {
	case k == 0 && len(cp[a].svcs) > 0 && len(cp[b].svcs) > 0: // swap one service each
		i, j := h.R.Intn(len(cp[a].svcs)), h.R.Intn(len(cp[b].svcs))
		cp[a].svcs[i], cp[b].svcs[j] = cp[b].svcs[j], cp[a].svcs[i]
		moved = []string{cp[a].svcs[i], cp[b].svcs[j]}
		h.Count("view.rearrange.swap-service")
	case k <= 2 && len(cp[a].svcs) > 0: // one service migrates
		i := h.R.Intn(len(cp[a].svcs))
		sv := cp[a].svcs[i]
		cp[a].svcs = append(cp[a].svcs[:i], cp[a].svcs[i+1:]...)
		cp[b].svcs = append(cp[b].svcs, sv)
		moved = []string{sv}
		h.Count("view.rearrange.move-service")
	case k == 3: // whole lists
		cp[a].svcs, cp[b].svcs = cp[b].svcs, cp[a].svcs
		moved = append(append(moved, cp[a].svcs...), cp[b].svcs...)
		h.Count("view.rearrange.swap-lists")
	case k == 4: // states swapped together with the lists
		cp[a].state, cp[b].state = cp[b].state, cp[a].state
		cp[a].svcs, cp[b].svcs = cp[b].svcs, cp[a].svcs
		moved = append(append(moved, cp[a].svcs...), cp[b].svcs...)
		h.Count("view.rearrange.swap-states-and-lists")
	default: // same members, other order
		cp[a], cp[b] = cp[b], cp[a]
		moved = append(append(moved, cp[a].svcs...), cp[b].svcs...)
		h.Count("view.rearrange.reorder-members")
	}
	ops := []string{g.render()}
	for i, sv := range moved {
		if i >= 3 {
			break
		}
		f := strings.Split(sv, ".")
		if len(f) != 2 || f[0] == "" || f[1] == "" {
			continue
		}
		ops = append(ops, "getpid name="+f[1], "req r="+f[0]+".remote.say p=str:"+f[1], "ntf r="+f[0]+".remote.say p=nil",
			"qs front="+f[1]+" sid=1")
	}
	return ops
}

func (g *gen) name() string {
	h := g.h
	switch {
	case len(g.names) > 0 && h.R.Intn(10) < 6:
		return g.pick(g.names)
	case h.R.Intn(8) == 0:
		return ""
	case h.R.Intn(8) == 0:
		return g.pick(sentinels)
	}
	return g.pick(instNames)
}

func (g *gen) typ() string {
	h := g.h
	switch {
	case len(g.ruled) > 0 && h.R.Intn(10) < 3:
		return g.pick(g.ruled)
	case len(g.types) > 0 && h.R.Intn(10) < 6:
		return g.pick(g.types)
	case h.R.Intn(10) == 0:
		return ""
	case h.R.Intn(10) == 0:
		return "nosuch"
	}
	return g.pick(typeNames)
}

func (g *gen) kvs() string {
	h := g.h
	var es []string
	for i := h.R.Intn(3); i > 0; i-- {
		k := g.pick(keys)
		if h.R.Intn(6) == 0 {
			if h.R.Intn(2) == 0 {
				es = append(es, k+"~n")
				h.Count("param.value.nil")
			} else {
				es = append(es, k+"~"+g.pick([]string{"i0", "i3", "b", "l", "p"}))
				h.Count("param.value.nonstring")
			}
		} else {
			es = append(es, k+"~s"+g.name())
		}
	}
	return strings.Join(es, ";")
}

func (g *gen) param() string {
	h := g.h
	switch h.R.Intn(12) {
	case 0, 1:
		h.Count("param.nil")
		return "p=nil"
	case 2, 3, 4:
		h.Count("param.sess")
		return "p=sess:" + g.kvs()
	case 5, 6:
		h.Count("param.map")
		if h.R.Intn(8) == 0 {
			h.Count("param.map.nil-or-empty")
			return g.pick([]string{"p=nilmap", "p=map:"})
		}
		return "p=map:" + g.kvs()
	case 7, 8, 9:
		h.Count("param.str")
		return "p=str:" + g.name()
	case 10:
		h.Count("param.tnil")
		return "p=tnil"
	}
	h.Count("param.other")
	return "p=other:" + g.pick([]string{"int", "smap", "slice", "ptr"})
}

func (g *gen) ruleOp() string {
	h := g.h
	var beh string
	switch h.R.Intn(11) {
	case 9:
		k := g.pick(keys)
		beh = "nest:" + k + "," + g.typ() + "," + k + "~s" + g.name()
	case 10:
		if h.R.Intn(2) == 0 {
			beh = "keyd:" + g.pick(keys) + "," + g.name()
		} else {
			beh = "nilor:" + g.name() + "," + g.pick(keys)
		}
	case 0, 1, 2:
		beh = "key:" + g.pick(keys)
	case 3, 4:
		beh = "const:" + g.name()
	case 5:
		beh = "empty"
	case 6:
		beh = "panic"
	default:
		beh = "none"
	}
	h.Count("rule." + strings.SplitN(beh, ":", 2)[0])
	t := g.typ()
	g.ruled = append(g.ruled, t)
	return "rule type=" + t + " beh=" + beh
}

// midviewOp arms a fresh view for the next call.  Only views in which no name occurs under two types (the
// winner among those depends on Go's map order and cannot be observed in the middle of a call).
func (g *gen) midviewOp() string {
	cur, names, types := g.cur, g.names, g.types
	defer func() { g.cur, g.names, g.types = cur, names, types }()
	for try := 0; try < 6; try++ {
		v := g.viewOp()
		byName, ok := map[string]string{}, true
		for i, n := range g.names {
			if t, seen := byName[n]; seen && t != g.types[i] {
				ok = false
				break
			}
			byName[n] = g.types[i]
		}
		if ok {
			return "mid" + v
		}
	}
	return "midview"
}

// straddleOps: a view update that lands inside the next call's route function, then that call
func (g *gen) straddleOps() []string {
	h := g.h
	h.Count("op.midview")
	p := g.param()
	if h.R.Intn(2) == 0 {
		p = "p=map:" + g.kvs()
	}
	var call string
	switch h.R.Intn(5) {
	case 0:
		call = "pid type=" + g.typ() + " " + p
	case 1:
		call = "route type=" + g.typ() + " " + p
	case 2:
		call = "ntf r=" + g.routeStr() + " " + p
	default:
		call = "req r=" + g.routeStr() + " " + p
	}
	return []string{g.midviewOp(), call, "getpid name=" + g.name()}
}

// setdefOp replaces the default route function (only once app.defaultRoute is gone)
func (g *gen) setdefOp() string {
	h := g.h
	var beh string
	switch h.R.Intn(8) {
	case 0, 1:
		beh = "panic"
	case 2:
		beh = "const:" + g.name()
	case 3, 4:
		beh = "key:" + g.pick(keys)
	case 5:
		beh = "empty"
	case 6:
		beh = "keyd:" + g.pick(keys) + "," + g.name()
	default:
		beh = "none"
	}
	h.Count("setdef." + strings.SplitN(beh, ":", 2)[0])
	return "setdef beh=" + beh
}

func (g *gen) routeStr() string {
	h := g.h
	api := g.pick([]string{"remote", "handler", "sys", "r"}) + "." + g.pick([]string{"say", "enter", "kick", "m"})
	switch h.R.Intn(12) {
	case 0:
		h.Count("route.dots0")
		return g.pick([]string{"", "chat", "c1"})
	case 1:
		h.Count("route.dots1")
		return g.typ() + "." + g.pick([]string{"remote", ""})
	case 2:
		h.Count("route.dots3")
		return g.typ() + "." + api + ".x"
	case 3:
		h.Count("route.dots4")
		return g.typ() + "." + api + ".x.y"
	case 4:
		h.Count("route.emptyparts")
		return g.pick([]string{"..", "chat..", ".remote.say", "chat.remote."})
	}
	h.Count("route.dots2")
	return g.typ() + "." + api
}

func (g *gen) callOp() string {
	h := g.h
	nocb := ""
	if h.R.Intn(10) == 0 {
		nocb = " nocb=1"
	}
	if h.R.Intn(8) == 0 { // issued by the service that is shutting down (req / qs / kick only)
		nocb += " ctx=stopped"
		h.Count("op.ctx-stopped")
	}
	switch h.R.Intn(20) {
	case 0, 1:
		h.Count("op.route")
		return "route type=" + g.typ() + " " + g.param()
	case 2, 3:
		h.Count("op.pid")
		return "pid type=" + g.typ() + " " + g.param()
	case 4:
		h.Count("op.getpid")
		return g.pick([]string{"getpid", "workpid"}) + " name=" + g.name()
	case 5:
		h.Count("op.firstwork")
		return "firstwork type=" + g.typ()
	case 6:
		if h.R.Intn(2) == 0 {
			h.Count("op.race")
			return "race ta=" + g.typ() + " pa=" + g.kvs() + " tb=" + g.typ() + " pb=" + g.kvs()
		}
		h.Count("op.split")
		return "split r=" + g.routeStr()
	case 7, 8, 9, 10:
		h.Count("op.ntf")
		return "ntf r=" + g.routeStr() + " " + g.param()
	case 11, 12:
		h.Count("op.qs")
		return "qs front=" + g.name() + fmt.Sprintf(" sid=%d", h.R.Intn(4)) + nocb
	case 13, 14:
		h.Count("op.kick")
		return "kick front=" + g.name() + fmt.Sprintf(" sid=%d", h.R.Intn(4)) + nocb
	}
	h.Count("op.req")
	return "req r=" + g.routeStr() + " " + g.param() + nocb
}

// ---------------------------------------------------------------- bounded exhaustive grid

var gridViews = []string{
	"view",
	"view m=c@n1|h1|1|1|+chat.c1+gate.g1",
	"view m=c@n1|h1|1|2|+chat.c1",
	"view m=c@n1|h1|1|0|+chat.c1+gate.g1 m=c@n2|h2|2|1|+chat.c2+gate.g1",
	"view m=c@n1|h1|1|1|+gate.x+chat.x",
	"view m=c@n1|h1|1|1|+chat+a.b.c+.c1+chat.++chat.c1",
	"view m=c@n1|h1|1|1|+db.no_service+chat.bad_route_param+x.miss_route_func+chat.c1",
	"view m=c@n1|h1|1|1|+chat.c1 m=c@n1|h2|2|1|+chat.c2",
	"view m=c@n1|h1|1|0|+chat.c9 m=c@n2|h2|2|3|+chat.c2 m=c@n3||3|1|+chat.c1+gate.g1 m=n4|h4|4|5|+chat.c1",
}
var gridRules = []string{"none", "const:c1", "const:c9", "const:", "key:chatid", "empty", "panic",
	"nest:chatid,gate,chatid~sc2", "nest:chatid,gate,chatid~sc1", "nest:chatid,chat,k~sc1", "nest:chatid,nosuch,",
	"keyd:chatid,c1", "keyd:chatid,c9", "keyd:chatid,", "nilor:c1,chatid", "nilor:c2,chatid", "nilor:,chatid"}
var gridParams = []string{"nil", "tnil", "sess:", "sess:chatid~sc1", "sess:chatid~sc2", "sess:chatid~sc9", "sess:chatid~i1",
	"sess:k~sc1", "map:chatid~sc1", "map:", "map:chatid~sc1;chatid~sc2", "nilmap", "map:k~sc1;scene~sc2", "map:chatid~s", "map:chatid~i0", "map:chatid~n", "map:chatid~b", "map:chatid~l", "map:chatid~p", "map:k~sc1;chatid~n",
	"sess:chatid~n", "sess:chatid~s", "str:c1", "str:", "str:c9", "str:x", "str:no_service",
	"other:int", "other:smap", "other:slice", "other:ptr"}
var gridRoutes = []string{"chat.remote.say", "gate.handler.enter", "nosuch.r.m", ".r.m", "bad", "a.b.c.d", "", "..", "chat.remote"}
var gridMidViews = []string{"view", "view m=c@n2|h2|2|1|+chat.c1+chat.c2", "view m=c@n1|h1|1|1|+chat.c2 m=c@n3|h3|3|2|+gate.c1"}
var gridStoppedParams = []string{"nil", "sess:chatid~sc1", "map:chatid~sc9", "map:chatid~i0", "str:c1", "str:c9", "other:int"}
var gridDefaults = []string{"panic", "const:c1", "key:chatid", "empty", "keyd:chatid,c2"}
var gridFronts = []string{"c1", "g1", "x", "c9", "", "no_service", "chat.c1"}

// grid enumerates view x rule x parameter x route x call kind; returns the number of ops.
func grid(run func(string), def int, rules []string, setdef string) int {
	n := 0
	do := func(op string) { run(op); n++ }
	for _, v := range gridViews {
		for _, rl := range rules {
			do(fmt.Sprintf("reset default=%d", def))
			if setdef != "" {
				do("setdef beh=" + setdef)
			}
			do(v)
			do("rule type=chat beh=" + rl)
			// the same calls issued by the service that is shutting down
			for _, r := range gridRoutes[:4] {
				for _, p := range gridStoppedParams {
					do("req r=" + r + " p=" + p + " ctx=stopped")
				}
			}
			for _, f := range gridFronts[:4] {
				do("qs front=" + f + " sid=1 ctx=stopped")
				do("kick front=" + f + " sid=2 ctx=stopped")
			}
			for _, r := range gridRoutes {
				for _, p := range gridParams {
					do("req r=" + r + " p=" + p)
					do("ntf r=" + r + " p=" + p)
				}
			}
			for _, p := range gridParams {
				do("pid type=chat p=" + p)
				do("route type=chat p=" + p)
			}
			for _, pa := range []string{"chatid~sc1", "chatid~sc2", "", "chatid~i1"} {
				for _, pb := range []string{"chatid~sc2", "chatid~sc9"} {
					do("race ta=chat pa=" + pa + " tb=chat pb=" + pb)
					do("race ta=chat pa=" + pa + " tb=gate pb=" + pb)
				}
			}
			for _, f := range gridFronts {
				do("qs front=" + f + " sid=1")
				do("kick front=" + f + " sid=2")
				do("kick front=" + f + " sid=2 nocb=1")
				do("getpid name=" + f)
			}
			// a view update landing inside the call's route function (then the grid's view again)
			for _, mv := range gridMidViews {
				for _, p := range []string{"map:chatid~sc1", "sess:chatid~sc2", "nil", "str:c1"} {
					do("mid" + mv)
					do("req r=chat.remote.say p=" + p)
					do("getpid name=c1")
					do(v)
					do("mid" + mv)
					do("pid type=chat p=" + p)
					do(v)
				}
			}
		}
	}
	return n
}

// Real-time watchdog (started OUTSIDE the bubble, so its clock is the wall clock): a call that blocks on
// a mutex is not "durably blocked" for synctest - the bubble would hang until the test timeout.  When one op
// stays in flight for watchdogLimit, the trace is closed with the observation `blocked` for that op.
var (
	wdSeq   atomic.Int64
	wdOp    atomic.Pointer[string]
	wdTrace atomic.Pointer[hx.T]
)

const watchdogLimit = 20 * time.Second

func watchdog() {
	last, since := int64(-1), time.Now()
	for {
		time.Sleep(250 * time.Millisecond)
		s := wdSeq.Load()
		if s != last {
			last, since = s, time.Now()
			continue
		}
		op, h := wdOp.Load(), wdTrace.Load()
		if op == nil || h == nil || time.Since(since) < watchdogLimit {
			continue
		}
		h.Count("watchdog.blocked")
		h.Emit(*op, "blocked")
		h.Close()
		syscall.Exit(0)
	}
}

func TestRun(t *testing.T) {
	go watchdog()
	synctest.Test(t, func(t *testing.T) {
		for _, n := range []string{"default", "exception"} {
			if p := proxy.GetLogs().GetLog(n); p != nil {
				p.SetLogLevel(logrus.PanicLevel)
			}
		}
		h := hx.Open()
		x := &harness{e: newEnv(), rules: map[string]bool{}, testMsg: &messages.TestHello{I: 7}}
		wdTrace.Store(h)
		run := func(op string) {
			wdOp.Store(&op)
			wdSeq.Add(1)
			obs := x.exec(op)
			wdOp.Store(nil)
			if len(obs) > 4 && obs[:5] == "sent=" {
				if strings.Contains(obs, "sent=-") {
					h.Count("outcome.not-sent")
				} else {
					h.Count("outcome.sent")
				}
			}
			h.Emit(op, obs)
		}
		finish := func() {
			h.Close()
			syscall.Exit(0)
		}
		if ops := hx.ReplayOps(); ops != nil {
			for _, op := range ops {
				run(op)
			}
			finish()
		}
		corpus := hx.CorpusOps(hx.Env("VERIF_CORPUS", "corpus/C07"))
		for _, op := range corpus {
			h.Count("corpus")
			run(op)
		}
		h.Stats["exhaustive.grid.default1"] = grid(run, 1, gridRules, "")
		g := &gen{h: h}
		n := hx.EnvInt("VERIF_N", 4000)
		cases := n / 12
		for c := 0; c < cases; c++ {
			def := 1
			if c >= cases*9/10 { // the last tenth runs without a default route function (cannot be restored)
				def = 0
			}
			h.Count(fmt.Sprintf("case.default%d", def))
			run(fmt.Sprintf("reset default=%d", def))
			g.ruled = nil
			if def == 0 && h.R.Intn(2) == 0 {
				run(g.setdefOp())
			}
			run(g.viewOp())
			steps := 6 + h.R.Intn(10)
			for i := 0; i < steps; i++ {
				switch r := h.R.Intn(12); {
				case r == 1 && def == 0 && h.R.Intn(3) == 0:
					run(g.setdefOp())
				case r == 3 && h.R.Intn(3) == 0:
					for _, op := range g.straddleOps() {
						run(op)
					}
				case r == 0:
					h.Count("op.view-update")
					if h.R.Intn(2) == 0 {
						for _, op := range g.rearrange() {
							run(op)
						}
					} else {
						run(g.viewOp())
					}
				case r <= 2:
					run(g.ruleOp())
				default:
					run(g.callOp())
				}
			}
		}
		h.Stats["exhaustive.grid.default0"] = grid(run, 0, gridRules[:2], "")
		for _, d := range gridDefaults { // a REPLACED default route function, type chat without / with its own function
			h.Stats["exhaustive.grid.setdef."+strings.SplitN(d, ":", 2)[0]] = grid(run, 0, []string{"none", "const:c2"}, d)
		}
		// hand-written cases without the default route function, last (it cannot be restored)
		for _, op := range hx.CorpusOps(hx.Env("VERIF_CORPUS", "corpus/C07") + "/tail") {
			h.Count("corpus.tail")
			run(op)
		}
		finish()
	})
}
