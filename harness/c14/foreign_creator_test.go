// Reproduction aid, not part of the check (skipped unless VERIF_C14_LEAK=1; real time, no bubble):
// timers created by goroutines OTHER than the consumer.  After/AddTimer call doLater first and
// timers.Store second; with a foreign creator the whole chain expiry goroutine -> queue -> Do ->
// callback -> timers.Delete can finish in between, and the late Store then leaves the object in
// Mgr.timers for ever (theorem foreign_creator_leaks_entry shows the same in the split model).
//
//	cd /verif/harness && VERIF_C14_LEAK=1 go1.26 test -vet=off -tags verif -run TestForeignCreatorLeak -v -count=1 ./c14
package c14

import (
	"os"
	"reflect"
	"sync"
	"sync/atomic"
	"testing"
	"time"

	"github.com/dfklegend/cell2/utils/timer"
)

func TestForeignCreatorLeak(t *testing.T) {
	if os.Getenv("VERIF_C14_LEAK") != "1" {
		t.Skip("set VERIF_C14_LEAK=1")
	}
	mgr := timer.NewTimerMgr()
	stop := make(chan struct{})
	var ran atomic.Int64
	go func() {
		for {
			select {
			case o := <-mgr.GetQueue():
				mgr.Do(o)
			case <-stop:
				return
			}
		}
	}()
	var wg sync.WaitGroup
	const G, N = 8, 100000
	for g := 0; g < G; g++ {
		wg.Add(1)
		go func() {
			defer wg.Done()
			for i := 0; i < N; i++ {
				mgr.After(0, func(...interface{}) { ran.Add(1) })
			}
		}()
	}
	wg.Wait()
	for i := 0; i < 600 && ran.Load() < G*N; i++ {
		time.Sleep(100 * time.Millisecond)
	}
	time.Sleep(300 * time.Millisecond)
	close(stop)
	var res []*timer.Obj
	found := false
	objs(reflect.ValueOf(mgr), 0, &res, &found)
	t.Logf("one-shots created=%d callbacks run=%d queue=%d registry-found=%v still registered in the manager=%d",
		G*N, ran.Load(), len(mgr.GetQueue()), found, len(res))
	if found && ran.Load() == G*N && len(res) > 0 {
		t.Errorf("%d one-shot timers whose callback has run are still held by the manager (first id %d)", len(res), uint64(res[0].TimerId))
	}
}
