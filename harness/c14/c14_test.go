// C14 correspondence harness: the real utils/timer.Mgr inside a testing/synctest
// bubble (virtual clock).  In "manual" cases the harness itself is the consumer of
// the manager's queue channel and decides when to drain it (exactly the calls
// StandardRunService makes: receive from GetQueue(), Mgr.Do); in "rs" cases a real
// StandardRunService drains the queue on its loop goroutine and the harness talks
// to it through its scheduler, like a service would.
package c14

import (
	"errors"
	"fmt"
	"io"
	"log"
	"reflect"
	"runtime"
	"strconv"
	"strings"
	"sync"
	"sync/atomic"
	"syscall"
	"testing"
	"testing/synctest"
	"time"

	"cell2verif/hx"

	"github.com/dfklegend/cell2/utils/logger"
	"github.com/dfklegend/cell2/utils/runservice"
	"github.com/dfklegend/cell2/utils/sche"
	"github.com/dfklegend/cell2/utils/timer"
)

const qcap = 999

func goid() int {
	var buf [64]byte
	n := runtime.Stack(buf[:], false)
	f := strings.Fields(strings.TrimPrefix(string(buf[:n]), "goroutine "))
	if len(f) == 0 {
		return -1
	}
	id, _ := strconv.Atoi(f[0])
	return id
}

type act struct {
	kind   string // cs c cn a t p
	id     int
	dur    int
	script int
	arg    int
}

type world struct {
	rs      bool
	mgr     *timer.Mgr
	srv     *runservice.StandardRunService
	base    time.Time
	scripts map[int][]act
	mu      sync.Mutex
	log     []string
	offLoop bool
	owner   int // goroutine id of whoever drains the queue
	nCase   int
	newest  timer.IdType // last id handed out by the current manager
	h       *hx.T
	curOp   string
	cbInOp  int
	gate    chan struct{} // the owner loop is parked on it while `blocked`
	unit    time.Duration // what one tick of the op language means (ms, or µs for sub-millisecond cases)
	twin    string        // "", "same", "empty": a second run service created with the same name
	srvB    *runservice.StandardRunService
	chA     chan func() // own selector of the run service(s): runs a closure on exactly that loop
	chB     chan func()
	ownerB  int
	blocked bool
	dead    bool // the run service was stopped (rstop)
}

func (w *world) now() int { return int(time.Since(w.base) / w.unit) }

func (w *world) dur(d int) time.Duration { return time.Duration(d) * w.unit }

// ownChan registers a selector of our own on a run service: whatever is sent to the channel
// runs on that service's loop goroutine and on no other (the scheduler cannot promise that:
// run services created with the same name share one task channel).
func ownChan(srv *runservice.StandardRunService) chan func() {
	ch := make(chan func(), 64)
	srv.GetSelector().AddSelector("c14probe", sche.NewFuncSelector(reflect.ValueOf(ch),
		func(v reflect.Value, recvOk bool) {
			if recvOk {
				v.Interface().(func())()
			}
		}))
	return ch
}

// post runs f on the owner loop of the timers under test.
func (w *world) post(f func()) {
	if w.twin != "" {
		w.chA <- f
	} else {
		w.srv.GetScheduler().Post(f)
	}
}

func (w *world) addLog(s string) {
	w.mu.Lock()
	w.log = append(w.log, s)
	w.mu.Unlock()
}

func (w *world) takeLog() ([]string, bool) {
	w.mu.Lock()
	defer w.mu.Unlock()
	l, off := w.log, w.offLoop
	w.log, w.offLoop = nil, false
	return l, off
}

// runaway: callbacks keep firing without the bubble ever becoming quiescent (e.g. a
// one-shot that re-arms itself with no delay on a run service): record and give up.
func (w *world) runaway() {
	w.mu.Lock()
	w.cbInOp++
	n := w.cbInOp
	var head []string
	if n > maxCbPerOp {
		head = append(head, w.log[:40]...)
	}
	w.mu.Unlock()
	if n > maxCbPerOp {
		w.h.Emit(w.curOp, "runaway ev="+strings.Join(head, ";")+" q=0")
		w.h.Close()
		syscall.Exit(3)
	}
}

const maxCbPerOp = 50000

// Real-time watchdog, running OUTSIDE the bubble: a goroutine stuck on a sync.Mutex is not
// "durably blocked", so the bubble neither becomes quiescent nor lets virtual time pass — the
// current op would never return.  When no op has completed for `limit` of wall time the hung
// op is recorded as an observation (`blocked in=cancel|expiry|?`, read off the goroutine
// stacks: is somebody stuck inside Mgr.Cancel / inside the expiry closure of doLater?), the
// trace is flushed and the process ends (rc 0: the trace is complete up to the hung op).
var (
	wdProgress atomic.Int64
	wdOp       atomic.Value
	wdDone     atomic.Bool
)

func wdStep(op string) {
	wdOp.Store(op)
	wdProgress.Add(1)
}

func startWatchdog(h *hx.T) {
	limit := time.Duration(hx.EnvInt("VERIF_WATCHDOG_MS", 6000)) * time.Millisecond
	go func() {
		last, since := wdProgress.Load(), time.Now()
		for !wdDone.Load() {
			time.Sleep(100 * time.Millisecond)
			if p := wdProgress.Load(); p != last {
				last, since = p, time.Now()
				continue
			}
			if last == 0 || time.Since(since) < limit {
				continue
			}
			buf := make([]byte, 1<<20)
			st := string(buf[:runtime.Stack(buf, true)])
			where := "?"
			for _, g := range strings.Split(st, "\n\n") {
				if !strings.Contains(g, "Mutex") || !strings.Contains(g, "utils/timer.") {
					continue
				}
				if strings.Contains(g, "(*Mgr).Cancel") {
					where = "cancel"
					break
				}
				if strings.Contains(g, "doLater") {
					where = "expiry"
				}
			}
			op, _ := wdOp.Load().(string)
			h.Emit(op, "blocked in="+where)
			h.Close()
			syscall.Exit(0)
		}
	}()
}

var errScripted = errors.New("scripted error value thrown by a timer callback")

type panicVal struct{ code int }

func showArgs(args []interface{}) string {
	parts := make([]string, len(args))
	for i, a := range args {
		parts[i] = fmt.Sprint(a)
	}
	return strings.Join(parts, ".")
}

func ifaces(xs []int) []interface{} {
	r := make([]interface{}, len(xs))
	for i, x := range xs {
		r[i] = x
	}
	return r
}

func ms(d int) time.Duration { return time.Duration(d) * time.Millisecond }

// create calls After / AddTimer with a callback that interprets script k.
func (w *world) create(rep bool, dur, k int, args []int) timer.IdType {
	mgr := w.mgr
	var self timer.IdType
	cb := func(got ...interface{}) {
		if goid() != w.owner {
			w.mu.Lock()
			w.offLoop = true
			w.mu.Unlock()
		}
		w.addLog(fmt.Sprintf("cb:%d@%d:%s", uint64(self), w.now(), showArgs(got)))
		w.runaway()
		for _, a := range w.scripts[k] {
			switch a.kind {
			case "cs":
				w.addLog(fmt.Sprintf("cx:%d", uint64(self)))
				mgr.Cancel(self)
			case "c":
				w.addLog(fmt.Sprintf("cx:%d", a.id))
				mgr.Cancel(timer.IdType(a.id))
			case "cn":
				w.addLog(fmt.Sprintf("cx:%d", uint64(w.newest)))
				mgr.Cancel(w.newest)
			case "a", "t":
				id := w.create(a.kind == "t", a.dur, a.script, []int{a.arg})
				w.addLog(fmt.Sprintf("new:%d:%s:%d:%d", uint64(id), a.kind, a.dur, a.arg))
			case "p", "pe", "pr", "pv":
				// what a callback can panic WITH: a string literal, an error value, a Go runtime
				// error (write to a nil map), a value of a type of the callback's own
				w.addLog(fmt.Sprintf("panic:%d", uint64(self)))
				switch a.kind {
				case "pe":
					panic(errScripted)
				case "pr":
					var nilMap map[int]int
					nilMap[a.id] = 1
				case "pv":
					panic(panicVal{code: 7})
				}
				panic("scripted panic in timer callback")
			}
		}
	}
	if rep {
		self = mgr.AddTimer(w.dur(dur), cb, ifaces(args)...)
	} else {
		self = mgr.After(w.dur(dur), cb, ifaces(args)...)
	}
	w.newest = self
	return self
}

func kvNat(ws []string, key string) (int, bool) {
	v, ok := hx.KV(ws, key)
	if !ok {
		return 0, false
	}
	n, err := strconv.ParseUint(v, 10, 62)
	return int(n), err == nil
}

func parseActs(s string) []act {
	var r []act
	for _, tok := range strings.Split(s, ",") {
		p := strings.Split(tok, ":")
		atoi := func(i int) int {
			if i < len(p) {
				n, _ := strconv.Atoi(p[i])
				return n
			}
			return 0
		}
		switch {
		case tok == "cs" || tok == "cn" || tok == "p" || tok == "pe" || tok == "pr" || tok == "pv":
			r = append(r, act{kind: tok})
		case p[0] == "c" && len(p) == 2:
			if _, err := strconv.ParseUint(p[1], 10, 63); err == nil {
				r = append(r, act{kind: "c", id: atoi(1)})
			}
		case (p[0] == "a" || p[0] == "t") && len(p) == 4:
			_, e1 := strconv.Atoi(p[1])
			_, e2 := strconv.ParseUint(p[2], 10, 63)
			_, e3 := strconv.ParseUint(p[3], 10, 63)
			if e1 == nil && e2 == nil && e3 == nil {
				r = append(r, act{kind: p[0], dur: atoi(1), script: atoi(2), arg: atoi(3)})
			}
		}
	}
	return r
}

func parseArgs(s string) []int {
	var r []int
	for _, p := range strings.Split(s, ".") {
		if n, err := strconv.ParseUint(p, 10, 63); err == nil {
			r = append(r, int(n))
		}
	}
	return r
}

// shutdown releases everything of the previous case so that no goroutine stays blocked.
func (w *world) shutdown() {
	if w.mgr == nil {
		return
	}
	w.mgr.Stop()
	if w.blocked {
		close(w.gate)
		w.blocked = false
	}
	if w.srv != nil {
		if !w.dead {
			w.srv.Stop()
		}
		w.srv = nil
	}
	if w.srvB != nil {
		// with a shared scheduler the second Stop closes its task channel again: panics after the loop was told to end
		b := w.srvB
		hx.Guard(func() string { b.Stop(); return "" })
		w.srvB = nil
	}
	w.dead = false
	for i := 0; i < 100; i++ {
		synctest.Wait()
		n := 0
		for {
			select {
			case <-w.mgr.GetQueue():
				n++
				continue
			default:
			}
			break
		}
		if n == 0 {
			break
		}
	}
	w.mgr = nil
}

// onOwner runs f on the goroutine that owns the timers: the run service's loop
// (posted through its scheduler) or the harness goroutine itself.
func (w *world) onOwner(f func()) {
	if w.rs {
		w.post(f)
	} else {
		f()
	}
	synctest.Wait()
}

func (w *world) qlen() int { return len(w.mgr.GetQueue()) }

func (w *world) suffix(manual string) string {
	l, off := w.takeLog()
	if w.rs {
		q := fmt.Sprint(w.qlen())
		if w.dead {
			// how many queued objects the exiting loop still takes is up to reflect.Select
			q = "?"
		}
		return fmt.Sprintf("ev=%s q=%s loop=%d", strings.Join(l, ";"), q, hx.B2i(!off))
	}
	s := manual
	if len(l) > 0 {
		s += " stray=" + strings.Join(l, ";")
	}
	if off {
		s += " loop=0"
	}
	return strings.TrimSpace(s)
}

func (w *world) exec(op string) string {
	wdStep(op)
	w.mu.Lock()
	w.curOp, w.cbInOp = op, 0
	w.mu.Unlock()
	ws := hx.Words(op)
	if len(ws) == 0 {
		return "bad-op"
	}
	if ws[0] == "reset" {
		w.shutdown()
		w.takeLog()
		w.nCase++
		w.rs = hx.KVInt(ws, "rs") == 1
		w.scripts = map[int][]act{}
		w.newest = 0
		w.unit = time.Millisecond
		if u, _ := hx.KV(ws, "unit"); u == "us" {
			w.unit = time.Microsecond
		}
		w.twin, _ = hx.KV(ws, "twin")
		if w.twin != "same" && w.twin != "empty" || !w.rs {
			w.twin = ""
		}
		if w.rs {
			name := fmt.Sprintf("c14-%d", w.nCase)
			if w.twin == "empty" {
				name = ""
			}
			w.srv = runservice.NewStandardRunService(name)
			w.srv.Start()
			w.mgr = w.srv.GetTimerMgr()
			w.owner = -2
			w.chA = ownChan(w.srv)
			w.chA <- func() { w.owner = goid() }
			if w.twin != "" {
				// a second run service created with the same name, busy with a timer of its own
				w.srvB = runservice.NewStandardRunService(name)
				w.srvB.Start()
				w.chB = ownChan(w.srvB)
				b := w.srvB
				w.chB <- func() {
					w.ownerB = goid()
					per := w.unit
					if per < time.Millisecond {
						per = 250 * time.Microsecond
					}
					b.GetTimerMgr().AddTimer(per, func(...interface{}) {
						if goid() != w.ownerB {
							w.mu.Lock()
							w.offLoop = true
							w.mu.Unlock()
						}
					})
				}
			}
			synctest.Wait()
			w.base = time.Now()
		} else {
			w.base = time.Now()
			w.mgr = timer.NewTimerMgr()
			w.owner = goid()
		}
		return "ok"
	}
	if w.mgr == nil {
		return "bad-op"
	}
	if w.dead && ws[0] != "adv" && ws[0] != "unblock" {
		return "bad-op"
	}
	if w.blocked && ws[0] != "adv" && ws[0] != "unblock" && ws[0] != "rstop" {
		return "bad-op"
	}
	switch ws[0] {
	case "block": // the owner loop gets stuck in a posted closure: expiries pile up in the queue
		if !w.rs {
			return "bad-op"
		}
		w.gate = make(chan struct{})
		g := w.gate
		w.post(func() { <-g })
		synctest.Wait()
		w.blocked = true
		return w.suffix("")
	case "unblock":
		if !w.blocked {
			return "bad-op"
		}
		close(w.gate)
		w.blocked = false
		synctest.Wait()
		return w.suffix("")
	case "rstop": // StandardRunService.Stop, from a foreign goroutine (the harness) or from the owner loop
		by, _ := hx.KV(ws, "by")
		if !w.rs || (by != "foreign" && by != "owner") || (by == "owner" && w.blocked) {
			return "bad-op"
		}
		r := ""
		if by == "foreign" {
			r = hx.Guard(func() string { w.srv.Stop(); return "" })
		} else {
			w.post(func() { w.srv.Stop() })
		}
		synctest.Wait()
		w.dead = true
		if r != "" {
			return "panic " + w.suffix("")
		}
		return w.suffix("")
	case "usel":
		// the owner of the run service hooks a channel of its own into the service loop, after Start(),
		// under a name of its choice (also one of the built-in names: "timer", "event", "sheduler"), from
		// the loop itself or from a foreign goroutine; the selector must be served on the loop and the
		// timers must go on firing there
		by, _ := hx.KV(ws, "by")
		if !w.rs || (by != "foreign" && by != "owner") {
			return "bad-op"
		}
		name, _ := hx.KV(ws, "name")
		ch := make(chan func(), 4)
		sel := w.srv.GetSelector()
		add := func() {
			sel.AddSelector(name, sche.NewFuncSelector(reflect.ValueOf(ch),
				func(v reflect.Value, recvOk bool) {
					if recvOk {
						v.Interface().(func())()
					}
				}))
		}
		if by == "owner" {
			w.post(add)
			synctest.Wait()
		} else {
			add()
		}
		served := 0
		ch <- func() {
			served = 1
			if goid() != w.owner {
				w.mu.Lock()
				w.offLoop = true
				w.mu.Unlock()
			}
		}
		synctest.Wait()
		return fmt.Sprintf("served=%d ", served) + w.suffix("")
	case "script":
		n, ok := kvNat(ws, "n")
		if !ok {
			return "bad-op"
		}
		a, _ := hx.KV(ws, "a")
		w.scripts[n] = parseActs(a)
		return "ok"
	case "after", "add":
		ds, ok1 := hx.KV(ws, "d")
		dur, err := strconv.Atoi(ds)
		sc, ok2 := kvNat(ws, "s")
		if !ok1 || !ok2 || err != nil {
			return "bad-op"
		}
		as, _ := hx.KV(ws, "args")
		var id timer.IdType
		w.onOwner(func() { id = w.create(ws[0] == "add", dur, sc, parseArgs(as)) })
		return fmt.Sprintf("id=%d ", uint64(id)) + w.suffix(fmt.Sprintf("q=%d", w.qlen()))
	case "cancel":
		id, ok := kvNat(ws, "id")
		if !ok {
			return "bad-op"
		}
		w.onOwner(func() { w.mgr.Cancel(timer.IdType(id)) })
		return w.suffix(fmt.Sprintf("q=%d", w.qlen()))
	case "stop":
		w.onOwner(func() { w.mgr.Stop() })
		return w.suffix("ok")
	case "adv":
		d, ok := kvNat(ws, "d")
		if !ok {
			return "bad-op"
		}
		time.Sleep(w.dur(d))
		synctest.Wait()
		return fmt.Sprintf("now=%d ", w.now()) + w.suffix(fmt.Sprintf("q=%d", w.qlen()))
	case "do":
		if w.rs {
			return "bad-op"
		}
		// what StandardRunService's timer selector does with one received element
		select {
		case t := <-w.mgr.GetQueue():
			pop := uint64(t.TimerId)
			r := hx.Guard(func() string { w.mgr.Do(t); return "" })
			synctest.Wait()
			l, off := w.takeLog()
			s := fmt.Sprintf("pop=%d ev=%s q=%d", pop, strings.Join(l, ";"), w.qlen())
			if r != "" {
				s = "panic " + s
			}
			if off {
				s += " loop=0"
			}
			return s
		default:
			return "empty"
		}
	}
	return "bad-op"
}

// ---------------------------------------------------------------- generator

type gen struct {
	h       *hx.T
	run     func(string)
	created int // top-level timers created in the current case
	us      bool // the current case counts in µs
}

var durs = []int{-1, 0, 0, 1, 1, 2, 2, 3, 3, 5, 8}

// µs cases: durations below one millisecond next to 0 and >= 1 ms
var dursUs = []int{-1, 0, 0, 1, 500, 900, 999, 1000, 1001, 1500, 2000, 3000}

func (g *gen) dur() int {
	if g.us {
		g.h.Count("dur.sub-ms-case")
		return dursUs[g.h.R.Intn(len(dursUs))]
	}
	return durs[g.h.R.Intn(len(durs))]
}

// durRep: duration of a repeating timer (no 1 µs periods: thousands of firings per step)
func (g *gen) durRep() int {
	if g.us {
		return g.h.Pick(-1, 0, 500, 900, 999, 1000, 1500, 2000)
	}
	return g.dur()
}

// scnDur: the duration a structured scenario is built around
func (g *gen) scnDur() int {
	if g.us {
		return g.h.Pick(500, 900, 999, 1000, 1500)
	}
	return 1 + g.h.R.Intn(6)
}

func (g *gen) advPick(rsSmall bool) int {
	if g.us {
		return g.h.Pick(0, 1, 100, 499, 500, 899, 900, 998, 999, 1000, 1500, 2500)
	}
	if rsSmall {
		return g.h.Pick(1, 2, 3)
	}
	return g.h.Pick(0, 1, 1, 2, 3, 4, 5, 8, 13)
}

// reset starts a case: unit ms or µs; run-service cases sometimes get a twin service of the same name
func (g *gen) reset(rs bool) {
	g.created = 0
	g.us = g.h.R.Intn(4) == 0
	op := fmt.Sprintf("reset rs=%d", hx.B2i(rs))
	if g.us {
		op += " unit=us"
		g.h.Count("case.unit-us")
	}
	if rs {
		switch g.h.R.Intn(6) {
		case 0, 1:
			op += " twin=same"
			g.h.Count("case.rs-twin-same-name")
		case 2:
			op += " twin=empty"
			g.h.Count("case.rs-twin-empty-name")
		}
	}
	g.run(op)
}

// usel: a user selector joins the loop of the run service in the middle of the case
func (g *gen) usel() {
	name := []string{"timer", "timer", "event", "sheduler", "c14probe", "", "mine", "mine"}[g.h.R.Intn(8)]
	by := []string{"owner", "foreign"}[g.h.R.Intn(2)]
	g.h.Count("op.usel")
	if name == "timer" || name == "event" || name == "sheduler" {
		g.h.Count("op.usel.built-in-name")
	}
	g.run(fmt.Sprintf("usel name=%s by=%v", name, by))
}

func (g *gen) someId() int {
	r := g.h.R
	switch r.Intn(10) {
	case 0:
		return g.h.Pick(0, 1, 1000000)
	case 1:
		return 2 + g.created + r.Intn(3) // not yet allocated (maybe)
	}
	return 2 + r.Intn(g.created*2+2)
}

func (g *gen) leafAct() string {
	switch g.h.R.Intn(6) {
	case 0, 1:
		return "cs"
	case 2, 3:
		return fmt.Sprintf("c:%d", g.someId())
	case 4:
		return "cn"
	}
	return g.panicAct()
}

// panicAct: a callback that panics, with one of the kinds of value Go code panics with
func (g *gen) panicAct() string {
	a := []string{"p", "pe", "pr", "pv"}[g.h.R.Intn(4)]
	g.h.Count("panic-value." + map[string]string{"p": "string", "pe": "error", "pr": "runtime-error", "pv": "struct"}[a])
	return a
}

// scripts 1,2: leaf scripts; 3..5 may create timers running lower scripts
// (a repeating timer created by a callback only runs a leaf script), so every
// chain of creations is finite.
func (g *gen) scripts() {
	r := g.h.R
	for k := 1; k <= 5; k++ {
		var as []string
		n := r.Intn(4)
		for i := 0; i < n; i++ {
			if k >= 3 && r.Intn(2) == 0 {
				if r.Intn(3) == 0 {
					as = append(as, fmt.Sprintf("t:%d:%d:%d", g.durRep(), r.Intn(3), r.Intn(100)))
					g.h.Count("act.addtimer")
				} else {
					as = append(as, fmt.Sprintf("a:%d:%d:%d", g.dur(), r.Intn(k), r.Intn(100)))
					g.h.Count("act.after")
				}
			} else {
				a := g.leafAct()
				g.h.Count("act." + strings.SplitN(a, ":", 2)[0])
				as = append(as, a)
			}
		}
		g.run(fmt.Sprintf("script n=%d a=%s", k, strings.Join(as, ",")))
	}
}

func (g *gen) args() string {
	n := g.h.R.Intn(4)
	var p []string
	for i := 0; i < n; i++ {
		p = append(p, strconv.Itoa(g.h.R.Intn(1000)))
	}
	return strings.Join(p, ".")
}

func (g *gen) mk(kind string, d, s int) {
	g.created++
	g.h.Count("op." + kind)
	if d <= 0 {
		g.h.Count("dur.nonpositive")
	}
	g.run(fmt.Sprintf("%s d=%d s=%d args=%s", kind, d, s, g.args()))
}

func (g *gen) drain(max int) {
	for i := 0; i < max; i++ {
		g.run("do")
	}
}

func (g *gen) randomOps(rs bool, n int) {
	r := g.h.R
	for i := 0; i < n; i++ {
		x := r.Intn(100)
		switch {
		case x < 14:
			g.mk("after", g.dur(), r.Intn(7))
		case x < 28:
			g.mk("add", g.durRep(), r.Intn(7))
		case x < 43:
			g.h.Count("op.cancel")
			g.run(fmt.Sprintf("cancel id=%d", g.someId()))
		case x < 63:
			g.h.Count("op.adv")
			g.run(fmt.Sprintf("adv d=%d", g.advPick(false)))
		case x < 64 && r.Intn(4) == 0:
			g.h.Count("op.stop")
			g.run("stop")
		case x < 67 && rs:
			g.usel()
		default:
			if rs {
				g.h.Count("op.adv")
				g.run(fmt.Sprintf("adv d=%d", g.advPick(true)))
			} else {
				g.h.Count("op.do")
				g.run("do")
			}
		}
	}
}

func (g *gen) caseRandom(rs bool) {
	g.reset(rs)
	g.scripts()
	if rs && g.h.R.Intn(3) == 0 {
		g.usel()
	}
	g.randomOps(rs, 8+g.h.R.Intn(30))
	// quiesce: let everything that is due fire and drain it
	g.run(fmt.Sprintf("adv d=%d", g.advPick(false)))
	if !rs {
		g.drain(3 + g.h.R.Intn(10))
	}
}

// structured scenarios around the moments the property names
func (g *gen) caseScenario() {
	r := g.h.R
	g.reset(false)
	d := g.scnDur()
	kind := []string{"after", "add"}[r.Intn(2)]
	sc := r.Intn(10)
	g.h.Count(fmt.Sprintf("scenario.%d", sc))
	switch sc {
	case 0: // expiry already queued, then cancel, then drain
		g.mk(kind, d, 0)
		g.run(fmt.Sprintf("adv d=%d", d+r.Intn(2)))
		g.run("cancel id=2")
		g.drain(2)
		g.run(fmt.Sprintf("adv d=%d", 2*d))
		g.drain(2)
	case 1: // cancel from inside the own callback
		g.run("script n=1 a=cs")
		g.mk(kind, d, 1)
		for i := 0; i < 3; i++ {
			g.run(fmt.Sprintf("adv d=%d", d))
			g.drain(2)
		}
	case 2: // two simultaneous expiries, the first to run cancels the other
		g.run("script n=1 a=c:3")
		g.run("script n=2 a=c:2")
		g.mk(kind, d, 1)
		g.mk(kind, d, 2)
		g.run(fmt.Sprintf("adv d=%d", d))
		g.drain(3)
		g.run(fmt.Sprintf("adv d=%d", d))
		g.drain(3)
	case 3: // panicking callback: others and later firings unaffected
		g.run("script n=1 a=" + g.panicAct() + ",cs")
		g.mk("add", d, 1)
		g.mk(kind, d, 0)
		for i := 0; i < 3; i++ {
			g.run(fmt.Sprintf("adv d=%d", d))
			g.drain(3)
		}
	case 4: // boundary: one tick before the duration nothing, at the duration exactly once
		g.mk(kind, d, 0)
		g.run(fmt.Sprintf("adv d=%d", d-1))
		g.drain(1)
		g.run("adv d=1")
		g.drain(2)
		g.run(fmt.Sprintf("adv d=%d", d-1))
		g.drain(1)
		g.run("adv d=1")
		g.drain(2)
	case 5: // many ties
		n := 3 + r.Intn(6)
		for i := 0; i < n; i++ {
			g.mk([]string{"after", "add"}[r.Intn(2)], d, 0)
		}
		g.run(fmt.Sprintf("adv d=%d", d))
		g.drain(n + 1)
		g.run(fmt.Sprintf("adv d=%d", d))
		g.drain(n + 1)
	case 6: // cancel a one-shot after it fired; cancel twice; cancel an id before it exists
		g.run("cancel id=2")
		g.mk("after", d, 0)
		g.run(fmt.Sprintf("adv d=%d", d))
		g.drain(2)
		g.run("cancel id=2")
		g.run("cancel id=2")
		g.mk("add", d, 0)
		g.run("cancel id=3")
		g.run("cancel id=3")
		g.run(fmt.Sprintf("adv d=%d", 2*d))
		g.drain(2)
	case 7: // repeating timer drained late: re-armed from the time of Do, not of expiry
		g.mk("add", d, 0)
		g.run(fmt.Sprintf("adv d=%d", 3*d+1))
		g.drain(2)
		g.run(fmt.Sprintf("adv d=%d", d-1))
		g.drain(1)
		g.run("adv d=1")
		g.drain(2)
	case 8: // stop: nothing is enqueued afterwards, what is queued still runs
		g.mk(kind, d, 0)
		g.mk(kind, 2*d, 0)
		g.run(fmt.Sprintf("adv d=%d", d))
		g.run("stop")
		g.run(fmt.Sprintf("adv d=%d", 2*d))
		g.drain(3)
	case 9: // Cancel of stale / unknown ids, then life goes on: a new one-shot fires once at its
		// time, the repeating timer keeps going, a further Cancel returns
		g.staleCancels(false, d)
	}
}

// a backlog of expiries on a run service: n timers sharing a deadline, or coming due while the
// owner loop is stuck — every single one must get its callback (and repeating ones go on)
func (g *gen) caseRsBacklog(n int, blocked bool) {
	r := g.h.R
	g.reset(true)
	g.us = false
	g.h.Count("scenario.rs-backlog")
	d := 1 + r.Intn(3)
	for i := 0; i < n; i++ {
		dd := d
		if blocked {
			dd = 1 + r.Intn(4)
		}
		g.mk([]string{"after", "add"}[r.Intn(2)], dd, 0)
	}
	if blocked {
		g.run("block")
		g.run("adv d=4")
		g.run("unblock")
	} else {
		g.run(fmt.Sprintf("adv d=%d", d))
	}
	g.run("adv d=1")
	g.run(fmt.Sprintf("adv d=%d", d+1))
}

func (g *gen) staleCancels(rs bool, d int) {
	r := g.h.R
	drain := func(n int) {
		if !rs {
			g.drain(n)
		}
	}
	g.mk("add", d, 0)   // id 2: repeating
	g.mk("after", d, 0) // id 3: one-shot
	g.run(fmt.Sprintf("adv d=%d", d))
	drain(3)
	stale := []string{"cancel id=3", "cancel id=0", "cancel id=77", "cancel id=3"} // fired one-shot, 0, never issued, twice
	r.Shuffle(len(stale), func(i, j int) { stale[i], stale[j] = stale[j], stale[i] })
	for _, c := range stale[:1+r.Intn(len(stale))] {
		g.h.Count("op.cancel.stale")
		g.run(c)
	}
	g.mk("after", d, 0) // id 4: must fire exactly once at its time
	g.run(fmt.Sprintf("adv d=%d", d))
	drain(3)
	g.run(fmt.Sprintf("adv d=%d", d))
	drain(2)
	g.run("cancel id=2") // a real cancel must still return and work
	g.run("cancel id=2")
	g.mk("after", 1, 0)
	g.run(fmt.Sprintf("adv d=%d", 2*d))
	drain(3)
}

// the owner loop is busy while timers expire, then the run service is stopped (from a foreign
// goroutine while the loop is still stuck, or after it resumed; or by the owner itself)
func (g *gen) caseBusyStop() {
	r := g.h.R
	g.reset(true)
	g.us = false // durations below are written in plain ticks
	g.scripts()
	n := 1 + r.Intn(5)
	for i := 0; i < n; i++ {
		g.mk([]string{"after", "add"}[r.Intn(2)], 1+r.Intn(4), r.Intn(6))
	}
	if r.Intn(3) == 0 {
		g.usel() // a user selector joins the loop while the timers are armed
	}
	g.run("block")
	g.run(fmt.Sprintf("adv d=%d", 1+r.Intn(6)))
	switch v := r.Intn(4); v {
	case 0, 1:
		g.h.Count("scenario.stop-foreign-while-owner-busy")
		g.run("rstop by=foreign")
		g.run("unblock")
	case 2:
		g.h.Count("scenario.owner-busy-then-drain")
		g.run("unblock")
		g.randomOps(true, r.Intn(6))
		g.run("rstop by=" + []string{"foreign", "owner"}[r.Intn(2)])
	case 3:
		g.h.Count("scenario.stop-by-owner")
		g.run("unblock")
		g.run("rstop by=owner")
	}
	g.run(fmt.Sprintf("adv d=%d", 1+r.Intn(5)))
	g.run("cancel id=2") // dead service: rejected
}

// more timers than the queue channel holds: expiry goroutines block and resume in order
func (g *gen) caseOverflow() {
	g.created = 0
	g.run("reset rs=0")
	g.h.Count("scenario.overflow")
	n := qcap + 6
	for i := 0; i < n; i++ {
		g.mk("after", 1+i%2, 0)
	}
	g.run("cancel id=5")
	g.run("adv d=1")
	g.run("adv d=1")
	g.run("cancel id=1003")
	g.run("cancel id=7")
	g.drain(n + 2)
}

// senders blocked on the full channel have passed the Canceled / running tests of the expiry
// closure already: a Cancel or a Stop that comes now does not keep their objects out of the
// queue (theorem expire_gap_harmless: same state as "expiry first, then Cancel / Stop") — a
// cancelled one is skipped by Do, the others still get their callback after Stop
func (g *gen) caseOverflowStop() {
	g.created = 0
	g.run("reset rs=0")
	g.h.Count("scenario.overflow-stop-with-blocked-senders")
	n := qcap + 4
	for i := 0; i < n; i++ {
		g.mk([]string{"after", "add"}[i%2], 1, 0)
	}
	g.run("adv d=1")
	g.run(fmt.Sprintf("cancel id=%d", n)) // ids 2..n+1: one of the last ones
	g.run("stop")
	g.run(fmt.Sprintf("cancel id=%d", n-1))
	g.run("adv d=1")
	g.drain(n + 2)
	g.run("adv d=2")
	g.drain(2)
}

func (g *gen) caseMalformed() {
	g.created = 0
	g.h.Count("scenario.malformed")
	g.run("reset rs=0")
	for _, op := range []string{
		"do", "cancel id=0", "cancel id=99999999", "cancel", "after", "add d=x s=1", "script a=cs", "adv",
		"script n=1 a=zz,c:,a:1:2,cs,,t:1:77:5", "script n=77 a=c:2",
		"add d=-5 s=1 args=", "after d=-3 s=9 args=1..2", "do", "do", "do", "adv d=0", "do", "do", "frobnicate", "stop", "stop",
		"after d=0 s=0 args=5", "adv d=1", "do", "cancel id=2",
	} {
		g.run(op)
	}
}

func TestRun(t *testing.T) {
	logger.GetLogProxy("exception").SetLogLevel(0) // logrus.PanicLevel: keep the recovered-panic stack dumps out of the output
	logger.SetLogLevel(0)
	log.SetOutput(io.Discard)
	h := hx.Open()
	clean := false
	startWatchdog(h)
	defer wdDone.Store(true)
	synctest.Test(t, func(t *testing.T) {
		w := &world{h: h}
		run := func(op string) {
			obs := w.exec(op)
			// what was reached (outcomes, not just inputs)
			if strings.Contains(obs, "cb:") {
				h.Count("reach.callback")
				if w.rs {
					h.Count("reach.callback-on-runservice-loop")
				}
			}
			if strings.HasPrefix(obs, "pop=") && strings.Contains(obs, " ev= ") {
				h.Count("reach.cancelled-object-skipped-by-Do")
			}
			if strings.Contains(obs, "panic:") {
				h.Count("reach.panic-in-callback")
			}
			if strings.Contains(obs, "new:") {
				h.Count("reach.timer-created-in-callback")
			}
			if strings.Contains(obs, "cx:") {
				h.Count("reach.cancel-in-callback")
			}
			if strings.HasPrefix(op, "adv") && strings.Contains(obs, fmt.Sprintf("q=%d", qcap)) {
				h.Count("reach.queue-full")
			}
			h.Emit(op, obs)
		}
		defer func() {
			if !clean {
				// something is wedged: keep what was recorded
				h.Close()
				syscall.Exit(3)
			}
		}()
		if ops := hx.ReplayOps(); ops != nil {
			for _, op := range ops {
				run(op)
			}
		} else {
			g := &gen{h: h, run: run}
			for _, op := range hx.CorpusOps(hx.Env("VERIF_CORPUS", "corpus/C14")) {
				h.Count("corpus")
				run(op)
			}
			g.caseMalformed()
			g.caseOverflow()
			g.caseOverflowStop()
			g.caseRsBacklog(70, false)
			g.caseRsBacklog(45, true)
			n := hx.EnvInt("VERIF_N", 500)
			for i := 0; i < n; i++ {
				switch x := h.R.Intn(10); {
				case x < 3:
					g.caseScenario()
				case x < 4:
					h.Count("case.rs")
					g.caseRandom(true)
				case x < 5 && h.R.Intn(12) == 0:
					g.caseRsBacklog(30+h.R.Intn(50), h.R.Intn(2) == 0)
				case x < 5 && h.R.Intn(3) == 0:
					h.Count("case.rs-stale-cancels")
					g.reset(true)
					g.staleCancels(true, g.scnDur())
				case x < 5:
					h.Count("case.rs-busy-stop")
					g.caseBusyStop()
				default:
					h.Count("case.manual")
					g.caseRandom(false)
				}
			}
		}
		w.shutdown()
		synctest.Wait()
		h.Close()
		clean = true
	})
}
