// C14, service level: a real actorex/service.Service (the owner of a timer manager through
// its StandardRunService) arms its once-a-second request-expiry timer when a request is
// issued and frees it — Cancel of the timer from inside that timer's own callback — when a
// tick finds the request table empty (tryStartCheckTimer / checkExpired / freeTimer).
//
// Ops (a case starts with `reset svc=1`):
//
//	sreq k=<tag>    the service issues a request to a recording peer; with again=1 its completion
//	                callback, when called with an error (ErrTimeout, from inside checkExpired = from
//	                inside the check timer's own callback), issues the follow-up request <tag>+1000
//	sresp k=<tag>   the peer answers request <tag>
//	sadv d=<ms>     virtual time passes
//
// Observation after quiescence: now, the callback log of the timers of the service's manager
// (every timer.Obj found in Mgr.timers gets its exported CB wrapped), the ids the manager
// holds (Mgr.timers), the id the service believes it owns (Service.timerCheckExpired), the
// size of the request table, the queue length.
package c14

import (
	"fmt"
	"io"
	"log"
	"reflect"
	"sort"
	"strconv"
	"strings"
	"sync"
	"syscall"
	"testing"
	"testing/synctest"
	"time"
	"unsafe"

	"cell2verif/hx"

	"github.com/asynkron/protoactor-go/actor"

	as "github.com/dfklegend/cell2/actorex/service"
	messages "github.com/dfklegend/cell2/actorex/service/servicemsgs"
	"github.com/dfklegend/cell2/utils/logger"
	"github.com/dfklegend/cell2/utils/timer"
)

type svcPeer struct {
	*as.Service
	w *svcWorld
}

func (p *svcPeer) ReceiveRequest(ctx actor.Context, request *messages.ServiceRequest, raw interface{}) {
	m, ok := raw.(*messages.TestHello)
	if !ok || request.Sender == nil {
		return
	}
	w := p.w
	w.mu.Lock()
	defer w.mu.Unlock()
	if w.pid == nil || request.Sender.Id != w.pid.Id {
		return
	}
	w.recv[int(m.I)] = request
}

type svcWorld struct {
	sys     *actor.ActorSystem
	peer    *svcPeer
	peerPid *actor.PID
	mu      sync.Mutex
	svc     *as.Service
	pid     *actor.PID
	recv    map[int]*messages.ServiceRequest
	base    time.Time
	log     []string
	wrapped map[*timer.Obj]bool
	gid     int
	offLoop bool
	nCase   int
	h       *hx.T
}

func newSvcWorld() *svcWorld {
	w := &svcWorld{sys: actor.NewActorSystem()}
	props, _ := as.NewServicePropsWithNewScheDisp(func() actor.Actor {
		p := &svcPeer{Service: as.NewService(), w: w}
		p.Service.InitReqReceiver(p)
		w.peer = p
		return p
	}, "c14peer")
	pid, err := w.sys.Root.SpawnNamed(props, "c14peer")
	if err != nil {
		panic(err)
	}
	w.peerPid = pid
	synctest.Wait()
	return w
}

func (w *svcWorld) now() int { return int(time.Since(w.base) / time.Millisecond) }

func (w *svcWorld) mgr() *timer.Mgr { return w.svc.GetRunService().GetTimerMgr() }

// White-box probes, resolved structurally (never by field name) and read-only.

var (
	tyObjPtr  = reflect.TypeOf((*timer.Obj)(nil))
	tyIdType  = reflect.TypeOf(timer.IdType(0))
	tySyncMap = reflect.TypeOf(sync.Map{})
)

// open returns an addressable, settable view of a (possibly unexported) struct field.
func open(f reflect.Value) reflect.Value {
	return reflect.NewAt(f.Type(), unsafe.Pointer(f.UnsafeAddr())).Elem()
}

// objs collects the *timer.Obj values of every container (sync.Map, or Go map whose element
// type is *timer.Obj) reachable from v through structs and pointers, depth <= 3.
// found reports whether any such container exists.
func objs(v reflect.Value, depth int, out *[]*timer.Obj, found *bool) {
	if depth > 3 || !v.IsValid() {
		return
	}
	switch v.Kind() {
	case reflect.Ptr:
		if !v.IsNil() && v.Type().Elem().Kind() == reflect.Struct {
			objs(v.Elem(), depth, out, found)
		}
	case reflect.Struct:
		if v.Type() == tySyncMap {
			if !v.CanAddr() {
				return
			}
			m := (*sync.Map)(unsafe.Pointer(v.UnsafeAddr()))
			ok := true
			var got []*timer.Obj
			m.Range(func(_, val interface{}) bool {
				o, isObj := val.(*timer.Obj)
				if !isObj {
					ok = false
					return false
				}
				got = append(got, o)
				return true
			})
			if ok {
				*found = true
				*out = append(*out, got...)
			}
			return
		}
		for i := 0; i < v.NumField(); i++ {
			f := v.Field(i)
			if !f.CanAddr() {
				continue
			}
			objs(open(f), depth+1, out, found)
		}
	case reflect.Map:
		if v.Type().Elem() == tyObjPtr {
			*found = true
			it := v.MapRange()
			for it.Next() {
				if o, ok := it.Value().Interface().(*timer.Obj); ok && o != nil {
					*out = append(*out, o)
				}
			}
		}
	}
}

// liveObjs: the timer objects the manager holds; ok=false when no container was found.
func (w *svcWorld) liveObjs() (res []*timer.Obj, ok bool) {
	defer func() {
		if recover() != nil {
			res, ok = nil, false
		}
	}()
	if np := hx.Env("VERIF_C14_NOPROBE", ""); np == "live" || np == "both" {
		return nil, false // development aid: behave as if the container could not be found
	}
	objs(reflect.ValueOf(w.mgr()), 0, &res, &ok)
	return
}

// own: the timer id the service believes it owns = its single field of type timer.IdType.
func (w *svcWorld) own() (id uint64, ok bool) {
	defer func() {
		if recover() != nil {
			id, ok = 0, false
		}
	}()
	if np := hx.Env("VERIF_C14_NOPROBE", ""); np == "own" || np == "both" {
		return 0, false
	}
	v := reflect.ValueOf(w.svc).Elem()
	n := 0
	for i := 0; i < v.NumField(); i++ {
		if v.Field(i).Type() == tyIdType {
			id = v.Field(i).Uint()
			n++
		}
	}
	return id, n == 1
}

// wrap makes every timer object of the manager log its callback runs.
func (w *svcWorld) wrap(live []*timer.Obj) {
	for _, o := range live {
		o := o
		if w.wrapped[o] {
			continue
		}
		w.wrapped[o] = true
		orig := o.CB
		cs, gid := w.nCase, w.gid
		o.CB = func(args ...interface{}) {
			w.mu.Lock()
			if w.nCase == cs { // a timer leaked by an earlier case's service is not this case's business
				w.log = append(w.log, fmt.Sprintf("cb:%d@%d:%s", uint64(o.TimerId), w.now(), showArgs(args)))
				if goid() != gid {
					w.offLoop = true
				}
			}
			w.mu.Unlock()
			orig(args...)
		}
	}
}

func (w *svcWorld) onSvc(fn func()) {
	w.svc.Post(fn)
	synctest.Wait()
}

func (w *svcWorld) obs() string {
	live, okLive := w.liveObjs()
	liveS := "?"
	if okLive {
		w.wrap(live)
		ids := make([]int, 0, len(live))
		for _, o := range live {
			ids = append(ids, int(o.TimerId))
		}
		sort.Ints(ids)
		ss := make([]string, len(ids))
		for i, v := range ids {
			ss[i] = fmt.Sprint(v)
		}
		liveS = strings.Join(ss, ",")
	} else {
		w.h.Count("probe.unresolved.live")
	}
	ownS := "?"
	if id, ok := w.own(); ok {
		ownS = fmt.Sprint(id)
	} else {
		w.h.Count("probe.unresolved.own")
	}
	w.mu.Lock()
	l, off := w.log, w.offLoop
	w.log, w.offLoop = nil, false
	w.mu.Unlock()
	evS := strings.Join(l, ";")
	if !okLive {
		evS = "?" // without the container the callbacks cannot be wrapped: no log
	}
	s := fmt.Sprintf("now=%d ev=%s live=%s own=%s pend=%d q=%d", w.now(), evS, liveS, ownS, len(w.svc.Handlers), len(w.mgr().GetQueue()))
	if off {
		s += " loop=0"
	}
	return s
}

func (w *svcWorld) exec(op string) string {
	wdStep(op)
	ws := hx.Words(op)
	if len(ws) == 0 {
		return "bad-op"
	}
	if ws[0] == "reset" {
		if w.svc != nil {
			// let the previous service's requests expire and its timer free itself
			// (a retried request lives for another 30 s)
			for i := 0; i < 4; i++ {
				if id, ok := w.own(); len(w.svc.Handlers) > 0 || id != 0 || (!ok && i == 0) {
					time.Sleep(33 * time.Second)
					synctest.Wait()
				} else {
					break
				}
			}
		}
		w.mu.Lock()
		w.nCase++
		w.mu.Unlock()
		name := fmt.Sprintf("c14svc%d", w.nCase)
		var svc *as.Service
		props, _ := as.NewServicePropsWithNewScheDisp(func() actor.Actor {
			svc = as.NewService()
			return svc
		}, name)
		pid, err := w.sys.Root.SpawnNamed(props, name)
		if err != nil {
			panic(err)
		}
		synctest.Wait()
		w.mu.Lock()
		w.svc, w.pid, w.recv, w.log, w.wrapped = svc, pid, map[int]*messages.ServiceRequest{}, nil, map[*timer.Obj]bool{}
		w.mu.Unlock()
		w.onSvc(func() { w.gid = goid() })
		w.base = time.Now()
		return "ok"
	}
	if w.svc == nil {
		return "bad-op"
	}
	switch ws[0] {
	case "sreq":
		k, ok := kvNat(ws, "k")
		if !ok {
			return "bad-op"
		}
		again := hx.KVInt(ws, "again") == 1
		svc := w.svc
		w.onSvc(func() {
			svc.RequestEx(w.peerPid, "c14.check", &messages.TestHello{I: int32(k)}, func(err error, raw interface{}) {
				if again && err != nil {
					svc.RequestEx(w.peerPid, "c14.check", &messages.TestHello{I: int32(k + 1000)}, func(err error, raw interface{}) {})
				}
			})
		})
		return w.obs()
	case "sresp":
		k, ok := kvNat(ws, "k")
		if !ok {
			return "bad-op"
		}
		w.mu.Lock()
		req := w.recv[k]
		delete(w.recv, k)
		w.mu.Unlock()
		if req != nil {
			w.peer.Post(func() { w.peer.Response(req, 0, "", &messages.TestHello{I: int32(k)}) })
		}
		synctest.Wait()
		return w.obs()
	case "sadv":
		d, ok := kvNat(ws, "d")
		if !ok {
			return "bad-op"
		}
		time.Sleep(ms(d))
		synctest.Wait()
		return w.obs()
	}
	return "bad-op"
}

func pendOf(obs string) int {
	v, _ := hx.KV(hx.Words(obs), "pend")
	n, _ := strconv.Atoi(v)
	return n
}

func followSeen(obs string, last int) bool { return pendOf(obs) < last }

// TestSvc: generated busy / idle cycles of a real service.
func TestSvc(t *testing.T) {
	logger.GetLogProxy("exception").SetLogLevel(0)
	logger.SetLogLevel(0)
	log.SetOutput(io.Discard)
	h := hx.Open()
	startWatchdog(h)
	defer wdDone.Store(true)
	synctest.Test(t, func(t *testing.T) {
		w := newSvcWorld()
		w.h = h
		lastPend := 0
		run := func(op string) {
			obs := w.exec(op)
			if strings.Contains(obs, "live= own=0") && strings.HasPrefix(op, "sadv") {
				h.Count("reach.svc-idle-no-timer")
			}
			if strings.Contains(obs, "cb:") {
				h.Count("reach.svc-check-tick")
			}
			if strings.HasPrefix(op, "sresp") && hx.KVInt(hx.Words(op), "k") > 1000 && followSeen(obs, lastPend) {
				h.Count("reach.svc-follow-up-answered")
			}
			lastPend = pendOf(obs)
			h.Emit(op, obs)
		}
		if ops := hx.ReplayOps(); ops != nil {
			for _, op := range ops {
				run(op)
			}
		} else {
			for _, op := range hx.CorpusOps(hx.Env("VERIF_CORPUS_SVC", "corpus/C14/svc")) {
				h.Count("corpus")
				run(op)
			}
			r := h.R
			n := hx.EnvInt("VERIF_N", 60)
			for i := 0; i < n; i++ {
				run("reset svc=1")
				h.Count("case.svc")
				k := 0
				var open, retry []int
				steps := 6 + r.Intn(14)
				for j := 0; j < steps; j++ {
					switch x := r.Intn(10); {
					case x < 3:
						k++
						open = append(open, k)
						h.Count("op.sreq")
						if r.Intn(3) == 0 {
							h.Count("op.sreq.retrying-callback")
							retry = append(retry, k)
							run(fmt.Sprintf("sreq k=%d again=1", k))
						} else {
							run(fmt.Sprintf("sreq k=%d", k))
						}
					case x < 4 && len(retry) > 0:
						// answer a follow-up request (it exists only if the original timed out)
						h.Count("op.sresp.follow-up")
						run(fmt.Sprintf("sresp k=%d", 1000+retry[r.Intn(len(retry))]))
					case x < 5 && len(open) > 0:
						i := r.Intn(len(open))
						h.Count("op.sresp")
						run(fmt.Sprintf("sresp k=%d", open[i]))
						open = append(open[:i], open[i+1:]...)
					case x < 6:
						h.Count("op.sresp.stale")
						run(fmt.Sprintf("sresp k=%d", r.Intn(k+2)))
					default:
						h.Count("op.sadv")
						run(fmt.Sprintf("sadv d=%d", h.Pick(1, 400, 999, 1000, 1001, 1500, 2500, 3100, 3100, 31500)))
					}
				}
				// answer what is open, idle across more than 3 s, second busy period, idle again
				for _, o := range open {
					run(fmt.Sprintf("sresp k=%d", o))
				}
				run("sadv d=2100")
				run("sadv d=3300")
				k++
				run(fmt.Sprintf("sreq k=%d", k))
				run("sadv d=2500")
				run(fmt.Sprintf("sresp k=%d", k))
				run("sadv d=2100")
				run("sadv d=3000")
				if r.Intn(3) == 0 {
					// third busy period: a request that is never answered, its callback retries once; the
					// follow-up is answered or times out in turn; then idle again
					h.Count("scenario.svc-timeout-callback-retries")
					k++
					run(fmt.Sprintf("sreq k=%d again=1", k))
					run(fmt.Sprintf("sadv d=%d", h.Pick(29500, 30000, 30500)))
					run(fmt.Sprintf("sadv d=%d", h.Pick(600, 1000, 1600)))
					if r.Intn(2) == 0 {
						run(fmt.Sprintf("sresp k=%d", 1000+k))
						run("sadv d=2100")
					} else {
						run("sadv d=31500")
					}
					run("sadv d=2100")
				}
			}
		}
		h.Close()
		syscall.Exit(0) // services never stop their run-service goroutine
	})
}
