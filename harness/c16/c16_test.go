// C16 correspondence harness: drives the real channel.Service (with a recording
// IPushMessager installed through channel.SetPushImpl), the real
// impls.ClientSessions (with recording fake client sessions), the real
// impls.PushMessageByIds -> pushLocal path for the issuing front-end and the
// builtin sys.pushmsg entry, on generated and replayed op lines; one
// observation per op.
package c16

import (
	"errors"
	"fmt"
	"math"
	"sort"
	"strconv"
	"strings"
	"sync"
	"testing"
	"time"

	"github.com/asynkron/protoactor-go/actor"
	"github.com/asynkron/protoactor-go/remote"

	"cell2verif/hx"

	as "github.com/dfklegend/cell2/actorex/service"
	messages "github.com/dfklegend/cell2/actorex/service/servicemsgs"
	"github.com/dfklegend/cell2/node/app"
	"github.com/dfklegend/cell2/node/builtin"
	"github.com/dfklegend/cell2/node/builtin/channel"
	"github.com/dfklegend/cell2/node/builtin/msgs"
	"github.com/dfklegend/cell2/node/client/impls"
	cs "github.com/dfklegend/cell2/node/client/session"
	"github.com/dfklegend/cell2/node/cluster"
	"github.com/dfklegend/cell2/node/service"
	"github.com/dfklegend/cell2/utils/runservice"
	"github.com/dfklegend/cell2/utils/timer"
)

// ---------------------------------------------------------------- fakes

type delivery struct {
	id    uint32
	route string
	data  []byte
}

// fakeSession implements session.IClientSession and records every Push.
type fakeSession struct {
	id     uint32
	fe     *frontEnd
	closed bool // the socket has closed but the session is still registered: Push fails
}

var errClosed = errors.New("session closed")

func (f *fakeSession) Reserve()        {}
func (f *fakeSession) GetId() uint32   { return f.id }
func (f *fakeSession) SetId(id uint32) { f.id = id }
func (f *fakeSession) Push(route string, v interface{}) error {
	if f.closed {
		return errClosed
	}
	var data []byte
	switch d := v.(type) {
	case []byte:
		data = append([]byte(nil), d...)
	default:
		data = []byte(fmt.Sprintf("?%T", v))
	}
	f.fe.deliveries = append(f.fe.deliveries, delivery{f.id, route, data})
	return nil
}
func (f *fakeSession) ResponseMID(mid uint, v interface{}, e error) error { return nil }
func (f *fakeSession) Close()                                             {}
func (f *fakeSession) IsClosed() bool                                     { return f.closed }

type pushTuple struct {
	front string
	ids   []uint32
	route string
	msg   string
}

// recorder is the IPushMessager seen by the channel layer. It copies the id
// slice at call time (the channel hands out its own backing array) and passes
// the call on to the real implementation (impls.PushMessageByIds -> pushLocal ->
// ClientSessions for the issuing front-end itself, ns.RequestEx("sys.pushmsg")
// towards other services).
type recorder struct {
	w    *world
	real channel.IPushMessager
}

func (r *recorder) PushMessageById(ns *service.NodeService, serverId string, sessionId uint32, route string, msg any) {
	r.w.pushes = append(r.w.pushes, pushTuple{serverId, []uint32{sessionId}, route, showMsg(msg)})
	if ns == r.w.ns {
		// the real single-id path (impls.PushMessageById: pushLocal with a one-element list, else the directory)
		r.real.PushMessageById(ns, serverId, sessionId, route, msg)
	}
}

// msgVal turns the msg token of an op line into the value handed to the code: `~inf` is a value the
// client serializer (encoding/json) cannot marshal (the push layer drops the error and pushes empty data).
func msgVal(msg string) any {
	if msg == "~inf" {
		return math.Inf(1)
	}
	return msg
}

func showMsg(msg any) string {
	if f, ok := msg.(float64); ok && math.IsInf(f, 1) {
		return "~inf"
	}
	return fmt.Sprint(msg)
}

func (r *recorder) PushMessageByIds(ns *service.NodeService, serverId string, ids []uint32, route string, msg any) {
	if rc := r.w.race; rc != nil && rc.front == serverId && rc.done == nil {
		// another goroutine issues a membership operation on this very group now, before the
		// id list is read. The channel holds the group lock across this call, so the operation
		// cannot proceed until we return; give it a moment in case it can.
		rc.done = make(chan struct{})
		go func() {
			defer close(rc.done)
			rc.f()
		}()
		select {
		case <-rc.done:
		case <-time.After(raceGate):
		}
	}
	cp := append([]uint32(nil), ids...)
	r.w.pushes = append(r.w.pushes, pushTuple{serverId, cp, route, showMsg(msg)})
	if ns == r.w.ns {
		// the real push layer: in place for the issuing front-end itself, one sys.pushmsg
		// request towards any other service the directory knows (captured by sendCtx)
		r.real.PushMessageByIds(ns, serverId, ids, route, msg)
	}
}

type raceOp struct {
	front string
	f     func()
	done  chan struct{}
}

const raceGate = time.Millisecond

// owner is the actor behind the fake actor context handed to sys.pushmsg.
type owner struct{ ns *service.NodeService }

func (o *owner) Receive(actor.Context)                {}
func (o *owner) GetNodeService() *service.NodeService { return o.ns }

type fakeCtx struct {
	actor.Context
	a actor.Actor
}

func (c fakeCtx) Actor() actor.Actor { return c.a }

// handler is the client.ISessionsHandler of the front-end; its callbacks run
// whatever script the current op installed (nothing by default).
type handler struct{ w *world }

func (h *handler) Process(*cs.FrontSession, *msgs.ClientMsg) {}
func (h *handler) OnSessionAdd(fs *cs.FrontSession) {
	if f := h.w.onAdd; f != nil {
		f(fs.Session.GetId())
	}
}
func (h *handler) OnSessionRemove(fs *cs.FrontSession) {
	if f := h.w.onRemove; f != nil {
		f(fs.Session.GetId())
	}
}

// ---------------------------------------------------------------- world

type world struct {
	local    string
	ns       *service.NodeService // = a.ns
	svc      *channel.Service
	a, b     *frontEnd // the issuing front-end service and (optional) a second one in the same process
	cur      *frontEnd // the one session operations address (b for `at=b`)
	sent     []sentReq
	pushes   []pushTuple
	uids     map[*channel.Channel]int
	byUid    map[int]*channel.Channel // retained handles: every channel object ever handed out, by its number
	slots    map[string]string
	race     *raceOp
	onAdd    func(id uint32)
	onRemove func(id uint32)
	nosess   bool // the issuing service has no "sessions" component
}

var (
	stat     = func(string) {}
	w        *world
	realImpl channel.IPushMessager = &impls.ChannelPushMessageImpl{}
)

// frontEnd is one front-end service: a NodeService that owns a sessions component.
type frontEnd struct {
	name       string
	ns         *service.NodeService
	sessions   *impls.ClientSessions
	fakes      map[uint32]*fakeSession
	deliveries []delivery
	timers     *timer.Mgr
}

func newFrontEnd(nw *world, name string, attach bool) *frontEnd {
	fe := &frontEnd{name: name, fakes: map[uint32]*fakeSession{}, timers: timer.NewTimerMgr()}
	fe.ns = service.NewService()
	fe.ns.Name = name
	// enough of a running service for ns.RequestEx: an actor context that captures Send,
	// and a timer manager for the request-expiry timer (never run)
	fe.ns.Context = &sendCtx{w: nw, self: actor.NewPID("h:1", name)}
	fe.ns.SetRunService(&runservice.StandardRunService{TimerMgr: fe.timers})
	fe.sessions = impls.NewClientSessions(name)
	if attach { // a back-end service has no "sessions" component: pushLocal declines and the directory is asked
		fe.ns.AddComponent("sessions", impls.NewSessionsComponent(fe.sessions))
	}
	return fe
}

type sentReq struct {
	to    string
	route string // route of the service request (sys.pushmsg)
	msg   *msgs.PushMsg
}

// sendCtx stands in for the actor context of a started service: Send records the
// request and plays the transport towards the second front-end of this process.
type sendCtx struct {
	actor.Context
	w    *world
	self *actor.PID
}

func (c *sendCtx) Self() *actor.PID { return c.self }
func (c *sendCtx) Send(pid *actor.PID, message interface{}) {
	req, ok := message.(*messages.ServiceRequest)
	if !ok {
		c.w.sent = append(c.w.sent, sentReq{to: pid.Id, route: fmt.Sprintf("?%T", message), msg: &msgs.PushMsg{}})
		return
	}
	body, err := remote.Deserialize(req.Body, req.Type, as.DefaultSerializeId)
	pm, _ := body.(*msgs.PushMsg)
	if err != nil || pm == nil {
		c.w.sent = append(c.w.sent, sentReq{to: pid.Id, route: "?body", msg: &msgs.PushMsg{}})
		return
	}
	c.w.sent = append(c.w.sent, sentReq{to: pid.Id, route: req.Route, msg: pm})
	if b := c.w.b; b != nil && pid.Id == b.name && req.Route == "sys.pushmsg" {
		ctx := &as.RemoteContext{ActorContext: fakeCtx{a: &owner{ns: b.ns}}}
		sysEntry.PushMsg(ctx, pm, func(error, interface{}) {})
	}
}

var (
	// the one `sys` entry object of the process: every service's sys.* requests go through it
	sysEntry = &builtin.Entry{}
	topoOnce sync.Once
)

func newWorld(local, second string, nosess ...bool) *world {
	topoOnce.Do(func() {
		app.Node.GetCluster().UpdateClusterTopology([]*cluster.Member{{Id: "c16@n1", Host: "h", Port: 1, State: 1,
			Services: []string{"front.f1", "front.f2", "front.f3"}}})
	})
	if w != nil {
		for _, fe := range []*frontEnd{w.a, w.b} {
			if fe != nil {
				fe.timers.Stop()
			}
		}
	}
	nw := &world{local: local, uids: map[*channel.Channel]int{}, byUid: map[int]*channel.Channel{}, slots: map[string]string{}}
	nw.nosess = len(nosess) > 0 && nosess[0]
	nw.a = newFrontEnd(nw, local, !nw.nosess)
	nw.cur = nw.a
	if second != "" && second != local {
		nw.b = newFrontEnd(nw, second, true)
	}
	nw.ns = nw.a.ns
	nw.a.sessions.SetHandler(&handler{w: nw})
	nw.svc = channel.NewChannelService(nw.ns)
	channel.SetPushImpl(&recorder{w: nw, real: realImpl})
	return nw
}

func (w *world) uid(c *channel.Channel) string {
	if c == nil {
		return "nil"
	}
	u, ok := w.uids[c]
	if !ok {
		u = len(w.uids) + 1
		w.uids[c] = u
		w.byUid[u] = c
	}
	return fmt.Sprintf("ch=%d", u)
}

// name resolves `@k` to the real name of the temp channel of slot k.
func (w *world) name(c string) string {
	if strings.HasPrefix(c, "@") {
		if n, ok := w.slots[c[1:]]; ok {
			return n
		}
	}
	return c
}

func (w *world) live() string {
	var ids []uint32
	w.cur.sessions.VisitSession(func(fs *cs.FrontSession) { ids = append(ids, fs.Session.GetId()) })
	sort.Slice(ids, func(i, j int) bool { return ids[i] < ids[j] })
	return "live=" + showIds(ids)
}

func showIds(ids []uint32) string {
	ss := make([]string, len(ids))
	for i, v := range ids {
		ss[i] = strconv.FormatUint(uint64(v), 10)
	}
	return strings.Join(ss, ",")
}

func (w *world) showDl() string { return "dl=" + renderDl(w.cur.deliveries) }

func renderDl(ds []delivery) string {
	ss := make([]string, len(ds))
	for i, d := range ds {
		ss[i] = fmt.Sprintf("%d:%s:%s", d.id, d.route, hx.Hex(d.data))
	}
	return strings.Join(ss, ",")
}

// bcast broadcasts on ch (nil = no such channel) and renders what the push layer was handed.
func (w *world) bcast(ch *channel.Channel, route, msg string) string {
	if ch == nil {
		return "nil"
	}
	return w.pushObs(func() { ch.PushMessage(route, msgVal(msg)) })
}

// pushObs runs f (a broadcast or a direct push) and renders what the push layer was handed and did.
func (w *world) pushObs(f func()) string {
	w.pushes = nil
	f()
	ps := w.pushes
	sort.SliceStable(ps, func(i, j int) bool { return ps[i].front < ps[j].front })
	// tuples with an empty id list reach nobody: whether they are sent is not
	// compared, only that no front is addressed twice (over all tuples)
	var sb strings.Builder
	n, once, seen := 0, 1, map[string]bool{}
	for _, p := range ps {
		if seen[p.front] {
			once = 0
		}
		seen[p.front] = true
		if len(p.ids) > 0 {
			n++
			fmt.Fprintf(&sb, " ; push front=%s ids=%s route=%s msg=%s", p.front, showIds(p.ids), p.route, p.msg)
		} else {
			stat("bcast.empty-tuple")
		}
	}
	// what was sent onward (non-empty id lists, sorted by target) and what the second front-end's connections got
	sent := w.sent
	sort.SliceStable(sent, func(i, j int) bool { return sent[i].to < sent[j].to })
	var ss []string
	for _, q := range sent {
		if len(q.msg.Ids) == 0 {
			continue
		}
		to := q.to
		if q.route != "sys.pushmsg" {
			to += "?" + q.route
		}
		ss = append(ss, fmt.Sprintf("%s/%s/%s/%s", to, showIds(q.msg.Ids), q.msg.Route, hx.Hex(q.msg.Data)))
	}
	dlb := ""
	if w.b != nil {
		dlb = renderDl(w.b.deliveries)
	}
	return fmt.Sprintf("n=%d%s | once=%d dl=%s sent=%s dlb=%s", n, sb.String(), once, renderDl(w.a.deliveries), strings.Join(ss, ";"), dlb)
}

// ---------------------------------------------------------------- op interpreter

func u32(ws []string, key string) (uint32, bool) {
	v, ok := hx.KV(ws, key)
	if !ok || v == "" {
		return 0, false
	}
	for _, c := range v {
		if c < '0' || c > '9' {
			return 0, false
		}
	}
	n, err := strconv.ParseUint(v, 10, 32)
	if err != nil {
		return 0, false
	}
	return uint32(n), true
}

func idList(ws []string) ([]uint32, bool) {
	v, ok := hx.KV(ws, "ids")
	if !ok {
		return nil, false
	}
	if v == "" {
		return []uint32{}, true
	}
	var out []uint32
	for _, p := range strings.Split(v, ",") {
		n, ok := u32([]string{"x=" + p}, "x")
		if !ok {
			return nil, false
		}
		out = append(out, n)
	}
	return out, true
}

func hexArg(ws []string, key string) ([]byte, bool) {
	v, ok := hx.KV(ws, key)
	if !ok || len(v)%2 != 0 {
		return nil, false
	}
	for _, c := range v {
		if !(c >= '0' && c <= '9' || c >= 'a' && c <= 'f' || c >= 'A' && c <= 'F') {
			return nil, false
		}
	}
	return hx.KVHex(ws, key), true
}

func exec(op string) string {
	ws := strings.Split(op, " ")
	var nz []string
	for _, x := range ws {
		if x != "" {
			nz = append(nz, x)
		}
	}
	ws = nz
	if len(ws) == 0 {
		return "bad-op"
	}
	obs := guarded(ws)
	if obs == "panic" {
		// the code under test may have died holding a group lock: continue on a fresh world
		second := ""
		if w.b != nil {
			second = w.b.name
		}
		w = newWorld(w.local, second, w.nosess)
	}
	return obs
}

func guarded(ws []string) string {
	return hx.Guard(func() string {
		w.pushes, w.sent, w.cur = nil, nil, w.a
		w.a.deliveries = nil
		if w.b != nil {
			w.b.deliveries = nil
		}
		// `at=b` on a session operation addresses the second front-end service
		if ws[0] == "sadd" || ws[0] == "sdel" || ws[0] == "sclose" || ws[0] == "spush" || ws[0] == "syspush" {
			if at, has := hx.KV(ws, "at"); has {
				switch {
				case at == "a":
				case at == "b" && w.b != nil:
					w.cur = w.b
					var rest []string
					for _, x := range ws {
						if x != "at=b" {
							rest = append(rest, x)
						}
					}
					ws = rest
				default:
					return "bad-op"
				}
			}
		}
		switch ws[0] {
		case "reset":
			lf, ok := hx.KV(ws, "local")
			if !ok {
				return "bad-op"
			}
			second, _ := hx.KV(ws, "second")
			ns, _ := hx.KV(ws, "nosess")
			w = newWorld(lf, second, ns == "1")
			return "ok"
		case "addch":
			c, ok := hx.KV(ws, "ch")
			if !ok {
				return "bad-op"
			}
			return w.uid(w.svc.AddChannel(w.name(c)))
		case "getch":
			c, ok := hx.KV(ws, "ch")
			if !ok {
				return "bad-op"
			}
			return w.uid(w.svc.GetChannel(w.name(c)))
		case "delch":
			c, ok := hx.KV(ws, "ch")
			if !ok {
				return "bad-op"
			}
			w.svc.DeleteChannel(w.name(c))
			return "ok"
		case "join", "leave":
			c, ok1 := hx.KV(ws, "ch")
			f, ok2 := hx.KV(ws, "front")
			id, ok3 := u32(ws, "id")
			if !ok1 || !ok2 || !ok3 {
				return "bad-op"
			}
			if ws[0] == "join" {
				return w.uid(w.svc.AddToChannel(w.name(c), f, id))
			}
			w.svc.LeaveFromChannel(w.name(c), f, id)
			return "ok"
		case "bcast":
			c, ok1 := hx.KV(ws, "ch")
			route, ok2 := hx.KV(ws, "route")
			msg, ok3 := hx.KV(ws, "msg")
			if !ok1 || !ok2 || !ok3 {
				return "bad-op"
			}
			return w.bcast(w.svc.GetChannel(w.name(c)), route, msg)
		case "bcastrace":
			c, ok1 := hx.KV(ws, "ch")
			route, ok2 := hx.KV(ws, "route")
			msg, ok3 := hx.KV(ws, "msg")
			f, ok4 := hx.KV(ws, "front")
			act, ok5 := hx.KV(ws, "act")
			id, ok6 := u32(ws, "id")
			if !ok1 || !ok2 || !ok3 || !ok4 || !ok5 || !ok6 || (act != "leave" && act != "join") {
				return "bad-op"
			}
			cw := w
			rc := &raceOp{front: f, f: func() {
				if act == "leave" {
					cw.svc.LeaveFromChannel(cw.name(c), f, id)
				} else {
					cw.svc.AddToChannel(cw.name(c), f, id)
				}
			}}
			w.race = rc
			obs := w.bcast(w.svc.GetChannel(w.name(c)), route, msg)
			w.race = nil
			if rc.done == nil { // the front was not addressed: the operation simply comes afterwards
				rc.f()
			} else {
				select {
				case <-rc.done:
				case <-time.After(5 * time.Second):
					return "blocked"
				}
				stat("race.in-flight")
			}
			if act == "join" {
				w.uid(w.svc.GetChannel(w.name(c)))
			}
			return obs
		case "joinrange", "leaverange":
			c, ok1 := hx.KV(ws, "ch")
			f, ok2 := hx.KV(ws, "front")
			lo, ok3 := u32(ws, "lo")
			hi, ok4 := u32(ws, "hi")
			dir, ok5 := hx.KV(ws, "dir")
			if !ok1 || !ok2 || !ok3 || !ok4 || (hi > lo && hi-lo > 5000) {
				return "bad-op"
			}
			if ws[0] == "joinrange" {
				for x := lo; x < hi; x++ {
					w.uid(w.svc.AddToChannel(w.name(c), f, x))
				}
				return "ok"
			}
			if !ok5 || (dir != "up" && dir != "down") {
				return "bad-op"
			}
			if dir == "up" {
				for x := lo; x < hi; x++ {
					w.svc.LeaveFromChannel(w.name(c), f, x)
				}
			} else {
				for x := hi; x > lo; x-- {
					w.svc.LeaveFromChannel(w.name(c), f, x-1)
				}
			}
			return "ok"
		case "leaveids":
			c, ok1 := hx.KV(ws, "ch")
			f, ok2 := hx.KV(ws, "front")
			ids, ok3 := idList(ws)
			if !ok1 || !ok2 || !ok3 {
				return "bad-op"
			}
			for _, x := range ids {
				w.svc.LeaveFromChannel(w.name(c), f, x)
			}
			return "ok"
		case "saddpush":
			v, ok1 := hx.KV(ws, "ids")
			route, ok2 := hx.KV(ws, "route")
			data, ok3 := hexArg(ws, "data")
			if !ok1 || !ok2 || !ok3 {
				return "bad-op"
			}
			var tmpl []int64 // -1 = self
			if v != "" {
				for _, p := range strings.Split(v, ",") {
					if p == "self" {
						tmpl = append(tmpl, -1)
					} else if n, ok := u32([]string{"x=" + p}, "x"); ok {
						tmpl = append(tmpl, int64(n))
					} else {
						return "bad-op"
					}
				}
			}
			w.onAdd = func(id uint32) {
				ids := make([]uint32, len(tmpl))
				for i, t := range tmpl {
					if t < 0 {
						ids[i] = id
					} else {
						ids[i] = uint32(t)
					}
				}
				w.cur.sessions.PushMsg(&msgs.PushMsg{Ids: ids, Route: route, Data: data})
			}
			fs := &fakeSession{fe: w.cur}
			w.cur.sessions.AddSession(fs)
			w.onAdd = nil
			w.cur.fakes[fs.id] = fs
			return fmt.Sprintf("id=%d %s %s", fs.id, w.live(), w.showDl())
		case "saddbcast":
			c, ok1 := hx.KV(ws, "ch")
			route, ok2 := hx.KV(ws, "route")
			msg, ok3 := hx.KV(ws, "msg")
			if !ok1 || !ok2 || !ok3 {
				return "bad-op"
			}
			inner := "callback-not-run"
			w.onAdd = func(id uint32) {
				ch := w.svc.AddToChannel(w.name(c), w.local, id)
				inner = w.uid(ch) + " bcast: " + w.bcast(ch, route, msg)
			}
			fs := &fakeSession{fe: w.cur}
			w.cur.sessions.AddSession(fs)
			w.onAdd = nil
			w.cur.fakes[fs.id] = fs
			return fmt.Sprintf("id=%d %s %s", fs.id, w.live(), inner)
		case "sdelpush":
			id, ok0 := u32(ws, "id")
			ids, ok1 := idList(ws)
			route, ok2 := hx.KV(ws, "route")
			data, ok3 := hexArg(ws, "data")
			if !ok0 || !ok1 || !ok2 || !ok3 {
				return "bad-op"
			}
			w.onRemove = func(uint32) {
				w.cur.sessions.PushMsg(&msgs.PushMsg{Ids: ids, Route: route, Data: data})
			}
			fs := w.cur.fakes[id]
			before := w.live()
			if fs == nil {
				fs = &fakeSession{id: id, fe: w.cur}
			}
			w.cur.sessions.RemoveSession(fs)
			w.onRemove = nil
			delete(w.cur.fakes, id)
			after := w.live()
			if before == after {
				return "missing " + after + " " + w.showDl()
			}
			return "ok " + after + " " + w.showDl()
		case "hjoin", "hleave", "hbcast", "hfree":
			// operations through a retained *Channel (kept by the caller of AddChannel / AddToChannel /
			// AllocTempChannel), whether or not its name is still bound to it
			hn, ok := u32(ws, "h")
			if !ok {
				return "bad-op"
			}
			ch := w.byUid[int(hn)]
			switch ws[0] {
			case "hjoin", "hleave":
				f, ok2 := hx.KV(ws, "front")
				id, ok3 := u32(ws, "id")
				if !ok2 || !ok3 || ch == nil {
					return "bad-op"
				}
				if ws[0] == "hjoin" {
					ch.Add(f, id)
				} else {
					ch.Leave(f, id)
				}
				return "ok"
			case "hbcast":
				route, ok2 := hx.KV(ws, "route")
				msg, ok3 := hx.KV(ws, "msg")
				if !ok2 || !ok3 || ch == nil {
					return "bad-op"
				}
				return w.bcast(ch, route, msg)
			}
			if ch == nil {
				return "bad-op"
			}
			w.svc.FreeTempChannel(ch)
			return "ok"
		case "dpush", "dpush1":
			// channel.Service.PushMessageByIds / PushMessageById: a push straight to (front, ids), no channel involved
			f, ok1 := hx.KV(ws, "front")
			route, ok2 := hx.KV(ws, "route")
			msg, ok3 := hx.KV(ws, "msg")
			if !ok1 || !ok2 || !ok3 {
				return "bad-op"
			}
			cb := 0
			done := func(e error, r interface{}) {
				if e == nil && r == nil {
					cb++
				} else {
					cb += 100
				}
			}
			var obs string
			if ws[0] == "dpush" {
				ids, ok := idList(ws)
				if !ok {
					return "bad-op"
				}
				obs = w.pushObs(func() { w.svc.PushMessageByIds(w.ns, f, ids, route, msgVal(msg), done) })
			} else {
				id, ok := u32(ws, "id")
				if !ok {
					return "bad-op"
				}
				obs = w.pushObs(func() { w.svc.PushMessageById(w.ns, f, id, route, msgVal(msg), done) })
			}
			return fmt.Sprintf("%s cb=%d", obs, cb)
		case "alloctemp":

			k, ok := hx.KV(ws, "slot")
			if !ok {
				return "bad-op"
			}
			if _, used := w.slots[k]; used {
				return "bad-op"
			}
			ch := w.svc.AllocTempChannel()
			w.slots[k] = ch.GetName()
			return w.uid(ch)
		case "freetemp":
			k, ok := hx.KV(ws, "slot")
			if !ok {
				return "bad-op"
			}
			n, used := w.slots[k]
			if !used {
				return "bad-op"
			}
			// FreeTempChannel takes the channel object; fetch it, or (already freed) use DeleteChannel by name
			if ch := w.svc.GetChannel(n); ch != nil {
				w.svc.FreeTempChannel(ch)
			} else {
				w.svc.DeleteChannel(n)
			}
			return "ok"
		case "sadd":
			fs := &fakeSession{fe: w.cur}
			w.cur.sessions.AddSession(fs)
			w.cur.fakes[fs.id] = fs
			return fmt.Sprintf("id=%d %s", fs.id, w.live())
		case "sdel":
			id, ok := u32(ws, "id")
			if !ok {
				return "bad-op"
			}
			fs := w.cur.fakes[id]
			before := w.live()
			if fs == nil {
				fs = &fakeSession{id: id, fe: w.cur}
			}
			w.cur.sessions.RemoveSession(fs)
			delete(w.cur.fakes, id)
			after := w.live()
			if before == after {
				return "missing " + after
			}
			return "ok " + after
		case "sclose":
			id, ok := u32(ws, "id")
			if !ok {
				return "bad-op"
			}
			if fs := w.cur.fakes[id]; fs != nil {
				fs.closed = true
				return "ok " + w.live()
			}
			return "missing " + w.live()
		case "spush", "syspush":
			ids, ok1 := idList(ws)
			route, ok2 := hx.KV(ws, "route")
			data, ok3 := hexArg(ws, "data")
			if !ok1 || !ok2 || !ok3 {
				return "bad-op"
			}
			m := &msgs.PushMsg{Ids: ids, Route: route, Data: data}
			if ws[0] == "spush" {
				w.cur.sessions.PushMsg(m)
				return w.showDl()
			}
			if w.cur == w.a && w.nosess {
				// sys.pushmsg at a service without the component: not exercised (unchecked type assertion in Entry.PushMsg)
				return "bad-op"
			}
			cb := 0
			ctx := &as.RemoteContext{ActorContext: fakeCtx{a: &owner{ns: w.cur.ns}}}
			sysEntry.PushMsg(ctx, m, func(e error, r interface{}) {
				if e == nil && r == nil {
					cb++
				} else {
					cb += 100
				}
			})
			return fmt.Sprintf("%s cb=%d", w.showDl(), cb)
		}
		return "bad-op"
	})
}

// ---------------------------------------------------------------- generator

var (
	chanNames  = []string{"a", "b", "c"}
	frontNames = []string{"f1", "f2", "f3"}
)

type gen struct {
	h     *hx.T
	slotN int
	slots []string // live temp slots of the current case
}

func (g *gen) id() uint32 {
	r := g.h.R
	switch r.Intn(40) {
	case 0:
		return 0
	case 1:
		return 4294967295
	}
	return uint32(1 + r.Intn(7))
}

func (g *gen) ch() string {
	if len(g.slots) > 0 && g.h.R.Intn(6) == 0 {
		return "@" + g.slots[g.h.R.Intn(len(g.slots))]
	}
	return chanNames[g.h.R.Intn(len(chanNames))]
}

func (g *gen) front() string { return frontNames[g.h.R.Intn(len(frontNames))] }

type grp struct {
	ch, front string
	ids       []uint32
}

// groups reads the real membership (for targeted leaves and for the histogram only).
func (g *gen) groups() []grp {
	var out []grp
	names := append([]string{}, chanNames...)
	for _, s := range g.slots {
		names = append(names, "@"+s)
	}
	for _, n := range names {
		c := w.svc.GetChannel(w.name(n))
		if c == nil {
			continue
		}
		c.Range(func(k, v interface{}) bool {
			fg := v.(*channel.FrontGroup)
			out = append(out, grp{n, k.(string), append([]uint32(nil), fg.NetIds...)})
			return true
		})
	}
	sort.Slice(out, func(i, j int) bool {
		if out[i].ch != out[j].ch {
			return out[i].ch < out[j].ch
		}
		return out[i].front < out[j].front
	})
	return out
}

func (g *gen) classifyLeave(c, f string, id uint32) {
	h := g.h
	ch := w.svc.GetChannel(w.name(c))
	if ch == nil {
		h.Count("leave.nochannel")
		return
	}
	var ids []uint32
	found := false
	ch.Range(func(k, v interface{}) bool {
		if k.(string) == f {
			ids = v.(*channel.FrontGroup).NetIds
			found = true
		}
		return true
	})
	if !found {
		h.Count("leave.nogroup")
		return
	}
	idx, cnt := -1, 0
	for i, v := range ids {
		if v == id {
			if idx < 0 {
				idx = i
			}
			cnt++
		}
	}
	switch {
	case idx < 0:
		h.Count("leave.absent")
	case len(ids) == 1:
		h.Count("leave.only")
	case idx == 0:
		h.Count("leave.first")
	case idx == len(ids)-1:
		h.Count("leave.last")
	default:
		h.Count("leave.middle")
	}
	if cnt > 1 {
		h.Count("leave.of-duplicate")
	}
}

func (g *gen) malformed() string {
	r := g.h.R
	switch r.Intn(10) {
	case 0:
		return "join ch=a front=f1"
	case 1:
		return "join ch=a front=f1 id=x"
	case 2:
		return "leave ch=a front=f1 id=4294967296"
	case 3:
		return "leave front=f1 id=1"
	case 4:
		return "bcast ch=a route=r"
	case 5:
		return "frobnicate ch=a"
	case 6:
		return "spush ids=1,,2 route=r data=00"
	case 7:
		return "spush ids=1 route=r data=0"
	case 8:
		return []string{"sdel id=-1", "joinrange ch=a front=f1 lo=1 hi=99999", "leaverange ch=a front=f1 lo=1 hi=3 dir=sideways",
			"saddpush ids=self,me route=r data=", "sadd at=c", "spush ids=2 route=r data= at=b", "bcastrace ch=a route=r msg=m front=f1 act=swap id=1", "sdelpush id=2 ids=1 route=r", "leaverange ch=a front=f1 lo=5 hi=2 dir=up"}[r.Intn(9)]
	}
	return "freetemp slot=nope"
}

func (g *gen) op() string {
	h, r := g.h, g.h.R
	x := r.Intn(100)
	switch {
	case x < 40:
		h.Count("op.join")
		gs := g.groups()
		if len(gs) > 0 && r.Intn(2) == 0 { // grow an existing group; half of these with a duplicate of a listed id
			t := gs[r.Intn(len(gs))]
			if len(t.ids) > 0 && r.Intn(2) == 0 {
				h.Count("join.duplicate")
				return fmt.Sprintf("join ch=%s front=%s id=%d", t.ch, t.front, t.ids[r.Intn(len(t.ids))])
			}
			h.Count("join.existing-group")
			return fmt.Sprintf("join ch=%s front=%s id=%d", t.ch, t.front, g.id())
		}
		return fmt.Sprintf("join ch=%s front=%s id=%d", g.ch(), g.front(), g.id())
	case x < 60:
		h.Count("op.leave")
		c, f, id := g.ch(), g.front(), g.id()
		if gs := g.groups(); len(gs) > 0 && r.Intn(3) != 0 { // targeted: first / middle / last of a real group
			t := gs[r.Intn(len(gs))]
			c, f = t.ch, t.front
			if n := len(t.ids); n > 0 {
				switch r.Intn(4) {
				case 0:
					id = t.ids[0]
				case 1:
					id = t.ids[n-1]
				case 2:
					id = t.ids[n/2]
				default:
					id = t.ids[r.Intn(n)]
				}
			}
		}
		g.classifyLeave(c, f, id)
		return fmt.Sprintf("leave ch=%s front=%s id=%d", c, f, id)
	case x < 74:
		h.Count("op.bcast")
		return fmt.Sprintf("bcast ch=%s route=r%d msg=m%d", g.ch(), r.Intn(3), r.Intn(1000))
	case x < 76:
		h.Count("op.delch")
		return "delch ch=" + g.ch()
	case x < 81:
		h.Count("op.addch")
		return "addch ch=" + g.ch()
	case x < 84:
		h.Count("op.getch")
		return "getch ch=" + g.ch()
	case x < 86:
		h.Count("op.alloctemp")
		g.slotN++
		k := strconv.Itoa(g.slotN)
		g.slots = append(g.slots, k)
		return "alloctemp slot=" + k
	case x < 87:
		if len(g.slots) > 0 {
			h.Count("op.freetemp")
			i := r.Intn(len(g.slots))
			k := g.slots[i]
			if r.Intn(3) != 0 { // sometimes keep using a freed slot's name
				g.slots = append(g.slots[:i:i], g.slots[i+1:]...)
			}
			return "freetemp slot=" + k
		}
		return "getch ch=@0"
	case x < 89:
		h.Count("op.sadd")
		return "sadd"
	case x < 91:
		return g.sessCbOp()
	case x < 92:
		if r.Intn(3) == 0 {
			h.Count("op.sclose")
			return fmt.Sprintf("sclose id=%d", 1+r.Intn(8))
		}
		h.Count("op.sdel")
		return fmt.Sprintf("sdel id=%d", 1+r.Intn(8))
	case x < 93:
		h.Count("op.sdelpush")
		return g.sdelPush()
	case x < 96:
		h.Count("op.spush")
		return g.pushOp("spush")
	case x < 98:
		h.Count("op.syspush")
		return g.pushOp("syspush")
	}
	h.Count("op.malformed")
	return g.malformed()
}

// selfIds: an id list for a push issued from OnSessionAdd; `self` is the id being handed out.
func (g *gen) selfIds() string {
	r := g.h.R
	n := r.Intn(6)
	parts := make([]string, 0, n+1)
	for i := 0; i < n; i++ {
		if r.Intn(3) == 0 {
			parts = append(parts, "self")
		} else {
			parts = append(parts, strconv.Itoa(1+r.Intn(9)))
		}
	}
	if r.Intn(4) != 0 {
		i := r.Intn(len(parts) + 1)
		parts = append(parts[:i], append([]string{"self"}, parts[i:]...)...)
	}
	return strings.Join(parts, ",")
}

func (g *gen) sessCbOp() string {
	r := g.h.R
	if r.Intn(2) == 0 {
		g.h.Count("op.saddpush")
		return fmt.Sprintf("saddpush ids=%s route=p%d data=%s", g.selfIds(), r.Intn(3), hx.Hex(g.h.Bytes(r.Intn(4))))
	}
	g.h.Count("op.saddbcast")
	return fmt.Sprintf("saddbcast ch=%s route=j%d msg=m%d", g.ch(), r.Intn(3), r.Intn(1000))
}

// sdelPush: remove a session (mostly a live one) and push, from OnSessionRemove, to a list that names it.
func (g *gen) sdelPush() string {
	r := g.h.R
	id := uint32(1 + r.Intn(8))
	var live []uint32
	for k := range w.cur.fakes {
		live = append(live, k)
	}
	sort.Slice(live, func(i, j int) bool { return live[i] < live[j] })
	if len(live) > 0 && r.Intn(4) != 0 {
		id = live[r.Intn(len(live))]
	}
	n := r.Intn(5)
	ids := make([]uint32, 0, n+1)
	for i := 0; i < n; i++ {
		ids = append(ids, uint32(1+r.Intn(9)))
	}
	if r.Intn(5) != 0 {
		i := r.Intn(len(ids) + 1)
		ids = append(ids[:i], append([]uint32{id}, ids[i:]...)...)
	}
	return fmt.Sprintf("sdelpush id=%d ids=%s route=q%d data=%s", id, showIds(ids), r.Intn(3), hx.Hex(g.h.Bytes(r.Intn(4))))
}

// sessCase: the front-end half under a handler that pushes / broadcasts from inside its callbacks.
func sessCase(h *hx.T, g *gen, run func(string)) {
	r := h.R
	g.slots, g.slotN = nil, 0
	local := "f1"
	if r.Intn(6) == 0 {
		local = "f2"
	}
	run("reset local=" + local)
	n := 8 + r.Intn(25)
	for i := 0; i < n; i++ {
		switch x := r.Intn(20); {
		case x < 5:
			h.Count("op.saddpush")
			run(fmt.Sprintf("saddpush ids=%s route=p%d data=%s", g.selfIds(), r.Intn(3), hx.Hex(h.Bytes(r.Intn(4)))))
		case x < 10:
			h.Count("op.saddbcast")
			run(fmt.Sprintf("saddbcast ch=%s route=j%d msg=m%d", chanNames[r.Intn(2)], r.Intn(3), r.Intn(1000)))
		case x < 14:
			h.Count("op.sdelpush")
			run(g.sdelPush())
		case x < 15:
			run("sadd")
		case x < 16:
			run(fmt.Sprintf("sdel id=%d", 1+r.Intn(8)))
		case x < 18:
			run(fmt.Sprintf("bcast ch=%s route=r msg=m%d", chanNames[r.Intn(2)], r.Intn(1000)))
		case x < 19:
			run(fmt.Sprintf("leave ch=%s front=%s id=%d", chanNames[r.Intn(2)], local, 1+r.Intn(8)))
		default:
			run(g.pushOp("spush"))
		}
	}
	h.Count("case.session-callbacks")
}

// twoFrontCase: two front-end services in one process, both numbering their connections from 2,
// with different live sets; pushes (direct and through the shared sys entry) addressed to each in
// turn, and broadcasts of a channel that spans both (and a third, remote-only one).
func twoFrontCase(h *hx.T, g *gen, run func(string), idx int) {
	r := h.R
	g.slots, g.slotN = nil, 0
	local, second := "f1", "f2"
	if idx%3 == 1 {
		local, second = "f2", "f1"
	}
	if idx%7 == 6 {
		second = "f3"
	}
	run(fmt.Sprintf("reset local=%s second=%s", local, second))
	na, nb := 1+r.Intn(4), 1+r.Intn(4)
	for i := 0; i < na; i++ {
		run("sadd")
	}
	for i := 0; i < nb; i++ {
		run("sadd at=b")
	}
	// make the two connection tables differ
	if r.Intn(2) == 0 {
		run(fmt.Sprintf("sdel id=%d", 2+r.Intn(na)))
	} else {
		run(fmt.Sprintf("sdel id=%d at=b", 2+r.Intn(nb)))
	}
	first := []string{"", " at=b"}
	if idx%2 == 1 {
		first = []string{" at=b", ""}
	}
	for _, at := range first {
		run(g.pushOp("syspush") + at)
	}
	for i, k := 0, 6+r.Intn(14); i < k; i++ {
		at := ""
		if r.Intn(2) == 0 {
			at = " at=b"
		}
		switch x := r.Intn(12); {
		case x < 4:
			h.Count("two.syspush" + strings.TrimSpace(at))
			run(g.pushOp("syspush") + at)
		case x < 5:
			run(g.pushOp("spush") + at)
		case x < 8:
			run(fmt.Sprintf("join ch=%s front=%s id=%d", chanNames[r.Intn(2)], frontNames[r.Intn(3)], 2+r.Intn(5)))
		case x < 9:
			run(fmt.Sprintf("leave ch=%s front=%s id=%d", chanNames[r.Intn(2)], frontNames[r.Intn(3)], 2+r.Intn(5)))
		case x < 11:
			h.Count("two.bcast")
			run(fmt.Sprintf("bcast ch=%s route=x%d msg=m%d", chanNames[r.Intn(2)], r.Intn(3), r.Intn(1000)))
		default:
			if r.Intn(2) == 0 {
				run("sadd" + at)
			} else {
				run(fmt.Sprintf("sdel id=%d%s", 2+r.Intn(5), at))
			}
		}
	}
	run("bcast ch=a route=end msg=fin")
	run("bcast ch=b route=end msg=fin")
	h.Count("case.two-front-ends")
}

// closedCase: registered connections whose Push fails (socket closed, not yet removed) listed at
// the first, a middle and the last position of multi-id pushes and among the local members of a broadcast.
func closedCase(h *hx.T, g *gen, run func(string), idx int) {
	r := h.R
	g.slots, g.slotN = nil, 0
	at := ""
	if idx%4 == 3 {
		run("reset local=f1 second=f2")
		at = " at=b"
	} else {
		run("reset local=f1")
	}
	n := 3 + r.Intn(4)
	for i := 0; i < n; i++ {
		run("sadd" + at)
	}
	live := make([]uint32, n)
	for i := range live {
		live[i] = uint32(2 + i)
	}
	dead := live[r.Intn(n)]
	run(fmt.Sprintf("sclose id=%d%s", dead, at))
	var others []uint32
	for _, v := range live {
		if v != dead {
			others = append(others, v)
		}
	}
	r.Shuffle(len(others), func(i, j int) { others[i], others[j] = others[j], others[i] })
	for pos, name := range []string{"first", "middle", "last"} {
		ids := append([]uint32(nil), others...)
		var k int
		switch pos {
		case 0:
			k = 0
		case 1:
			k = 1 + r.Intn(len(ids)-1)
		default:
			k = len(ids)
		}
		ids = append(ids[:k:k], append([]uint32{dead}, ids[k:]...)...)
		kind := "spush"
		if r.Intn(2) == 0 {
			kind = "syspush"
		}
		h.Count("closed.listed-" + name)
		run(fmt.Sprintf("%s ids=%s route=c%d data=%s%s", kind, showIds(ids), pos, hx.Hex(h.Bytes(r.Intn(3))), at))
	}
	// a broadcast whose members on that front include the closed connection in the middle
	front := "f1"
	if at != "" {
		front = "f2"
	}
	mem := append([]uint32(nil), others...)
	k := r.Intn(len(mem) + 1)
	mem = append(mem[:k:k], append([]uint32{dead}, mem[k:]...)...)
	for _, v := range mem {
		run(fmt.Sprintf("join ch=a front=%s id=%d", front, v))
	}
	run("bcast ch=a route=cb msg=m1")
	if r.Intn(2) == 0 { // a second one closes, then the first is finally removed
		run(fmt.Sprintf("sclose id=%d%s", others[0], at))
		run("bcast ch=a route=cb msg=m2")
	}
	run(fmt.Sprintf("sdel id=%d%s", dead, at))
	run(g.pushOp("spush") + at)
	run("bcast ch=a route=cb msg=m3")
	run(fmt.Sprintf("sclose id=%d%s", 20+r.Intn(3), at))
	h.Count("case.closed-connections")
}

// raceCase: membership operations of another goroutine landing while a broadcast is in flight
// (between the channel taking the id list of a front and the push layer reading it).
func raceCase(h *hx.T, g *gen, run func(string)) {
	r := h.R
	g.slots, g.slotN = nil, 0
	run("reset local=f1")
	run("sadd")
	run("sadd")
	front := frontNames[r.Intn(2)]
	n := 4 + r.Intn(9)
	run(fmt.Sprintf("joinrange ch=a front=%s lo=2 hi=%d", front, 2+n))
	run(fmt.Sprintf("join ch=a front=f3 id=%d", g.id()))
	for i, k := 0, 4+r.Intn(8); i < k; i++ {
		var ids []uint32
		for _, t := range g.groups() {
			if t.ch == "a" && t.front == front {
				ids = t.ids
			}
		}
		id, act := g.id(), "leave"
		switch x := r.Intn(10); {
		case x < 6 && len(ids) >= 3:
			id = ids[1+r.Intn(len(ids)-2)]
			h.Count("race.leave-middle")
		case x < 7 && len(ids) > 0:
			id = ids[0]
			h.Count("race.leave-first")
		case x < 8 && len(ids) > 0:
			id = ids[len(ids)-1]
			h.Count("race.leave-last")
		case x < 9:
			act = "join"
			h.Count("race.join")
		default:
			h.Count("race.leave-random")
		}
		f := front
		if r.Intn(8) == 0 {
			f = "f3"
		}
		run(fmt.Sprintf("bcastrace ch=a route=rc msg=m%d front=%s act=%s id=%d", i, f, act, id))
		if r.Intn(2) == 0 {
			run(fmt.Sprintf("bcast ch=a route=rc msg=after%d", i))
		}
		if len(ids) < 4 {
			run(fmt.Sprintf("joinrange ch=a front=%s lo=%d hi=%d", front, 20+10*i, 24+10*i))
		}
	}
	run("bcast ch=a route=rc msg=end")
	h.Count("case.concurrent-membership")
}

// bigCase: one group grows to 130..600 members (ids from a counter, optionally a run of
// duplicates) and is then emptied from the newest end, the oldest end or at random, with a
// broadcast after every chunk (single steps around the quarter marks of the capacities Go's
// append produces: 256, 512, 848).
func bigCase(h *hx.T, g *gen, run func(string), idx int) {
	r := h.R
	g.slots, g.slotN = nil, 0
	front := frontNames[r.Intn(2)]
	run("reset local=f1")
	run("sadd")
	run("sadd")
	n := h.Pick(130, 200, 256, 257, 300, 512, 513, 600, 130+r.Intn(471), 130+r.Intn(471))
	run(fmt.Sprintf("joinrange ch=a front=%s lo=1 hi=%d", front, n+1))
	if r.Intn(3) == 0 {
		d := 1 + r.Intn(30)
		lo := 1 + r.Intn(n-d)
		run(fmt.Sprintf("joinrange ch=a front=%s lo=%d hi=%d", front, lo, lo+d))
		h.Count("big.with-duplicates")
	}
	run("join ch=a front=f3 id=7") // a second, small group that must stay untouched
	run("bcast ch=a route=big msg=m0")
	mode := idx % 3
	h.Count([]string{"big.leave-newest-first", "big.leave-oldest-first", "big.leave-random"}[mode])
	cur := func() []uint32 {
		for _, t := range g.groups() {
			if t.ch == "a" && t.front == front {
				return t.ids
			}
		}
		return nil
	}
	for step := 0; step < 400; step++ {
		ids := cur()
		k := len(ids)
		if k == 0 {
			break
		}
		chunk := 1 + k/(3+r.Intn(6))
		for _, q := range []int{32, 64, 128, 212} {
			if k > q-3 && k <= q+4 {
				chunk = 1 + r.Intn(2)
			}
		}
		if chunk > k {
			chunk = k
		}
		switch mode {
		case 0: // newest first: the tail of the list, last element first
			sel := make([]uint32, chunk)
			for i := range sel {
				sel[i] = ids[k-1-i]
			}
			run(rangeOrIds("a", front, sel))
		case 1:
			run(rangeOrIds("a", front, append([]uint32(nil), ids[:chunk]...)))
		default:
			perm := r.Perm(k)[:chunk]
			sel := make([]uint32, chunk)
			for i, j := range perm {
				sel[i] = ids[j]
			}
			run(fmt.Sprintf("leaveids ch=a front=%s ids=%s", front, showIds(sel)))
		}
		run(fmt.Sprintf("bcast ch=a route=big msg=m%d", step+1))
	}
	if len(cur()) != 0 {
		h.Count("big.not-emptied")
	}
	run(fmt.Sprintf("join ch=a front=%s id=9", front))
	run("bcast ch=a route=big msg=end")
	h.Count(fmt.Sprintf("big.size>=%d", n/100*100))
}

// rangeOrIds renders a run of consecutive ids as a range op, anything else as an id list.
func rangeOrIds(c, f string, sel []uint32) string {
	up, down := true, true
	for i := 1; i < len(sel); i++ {
		if sel[i] != sel[i-1]+1 {
			up = false
		}
		if sel[i]+1 != sel[i-1] {
			down = false
		}
	}
	switch {
	case len(sel) > 1 && up:
		return fmt.Sprintf("leaverange ch=%s front=%s lo=%d hi=%d dir=up", c, f, sel[0], sel[len(sel)-1]+1)
	case len(sel) > 1 && down:
		return fmt.Sprintf("leaverange ch=%s front=%s lo=%d hi=%d dir=down", c, f, sel[len(sel)-1], sel[0]+1)
	}
	return fmt.Sprintf("leaveids ch=%s front=%s ids=%s", c, f, showIds(sel))
}

// handleCase: callers that keep the *Channel they were handed. Names are deleted and re-created under
// the holders' feet; joins, leaves and broadcasts go through stale and through still-bound handles and
// by name, interleaved; FreeTempChannel is called on bound, stale and re-bound objects; every case ends
// with a broadcast through every handle and on every name.
func handleCase(h *hx.T, g *gen, run func(string), idx int) {
	r := h.R
	g.slots, g.slotN = nil, 0
	local := "f1"
	if idx%5 == 4 {
		local = "f2"
	}
	if idx%4 == 3 {
		run("reset local=" + local + " second=f3")
		run("sadd at=b")
		run("sadd at=b")
	} else {
		run("reset local=" + local)
	}
	for i, k := 0, r.Intn(4); i < k; i++ {
		run("sadd")
	}
	names := []string{"a", "b"}
	nh := func() int { return len(w.uids) }
	handle := func() int { // mostly an existing handle; now and then the next one (not handed out yet) or 0
		if nh() == 0 || r.Intn(25) == 0 {
			if r.Intn(2) == 0 {
				return 0
			}
			return nh() + 1
		}
		return 1 + r.Intn(nh())
	}
	bound := func(hn int) bool {
		c := w.byUid[hn]
		return c != nil && w.svc.GetChannel(c.GetName()) == c
	}
	kind := func(hn int) string {
		c := w.byUid[hn]
		switch {
		case c == nil:
			return "unknown"
		case bound(hn):
			return "bound"
		case w.svc.GetChannel(c.GetName()) != nil:
			return "stale-name-rebound"
		}
		return "stale"
	}
	// a first object with a few members on two fronts, so that the stale handle has something to say
	c0 := names[r.Intn(2)]
	for i, k := 0, 2+r.Intn(4); i < k; i++ {
		run(fmt.Sprintf("join ch=%s front=%s id=%d", c0, frontNames[r.Intn(3)], 2+r.Intn(5)))
	}
	for i, k := 0, 12+r.Intn(30); i < k; i++ {
		switch x := r.Intn(40); {
		case x < 4:
			h.Count("handle.delete-name")
			run("delch ch=" + names[r.Intn(2)])
		case x < 9:
			run(fmt.Sprintf("join ch=%s front=%s id=%d", names[r.Intn(2)], frontNames[r.Intn(3)], 2+r.Intn(5)))
		case x < 11:
			run(fmt.Sprintf("leave ch=%s front=%s id=%d", names[r.Intn(2)], frontNames[r.Intn(3)], 2+r.Intn(5)))
		case x < 13:
			run("addch ch=" + names[r.Intn(2)])
		case x < 16:
			run(fmt.Sprintf("bcast ch=%s route=n%d msg=m%d", names[r.Intn(2)], r.Intn(3), r.Intn(1000)))
		case x < 23:
			hn := handle()
			h.Count("handle.join." + kind(hn))
			run(fmt.Sprintf("hjoin h=%d front=%s id=%d", hn, frontNames[r.Intn(3)], 2+r.Intn(5)))
		case x < 28:
			hn := handle()
			id := uint32(2 + r.Intn(5))
			if c := w.byUid[hn]; c != nil && r.Intn(3) != 0 { // aim at a listed id (first / last / any)
				var all [][]string
				c.Range(func(k, v interface{}) bool {
					for _, m := range v.(*channel.FrontGroup).NetIds {
						all = append(all, []string{k.(string), strconv.FormatUint(uint64(m), 10)})
					}
					return true
				})
				sort.Slice(all, func(i, j int) bool { return all[i][0]+"/"+all[i][1] < all[j][0]+"/"+all[j][1] })
				if len(all) > 0 {
					t := all[r.Intn(len(all))]
					h.Count("handle.leave." + kind(hn) + ".listed")
					run(fmt.Sprintf("hleave h=%d front=%s id=%s", hn, t[0], t[1]))
					continue
				}
			}
			h.Count("handle.leave." + kind(hn))
			run(fmt.Sprintf("hleave h=%d front=%s id=%d", hn, frontNames[r.Intn(3)], id))
		case x < 35:
			hn := handle()
			h.Count("handle.bcast." + kind(hn))
			run(fmt.Sprintf("hbcast h=%d route=h%d msg=m%d", hn, r.Intn(3), r.Intn(1000)))
		case x < 37:
			hn := handle()
			h.Count("handle.free." + kind(hn))
			run(fmt.Sprintf("hfree h=%d", hn))
		case x < 38:
			h.Count("op.alloctemp")
			g.slotN++
			k := strconv.Itoa(g.slotN)
			g.slots = append(g.slots, k)
			run("alloctemp slot=" + k)
		case x < 39:
			if len(g.slots) > 0 {
				run("freetemp slot=" + g.slots[r.Intn(len(g.slots))])
			} else {
				run("sadd")
			}
		default:
			if r.Intn(2) == 0 {
				run("sadd")
			} else {
				run(fmt.Sprintf("sdel id=%d", 2+r.Intn(4)))
			}
		}
	}
	for hn := 1; hn <= nh(); hn++ {
		h.Count("handle.final-bcast." + kind(hn))
		run(fmt.Sprintf("hbcast h=%d route=end msg=fin", hn))
	}
	for _, c := range names {
		run(fmt.Sprintf("bcast ch=%s route=end msg=fin", c))
	}
	h.Count("case.retained-handles")
}

// backendCase: the channel service is owned by a service without a "sessions" component (a back-end
// service). Nothing is delivered in place; every front the directory knows that has members gets one
// sys.pushmsg — the issuer's own name included when it is used as a front id; unknown names get nothing.
func backendCase(h *hx.T, g *gen, run func(string), idx int) {
	r := h.R
	g.slots, g.slotN = nil, 0
	local := []string{"f1", "f2", "chat-1", "f3"}[idx%4]
	second := []string{"f2", "f1", "f3", ""}[idx%4]
	reset := "reset local=" + local + " nosess=1"
	if second != "" {
		reset += " second=" + second
	}
	run(reset)
	for i, k := 0, r.Intn(3); i < k; i++ {
		run("sadd") // connections registered in a table the service does not expose as a component
	}
	if second != "" {
		for i, k := 0, 1+r.Intn(4); i < k; i++ {
			run("sadd at=b")
		}
	}
	fronts := []string{"f1", "f2", "f3", local, "nowhere"}
	for i, k := 0, 8+r.Intn(20); i < k; i++ {
		switch x := r.Intn(20); {
		case x < 8:
			f := fronts[r.Intn(len(fronts))]
			if f == local {
				h.Count("backend.join-own-name")
			}
			run(fmt.Sprintf("join ch=%s front=%s id=%d", chanNames[r.Intn(2)], f, 2+r.Intn(5)))
		case x < 11:
			run(fmt.Sprintf("leave ch=%s front=%s id=%d", chanNames[r.Intn(2)], fronts[r.Intn(len(fronts))], 2+r.Intn(5)))
		case x < 16:
			h.Count("backend.bcast")
			run(fmt.Sprintf("bcast ch=%s route=k%d msg=m%d", chanNames[r.Intn(2)], r.Intn(3), r.Intn(1000)))
		case x < 17 && len(w.uids) > 0:
			run(fmt.Sprintf("hbcast h=%d route=k msg=m%d", 1+r.Intn(len(w.uids)), r.Intn(1000)))
		case x < 18:
			run("delch ch=" + chanNames[r.Intn(2)])
		case x < 19 && second != "":
			run(g.pushOp("syspush") + " at=b")
		default:
			run(g.pushOp("spush"))
		}
	}
	run("bcast ch=a route=end msg=fin")
	run("bcast ch=b route=end msg=fin")
	h.Count("case.issuer-without-sessions")
}

// directCase: pushes straight to (front, ids) through channel.Service.PushMessageByIds / PushMessageById
// (the real impls single-id and multi-id paths behind the recorder), addressed to the issuing service
// (with or without a "sessions" component), the second front-end, a remote-only front and a name the
// directory does not know; id lists with live, unknown, duplicate and closed connections; interleaved
// with channel broadcasts, some carrying a message the client serializer cannot marshal (`~inf`).
func directCase(h *hx.T, g *gen, run func(string), idx int) {
	r := h.R
	g.slots, g.slotN = nil, 0
	local := []string{"f1", "f2", "f1", "chat-1", "f3"}[idx%5]
	second := []string{"f2", "f1", "", "f2", "f1"}[idx%5]
	reset := "reset local=" + local
	if idx%5 >= 3 && r.Intn(2) == 0 {
		reset += " nosess=1"
	}
	if second != "" {
		reset += " second=" + second
	}
	run(reset)
	for i, k := 0, 1+r.Intn(4); i < k; i++ {
		run("sadd")
	}
	if second != "" {
		for i, k := 0, 1+r.Intn(4); i < k; i++ {
			run("sadd at=b")
		}
	}
	fronts := []string{"f1", "f2", "f3", local, "nowhere"}
	msg := func() string {
		if r.Intn(6) == 0 {
			h.Count("direct.unserialisable-msg")
			return "~inf"
		}
		return fmt.Sprintf("m%d", r.Intn(1000))
	}
	for i, k := 0, 8+r.Intn(16); i < k; i++ {
		switch x := r.Intn(20); {
		case x < 7:
			n := r.Intn(6)
			ids := make([]uint32, n)
			for j := range ids {
				ids[j] = uint32(1 + r.Intn(7))
			}
			f := fronts[r.Intn(len(fronts))]
			if f == local {
				h.Count("direct.to-issuer")
			}
			run(fmt.Sprintf("dpush front=%s ids=%s route=d%d msg=%s", f, showIds(ids), r.Intn(3), msg()))
		case x < 12:
			run(fmt.Sprintf("dpush1 front=%s id=%d route=s%d msg=%s", fronts[r.Intn(len(fronts))], 1+r.Intn(7), r.Intn(3), msg()))
		case x < 15:
			run(fmt.Sprintf("join ch=%s front=%s id=%d", chanNames[r.Intn(2)], fronts[r.Intn(len(fronts))], 2+r.Intn(5)))
		case x < 17:
			run(fmt.Sprintf("bcast ch=%s route=k%d msg=%s", chanNames[r.Intn(2)], r.Intn(3), msg()))
		case x < 18:
			run(fmt.Sprintf("sclose id=%d", 2+r.Intn(4)))
		case x < 19 && second != "":
			run(fmt.Sprintf("sdel id=%d at=b", 2+r.Intn(4)))
		default:
			run(fmt.Sprintf("sdel id=%d", 2+r.Intn(4)))
		}
	}
	run(fmt.Sprintf("dpush front=%s ids=2,9,3,2 route=end msg=fin", local))
	run("bcast ch=a route=end msg=~inf")
	h.Count("case.direct-push")
}

func (g *gen) pushOp(kind string) string {
	r := g.h.R
	n := r.Intn(7)
	ids := make([]uint32, n)
	for i := range ids {
		ids[i] = uint32(1 + r.Intn(9))
	}
	return fmt.Sprintf("%s ids=%s route=p%d data=%s", kind, showIds(ids), r.Intn(3), hx.Hex(g.h.Bytes(r.Intn(5))))
}

func countObs(h *hx.T, op, obs string) {
	switch {
	case strings.HasPrefix(op, "bcast"), strings.HasPrefix(op, "hbcast"):
		if obs == "bad-op" {
			return
		}
		if obs == "nil" {
			h.Count("bcast.nochannel")
			return
		}
		h.Count("bcast.tuples=" + strings.SplitN(strings.TrimPrefix(obs, "n="), " ", 2)[0])
		if !strings.Contains(obs, " dl= ") {
			h.Count("bcast.local-delivery")
		}
		if !strings.Contains(obs, " sent= ") {
			h.Count("bcast.sent-onward")
		}
		if !strings.HasSuffix(obs, "dlb=") {
			h.Count("bcast.second-front-delivery")
		}
	case strings.HasPrefix(op, "dpush"):
		if obs == "bad-op" {
			return
		}
		h.Count("direct.tuples=" + strings.SplitN(strings.TrimPrefix(obs, "n="), " ", 2)[0])
		if !strings.Contains(obs, " dl= ") {
			h.Count("direct.local-delivery")
		}
		if !strings.Contains(obs, " sent= ") {
			h.Count("direct.sent-onward")
		}
		if !strings.Contains(obs, "dlb= ") {
			h.Count("direct.second-front-delivery")
		}
	case strings.HasPrefix(op, "spush"), strings.HasPrefix(op, "syspush"):
		if strings.HasPrefix(obs, "dl=") && !strings.HasPrefix(obs, "dl= ") && obs != "dl=" {
			h.Count("push.delivered")
		} else {
			h.Count("push.nobody")
		}
	}
}

func runCase(h *hx.T, g *gen, run func(string)) {
	r := h.R
	g.slots, g.slotN = nil, 0
	local := "f1"
	switch r.Intn(8) {
	case 0:
		local = "f2"
	case 1:
		local = "gate-9" // a front that never gets members: nothing is delivered in place
	}
	reset := "reset local=" + local
	second := ""
	if r.Intn(4) != 0 {
		second = frontNames[r.Intn(len(frontNames))]
		reset += " second=" + second
		if second == local {
			second = ""
		}
	}
	run(reset)
	nsess := r.Intn(5)
	for i := 0; i < nsess; i++ {
		run("sadd")
	}
	if second != "" {
		for i, k := 0, r.Intn(5); i < k; i++ {
			run("sadd at=b")
		}
		if r.Intn(2) == 0 {
			run(fmt.Sprintf("sdel id=%d at=b", 2+r.Intn(3)))
		}
	}
	if r.Intn(3) == 0 { // warm-up: one long group, so that first/middle/last removals hit real positions
		c, f := g.ch(), g.front()
		for i, k := 0, 5+r.Intn(8); i < k; i++ {
			run(fmt.Sprintf("join ch=%s front=%s id=%d", c, f, g.id()))
		}
		h.Count("case.warmup")
	}
	n := 10 + r.Intn(70)
	for i := 0; i < n; i++ {
		run(g.op())
	}
	for _, c := range chanNames {
		run(fmt.Sprintf("bcast ch=%s route=end msg=fin", c))
	}
}

func TestRun(t *testing.T) {
	prev := channel.GetPushImpl()
	defer channel.SetPushImpl(prev)
	h := hx.Open()
	defer h.Close()
	w = newWorld("", "")
	stat = h.Count
	run := func(op string) {
		obs := exec(op)
		countObs(h, op, obs)
		h.Emit(op, obs)
	}
	if ops := hx.ReplayOps(); ops != nil {
		for _, op := range ops {
			run(op)
		}
		return
	}
	for _, op := range hx.CorpusOps(hx.Env("VERIF_CORPUS", "corpus/C16")) {
		h.Count("corpus")
		run(op)
	}
	g := &gen{h: h}
	n := hx.EnvInt("VERIF_N", 300)
	nbig, nsess := hx.EnvInt("VERIF_BIG", 9), hx.EnvInt("VERIF_SESS", 60)
	for i := 0; i < nbig; i++ {
		bigCase(h, g, run, i)
	}
	for i := 0; i < nsess; i++ {
		sessCase(h, g, run)
	}
	for i, k := 0, hx.EnvInt("VERIF_TWO", 60); i < k; i++ {
		twoFrontCase(h, g, run, i)
	}
	for i, k := 0, hx.EnvInt("VERIF_CLOSED", 60); i < k; i++ {
		closedCase(h, g, run, i)
	}
	for i, k := 0, hx.EnvInt("VERIF_RACE", 40); i < k; i++ {
		raceCase(h, g, run)
	}
	for i := 0; i < n; i++ {
		runCase(h, g, run)
	}
	// last, so that the cases above draw the same random numbers as before this family existed
	for i, k := 0, hx.EnvInt("VERIF_HANDLE", 80); i < k; i++ {
		handleCase(h, g, run, i)
	}
	for i, k := 0, hx.EnvInt("VERIF_BACKEND", 40); i < k; i++ {
		backendCase(h, g, run, i)
	}
	for i, k := 0, hx.EnvInt("VERIF_DIRECT", 60); i < k; i++ {
		directCase(h, g, run, i)
	}
}

// TestExhaustive: every history of length <= VERIF_DEPTH over a 7-letter alphabet on
// one channel (two ids on f1 incl. duplicates, one id on f2, delete), each followed by a broadcast.
func TestExhaustive(t *testing.T) {
	prev := channel.GetPushImpl()
	defer channel.SetPushImpl(prev)
	h := hx.Open()
	defer h.Close()
	w = newWorld("", "")
	alpha := []string{
		"join ch=a front=f1 id=2", "join ch=a front=f1 id=3", "leave ch=a front=f1 id=2", "leave ch=a front=f1 id=3",
		"join ch=a front=f2 id=2", "leave ch=a front=f2 id=2", "delch ch=a",
	}
	depth := hx.EnvInt("VERIF_DEPTH", 5)
	cases := 0
	var rec func(prefix []string)
	rec = func(prefix []string) {
		h.Emit("reset local=f1", exec("reset local=f1"))
		h.Emit("sadd", exec("sadd"))
		for _, op := range prefix {
			h.Emit(op, exec(op))
		}
		h.Emit("bcast ch=a route=r msg=m", exec("bcast ch=a route=r msg=m"))
		cases++
		if len(prefix) == depth {
			return
		}
		for _, a := range alpha {
			rec(append(prefix[:len(prefix):len(prefix)], a))
		}
	}
	rec(nil)
	h.Stats[fmt.Sprintf("exhaustive.histories.len<=%d.alphabet7", depth)] = cases
}

// TestHandlesExhaustive: every history of length <= VERIF_DEPTH over a 7-letter alphabet mixing by-name
// operations on one name with operations through the handles of the first two objects created
// (join by name, delete, re-create, Add / Leave through handle 1, Add through handle 2, FreeTempChannel
// of handle 1), each followed by a broadcast through both handles and by name.
func TestHandlesExhaustive(t *testing.T) {
	prev := channel.GetPushImpl()
	defer channel.SetPushImpl(prev)
	h := hx.Open()
	defer h.Close()
	w = newWorld("", "")
	alpha := []string{
		"join ch=a front=f1 id=2", "delch ch=a", "addch ch=a", "hjoin h=1 front=f1 id=3", "hleave h=1 front=f1 id=2",
		"hjoin h=2 front=f1 id=2", "hfree h=1",
	}
	depth := hx.EnvInt("VERIF_DEPTH", 4)
	cases := 0
	var rec func(prefix []string)
	rec = func(prefix []string) {
		h.Emit("reset local=f1", exec("reset local=f1"))
		h.Emit("sadd", exec("sadd"))
		for _, op := range prefix {
			h.Emit(op, exec(op))
		}
		for _, op := range []string{"hbcast h=1 route=r msg=m", "hbcast h=2 route=r msg=m", "bcast ch=a route=r msg=m"} {
			h.Emit(op, exec(op))
		}
		cases++
		if len(prefix) == depth {
			return
		}
		for _, a := range alpha {
			rec(append(prefix[:len(prefix):len(prefix)], a))
		}
	}
	rec(nil)
	h.Stats[fmt.Sprintf("exhaustive.handle-histories.len<=%d.alphabet7", depth)] = cases
}
