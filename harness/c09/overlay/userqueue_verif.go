//go:build verif

// White-box shim of the C09 harness, mapped into package actorex/mailbox with `go test -overlay`
// (nothing under /repo is modified; add-only).  The user queue sits behind the unexported `queue`
// interface: VerifSplitUserPop wraps it so that a Pop that found the queue EMPTY yields at "uq.empty"
// before its answer reaches run() — the controller can then place other goroutines between the
// consumer's last (empty) look at the user queue and whatever run()/processMessages do next.
package mailbox

type verifUserQueue struct{ q queue }

func (v *verifUserQueue) Push(x interface{}) { v.q.Push(x) }

func (v *verifUserQueue) Pop() interface{} {
	x := v.q.Pop()
	if x == nil {
		vy("uq.empty")
	}
	return x
}

// VerifSplitUserPop installs the wrapper (call it before the first post).
func (m *SmoothFrameMailbox) VerifSplitUserPop() {
	m.userMailbox = &verifUserQueue{q: m.userMailbox}
}
