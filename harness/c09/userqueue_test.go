// The "uq.empty" yield point WITHOUT a white-box shim: nothing in this file (or anywhere in package c09) names an
// unexported identifier of actorex/mailbox.  The mailbox is built through the exported constructor
// (mailbox.Producer(ms)()); its user queue is then found BY TYPE — the one field of the exported struct
// SmoothFrameMailbox whose type is an interface that a plain {Push(interface{}); Pop() interface{}} value satisfies
// and that has a Pop method — and replaced by a wrapper around the value found there.  The wrapper's Pop yields at
// "uq.empty" (through the exported hook variable mailbox.VerifYield) when the real queue answered nil, before that
// answer reaches run(): the controller can then place other goroutines between the consumer's last (empty) look at the
// user queue and whatever run()/processMessages do next.
//
// Renaming / moving the field, the interface type, the queue implementation or the functions around them does not
// concern this file.  If there is no such field any more (e.g. the field got a concrete type) the harness still
// builds and runs: splitUserPop reports false, the histogram says whitebox=unavailable, and runCase emits the
// "uq.empty" step of the model as a stutter right after the empty Pop (between an empty Pop and run()'s return
// nothing shared is touched), so the trace stays one the model can follow; only the scheduling of other goroutines
// inside that window is lost.
package c09

import (
	"reflect"
	"unsafe"

	"github.com/dfklegend/cell2/actorex/mailbox"
)

type pushPop interface {
	Push(interface{})
	Pop() interface{}
}

type splitUserQueue struct{ q pushPop }

func (v *splitUserQueue) Push(x interface{}) { v.q.Push(x) }

func (v *splitUserQueue) Pop() interface{} {
	x := v.q.Pop()
	if x == nil {
		if y := mailbox.VerifYield; y != nil {
			y("uq.empty")
		}
	}
	return x
}

// splitUserPop installs the wrapper (before the first post); false = no field to install it in (degraded mode).
func splitUserPop(mb *mailbox.SmoothFrameMailbox) bool {
	wt := reflect.TypeOf(&splitUserQueue{})
	sv := reflect.ValueOf(mb).Elem()
	var found []reflect.Value
	for i := 0; i < sv.NumField(); i++ {
		f := sv.Field(i)
		ft := f.Type()
		if ft.Kind() != reflect.Interface || ft.NumMethod() == 0 || !wt.Implements(ft) {
			continue
		}
		if _, ok := ft.MethodByName("Pop"); !ok {
			continue
		}
		found = append(found, f)
	}
	if len(found) != 1 {
		return false
	}
	f := found[0]
	w := reflect.NewAt(f.Type(), unsafe.Pointer(f.UnsafeAddr())).Elem() // writable view of the (unexported) field
	inner, ok := w.Interface().(pushPop)
	if !ok || inner == nil {
		return false
	}
	w.Set(reflect.ValueOf(&splitUserQueue{q: inner}))
	return true
}
