//go:build verif

package mpsc

// VerifYield, when set, is called before each shared-memory step of the queue
// (Push: before the swap of head and before the store of prev.next; Pop: on
// entry) with the name of the step, on the goroutine about to perform it.  A
// controlling scheduler parks the goroutine there and so decides the
// interleaving (verification harness only).
var VerifYield func(point string)

func vy(point string) {
	if h := VerifYield; h != nil {
		h(point)
	}
}
