//go:build !verif

package mpsc

// vy marks a shared-memory step of the queue. Without the `verif` build tag it
// is an empty function that the compiler inlines away.
func vy(string) {}
