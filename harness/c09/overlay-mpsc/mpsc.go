// Package mpsc provides an efficient implementation of a multi-producer, single-consumer lock-free queue.
//
// The Push function is safe to call from multiple goroutines. The Pop and Empty APIs must only be
// called from a single, consumer goroutine.
//
package mpsc

// This implementation is based on http://www.1024cores.net/home/lock-free-algorithms/queues/non-intrusive-mpsc-node-based-queue

import (
	"sync/atomic"
	"unsafe"
)

type node struct {
	next *node
	val  interface{}
}

type Queue struct {
	head, tail *node
}

func New() *Queue {
	q := &Queue{}
	stub := &node{}
	q.head = stub
	q.tail = stub
	return q
}

// Push adds x to the back of the queue.
//
// Push can be safely called from multiple goroutines
func (q *Queue) Push(x interface{}) {
	n := new(node)
	n.val = x
	vy("mp.swap")
	// current producer acquires head node
	prev := (*node)(atomic.SwapPointer((*unsafe.Pointer)(unsafe.Pointer(&q.head)), unsafe.Pointer(n)))

	vy("mp.link")
	// release node to consumer
	atomic.StorePointer((*unsafe.Pointer)(unsafe.Pointer(&prev.next)), unsafe.Pointer(n))
}

// Pop removes the item from the front of the queue or nil if the queue is empty
//
// Pop must be called from a single, consumer goroutine
func (q *Queue) Pop() interface{} {
	vy("mp.pop")
	tail := q.tail
	next := (*node)(atomic.LoadPointer((*unsafe.Pointer)(unsafe.Pointer(&tail.next)))) // acquire
	if next != nil {
		q.tail = next
		v := next.val
		next.val = nil
		return v
	}
	return nil
}

// Empty returns true if the queue is empty
//
// Empty must be called from a single, consumer goroutine
func (q *Queue) Empty() bool {
	tail := q.tail
	next := (*node)(atomic.LoadPointer((*unsafe.Pointer)(unsafe.Pointer(&tail.next))))
	return next == nil
}
