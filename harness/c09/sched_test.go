// C09 dispatcher stream: the REAL scheDisp (actorex/disp/schedisp.go) on a real
// run service with 10-16 real SmoothFrameMailboxes registered on it (one Props
// spawning several actors shares its dispatcher).  A handler blocks the loop
// goroutine on a gate, foreign goroutines post to the other mailboxes until the
// 9-slot task channel is full and further posters block inside Schedule, then
// the gate opens.  Observed: which messages reached their handler in each step,
// on which goroutine, how many handlers were in flight, how many posters are
// still blocked.  The gated handler also takes commands: `selfpost` makes it call
// PostUserMessage on a sibling (or its own) mailbox FROM THE LOOP GOROUTINE — the
// generator keeps those inside the safe region (a free slot, or a target whose run
// is already scheduled); beyond it the loop goroutine blocks on its own channel for
// good (Model/SchedDisp.lean `stuck`, Props/C09Sched.lean sched_loop_block_is_forever).
// Model: lean/Cell2v/Model/SchedDisp.lean.
package c09

import (
	"fmt"
	"strings"
	"sync"
	"syscall"
	"testing"
	"testing/synctest"
	"time"

	"cell2verif/hx"

	"github.com/asynkron/protoactor-go/actor"
	"github.com/dfklegend/cell2/actorex/disp"
	"github.com/dfklegend/cell2/actorex/mailbox"
)

type sdMsg struct {
	id   int
	gate bool
}

type sdState struct {
	mu       sync.Mutex
	loopG    int64
	inflight int
	maxconc  int
	off      int
	ran      []int
	gate     chan struct{}
	started  int
	returned int
	cmd      chan sdCmd // commands for the handler that occupies the loop goroutine
}

type sdCmd struct {
	mb  actor.Mailbox
	msg int
}

type sdInv struct{ st *sdState }

func (i *sdInv) InvokeSystemMessage(m interface{}) {}
func (i *sdInv) InvokeUserMessage(m interface{}) {
	u, ok := m.(*sdMsg)
	if !ok {
		return
	}
	st := i.st
	g := goid()
	st.mu.Lock()
	if st.loopG == 0 {
		st.loopG = g // the first run is received from an empty channel by the loop goroutine
	}
	st.inflight++
	if st.inflight > st.maxconc {
		st.maxconc = st.inflight
	}
	if g != st.loopG {
		st.off++
	}
	st.ran = append(st.ran, u.id)
	gate := st.gate
	st.mu.Unlock()
	if u.gate {
	wait:
		for {
			select {
			case <-gate:
				break wait
			case c := <-st.cmd:
				c.mb.PostUserMessage(&sdMsg{id: c.msg}) // on the dispatcher's own goroutine
				st.mu.Lock()
				st.returned++
				st.mu.Unlock()
			}
		}
	}
	st.mu.Lock()
	st.inflight--
	st.mu.Unlock()
}
func (i *sdInv) EscalateFailure(reason interface{}, message interface{}) {}

type sdOp struct {
	kind string // post release selfpost wait
	mb   int
	msg  int
	gate bool
	ms   int // wait: virtual milliseconds that pass (the handler at its gate keeps the loop goroutine that long)
}

// sdSettle: after a handler that took long the run service sleeps 1-2 ms before its next receive (analysisRunning)
// and the mailbox's run() begins a 1 ms smooth pause; the step's observation is taken after that has passed.
const sdSettle = 10 * time.Millisecond

var sdCase int

func runSchedCase(h *hx.T, ops []sdOp) {
	sdCase++
	mailbox.VerifYield = nil
	d := disp.NewScheDisp(fmt.Sprintf("c09sd%d", sdCase))
	d.Start()
	st := &sdState{gate: make(chan struct{}), cmd: make(chan sdCmd)}
	prod := mailbox.Producer(10)
	mbs := map[int]actor.Mailbox{}
	get := func(mb int) actor.Mailbox {
		if m, ok := mbs[mb]; ok {
			return m
		}
		m := prod()
		m.RegisterHandlers(&sdInv{st: st}, d)
		mbs[mb] = m
		return m
	}
	h.Emit("reset", "ok")
	h.Emit("sd reset", "ok")
	obs := func() string {
		st.mu.Lock()
		defer st.mu.Unlock()
		s := make([]string, len(st.ran))
		for i, v := range st.ran {
			s[i] = fmt.Sprint(v)
		}
		o := fmt.Sprintf("ran=%s off=%d maxconc=%d blk=%d", strings.Join(s, ","), st.off, st.maxconc, st.started-st.returned)
		st.ran, st.off, st.maxconc = nil, 0, 0
		return o
	}
	gateOpen := true
	for _, op := range ops {
		switch op.kind {
		case "post":
			m := get(op.mb)
			if op.gate {
				st.mu.Lock()
				st.gate = make(chan struct{})
				st.mu.Unlock()
				gateOpen = false
			}
			st.mu.Lock()
			st.started++
			st.mu.Unlock()
			go func() {
				m.PostUserMessage(&sdMsg{id: op.msg, gate: op.gate})
				st.mu.Lock()
				st.returned++
				st.mu.Unlock()
			}()
			synctest.Wait()
			h.Emit(fmt.Sprintf("sd post mb=%d msg=%d gate=%d", op.mb, op.msg, hx.B2i(op.gate)), obs())
		case "selfpost":
			m := get(op.mb)
			sent := 0
			st.mu.Lock()
			st.started++
			st.mu.Unlock()
			select {
			case st.cmd <- sdCmd{mb: m, msg: op.msg}: // taken only by a handler parked at its gate
				sent = 1
			default:
				st.mu.Lock()
				st.started--
				st.mu.Unlock()
			}
			synctest.Wait()
			h.Emit(fmt.Sprintf("sd selfpost mb=%d msg=%d", op.mb, op.msg), obs()+fmt.Sprintf(" sent=%d", sent))
		case "release":
			if !gateOpen {
				close(st.gate)
				gateOpen = true
			}
			synctest.Wait()
			time.Sleep(sdSettle)
			synctest.Wait()
			h.Emit("sd release", obs())
		case "wait":
			// time passes: a long handler (the gate is closed), posters parked inside Schedule, or an idle dispatcher
			synctest.Wait()
			time.Sleep(time.Duration(op.ms) * time.Millisecond)
			synctest.Wait()
			h.Emit(fmt.Sprintf("sd wait ms=%d", op.ms), obs())
		}
	}
	if !gateOpen {
		close(st.gate)
		synctest.Wait()
		time.Sleep(sdSettle)
		synctest.Wait()
		h.Emit("sd release", obs())
	}
	h.Emit("sd end", "undelivered=0") // the property predicate recomputes what is missing from the ran= lists
}

// genSched: gate first (the loop goroutine is busy), then posts to mostly distinct
// mailboxes — below, at and beyond the channel capacity — then release, then a few
// posts to an idle dispatcher; sometimes a second gated round.
func genSched(h *hx.T) []sdOp {
	var ops []sdOp
	next := map[int]int{}
	msg := func(mb int) int { next[mb]++; return mb*100 + next[mb] }
	rounds := 1 + h.R.Intn(2)
	for r := 0; r < rounds; r++ {
		n := 6 + h.R.Intn(11) // 6..16 mailboxes besides the gate's
		gmb := h.R.Intn(3)
		ops = append(ops, sdOp{kind: "post", mb: gmb, msg: msg(gmb), gate: true})
		k := []int{5, 8, 9, 10, 11, 12, 14, 16, 20}[h.R.Intn(9)]
		h.Count(fmt.Sprintf("sched.posts-while-busy.%d", k))
		// what the channel holds, so that handler posts stay where the loop goroutine cannot block on itself
		sched := map[int]bool{gmb: true}
		qlen := 0
		selfRound := h.R.Intn(2) == 0
		// half of the rounds: the gated handler is a LONG one — virtual time passes (1 ms .. 2 min) while runs are
		// buffered and posters sit inside Schedule; nothing may change, nobody may give up
		waitRound := h.R.Intn(2) == 0
		waits := []int{1, 20, 500, 1000, 2999, 3000, 3001, 5000, 10000, 30001, 60000, 120000}
		for i := 0; i < k; i++ {
			mb := 3 + h.R.Intn(n)
			if h.R.Intn(3) != 0 {
				mb = 3 + i%n // distinct mailboxes fill the channel fastest
			}
			if !waitRound && h.R.Intn(15) == 0 {
				mb = gmb // the busy mailbox itself: taken by the interrupted run (not after a long handler: run() would begin a smooth pause first)
			}
			if waitRound && h.R.Intn(4) == 0 {
				w := waits[h.R.Intn(len(waits))]
				ops = append(ops, sdOp{kind: "wait", ms: w})
				h.Count(fmt.Sprintf("sched.wait-while-busy.q%d", qlen))
			}
			if selfRound && h.R.Intn(3) == 0 && (sched[mb] || qlen < 9) {
				// the handler on the loop goroutine posts (free slot, or the target's run is scheduled already)
				ops = append(ops, sdOp{kind: "selfpost", mb: mb, msg: msg(mb)})
				if !sched[mb] {
					sched[mb] = true
					qlen++
					h.Count(fmt.Sprintf("sched.selfpost.slot%d", qlen))
				} else {
					h.Count("sched.selfpost.already-scheduled")
				}
				continue
			}
			ops = append(ops, sdOp{kind: "post", mb: mb, msg: msg(mb)})
			if !sched[mb] {
				sched[mb] = true
				if qlen < 9 {
					qlen++
				}
			}
		}
		if waitRound {
			w := waits[h.R.Intn(len(waits))]
			ops = append(ops, sdOp{kind: "wait", ms: w})
			h.Count(fmt.Sprintf("sched.wait-before-release.%dms", w))
		}
		ops = append(ops, sdOp{kind: "release"})
		if h.R.Intn(6) == 0 {
			ops = append(ops, sdOp{kind: "wait", ms: waits[h.R.Intn(len(waits))]}) // idle dispatcher
			h.Count("sched.wait-idle")
		}
		if h.R.Intn(6) == 0 {
			mb := 3 + h.R.Intn(n)
			ops = append(ops, sdOp{kind: "selfpost", mb: mb, msg: msg(mb)}) // no handler is executing: nothing is posted
			h.Count("sched.selfpost.idle")
		}
		for i := h.R.Intn(3); i > 0; i-- {
			mb := 3 + h.R.Intn(n)
			ops = append(ops, sdOp{kind: "post", mb: mb, msg: msg(mb)})
		}
	}
	return ops
}

func isSdOps(ops []string) bool {
	for _, op := range ops {
		if strings.HasPrefix(op, "sd ") {
			return true
		}
	}
	return false
}

func replaySdOps(h *hx.T, lines []string) {
	var cases [][]sdOp
	for _, l := range lines {
		ws := hx.Words(l)
		if len(ws) < 2 || ws[0] != "sd" {
			continue
		}
		switch ws[1] {
		case "reset":
			cases = append(cases, nil)
		case "post":
			if len(cases) == 0 {
				cases = append(cases, nil)
			}
			cases[len(cases)-1] = append(cases[len(cases)-1], sdOp{kind: "post", mb: hx.KVInt(ws, "mb"), msg: hx.KVInt(ws, "msg"), gate: hx.KVInt(ws, "gate") == 1})
		case "selfpost":
			if len(cases) == 0 {
				cases = append(cases, nil)
			}
			cases[len(cases)-1] = append(cases[len(cases)-1], sdOp{kind: "selfpost", mb: hx.KVInt(ws, "mb"), msg: hx.KVInt(ws, "msg")})
		case "release":
			if len(cases) == 0 {
				cases = append(cases, nil)
			}
			cases[len(cases)-1] = append(cases[len(cases)-1], sdOp{kind: "release"})
		case "wait":
			if len(cases) == 0 {
				cases = append(cases, nil)
			}
			cases[len(cases)-1] = append(cases[len(cases)-1], sdOp{kind: "wait", ms: hx.KVInt(ws, "ms")})
		}
	}
	for _, c := range cases {
		runSchedCase(h, c)
	}
}

func TestSched(t *testing.T) {
	synctest.Test(t, func(t *testing.T) {
		h := hx.Open()
		n := hx.EnvInt("VERIF_N", 60)
		// systematic: exactly k distinct mailboxes posted while the loop goroutine is busy, k = 1..14
		for k := 1; k <= 14; k++ {
			ops := []sdOp{{kind: "post", mb: 0, msg: 1, gate: true}}
			for i := 0; i < k; i++ {
				ops = append(ops, sdOp{kind: "post", mb: 3 + i, msg: (3+i)*100 + 1})
			}
			ops = append(ops, sdOp{kind: "release"})
			runSchedCase(h, ops)
			h.Count("sched.systematic")
		}
		// systematic: k foreign posts, then the handler itself fills the channel to exactly 9 (the last free slot
		// included), posts once more to a mailbox whose run is already buffered and once to its own mailbox
		for k := 0; k <= 8; k++ {
			ops := []sdOp{{kind: "post", mb: 0, msg: 1, gate: true}}
			for i := 0; i < k; i++ {
				ops = append(ops, sdOp{kind: "post", mb: 3 + i, msg: (3+i)*100 + 1})
			}
			for i := k; i < 9; i++ {
				ops = append(ops, sdOp{kind: "selfpost", mb: 3 + i, msg: (3+i)*100 + 1})
			}
			ops = append(ops, sdOp{kind: "selfpost", mb: 3, msg: 302}, sdOp{kind: "selfpost", mb: 0, msg: 2}, sdOp{kind: "release"})
			runSchedCase(h, ops)
			h.Count("sched.systematic-selfpost")
		}
		// systematic: k distinct mailboxes posted while a LONG handler holds the loop goroutine (k below, at and beyond the
		// 9 slots), time passes (short .. minutes), then the handler returns: everything must still arrive
		for _, k := range []int{3, 9, 10, 12} {
			for _, w := range []int{1000, 5000, 120000} {
				ops := []sdOp{{kind: "post", mb: 0, msg: 1, gate: true}}
				for i := 0; i < k; i++ {
					ops = append(ops, sdOp{kind: "post", mb: 3 + i, msg: (3+i)*100 + 1})
				}
				ops = append(ops, sdOp{kind: "wait", ms: w}, sdOp{kind: "release"}, sdOp{kind: "post", mb: 3 + k - 1, msg: (3+k-1)*100 + 2})
				runSchedCase(h, ops)
				h.Count("sched.systematic-wait")
			}
		}
		for i := 0; i < n; i++ {
			runSchedCase(h, genSched(h))
			h.Count("sched.random")
		}
		h.Close()
		syscall.Exit(0)
	})
}
