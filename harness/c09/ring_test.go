// C09 component harness: the queues under the mailbox as sequential data
// structures.  Drives the REAL goring.Queue (growing ring buffer, the mailbox's
// user queue) and, single-threaded, the REAL mpsc.Queue (system queue) with op
// lines; the Lean model (Model/Ring.lean, proved to refine a FIFO list) answers
// the same lines, and the spec monitor checks FIFO on the implementation's
// observations against a plain list.
//
//	ring new cap=<n> | ring push v=<n> | ring pop | ring popmany n=<k> | ring len
//	mpsc new | mpsc push v=<n> | mpsc pop | mpsc empty
package c09

import (
	"fmt"
	"strconv"
	"strings"
	"testing"

	"cell2verif/hx"

	"github.com/dfklegend/cell2/actorex/queue/goring"
	"github.com/dfklegend/cell2/actorex/queue/mpsc"
)

type queues struct {
	ring *goring.Queue
	mq   *mpsc.Queue
}

func showItem(v interface{}) string {
	if v == nil {
		return "nil"
	}
	if n, ok := v.(int); ok {
		return strconv.Itoa(n)
	}
	return "other"
}

// exec interprets one op line against the real queues.
func (s *queues) exec(op string) string {
	ws := hx.Words(op)
	if len(ws) == 0 {
		return "bad-op"
	}
	if ws[0] == "reset" {
		s.ring, s.mq = nil, mpsc.New()
		return "ok"
	}
	if len(ws) < 2 {
		return "bad-op"
	}
	switch ws[0] + " " + ws[1] {
	case "ring new":
		if _, ok := hx.KV(ws, "cap"); !ok {
			return "bad-op"
		}
		return hx.Guard(func() string {
			s.ring = goring.New(int64(hx.KVInt(ws, "cap")))
			return "ok"
		})
	case "mpsc new":
		s.mq = mpsc.New()
		return "ok"
	case "mpsc push":
		if _, ok := hx.KV(ws, "v"); !ok {
			return "bad-op"
		}
		return hx.Guard(func() string { s.mq.Push(hx.KVInt(ws, "v")); return "ok" })
	case "mpsc pop":
		return hx.Guard(func() string {
			v := s.mq.Pop()
			if v == nil {
				return "nil"
			}
			return "v=" + showItem(v)
		})
	case "mpsc empty":
		return hx.Guard(func() string { return fmt.Sprintf("empty=%d", hx.B2i(s.mq.Empty())) })
	}
	if ws[0] != "ring" {
		return "bad-op"
	}
	if s.ring == nil {
		return "noq"
	}
	q := s.ring
	obs := hx.Guard(func() string {
		switch ws[1] {
		case "push":
			if _, ok := hx.KV(ws, "v"); !ok {
				return "bad-op"
			}
			q.Push(hx.KVInt(ws, "v"))
			return fmt.Sprintf("ok len=%d", q.Length())
		case "pop":
			v, ok := q.Pop()
			if !ok {
				return fmt.Sprintf("none len=%d", q.Length())
			}
			if v == nil {
				return fmt.Sprintf("nil len=%d", q.Length())
			}
			return fmt.Sprintf("v=%s len=%d", showItem(v), q.Length())
		case "popmany":
			if _, ok := hx.KV(ws, "n"); !ok {
				return "bad-op"
			}
			vs, ok := q.PopMany(int64(hx.KVInt(ws, "n")))
			if !ok {
				return fmt.Sprintf("none len=%d", q.Length())
			}
			ss := make([]string, len(vs))
			for i, v := range vs {
				ss[i] = showItem(v)
			}
			return fmt.Sprintf("vs=%s len=%d", strings.Join(ss, ","), q.Length())
		case "len":
			return fmt.Sprintf("len=%d", q.Length())
		}
		return "bad-op"
	})
	if obs == "panic" {
		// goring panics with its mutex held (no defer): the queue is unusable afterwards
		s.ring = nil
	}
	return obs
}

// ringGen generates op lines; it shadows head/len/mod only to steer towards
// every fill level and to report what was reached (never compared).
type ringGen struct {
	h              *hx.T
	s              *queues
	next, mnext    int
	head, ln, mod  int
	growths, mqLen int
}

func (g *ringGen) do(op string) { g.h.Emit(op, g.s.exec(op)) }

func (g *ringGen) start(capacity int) {
	g.do("reset")
	g.do(fmt.Sprintf("ring new cap=%d", capacity))
	g.head, g.ln, g.mod, g.growths, g.mqLen = 0, 0, capacity, 0, 0
	g.h.Count(fmt.Sprintf("ring.cap.%02d", capacity))
}

func (g *ringGen) push() {
	if g.ln == g.mod-1 {
		g.growths++
		g.h.Count(fmt.Sprintf("ring.grow.to%d", g.mod*2))
		if g.head != 0 {
			g.h.Count("ring.grow.rotated")
		}
		g.head, g.mod = 0, g.mod*2
	}
	g.ln++
	g.next++
	g.do(fmt.Sprintf("ring push v=%d", g.next))
}

func (g *ringGen) fillKey() string {
	switch {
	case g.ln == 0:
		return "empty"
	case g.ln == g.mod-1:
		return "full"
	case g.head+g.ln >= g.mod:
		return "wrapped"
	}
	return "partial"
}

func (g *ringGen) pop() {
	g.h.Count("ring.pop." + g.fillKey())
	if g.ln > 0 {
		g.head = (g.head + 1) % g.mod
		g.ln--
	}
	g.do("ring pop")
}

func (g *ringGen) popMany(k int) {
	switch {
	case g.ln == 0:
		g.h.Count("ring.popmany.empty")
	case k == 0:
		g.h.Count("ring.popmany.zero")
	case k < g.ln:
		g.h.Count("ring.popmany.below")
	case k == g.ln:
		g.h.Count("ring.popmany.at")
	default:
		g.h.Count("ring.popmany.above")
	}
	if g.ln > 0 && g.head+g.ln >= g.mod {
		g.h.Count("ring.popmany.wrapped")
	}
	c := k
	if c > g.ln {
		c = g.ln
	}
	if g.ln > 0 {
		g.head = (g.head + c) % g.mod
		g.ln -= c
	}
	g.do(fmt.Sprintf("ring popmany n=%d", k))
}

func (g *ringGen) mpscOp() {
	switch g.h.R.Intn(5) {
	case 0, 1:
		g.mnext++
		g.mqLen++
		g.do(fmt.Sprintf("mpsc push v=%d", 100000+g.mnext))
	case 2, 3:
		if g.mqLen > 0 {
			g.mqLen--
			g.h.Count("mpsc.pop.nonempty")
		} else {
			g.h.Count("mpsc.pop.empty")
		}
		g.do("mpsc pop")
	default:
		g.do("mpsc empty")
	}
}

// systematic: capacity x head rotation x fill level; one pop at that fill level,
// then push through a growth, PopMany below/at/above, drain, pop on empty.
func (g *ringGen) systematic(capacity, rot, fill, variant int) {
	g.start(capacity)
	for i := 0; i < rot; i++ {
		g.push()
	}
	for i := 0; i < rot; i++ {
		g.pop()
	}
	for i := 0; i < fill; i++ {
		g.push()
	}
	g.pop()
	g.do("ring len")
	for g.growths < 1 {
		g.push()
	}
	for i := 0; i < 1+variant; i++ {
		g.push()
	}
	g.pop()
	switch variant {
	case 0:
		g.popMany(g.ln - 1)
	case 1:
		g.popMany(g.ln)
	default:
		g.popMany(g.ln + 3)
	}
	for g.ln > 0 {
		g.pop()
	}
	g.pop()
	g.popMany(2)
	g.do("ring len")
}

func (g *ringGen) random() {
	r := g.h.R
	capacity := 1 + r.Intn(12)
	target := 1 + r.Intn(4)
	g.start(capacity)
	g.h.Count(fmt.Sprintf("ring.target-growths.%d", target))
	for steps := 0; g.growths < target && steps < 600; steps++ {
		switch x := r.Intn(20); {
		case x < 9: // burst of pushes: small, or up to / just across the boundary
			n := 1 + r.Intn(3)
			if r.Intn(3) == 0 {
				n = g.mod - 1 - g.ln + r.Intn(3) - 1
			}
			for i := 0; i < n; i++ {
				g.push()
			}
		case x < 13:
			for i, n := 0, 1+r.Intn(3); i < n; i++ {
				g.pop()
			}
		case x < 16:
			ks := []int{0, 1, g.ln - 1, g.ln, g.ln + 1, g.ln + 5, r.Intn(g.ln + 2)}
			k := ks[r.Intn(len(ks))]
			if k < 0 {
				k = 0
			}
			g.popMany(k)
		case x < 17:
			g.do("ring len")
		default:
			g.mpscOp()
		}
	}
	g.h.Count(fmt.Sprintf("ring.growths.%d", g.growths))
	// drain
	for g.ln > 0 {
		if r.Intn(4) == 0 {
			g.popMany(1 + r.Intn(g.ln+2))
		} else {
			g.pop()
		}
	}
	g.pop()
	g.do("ring len")
	for g.mqLen > 0 {
		g.mqLen--
		g.do("mpsc pop")
	}
	g.do("mpsc pop")
	g.do("mpsc empty")
}

// isQueueOps: a replay file that belongs to this component (TestRun hands it over).
func isQueueOps(ops []string) bool {
	for _, op := range ops {
		if strings.HasPrefix(op, "ring") || strings.HasPrefix(op, "mpsc") {
			return true
		}
	}
	return false
}

func replayQueueOps(h *hx.T, ops []string) {
	s := &queues{mq: mpsc.New()}
	for _, op := range ops {
		h.Emit(op, s.exec(op))
	}
}

func TestRing(t *testing.T) {
	h := hx.Open()
	defer h.Close()
	if ops := hx.ReplayOps(); ops != nil {
		replayQueueOps(h, ops)
		return
	}
	if ops := hx.CorpusOps("corpus/C09"); ops != nil {
		replayQueueOps(h, ops)
		h.Count("corpus.ops")
	}
	g := &ringGen{h: h, s: &queues{mq: mpsc.New()}}
	maxCap := 12
	if !h.Thorough() && hx.EnvInt("VERIF_N", 100) < 50 {
		maxCap = 4
	}
	for capacity := 1; capacity <= maxCap; capacity++ {
		rots := map[int]bool{0: true, capacity / 2: true, capacity - 1: true}
		for rot := 0; rot < capacity; rot++ {
			if !rots[rot] {
				continue
			}
			for fill := 0; fill < capacity; fill++ {
				g.systematic(capacity, rot, fill, (capacity+rot+fill)%3)
				h.Count("case.systematic")
			}
		}
	}
	n := hx.EnvInt("VERIF_N", 100)
	for i := 0; i < n; i++ {
		g.random()
		h.Count("case.random")
	}
}
