// C09 component harness: the REAL mpsc.Queue as a CONCURRENT object.
//
// 2-4 producer goroutines (1-3 values each) call the real Push, one consumer
// goroutine calls the real Pop / Empty.  Every goroutine parks at the `verif`
// yield points of actorex/queue/mpsc (hook H2: "mp.swap" before the swap of
// head, "mp.link" between the swap and the store of prev.next, "mp.pop" on
// entry of Pop; "mp.empty" is a park in this file right before Empty()).  A
// controller inside testing/synctest grants ONE step at a time following a
// seeded schedule and records what the consumer got.
//
//	reset                                        (case boundary for bin/check)
//	mq reset                                     -> ok
//	mq step th=p<k> pt=mp.swap v=<n>             -> ok     (p<k> is now between swap and link)
//	mq step th=p<k> pt=mp.link                   -> ok
//	mq step th=c pt=mp.pop                       -> v=<n> | -
//	mq step th=c pt=mp.empty                     -> empty=<0|1>
//
// The Lean model (Model/MpscConc.lean: swap / link / pop / empty, proved to
// deliver in swap order under every schedule) answers the same lines; the spec
// monitor checks swap-order delivery and "nil only when blocked by a missing
// link" on the implementation's own observations.
package c09

import (
	"fmt"
	"runtime"
	"strconv"
	"strings"
	"sync"
	"syscall"
	"testing"
	"testing/synctest"

	"cell2verif/hx"

	"github.com/dfklegend/cell2/actorex/queue/mpsc"
)

type mthread struct {
	name   string
	kind   string // p c
	grant  chan struct{}
	point  string
	parked bool
	done   bool
	cur    int    // producer: value of the Push in progress
	last   string // consumer: result of the operation just completed
}

type mctl struct {
	mu      sync.Mutex
	byGoid  map[int64]*mthread
	threads []*mthread
	abort   bool
}

// register binds the calling goroutine to `th` (c.threads is filled by the controller in
// creation order, so that schedules do not depend on which goroutine happened to start first)
func (c *mctl) register(th *mthread) {
	c.mu.Lock()
	c.byGoid[goid()] = th
	c.mu.Unlock()
}

// yield is mpsc.VerifYield (and the consumer's own park before Empty).
func (c *mctl) yield(point string) {
	c.mu.Lock()
	th := c.byGoid[goid()]
	if th == nil { // not one of this case's goroutines (e.g. the mailbox's own system queue)
		c.mu.Unlock()
		return
	}
	th.point = point
	th.parked = true
	c.mu.Unlock()
	<-th.grant
	c.mu.Lock()
	ab := c.abort
	c.mu.Unlock()
	if ab { // case over: leave without performing the step
		c.finish()
		runtime.Goexit()
	}
}

func (c *mctl) finish() {
	c.mu.Lock()
	if th := c.byGoid[goid()]; th != nil {
		th.done = true
		th.parked = false
	}
	c.mu.Unlock()
}

// mcase: what the goroutines of one case do.
type mcase struct {
	prods [][]int  // values of producer p1, p2, ...
	cons  []string // consumer: "e" (Empty) / "p" (Pop) in this order, then Pop for ever
}

type mchooser func(c *mctl, parked []*mthread, step int) *mthread

// shadow bookkeeping for the histogram only (never compared)
type mshadow struct {
	swapped, delivered int
	inflight           map[string]int // thread -> index of its value in swap order
	maxInflight        int
}

func runMpscCase(h *hx.T, mc mcase, choose mchooser, replay bool) {
	c := &mctl{byGoid: map[int64]*mthread{}}
	q := mpsc.New()
	mpsc.VerifYield = c.yield
	h.Emit("reset", "ok")
	h.Emit("mq reset", "ok")
	total := 0
	for i, vals := range mc.prods {
		total += len(vals)
		th := &mthread{name: fmt.Sprintf("p%d", i+1), kind: "p", grant: make(chan struct{})}
		c.threads = append(c.threads, th)
		vals := vals
		go func() {
			c.register(th)
			for _, v := range vals {
				c.mu.Lock()
				th.cur = v
				c.mu.Unlock()
				q.Push(v)
			}
			c.finish()
		}()
	}
	cons := &mthread{name: "c", kind: "c", grant: make(chan struct{})}
	c.threads = append(c.threads, cons)
	go func() {
		c.register(cons)
		for i := 0; ; i++ {
			what := "p"
			if i < len(mc.cons) {
				what = mc.cons[i]
			}
			var res string
			if what == "e" {
				c.yield("mp.empty")
				res = fmt.Sprintf("empty=%d", hx.B2i(q.Empty()))
			} else {
				v := q.Pop()
				if v == nil {
					res = "-"
				} else {
					res = "v=" + showItem(v)
				}
			}
			c.mu.Lock()
			cons.last = res
			c.mu.Unlock()
		}
	}()
	synctest.Wait()
	sh := &mshadow{inflight: map[string]int{}}
	got, nilAfterDone := 0, false
	for step := 0; step < 2000; step++ {
		var parked []*mthread
		prodsLeft := 0
		c.mu.Lock()
		for _, th := range c.threads {
			if th.parked && !th.done {
				parked = append(parked, th)
				if th.kind == "p" {
					prodsLeft++
				}
			}
		}
		c.mu.Unlock()
		if len(parked) == 0 {
			break
		}
		// everything pushed and linked, and the consumer has seen nil since: the case is over
		// (all values have arrived by then — or the queue lost one and the monitor says so)
		if !replay && prodsLeft == 0 && nilAfterDone {
			break
		}
		th := choose(c, parked, step)
		if th == nil {
			break
		}
		mqGrant(h, c, th, sh, &got)
		if th.kind == "c" && prodsLeft == 0 && cons.last == "-" {
			nilAfterDone = true
		}
	}
	if got == total {
		h.Count("mq.case.drained")
	} else {
		h.Count("mq.case.partial")
	}
	h.Count(fmt.Sprintf("mq.inflight.max%d", sh.maxInflight))
	// release whatever is still parked
	c.mu.Lock()
	c.abort = true
	var rest []*mthread
	for _, th := range c.threads {
		if th.parked && !th.done {
			rest = append(rest, th)
		}
	}
	c.mu.Unlock()
	for _, th := range rest {
		th.grant <- struct{}{}
	}
	synctest.Wait()
	mpsc.VerifYield = nil
}

// mqGrant lets `th` perform exactly one step and records it.
func mqGrant(h *hx.T, c *mctl, th *mthread, sh *mshadow, got *int) {
	pt := th.point
	op := fmt.Sprintf("mq step th=%s pt=%s", th.name, pt)
	if pt == "mp.swap" {
		op += fmt.Sprintf(" v=%d", th.cur)
	}
	c.mu.Lock()
	th.parked = false
	th.last = ""
	c.mu.Unlock()
	th.grant <- struct{}{}
	synctest.Wait()
	c.mu.Lock()
	if !th.parked && !th.done { // neither parked again nor finished: it died
		th.done = true
	}
	obs := "ok"
	if th.kind == "c" {
		obs = th.last
		if obs == "" {
			obs = "panic"
		}
	}
	c.mu.Unlock()
	switch pt {
	case "mp.swap":
		sh.inflight[th.name] = sh.swapped
		sh.swapped++
		if len(sh.inflight) > sh.maxInflight {
			sh.maxInflight = len(sh.inflight)
		}
	case "mp.link":
		delete(sh.inflight, th.name)
	case "mp.pop", "mp.empty":
		key := "mq." + strings.TrimPrefix(pt, "mp.")
		if strings.HasPrefix(obs, "v=") {
			*got++
			sh.delivered++
			key += ".value"
		} else if obs == "empty=0" {
			key += ".nonempty"
		} else if sh.swapped == sh.delivered {
			key += ".nil.nothing-pending"
		} else {
			// something was swapped in and not delivered: the oldest pending one must be unlinked
			behind := 0
			for _, idx := range sh.inflight {
				if idx == sh.delivered {
					behind = sh.swapped - sh.delivered - 1
				}
			}
			key += ".nil.blocked-by-unlinked"
			if behind > 0 {
				h.Count("mq.hidden-complete-pushes-behind-unlinked")
			}
		}
		h.Count(key)
	}
	h.Count("mq.pt." + pt)
	h.Emit(op, obs)
}

func pick(h *hx.T, l []*mthread) *mthread { return l[h.R.Intn(len(l))] }

// mqChooser: seeded schedules.
//
//	0 uniform; 1 sticky; 2 adversarial stall (one producer kept between swap and link while the
//	others complete their pushes and the consumer pops; then its link; then everything must arrive);
//	3 consumer-eager; 4 all producers swap first, links in random order with pops in between
func mqChooser(h *hx.T, mode int, np int) mchooser {
	var sticky *mthread
	victim := fmt.Sprintf("p%d", 1+h.R.Intn(np))
	phase, warm, nils, tries := 0, h.R.Intn(5), 0, 0
	return func(c *mctl, parked []*mthread, step int) *mthread {
		var cons *mthread
		var prods, others []*mthread
		var vic *mthread
		for _, th := range parked {
			if th.kind == "c" {
				cons = th
			} else {
				prods = append(prods, th)
				if th.name == victim {
					vic = th
				} else {
					others = append(others, th)
				}
			}
		}
		if step > 400 && len(prods) > 0 { // never spin on an empty queue for ever
			return pick(h, prods)
		}
		if cons == nil {
			return pick(h, parked)
		}
		switch mode {
		case 0:
			return pick(h, parked)
		case 1:
			if sticky != nil && h.R.Intn(6) != 0 {
				for _, th := range parked {
					if th == sticky {
						return th
					}
				}
			}
			sticky = pick(h, parked)
			return sticky
		case 2:
			for {
				switch phase {
				case 0: // warm-up among the others and the consumer
					if warm > 0 && len(others) > 0 {
						warm--
						return pick(h, append([]*mthread{cons}, others...))
					}
					phase = 1
				case 1: // the victim swaps ...
					if vic != nil && vic.point == "mp.swap" {
						phase = 2
						return vic
					}
					phase = 5
				case 2: // ... and stalls while the others complete all their pushes and the consumer pops
					if len(others) > 0 {
						if h.R.Intn(3) == 0 {
							return cons
						}
						return pick(h, others)
					}
					phase = 3
				case 3: // consumer alone: drains what precedes the victim's node, then must see nil
					tries++
					if cons.last == "-" {
						nils++
					}
					if nils < 2 && tries < 16 {
						return cons
					}
					h.Count("mq.adv.stall-with-nil-observed")
					phase = 4
				case 4: // the link reveals everything
					phase = 5
					if vic != nil {
						return vic
					}
				default:
					return pick(h, parked)
				}
			}
		case 3:
			if h.R.Intn(2) == 0 {
				return cons
			}
			return pick(h, parked)
		default:
			var atSwap, atLink []*mthread
			for _, th := range prods {
				if th.point == "mp.swap" {
					atSwap = append(atSwap, th)
				} else {
					atLink = append(atLink, th)
				}
			}
			if phase == 0 {
				if len(atSwap) > 0 {
					return pick(h, atSwap)
				}
				phase = 1
			}
			if len(atLink) == 0 {
				phase = 0
				return pick(h, parked)
			}
			if h.R.Intn(2) == 0 {
				return cons
			}
			return pick(h, atLink)
		}
	}
}

func genMpscCase(h *hx.T) (mcase, int) {
	np := 2 + h.R.Intn(3)
	var mc mcase
	for i := 0; i < np; i++ {
		n := 1 + h.R.Intn(3)
		var vals []int
		for k := 0; k < n; k++ {
			vals = append(vals, (i+1)*1000+k+1)
		}
		mc.prods = append(mc.prods, vals)
	}
	for i := 0; i < 40; i++ {
		if h.R.Intn(5) == 0 {
			mc.cons = append(mc.cons, "e")
		} else {
			mc.cons = append(mc.cons, "p")
		}
	}
	h.Count(fmt.Sprintf("mq.producers.%d", np))
	return mc, np
}

func isMpscConcOps(ops []string) bool {
	for _, op := range ops {
		if strings.HasPrefix(op, "mq ") {
			return true
		}
	}
	return false
}

// replayMpscOps rebuilds the producers, the consumer's script and the schedule
// of each recorded case and runs it against the real queue.
func replayMpscOps(h *hx.T, ops []string) {
	var cases [][]string
	for _, op := range ops {
		if op == "mq reset" {
			cases = append(cases, nil)
			continue
		}
		if !strings.HasPrefix(op, "mq step") || len(cases) == 0 {
			continue
		}
		cases[len(cases)-1] = append(cases[len(cases)-1], op)
	}
	for _, cs := range cases {
		var mc mcase
		for _, op := range cs {
			ws := hx.Words(op)
			name, _ := hx.KV(ws, "th")
			pt, _ := hx.KV(ws, "pt")
			switch {
			case name == "c" && pt == "mp.empty":
				mc.cons = append(mc.cons, "e")
			case name == "c":
				mc.cons = append(mc.cons, "p")
			case strings.HasPrefix(name, "p"):
				k, err := strconv.Atoi(name[1:])
				if err != nil || k < 1 || k > 64 {
					continue
				}
				for len(mc.prods) < k {
					mc.prods = append(mc.prods, nil)
				}
				if pt == "mp.swap" {
					mc.prods[k-1] = append(mc.prods[k-1], hx.KVInt(ws, "v"))
				}
			}
		}
		i := 0
		runMpscCase(h, mc, func(c *mctl, parked []*mthread, step int) *mthread {
			for i < len(cs) {
				ws := hx.Words(cs[i])
				i++
				name, _ := hx.KV(ws, "th")
				pt, _ := hx.KV(ws, "pt")
				for _, th := range parked {
					if th.name == name && th.point == pt {
						return th
					}
				}
			}
			return nil
		}, true)
	}
}

func TestMpsc(t *testing.T) {
	synctest.Test(t, func(t *testing.T) {
		h := hx.Open()
		if ops := hx.ReplayOps(); ops != nil {
			replayMpscOps(h, ops)
			h.Close()
			syscall.Exit(0)
		}
		if ops := hx.CorpusOps("corpus/C09/mq"); ops != nil {
			replayMpscOps(h, ops)
			h.Count("corpus.ops")
		}
		n := hx.EnvInt("VERIF_N", 200)
		for i := 0; i < n; i++ {
			mode := i % 5
			if i >= 10 && h.R.Intn(3) != 0 {
				mode = h.R.Intn(5)
			}
			h.Count(fmt.Sprintf("mq.schedule.mode%d", mode))
			mc, np := genMpscCase(h)
			runMpscCase(h, mc, mqChooser(h, mode, np), false)
		}
		h.Close()
		syscall.Exit(0)
	})
}
