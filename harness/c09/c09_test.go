// C09 correspondence harness: the REAL SmoothFrameMailbox (real goring + mpsc)
// with poster goroutines, dispatched processMessages runs and the smoothing
// helper all parked at the `verif` yield points; a controller grants one atomic
// step at a time following a seeded schedule and records the mailbox's shared
// words after every step.  Runs inside testing/synctest: "everything is parked"
// is detected with synctest.Wait, the helper's 1 ms sleep and slow handlers
// consume virtual time only.
package c09

import (
	"fmt"
	"os"
	"sort"
	"runtime"
	"strconv"
	"strings"
	"sync"
	"syscall"
	"testing"
	"testing/synctest"
	"time"

	"cell2verif/hx"

	"github.com/asynkron/protoactor-go/actor"
	"github.com/dfklegend/cell2/actorex/mailbox"
)

func goid() int64 {
	var buf [64]byte
	n := runtime.Stack(buf[:], false)
	f := strings.Fields(strings.TrimPrefix(string(buf[:n]), "goroutine "))
	id, _ := strconv.ParseInt(f[0], 10, 64)
	return id
}

type umsg struct {
	id   int
	slow int  // the handler takes this many ms of virtual time (0: none)
	pan  bool // the handler panics: run() recovers, calls EscalateFailure and returns
}
// ubatch: an actor.MessageBatch — the mailbox posts its elements first, then the batch message itself
type ubatch struct {
	id    int
	elems []interface{}
}

func (b *ubatch) GetMessages() []interface{} { return b.elems }

type smsg struct {
	id   int
	slow int
	pan  bool
}

type thread struct {
	name    string
	kind    string // u s h c
	grant   chan struct{}
	point   string
	parked  bool
	done    bool
	started bool // consumer: fn() entered
	curMsg  int  // message about to be pushed (posters)
	curSK   string
	curSlow int
	curPan  bool
	curBt   string // "b<n>" / "e<n>": this push is a batch message whose n elements were the previous n pushes
	flat    []pmsg // posters: every push this thread will perform, in order (batch elements, then the batch itself)
	fi      int
}

type ctl struct {
	mu      sync.Mutex
	byGoid  map[int64]*thread
	threads []*thread
	helpers int
	conss   int
	invLog  []string // invocations during the current step
	dlvU    []int
	dlvS    []int
	mb      *mailbox.SmoothFrameMailbox
	queue   []func()
	cons    *thread
	tput    int      // what Throughput() answers (run()'s `if i > t` branch)
	escLog  []string // EscalateFailure calls during the current step
	escAllU []int
	escAllS []int
	runStart time.Time // virtual time at which the current run() started (run()'s beginTime)
	t0       time.Time // virtual time at the start of the case (ops carry now= relative to it)
}

// run()'s recover path logs the invoker with %v: keep that short (and away from the controller's fields)
func (c *ctl) String() string { return "c09-controller" }

func (c *ctl) register(th *thread) {
	c.mu.Lock()
	c.byGoid[goid()] = th
	c.threads = append(c.threads, th)
	c.mu.Unlock()
}

// yield is mailbox.VerifYield: park the calling goroutine at `point`.
func (c *ctl) yield(point string) {
	g := goid()
	c.mu.Lock()
	th := c.byGoid[g]
	if th == nil {
		// the smoothing helper is spawned inside the mailbox
		c.helpers++
		th = &thread{name: fmt.Sprintf("h%d", c.helpers), kind: "h", grant: make(chan struct{})}
		c.byGoid[g] = th
		c.threads = append(c.threads, th)
	}
	th.point = point
	th.parked = true
	if (point == "pu.push" || point == "ps.push") && th.fi < len(th.flat) {
		m := th.flat[th.fi]
		th.fi++
		th.curMsg, th.curSK, th.curSlow, th.curBt, th.curPan = m.id, m.sk, m.slow, "", m.pan
		if len(m.batch) > 0 {
			th.curBt = fmt.Sprintf("%s%d", m.bk, len(m.batch))
		}
	}
	c.mu.Unlock()
	<-th.grant
}

func (c *ctl) finish() {
	g := goid()
	c.mu.Lock()
	if th := c.byGoid[g]; th != nil {
		th.done = true
		th.parked = false
	}
	c.mu.Unlock()
}

// dispatcher: like the real scheDisp, ONE consumer goroutine executes the
// scheduled functions one after another; it parks at "cons.take" before taking
// the next one (enabled only while the queue is non-empty).
func (c *ctl) Schedule(fn func()) {
	c.mu.Lock()
	c.queue = append(c.queue, fn)
	c.mu.Unlock()
}

func (c *ctl) startConsumer() {
	th := &thread{name: "c1", kind: "c", grant: make(chan struct{})}
	c.cons = th
	go func() {
		c.register(th)
		for {
			c.yield("cons.take")
			c.mu.Lock()
			fn := c.queue[0]
			c.queue = c.queue[1:]
			c.mu.Unlock()
			fn()
		}
	}()
}
func (c *ctl) Throughput() int { return c.tput }

// invoker
func (c *ctl) InvokeSystemMessage(m interface{}) {
	if s, ok := m.(*smsg); ok {
		c.mu.Lock()
		c.invLog = append(c.invLog, fmt.Sprintf("s:%d", s.id))
		c.dlvS = append(c.dlvS, s.id)
		c.mu.Unlock()
		if s.slow > 0 {
			time.Sleep(time.Duration(s.slow) * time.Millisecond) // a slow system handler also consumes the frame budget
		}
		if s.pan {
			panic("system handler panics")
		}
	}
}
func (c *ctl) InvokeUserMessage(m interface{}) {
	if env, ok := m.(actor.MessageEnvelope); ok {
		m = env.Message
	}
	if b, ok := m.(*ubatch); ok {
		c.mu.Lock()
		c.invLog = append(c.invLog, fmt.Sprintf("u:%d", b.id))
		c.dlvU = append(c.dlvU, b.id)
		c.mu.Unlock()
		return
	}
	if u, ok := m.(*umsg); ok {
		c.mu.Lock()
		c.invLog = append(c.invLog, fmt.Sprintf("u:%d", u.id))
		c.dlvU = append(c.dlvU, u.id)
		c.mu.Unlock()
		if u.slow > 0 {
			time.Sleep(time.Duration(u.slow) * time.Millisecond) // virtual time: 12/25 ms are past the default 10 ms frame budget, 3 ms is within it
		}
		if u.pan {
			panic("user handler panics")
		}
	}
}
func (c *ctl) EscalateFailure(reason interface{}, message interface{}) {
	id := -1
	if env, ok := message.(actor.MessageEnvelope); ok {
		message = env.Message
	}
	sys := false
	switch m := message.(type) {
	case *umsg:
		id = m.id
	case *smsg:
		id, sys = m.id, true
	case *ubatch:
		id = m.id
	}
	c.mu.Lock()
	c.escLog = append(c.escLog, strconv.Itoa(id))
	if sys {
		c.escAllS = append(c.escAllS, id)
	} else {
		c.escAllU = append(c.escAllU, id)
	}
	c.mu.Unlock()
}

// bystander: invoker + dispatcher of the second mailbox (its scheduled runs are deferred)
type bystander struct {
	fns []func()
	got []int
}

func (b *bystander) Schedule(fn func()) { b.fns = append(b.fns, fn) }
func (b *bystander) Throughput() int    { return 99 }
func (b *bystander) InvokeSystemMessage(m interface{}) {}
func (b *bystander) InvokeUserMessage(m interface{}) {
	if u, ok := m.(*umsg); ok {
		b.got = append(b.got, u.id)
	}
}
func (b *bystander) EscalateFailure(reason interface{}, message interface{}) {}

// one producer per configured frame budget (Producer(ms); 0 = "use the default", which is 10 ms), shared by all
// cases with that budget and by their bystander mailboxes — as one Props spawning many actors does
var producers = map[int64]actor.MailboxProducer{}

func producerFor(ms int64) actor.MailboxProducer {
	p := producers[ms]
	if p == nil {
		p = mailbox.Producer(ms)
		producers[ms] = p
	}
	return p
}

// budgetOf: what Producer(ms) is documented to mean, in ns (only used for the generator histogram; the MODEL decides
// from the now= stamps whether the budget is exhausted at an iteration)
func budgetOf(ms int64) time.Duration {
	if ms == 0 {
		ms = 10
	}
	return time.Duration(ms) * time.Millisecond
}

var caseNo int
var neverQuiet bool // a case did not reach quiescence within the step limit: the run ends there

// suspend / resume carry ids too: wrap by remembering the order they were pushed
type poster struct {
	kind string // u or s
	id   int    // sender id
	msgs []pmsg
}
type pmsg struct {
	id    int
	slow  int    // handler duration, ms of virtual time
	pan   bool   // handler panics
	sk    string // n s r (system)
	batch []pmsg // user: this message is a MessageBatch with these elements (posted first by the mailbox)
	bk    string // "b" raw batch, "e" batch inside a MessageEnvelope
}

func flatten(ms []pmsg) []pmsg {
	var out []pmsg
	for _, m := range ms {
		out = append(out, m.batch...)
		out = append(out, m)
	}
	return out
}

var cpcOf = map[string]string{"cons.take": "wait", "run.iter": "iter", "bp.cas": "bpcas", "run.pops": "pops", "run.lsusp": "lsusp",
	"run.popu": "popu", "uq.empty": "ret", "pm.idle": "a1", "pm.lsys": "r0", "pm.luser": "r1", "pm.lpaused": "r2", "pm.decide": "r3",
	"sc.loadp": "cl", "sc.cas": "ck", "sc.disp": "cd"}

// runners = processMessages runs that exist: handed to the dispatcher and not taken yet, about to be handed over
// (a schedule() caller — poster, helper or the consumer itself — that won the CAS and is parked before
// dispatcher.Schedule), or executing and not yet past "store idle".  The property wants at most one.
func (c *ctl) state(inv, esc string) string {
	st, um, sm, susp, paused := c.mb.VerifState()
	cpc, dq, runners := "wait", len(c.queue), len(c.queue)
	if c.cons != nil && c.cons.point != "cons.take" {
		cpc = cpcOf[c.cons.point]
		switch c.cons.point {
		case "run.iter", "bp.cas", "run.pops", "run.lsusp", "run.popu", "uq.empty", "pm.idle":
			runners++
		}
	}
	for _, th := range c.threads {
		if th.parked && !th.done && th.point == "sc.disp" {
			runners++
		}
	}
	return fmt.Sprintf("st=%d um=%d sm=%d susp=%d paused=%d cpc=%s dq=%d runners=%d inv=%s esc=%s", st, um, sm, susp, paused, cpc, dq, runners, inv, esc)
}

func ids(l []int) string {
	s := make([]string, len(l))
	for i, v := range l {
		s[i] = strconv.Itoa(v)
	}
	return strings.Join(s, ",")
}

// runCase executes one case. `choose` picks the next thread among the parked ones.
func runCase(h *hx.T, tput int, bud int64, tick time.Duration, posters []poster, choose func(c *ctl, parked []*thread, step int) *thread) {
	if neverQuiet {
		return
	}
	c := &ctl{byGoid: map[int64]*thread{}, tput: tput, t0: time.Now()}
	producer := producerFor(bud)
	// a bystander mailbox made by the SAME producer (one Props spawning several actors): a message
	// is posted to it now and its run is deferred until this case is over; mailboxes must not share state
	caseNo++
	mailbox.VerifYield = nil
	by := &bystander{}
	mbB := producer()
	mbB.RegisterHandlers(by, by)
	byID := 777000 + caseNo
	mbB.PostUserMessage(&umsg{id: byID})
	mailbox.VerifYield = c.yield
	mb := producer().(*mailbox.SmoothFrameMailbox)
	mb.RegisterHandlers(c, c)
	// yield point "uq.empty" between an empty Pop of the user queue and run()'s return: a wrapper installed by TYPE
	// (userqueue_test.go; no unexported identifier of the mailbox package is named); false = degraded mode
	split := splitUserPop(mb)
	if split {
		h.Count("whitebox=available")
	} else {
		h.Count("whitebox=unavailable")
	}
	c.mb = mb
	c.startConsumer()
	// b = the argument of mailbox.Producer (ms; 0 = default), tick = ns of virtual time that pass before every granted step
	h.Emit(fmt.Sprintf("reset t=%d b=%d tick=%d", tput, bud, tick.Nanoseconds()), "ok")
	// system messages of kind suspend/resume are consumed by the mailbox itself; their
	// ids are reported from the push order (FIFO of the system queue is what is checked)
	var sysOrder []pmsg
	for i := range posters {
		p := posters[i]
		th := &thread{name: fmt.Sprintf("%s%d", p.kind, p.id), kind: p.kind, grant: make(chan struct{}), flat: flatten(p.msgs)}
		go func() {
			c.register(th)
			for _, m := range p.msgs {
				if p.kind == "u" {
					if len(m.batch) > 0 {
						b := &ubatch{id: m.id}
						for _, e := range m.batch {
							b.elems = append(b.elems, &umsg{id: e.id, slow: e.slow, pan: e.pan})
						}
						if m.bk == "e" {
							mb.PostUserMessage(actor.MessageEnvelope{Message: b})
						} else {
							mb.PostUserMessage(b)
						}
					} else {
						mb.PostUserMessage(&umsg{id: m.id, slow: m.slow, pan: m.pan})
					}
				} else {
					switch m.sk {
					case "s":
						mb.PostSystemMessage(&actor.SuspendMailbox{})
					case "r":
						mb.PostSystemMessage(&actor.ResumeMailbox{})
					default:
						mb.PostSystemMessage(&smsg{id: m.id, slow: m.slow, pan: m.pan})
					}
				}
			}
			c.finish()
		}()
	}
	synctest.Wait()
	for step := 0; step < 20000; step++ {
		var parked []*thread
		c.mu.Lock()
		for _, th := range c.threads {
			if th.parked && !th.done && !(th.point == "cons.take" && len(c.queue) == 0) {
				parked = append(parked, th)
			}
		}
		c.mu.Unlock()
		if len(parked) == 0 {
			break
		}
		// goroutines register in start order, which the Go scheduler decides: sort so that a seed is reproducible
		sort.Slice(parked, func(i, j int) bool { return parked[i].name < parked[j].name })
		th := choose(c, parked, step)
		pt := th.point
		if tick > 0 {
			time.Sleep(tick) // the clock advances between any two steps (all goroutines are parked: nothing else happens)
		}
		op := fmt.Sprintf("step k=%s pt=%s th=%s", th.kind, pt, th.name)
		sysPopBefore := len(sysOrder)
		_ = sysPopBefore
		if pt == "pu.push" {
			op += fmt.Sprintf(" msg=%d slow=%d", th.curMsg, th.curSlow)
			if th.curPan {
				op += " pan=1"
			}
			if th.curBt != "" {
				op += " bt=" + th.curBt
			}
		}
		if pt == "ps.push" {
			op += fmt.Sprintf(" msg=%d sk=%s slow=%d", th.curMsg, th.curSK, th.curSlow)
			if th.curPan {
				op += " pan=1"
			}
			sysOrder = append(sysOrder, pmsg{id: th.curMsg, sk: th.curSK})
		}
		if pt == "cons.take" {
			// run() reads beginTime right after being taken; virtual time stands still during a step
			c.runStart = time.Now()
			op += fmt.Sprintf(" now=%d", time.Since(c.t0).Nanoseconds())
		}
		if pt == "run.iter" {
			// the op carries what the CLOCK reads (ns since the case began), nothing about where the implementation goes
			// next: the MODEL computes cost = now - beginTime, compares it with the budget that Producer(b) means and
			// predicts pause / Gosched branch / carry on
			op += fmt.Sprintf(" now=%d", time.Since(c.t0).Nanoseconds())
			if el := time.Since(c.runStart); el > budgetOf(bud) {
				h.Count("gen.budget-exhausted")
			} else if el > 0 {
				h.Count("gen.budget-partly-used")
			}
		}
		c.mu.Lock()
		c.invLog = nil
		c.escLog = nil
		th.parked = false
		c.mu.Unlock()
		_, _, smBefore, _, _ := mb.VerifState()
		if os.Getenv("DBG") != "" {
			fmt.Fprintf(os.Stderr, "grant %s %s q=%d\n", th.name, pt, len(c.queue))
		}
		th.grant <- struct{}{}
		synctest.Wait()
		// the granted goroutine may be inside a (virtual) sleep: the helper's 1 ms, or a slow
		// handler's 12 ms; let exactly that much time pass.  Anywhere else "not parked" = returned.
		maySleep := (th.kind == "h" && pt == "hp.sleep") || (th.kind == "c" && (pt == "run.popu" || pt == "run.pops"))
		for i := 0; i < 40; i++ {
			c.mu.Lock()
			settled := th.parked || th.done
			c.mu.Unlock()
			if settled {
				break
			}
			if !maySleep {
				c.mu.Lock()
				th.done = true
				c.mu.Unlock()
				break
			}
			time.Sleep(time.Millisecond)
			synctest.Wait()
		}
		inv, esc := "-", "-"
		c.mu.Lock()
		if len(c.invLog) > 0 {
			inv = strings.Join(c.invLog, "+")
		}
		if len(c.escLog) > 0 {
			esc = strings.Join(c.escLog, "+")
		}
		c.mu.Unlock()
		// a popped Suspend/Resume is not invoked: recognise it by the system counter
		if pt == "run.pops" && inv == "-" {
			if _, _, smAfter, _, _ := mb.VerifState(); smAfter == smBefore-1 {
				k := len(c.dlvS)
				if k < len(sysOrder) {
					inv = fmt.Sprintf("s:%d", sysOrder[k].id)
					c.dlvS = append(c.dlvS, sysOrder[k].id)
				}
			}
		}
		h.Count("pt." + th.kind + "." + pt)
		if !split && th.kind == "c" && pt == "run.popu" && inv == "-" && esc == "-" && th.parked && th.point == "pm.idle" {
			// degraded mode (no wrapper around the user queue): the Pop was empty and run() has returned; nothing shared
			// is touched in between, so the model's "ret" program point is reported and left again by a stutter step
			real := th.point
			th.point = "uq.empty"
			h.Emit(op, c.state(inv, esc))
			th.point = real
			h.Count("pt.c.uq.empty")
			h.Emit("step k=c pt=uq.empty th="+th.name, c.state("-", "-"))
			continue
		}
		h.Emit(op, c.state(inv, esc))
	}
	st, um, sm, susp, paused := mb.VerifState()
	alive := 0
	for _, th := range c.threads {
		if !th.done && th != c.cons {
			alive++
		}
	}
	if c.cons.point != "cons.take" || len(c.queue) > 0 {
		alive++
	}
	quiet := 1
	if alive > 0 {
		quiet = 0
	}
	defer func() {
		mailbox.VerifYield = nil
		for _, fn := range by.fns {
			fn()
		}
		obs := "ok"
		if len(by.got) != 1 || by.got[0] != byID {
			obs = fmt.Sprintf("bystander-received=%v want=[%d]", by.got, byID)
		}
		h.Emit("bystander", obs)
	}()
	if quiet == 0 {
		neverQuiet = true
	}
	h.Emit("quiesce", fmt.Sprintf("quiet=%d st=%d um=%d sm=%d susp=%d paused=%d du=%s ds=%s esc=%s", quiet, st, um, sm, susp, paused, ids(c.dlvU), ids(c.dlvS), ids(append(append([]int(nil), c.escAllU...), c.escAllS...))))
}

// genBudget: the frame budget the case's mailbox is produced with (argument of mailbox.Producer, ms): the value
// service/factory.go uses (20), "use the default" (0, documented as 10 ms), the default itself, and small budgets
// that handlers of 3 ms reach or do not quite reach
func genBudget(h *hx.T) int64 {
	b := []int64{10, 10, 0, 0, 0, 20, 20, 1, 2, 3, 5}[h.R.Intn(11)]
	h.Count(fmt.Sprintf("gen.budget.%d", b))
	return b
}

// genTick: how much virtual time passes before every granted step: half of the cases run on a clock that only handlers
// and the helper's sleep advance (the old regime), the others on a clock that moves on between any two steps (as a
// real one does) — never by more than the smallest budget per step, so that the first iteration of a run that is
// taken and continued at once is always within its budget
func genTick(h *hx.T) time.Duration {
	t := []time.Duration{0, 0, 0, 0, time.Nanosecond, time.Microsecond, 100 * time.Microsecond, 300 * time.Microsecond}[h.R.Intn(8)]
	h.Count(fmt.Sprintf("gen.tick.%s", t))
	return t
}

// genSlow: handler durations in ms of virtual time: 0 mostly; 12 and 25 exceed the default budget at once, 3 needs
// several messages (or a small budget)
func genSlow(h *hx.T, oneIn int) int {
	if h.R.Intn(oneIn) != 0 {
		return 0
	}
	d := []int{12, 12, 3, 3, 25}[h.R.Intn(5)]
	h.Count(fmt.Sprintf("gen.handler-ms.%d", d))
	return d
}
func genSlowIf(h *hx.T, cond bool, oneIn int) int {
	if !cond {
		return 0
	}
	return genSlow(h, oneIn)
}

// genThroughput: what the dispatcher answers to Throughput(); small values make run() take its `i > t` branch in
// every run of a few messages (the real scheDisp says 99: reached by genBacklog)
func genThroughput(h *hx.T) int {
	t := 99
	if h.R.Intn(2) == 0 {
		t = []int{0, 1, 1, 2, 2, 3, 5, 8}[h.R.Intn(8)]
	}
	h.Count(fmt.Sprintf("gen.throughput.%d", t))
	return t
}

// genBacklog: 3 posters with 35-45 messages each (and sometimes a system poster), to be scheduled posters-first
// (mode 5): one run of the consumer then finds a backlog of more than 100 messages — more iterations than the
// throughput of the real dispatcher
func genBacklog(h *hx.T) []poster {
	var ps []poster
	for i := 0; i < 3; i++ {
		p := poster{kind: "u", id: i + 1}
		n := 35 + h.R.Intn(11)
		for k := 0; k < n; k++ {
			p.msgs = append(p.msgs, pmsg{id: (i+1)*1000 + k + 1})
		}
		ps = append(ps, p)
	}
	if h.R.Intn(3) == 0 {
		ps = append(ps, poster{kind: "s", id: 9, msgs: []pmsg{{id: 9001, sk: "n"}, {id: 9002, sk: "n"}}})
	}
	h.Count("gen.backlog")
	return ps
}

func genPosters(h *hx.T) []poster {
	var ps []poster
	nu := 1 + h.R.Intn(3)
	panics := h.R.Intn(4) == 0 // a case with panicking handlers
	if panics {
		h.Count("gen.panics")
	}
	for i := 0; i < nu; i++ {
		p := poster{kind: "u", id: i + 1}
		n := 1 + h.R.Intn(3)
		if h.R.Intn(12) == 0 {
			n = 12 + h.R.Intn(10) // ring growth (initial capacity 10)
			h.Count("gen.ringgrowth")
		}
		for k := 0; k < n; k++ {
			p.msgs = append(p.msgs, pmsg{id: (i+1)*1000 + k + 1, slow: genSlow(h, 6), pan: panics && h.R.Intn(4) == 0})
		}
		if n >= 2 && n <= 6 && h.R.Intn(5) == 0 {
			// a MessageBatch: the first 1..n-1 messages become its elements, the batch message itself follows them
			// in the queue (ids stay increasing per sender); the rest of the sender's messages come after it
			k := 1 + h.R.Intn(n-1)
			b := pmsg{id: p.msgs[k-1].id, bk: []string{"b", "e"}[h.R.Intn(2)]}
			for j := 0; j < k; j++ {
				e := p.msgs[j]
				e.id = e.id*10 + 0 // element ids: distinct from plain ids, still increasing within the sender
				b.batch = append(b.batch, e)
			}
			b.id = b.id*10 + 5
			rest := append([]pmsg{b}, p.msgs[k:]...)
			for j := 1; j < len(rest); j++ {
				rest[j].id = rest[j].id*10 + 9
			}
			p.msgs = rest
			h.Count("gen.batch." + b.bk)
		}
		ps = append(ps, p)
	}
	if h.R.Intn(2) == 0 {
		p := poster{kind: "s", id: 9}
		n := 1 + h.R.Intn(3)
		kinds := []string{"n", "s", "r", "n", "s", "r", "r"}
		for k := 0; k < n; k++ {
			sk := kinds[h.R.Intn(len(kinds))]
			p.msgs = append(p.msgs, pmsg{id: 9000 + k + 1, sk: sk, slow: genSlowIf(h, sk == "n", 3), pan: sk == "n" && panics && h.R.Intn(3) == 0})
		}
		if h.R.Intn(6) == 0 {
			// directed: suspended, then a slow system handler starts a smoothing pause, then resume —
			// the pause helper's wake-up is what must bring the consumer back
			p.msgs = []pmsg{{id: 9001, sk: "s"}, {id: 9002, sk: "n", slow: 12}, {id: 9003, sk: "r"}}
			n = 3
			h.Count("gen.suspend-slowsys-resume")
		}
		// mostly end resumed so that user messages must all be delivered
		if h.R.Intn(4) != 0 {
			p.msgs = append(p.msgs, pmsg{id: 9000 + n + 1, sk: "r"})
		}
		ps = append(ps, p)
		h.Count("gen.sysposter")
	}
	return ps
}

// schedules
func chooser(h *hx.T, mode int) func(c *ctl, parked []*thread, step int) *thread {
	var sticky, victim *thread
	phase, budget := 0, 0
	return func(c *ctl, parked []*thread, step int) *thread {
		switch mode {
		case 0: // uniform
			return parked[h.R.Intn(len(parked))]
		case 1: // sticky: run one thread for a while (long runs, few preemptions)
			if sticky != nil && h.R.Intn(8) != 0 {
				for _, th := range parked {
					if th == sticky {
						return sticky
					}
				}
			}
			sticky = parked[h.R.Intn(len(parked))]
			return sticky
		case 2: // adversarial: while the consumer is between "store idle" and its decision, prefer posters
			var cons, others []*thread
			inWindow := false
			for _, th := range parked {
				if th.kind == "c" {
					cons = append(cons, th)
					switch th.point {
					case "pm.lsys", "pm.luser", "pm.lpaused", "pm.decide", "pm.idle", "uq.empty":
						inWindow = true
					}
				} else {
					others = append(others, th)
				}
			}
			if inWindow && len(others) > 0 && h.R.Intn(5) != 0 {
				return others[h.R.Intn(len(others))]
			}
			if !inWindow && len(cons) > 0 && h.R.Intn(3) != 0 {
				return cons[h.R.Intn(len(cons))]
			}
			return parked[h.R.Intn(len(parked))]
		case 4: // delay-bounded victim: when the consumer is about to store idle (its last pops found nothing), one poster
			// takes K of its steps inside that window and is then held until the consumer has finished going idle
			var cons *thread
			var posters []*thread
			for _, th := range parked {
				if th.kind == "c" {
					cons = th
				} else if th.kind == "u" || th.kind == "s" {
					posters = append(posters, th)
				}
			}
			if victim != nil && victim.done {
				victim, phase = nil, 0
			}
			switch phase {
			case 0:
				if cons != nil && (cons.point == "pm.idle" || cons.point == "uq.empty") && len(posters) > 0 {
					victim = posters[h.R.Intn(len(posters))]
					budget = 1 + h.R.Intn(4)
					if h.R.Intn(2) == 0 {
						budget = 4 // push, incr, load paused, CAS (fails: the consumer has not stored idle yet)
					}
					phase = 1
					return victim
				}
				if cons != nil && h.R.Intn(5) != 0 {
					return cons
				}
				return parked[h.R.Intn(len(parked))]
			case 1:
				budget--
				if budget > 0 {
					for _, th := range parked {
						if th == victim {
							return th
						}
					}
				}
				phase = 2
				fallthrough
			case 2:
				if cons != nil {
					return cons // until it is back at cons.take with nothing queued (then it is not in `parked`)
				}
				phase = 3
				fallthrough
			default:
				// everybody but the victim, then the victim
				var rest []*thread
				for _, th := range parked {
					if th != victim {
						rest = append(rest, th)
					}
				}
				if len(rest) > 0 && h.R.Intn(4) != 0 {
					return rest[h.R.Intn(len(rest))]
				}
				phase = 0
				victim = nil
				return parked[h.R.Intn(len(parked))]
			}
		case 5: // backlog: the posters run (nearly) to completion before the consumer moves
			var cons *thread
			var others []*thread
			for _, th := range parked {
				if th.kind == "c" {
					cons = th
				} else {
					others = append(others, th)
				}
			}
			if cons == nil || (len(others) > 0 && h.R.Intn(40) != 0) {
				return others[h.R.Intn(len(others))]
			}
			return cons
		default: // consumer-first: drain eagerly so posters keep finding the mailbox idle
			for _, th := range parked {
				if th.kind == "c" && h.R.Intn(4) != 0 {
					return th
				}
			}
			return parked[h.R.Intn(len(parked))]
		}
	}
}

// replayCases rebuilds, from recorded op lines, the posters of each case and a
// chooser that follows the recorded schedule (thread name + yield point).
func replayCases(h *hx.T, ops []string) {
	var cases [][]string
	var tputs []int
	var buds []int64
	var ticks []time.Duration
	for _, op := range ops {
		if strings.HasPrefix(op, "reset") {
			cases = append(cases, nil)
			t := 99
			if _, ok := hx.KV(hx.Words(op), "t"); ok {
				t = hx.KVInt(hx.Words(op), "t")
			}
			tputs = append(tputs, t)
			b, tk := 10, 0
			if _, ok := hx.KV(hx.Words(op), "b"); ok {
				b = hx.KVInt(hx.Words(op), "b")
			}
			if _, ok := hx.KV(hx.Words(op), "tick"); ok {
				tk = hx.KVInt(hx.Words(op), "tick")
			}
			buds = append(buds, int64(b))
			ticks = append(ticks, time.Duration(tk))
			continue
		}
		if len(cases) == 0 {
			cases = append(cases, nil)
			tputs = append(tputs, 99)
			buds = append(buds, 10)
			ticks = append(ticks, 0)
		}
		cases[len(cases)-1] = append(cases[len(cases)-1], op)
	}
	for ci, cs := range cases {
		byName := map[string]*poster{}
		var order []string
		for _, op := range cs {
			ws := hx.Words(op)
			pt, _ := hx.KV(ws, "pt")
			name, _ := hx.KV(ws, "th")
			if pt != "pu.push" && pt != "ps.push" {
				continue
			}
			p := byName[name]
			if p == nil {
				id, _ := strconv.Atoi(name[1:])
				p = &poster{kind: name[:1], id: id}
				byName[name] = p
				order = append(order, name)
			}
			sk, _ := hx.KV(ws, "sk")
			m := pmsg{id: hx.KVInt(ws, "msg"), slow: hx.KVInt(ws, "slow"), sk: sk, pan: hx.KVInt(ws, "pan") == 1}
			if bt, ok := hx.KV(ws, "bt"); ok && len(bt) >= 2 {
				if n, err := strconv.Atoi(bt[1:]); err == nil && n <= len(p.msgs) {
					m.bk = bt[:1]
					m.batch = append([]pmsg(nil), p.msgs[len(p.msgs)-n:]...)
					p.msgs = p.msgs[:len(p.msgs)-n]
				}
			}
			p.msgs = append(p.msgs, m)
		}
		var ps []poster
		for _, n := range order {
			ps = append(ps, *byName[n])
		}
		i := 0
		runCase(h, tputs[ci], buds[ci], ticks[ci], ps, func(c *ctl, parked []*thread, step int) *thread {
			for i < len(cs) {
				ws := hx.Words(cs[i])
				i++
				if len(ws) == 0 || ws[0] != "step" {
					continue
				}
				pt, _ := hx.KV(ws, "pt")
				name, _ := hx.KV(ws, "th")
				for _, th := range parked {
					if th.point == pt && (th.name == name || (th.kind == "h" && strings.HasPrefix(name, "h"))) {
						return th
					}
				}
			}
			// recorded schedule exhausted (or diverged): finish deterministically
			return parked[0]
		})
	}
}

func TestRun(t *testing.T) {
	synctest.Test(t, func(t *testing.T) {
		h := hx.Open()
		if ops := hx.ReplayOps(); ops != nil {
			if isSdOps(ops) { // dispatcher witness (sched_test.go)
				replaySdOps(h, ops)
			} else if isMpscConcOps(ops) { // concurrent-mpsc witness (mpsc_test.go)
				replayMpscOps(h, ops)
			} else if isQueueOps(ops) { // queue-component witness (ring_test.go)
				replayQueueOps(h, ops)
			} else {
				replayCases(h, ops)
			}
			h.Close()
			syscall.Exit(0)
		}
		n := hx.EnvInt("VERIF_N", 300)
		for i := 0; i < n; i++ {
			if h.R.Intn(40) == 0 {
				h.Count("schedule.mode5")
				runCase(h, 99, 20, 0, genBacklog(h), chooser(h, 5))
				continue
			}
			mode := h.R.Intn(5)
			h.Count(fmt.Sprintf("schedule.mode%d", mode))
			runCase(h, genThroughput(h), genBudget(h), genTick(h), genPosters(h), chooser(h, mode))
		}
		h.Close()
		syscall.Exit(0)
	})
}
