// Command c04 is the C04 translator ("all code of one service runs on a single
// goroutine"): it type-checks the packages that make up a service's execution
// environment and writes a finite *dispatch graph* as Lean source
//
//	-out <file>.lean     `Cell2v.Gen.C04.graph : Cell2v.Graph.CallGraph`
//
// over which lean/Cell2v/Props/C04.lean states and decides `entry_only_via_loop`.
//
// What is extracted (go/types; dependencies from export data of `go list -export`):
//
//	nodes      every function, method and function literal of the analysed packages
//	calls      static calls (callee resolved by the type checker), immediately called /
//	           deferred literals, literals handed to a *synchronous* higher-order callee,
//	           interface calls resolved to the analysed implementers (CHA)
//	sites      every call that may run code the static graph cannot see: calls through a
//	           func-typed field / variable / parameter (`field pkg.T.f`, `value <type>`),
//	           calls through an interface declared in cell2 (`iface pkg.I.m`) and calls
//	           into cell2 packages outside the analysed set (`ext path.T.m`)
//	roots      `go` statements (with the function that spawns them), functions handed
//	           to time.AfterFunc; exported API is marked on the nodes
//	lits       every function literal / function value with how it is used
//	           (`go`, `defer`, `call`, `timer:time.AfterFunc`, `arg:<callee>`, `stored`, …)
//	sends      channel sends (`send <element type>`) = enqueue points
//	guards     code under `if x.localUseChan {…} else {…}`: the else branch is the
//	           "direct mode" of an event centre and is reported separately
//	certs      the backward closure of the service-code sites ("danger"), a path from a
//	           consumer loop to every service-code site, a path to an enqueue for every
//	           producer API — certificates only, re-checked by Lean
//
// The classification tables (which site is service code, which API is consumer
// side, which literal kinds are reviewed) live in Lean; the only table here is
// `syncCallees` (higher-order callees that call their argument before returning)
// and it is echoed into the literal kind so that Lean reviews it as well.
// Everything unknown is treated conservatively: an unknown literal use gets a
// call edge from its creator *and* is a goroutine root.
//
// Sources: -root (default /repo).  A root other than /repo, and a
// `-overlay=<json>` inside $VERIF_GO_FLAGS, are both turned into a go build
// overlay on top of /repo, so mutated copies can be translated without touching /repo.
package main

import (
	"bytes"
	"encoding/json"
	"flag"
	"fmt"
	"go/ast"
	"go/importer"
	"go/parser"
	"go/token"
	"go/types"
	"io"
	"os"
	"os/exec"
	"path/filepath"
	"sort"
	"strconv"
	"strings"
)

const cellPrefix = "github.com/dfklegend/cell2/"
const actorPkg = "github.com/asynkron/protoactor-go/actor"

var analysed = []string{
	"github.com/dfklegend/cell2/utils/runservice",
	"github.com/dfklegend/cell2/utils/sche",
	"github.com/dfklegend/cell2/utils/timer",
	"github.com/dfklegend/cell2/utils/event",
	"github.com/dfklegend/cell2/actorex/disp",
	"github.com/dfklegend/cell2/actorex/mailbox",
	"github.com/dfklegend/cell2/actorex/service",
	"github.com/dfklegend/cell2/node/client/impls/pomelo",
	"github.com/dfklegend/cell2/utils/waterfall",
}

// relative directories of the analysed packages below the repository root
var analysedDirs = []string{
	"utils/runservice", "utils/sche", "utils/timer", "utils/event",
	"actorex/disp", "actorex/mailbox", "actorex/service", "node/client/impls/pomelo", "utils/waterfall",
}

// functions of an analysed package that are left out of the graph: the DIRECT variants of waterfall ("just
// callback directly", every callback runs on whatever goroutine completes the step) are not what services chain
// their steps with (that is waterfall.Sche / Builder) and promise nothing about goroutines.  By name, not by
// file, so that moving code between files changes nothing; anything else added to the package is analysed.
var notAnalysed = map[string]bool{
	"waterfall.Simple":      true,
	"waterfall.ExecAndWait": true,
}

// higher-order callees that run their function argument synchronously on the caller's goroutine
var syncCallees = map[string]bool{
	"sync.Map.Range":                    true,
	"sort.Slice":                        true,
	"sort.SliceStable":                  true,
	"strings.Map":                       true,
	"strings.FieldsFunc":                true,
	"impls.ClientSessions.VisitSession": true,
}

// callees that run their function argument later on a fresh goroutine
var timerCallees = map[string]bool{
	"time.AfterFunc": true,
}

// bool fields that switch a component between "queue" and "direct" mode
var modeFlags = map[string]bool{
	"event.LocalEventCenter.localUseChan": true,
}

func fatal(f string, a ...interface{}) {
	fmt.Fprintf(os.Stderr, "extract/c04: "+f+"\n", a...)
	os.Exit(2)
}

// ---------------------------------------------------------------- overlay / go list

type listPkg struct {
	ImportPath string
	Name       string
	Dir        string
	Export     string
	GoFiles    []string
	Standard   bool
	Error      *struct{ Err string }
}

func loadOverlay(root string) (map[string]string, string) {
	ov := map[string]string{}
	if root != "/repo" {
		for _, d := range analysedDirs {
			ents, err := os.ReadDir(filepath.Join(root, d))
			if err != nil {
				fatal("cannot read %s: %v", filepath.Join(root, d), err)
			}
			for _, e := range ents {
				if !e.IsDir() && strings.HasSuffix(e.Name(), ".go") && !strings.HasSuffix(e.Name(), "_test.go") {
					ov[filepath.Join("/repo", d, e.Name())] = filepath.Join(root, d, e.Name())
				}
			}
		}
	}
	for _, f := range strings.Fields(os.Getenv("VERIF_GO_FLAGS")) {
		if strings.HasPrefix(f, "-overlay=") {
			b, err := os.ReadFile(strings.TrimPrefix(f, "-overlay="))
			if err != nil {
				fatal("cannot read overlay: %v", err)
			}
			var o struct{ Replace map[string]string }
			if err := json.Unmarshal(b, &o); err != nil {
				fatal("cannot parse overlay: %v", err)
			}
			for k, v := range o.Replace {
				ov[k] = v
			}
		}
	}
	if len(ov) == 0 {
		return ov, ""
	}
	b, _ := json.Marshal(map[string]interface{}{"Replace": ov})
	f, err := os.CreateTemp("", "c04-overlay-*.json")
	if err != nil {
		fatal("%v", err)
	}
	f.Write(b)
	f.Close()
	return ov, f.Name()
}

func goList(moddir, ovfile string) map[string]*listPkg {
	args := []string{"list", "-e", "-export", "-deps", "-json=ImportPath,Name,Dir,Export,GoFiles,Standard,Error"}
	if ovfile != "" {
		args = append(args, "-overlay="+ovfile)
	}
	args = append(args, analysed...)
	gobin := os.Getenv("C04_GO")
	if gobin == "" {
		gobin = filepath.Join(os.Getenv("GOROOT"), "bin", "go")
		if _, err := os.Stat(gobin); err != nil {
			gobin = "go1.26"
		}
	}
	cmd := exec.Command(gobin, args...)
	cmd.Dir = moddir
	var stderr bytes.Buffer
	cmd.Stderr = &stderr
	out, err := cmd.Output()
	if err != nil {
		fatal("go list failed: %v\n%s", err, stderr.String())
	}
	pkgs := map[string]*listPkg{}
	dec := json.NewDecoder(bytes.NewReader(out))
	for {
		var p listPkg
		if err := dec.Decode(&p); err == io.EOF {
			break
		} else if err != nil {
			fatal("go list output: %v", err)
		}
		pp := p
		pkgs[p.ImportPath] = &pp
	}
	return pkgs
}

// ---------------------------------------------------------------- graph

type node struct {
	id       int
	name     string
	exported bool
	lit      bool
	pos      string
}

type site struct {
	node   int
	desc   string
	direct bool // only executed in direct mode (else branch of a mode flag)
	member string
}

type edge struct {
	a, b   int
	direct bool
}

type graph struct {
	nodes   []*node
	byName  map[string]*node
	calls   map[edge]bool
	sites   map[site]bool
	goRoots map[[2]string]bool // (root node name, spawner)
	tmRoots map[int]bool
	lits    map[[2]string]bool // (node name, kind)
	parents map[[2]int]bool    // (literal node, node that creates it)
	sends   map[site]bool
	extPkgs map[string]bool
	foreign int
	facts   map[string]bool
	pending []pendingEdge
}

type pendingEdge struct {
	from   int
	to     string
	direct bool
}

func (g *graph) node(name string) *node {
	if n, ok := g.byName[name]; ok {
		return n
	}
	n := &node{id: len(g.nodes), name: name}
	g.nodes = append(g.nodes, n)
	g.byName[name] = n
	return n
}

// ---------------------------------------------------------------- naming

var analysedSet = map[string]bool{}

// shortPath: analysed packages (and foreign ones) by their last element, other
// cell2 packages by their path below the module prefix (unambiguous).
func shortPath(p string) string {
	if strings.HasPrefix(p, cellPrefix) && !analysedSet[p] {
		return strings.TrimPrefix(p, cellPrefix)
	}
	if i := strings.LastIndex(p, "/"); i >= 0 {
		return p[i+1:]
	}
	return p
}

func isCell(p *types.Package) bool {
	return p != nil && (strings.HasPrefix(p.Path(), cellPrefix) || p.Path()+"/" == cellPrefix)
}

func namedOf(t types.Type) *types.Named {
	for {
		switch x := t.(type) {
		case *types.Pointer:
			t = x.Elem()
		case *types.Named:
			return x
		case *types.Alias:
			t = types.Unalias(x)
		default:
			return nil
		}
	}
}

func typeName(t types.Type) string {
	if n := namedOf(t); n != nil && n.Obj() != nil {
		if n.Obj().Pkg() != nil {
			return shortPath(n.Obj().Pkg().Path()) + "." + n.Obj().Name()
		}
		return n.Obj().Name()
	}
	return types.TypeString(t, func(p *types.Package) string { return shortPath(p.Path()) })
}

func funcName(f *types.Func) string {
	sig, _ := f.Type().(*types.Signature)
	pk := ""
	if f.Pkg() != nil {
		pk = shortPath(f.Pkg().Path()) + "."
	}
	if sig != nil && sig.Recv() != nil {
		if n := namedOf(sig.Recv().Type()); n != nil {
			return pk + n.Obj().Name() + "." + f.Name()
		}
		return pk + "?." + f.Name()
	}
	return pk + f.Name()
}

// ---------------------------------------------------------------- walker

type walker struct {
	g        *graph
	info     *types.Info
	fset     *token.FileSet
	pkg      *types.Package
	analysed map[string]bool
	top      string // name of the enclosing top-level function
	nlit     int

	lastTarget *node // set by useFunc: the node of the function value it resolved
}

type ifaceCall struct {
	from   int
	direct bool
	iface  *types.Interface
	method string
}

// interface call sites, resolved to the analysed implementers after all packages are loaded (CHA)
var ifaceCalls []ifaceCall

type ctx struct {
	cur    *node
	direct bool
}

func (w *walker) pos(n ast.Node) string {
	p := w.fset.Position(n.Pos())
	return fmt.Sprintf("%s:%d", filepath.Base(p.Filename), p.Line)
}

func unparen(e ast.Expr) ast.Expr {
	for {
		p, ok := e.(*ast.ParenExpr)
		if !ok {
			return e
		}
		e = p.X
	}
}

// funcObj returns the declared function an expression names (not a call of it).
func (w *walker) funcObj(e ast.Expr) *types.Func {
	switch x := unparen(e).(type) {
	case *ast.Ident:
		f, _ := w.info.Uses[x].(*types.Func)
		return f
	case *ast.SelectorExpr:
		f, _ := w.info.Uses[x.Sel].(*types.Func)
		return f
	case *ast.IndexExpr: // generic instantiation
		return w.funcObj(x.X)
	}
	return nil
}

func (w *walker) isIfaceCall(e ast.Expr) (*types.Func, bool) {
	sel, ok := unparen(e).(*ast.SelectorExpr)
	if !ok {
		return nil, false
	}
	s := w.info.Selections[sel]
	if s == nil || s.Kind() != types.MethodVal {
		return nil, false
	}
	if _, isIface := s.Recv().Underlying().(*types.Interface); !isIface {
		return nil, false
	}
	f, _ := s.Obj().(*types.Func)
	return f, f != nil
}

// fieldLabel: how a struct field is named inside a graph key.  An exported field keeps its name.  An
// UNEXPORTED field is named by its TYPE ("~<type>", plus "#k" when several unexported fields of the struct
// share that type): a harmless rename of an unexported field must not change the reviewed keys (false alarms
// C04 vs C15-indh-h10 / C09-h-rename, session 5).
func fieldLabel(st *types.Struct, name string) string {
	if ast.IsExported(name) || st == nil {
		return name
	}
	var ft types.Type
	for i := 0; i < st.NumFields(); i++ {
		if st.Field(i).Name() == name {
			ft = st.Field(i).Type()
		}
	}
	if ft == nil {
		return name
	}
	same, ord := 0, 0
	for i := 0; i < st.NumFields(); i++ {
		f := st.Field(i)
		if !f.Exported() && types.Identical(f.Type(), ft) {
			same++
			if f.Name() == name {
				ord = same
			}
		}
	}
	lbl := "~" + typeName(ft)
	if same > 1 {
		lbl += "#" + strconv.Itoa(ord)
	}
	return lbl
}

// ifaceLabel: an exported interface keeps its name; an UNEXPORTED interface of cell2's own code is named by
// its method set ("pkg.{m1,m2}"), so that renaming the type does not change the reviewed keys.
func ifaceLabel(n *types.Named) string {
	if n.Obj() == nil || n.Obj().Exported() || n.Obj().Pkg() == nil ||
		!(strings.HasPrefix(n.Obj().Pkg().Path(), "github.com/dfklegend/cell2") || strings.HasPrefix(n.Obj().Pkg().Path(), "mmo")) {
		return typeName(n)
	}
	it, ok := n.Underlying().(*types.Interface)
	if !ok {
		return typeName(n)
	}
	var ms []string
	for i := 0; i < it.NumMethods(); i++ {
		ms = append(ms, it.Method(i).Name())
	}
	sort.Strings(ms)
	return shortPath(n.Obj().Pkg().Path()) + ".{" + strings.Join(ms, ",") + "}"
}

func structOfType(t types.Type) *types.Struct {
	for {
		if p, ok := t.Underlying().(*types.Pointer); ok {
			t = p.Elem()
			continue
		}
		break
	}
	st, _ := t.Underlying().(*types.Struct)
	return st
}

func (w *walker) ifaceDesc(e ast.Expr, f *types.Func) (string, *types.Package) {
	sel := unparen(e).(*ast.SelectorExpr)
	s := w.info.Selections[sel]
	// name the interface the method is declared in when it is a named one
	recv := s.Recv()
	if sig, ok := f.Type().(*types.Signature); ok && sig.Recv() != nil {
		if n := namedOf(sig.Recv().Type()); n != nil {
			return "iface " + ifaceLabel(n) + "." + f.Name(), n.Obj().Pkg()
		}
	}
	if n := namedOf(recv); n != nil {
		return "iface " + ifaceLabel(n) + "." + f.Name(), n.Obj().Pkg()
	}
	return "iface ?." + f.Name(), f.Pkg()
}

// dynDesc describes a called expression of function type.
func (w *walker) dynDesc(e ast.Expr) string {
	e = unparen(e)
	suffix := ""
	for {
		if ix, ok := e.(*ast.IndexExpr); ok {
			e = unparen(ix.X)
			suffix = "[]"
			continue
		}
		break
	}
	if sel, ok := e.(*ast.SelectorExpr); ok {
		if s := w.info.Selections[sel]; s != nil && s.Kind() == types.FieldVal {
			return "field " + typeName(s.Recv()) + "." + fieldLabel(structOfType(s.Recv()), sel.Sel.Name) + suffix
		}
		if v, ok := w.info.Uses[sel.Sel].(*types.Var); ok && v.Pkg() != nil { // package-level variable of another package
			return "var " + shortPath(v.Pkg().Path()) + "." + v.Name() + suffix
		}
	}
	if id, ok := e.(*ast.Ident); ok {
		if v, ok := w.info.Uses[id].(*types.Var); ok && v.Pkg() != nil && v.Parent() == v.Pkg().Scope() {
			return "var " + shortPath(v.Pkg().Path()) + "." + v.Name() + suffix
		}
	}
	tv := w.info.Types[e]
	if tv.Type != nil {
		t := tv.Type
		if suffix != "" {
			switch u := t.Underlying().(type) {
			case *types.Slice:
				t = u.Elem()
			case *types.Array:
				t = u.Elem()
			case *types.Map:
				t = u.Elem()
			}
		}
		return "value " + typeName(t)
	}
	return "value ?"
}

func (w *walker) flagCond(e ast.Expr) (flag string, neg bool, ok bool) {
	e = unparen(e)
	if u, isU := e.(*ast.UnaryExpr); isU && u.Op == token.NOT {
		f, n, k := w.flagCond(u.X)
		return f, !n, k
	}
	sel, isSel := e.(*ast.SelectorExpr)
	if !isSel {
		return "", false, false
	}
	s := w.info.Selections[sel]
	if s == nil || s.Kind() != types.FieldVal {
		return "", false, false
	}
	name := typeName(s.Recv()) + "." + sel.Sel.Name
	if modeFlags[name] {
		return name, false, true
	}
	return "", false, false
}

func (w *walker) addCall(c ctx, to string) {
	w.g.pending = append(w.g.pending, pendingEdge{c.cur.id, to, c.direct})
}

func (w *walker) addSite(c ctx, desc, member string) {
	w.g.sites[site{c.cur.id, desc, c.direct, member}] = true
}

// newLit creates the node of a function literal and walks its body.
func (w *walker) newLit(c ctx, fl *ast.FuncLit, kind string) *node {
	w.nlit++
	n := w.g.node(fmt.Sprintf("%s$%d", w.top, w.nlit))
	n.lit = true
	n.pos = w.pos(fl)
	w.g.parents[[2]int{n.id, c.cur.id}] = true
	if kind != "" {
		w.g.lits[[2]string{n.name, kind}] = true
	}
	w.block(ctx{cur: n, direct: false}, fl.Body)
	return n
}

// useFunc handles a function literal or a function value used as `kind`;
// semantics: "sync" (edge from the current node), "timer" (goroutine root),
// "later" (nothing: it is run through an invocation point), "unknown" (both).
func (w *walker) useFunc(c ctx, e ast.Expr, kind, sem string) bool {
	e = unparen(e)
	var target *node
	if fl, ok := e.(*ast.FuncLit); ok {
		target = w.newLit(c, fl, kind)
	} else if ce, isCall := e.(*ast.CallExpr); isCall {
		// a "factory": a call of an analysed function that returns a function value
		// (`s.timerHandler(mgr)`); the closures it returns are used the way this call's result is
		f := w.funcObj(ce.Fun)
		if f == nil || f.Pkg() == nil || !w.analysed[f.Pkg().Path()] {
			return false
		}
		if _, isIface := w.isIfaceCall(ce.Fun); isIface {
			return false
		}
		sig, _ := f.Type().(*types.Signature)
		if sig == nil || sig.Results().Len() != 1 {
			return false
		}
		if _, isFn := sig.Results().At(0).Type().Underlying().(*types.Signature); !isFn {
			return false
		}
		factoryUses[funcName(f)] = append(factoryUses[funcName(f)], factoryUse{kind, sem, c.cur.id, c.direct})
		w.call(c, ce, "call")
		return true
	} else if f := w.funcObj(e); f != nil {
		if _, isIface := w.isIfaceCall(e); isIface {
			w.g.lits[[2]string{"<method value of interface " + funcName(f) + "> in " + c.cur.name, "ifacevalue:" + kind}] = true
			return true
		}
		name := funcName(f)
		if f.Pkg() == nil || !w.analysed[f.Pkg().Path()] {
			w.g.lits[[2]string{"<external " + name + "> in " + c.cur.name, "extvalue:" + kind}] = true
			return true
		}
		target = w.g.node(name)
		if kind != "" {
			w.g.lits[[2]string{name, kind}] = true
		}
		w.g.parents[[2]int{target.id, c.cur.id}] = true
		markFuncEscapes(name) // used as a value: its callers are no longer all visible
	} else {
		return false
	}
	w.lastTarget = target
	w.applySem(c.cur.id, c.direct, target, sem)
	return true
}

func (w *walker) applySem(from int, direct bool, target *node, sem string) {
	applySem(w.g, from, direct, target, sem)
}

func applySem(g *graph, from int, direct bool, target *node, sem string) {
	switch sem {
	case "sync":
		g.calls[edge{from, target.id, direct}] = true
	case "timer":
		g.tmRoots[target.id] = true
	case "later", "pending":
	default:
		g.calls[edge{from, target.id, direct}] = true
		g.tmRoots[target.id] = true
	}
}

type factoryUse struct {
	kind, sem string
	from      int
	direct    bool
}

var factoryUses = map[string][]factoryUse{} // factory function -> how its result is used
var returnsOf = map[string][]*node{}        // factory function -> the function values it returns

func (w *walker) call(c ctx, call *ast.CallExpr, how string) {
	fun := unparen(call.Fun)
	// conversions and builtins
	if tv, ok := w.info.Types[fun]; ok && tv.IsType() {
		for _, a := range call.Args {
			w.expr(c, a)
		}
		return
	}
	if id, ok := fun.(*ast.Ident); ok {
		if _, isB := w.info.Uses[id].(*types.Builtin); isB {
			for _, a := range call.Args {
				w.expr(c, a)
			}
			return
		}
	}
	calleeName := ""
	switch {
	case func() bool { _, ok := fun.(*ast.FuncLit); return ok }():
		n := w.newLit(c, fun.(*ast.FuncLit), how)
		w.g.calls[edge{c.cur.id, n.id, c.direct}] = true
		calleeName = n.name
	default:
		if f, isIface := w.isIfaceCall(fun); isIface {
			desc, ipkg := w.ifaceDesc(fun, f)
			calleeName = desc
			if isCell(ipkg) {
				if w.analysed[ipkg.Path()] {
					w.addSite(c, desc, "")
				} else {
					w.addSite(c, "iface "+shortPath(ipkg.Path()), strings.TrimPrefix(desc, "iface "))
				}
				w.recordIface(c, fun, f)
			} else if ipkg != nil && ipkg.Path() == actorPkg {
				// proto.actor's interfaces are how the mailbox reaches the actor (MessageInvoker) and the
				// dispatcher (Dispatcher.Schedule): reported, classified in Lean
				w.addSite(c, desc, "")
			} else {
				w.g.foreign++
			}
			w.expr(c, fun.(*ast.SelectorExpr).X)
		} else if f := w.funcObj(fun); f != nil {
			name := funcName(f)
			calleeName = name
			switch {
			case f.Pkg() != nil && w.analysed[f.Pkg().Path()]:
				w.addCall(c, name)
			case isCell(f.Pkg()):
				w.addSite(c, "ext "+shortPath(f.Pkg().Path()), name)
				w.g.extPkgs[strings.TrimPrefix(f.Pkg().Path(), cellPrefix)] = true
			default:
				w.g.foreign++
			}
			if sel, ok := fun.(*ast.SelectorExpr); ok {
				w.expr(c, sel.X)
			}
		} else {
			desc := w.dynDesc(fun)
			calleeName = "dyn:" + desc
			if key, ok := w.boundParamOf(fun); ok {
				// a call of a func-typed parameter of an unexported analysed function that does nothing with
				// it but call it: resolved to the values the callers pass (see resolveBound), no site key
				boundSites[key] = append(boundSites[key], bsite{c.cur.id, c.direct, desc})
			} else {
				w.addSite(c, desc, "")
			}
			w.expr(c, fun)
		}
	}
	// arguments
	for ai, a := range call.Args {
		// a wrapper that only forwards its function parameter (`func (s *T) onOwner(f func()) { s.sche.Post(f) }`)
		// or only calls it is looked through: the literal is classified by what finally receives it
		calleeName, sinkIdx := resolveSinkIdx(calleeName, ai, 0)
		if fl, ok := paramFlow[calleeName][sinkIdx]; ok && fl.kind == "bound" {
			key := bkey{calleeName, sinkIdx}
			ua := unparen(a)
			if id, ok := ua.(*ast.Ident); ok && id.Name == "nil" {
				continue
			}
			if _, isCall := ua.(*ast.CallExpr); !isCall {
				w.lastTarget = nil
				if w.useFunc(c, a, "bound", "later") && w.lastTarget != nil {
					boundVals[key] = append(boundVals[key], w.lastTarget)
					continue
				}
			}
			// not a literal / named function / method value: the values of the parameter are unknown
			boundUnknown[key] = true
			w.expr(c, a)
			continue
		}
		kind, sem := "arg:"+calleeName, "unknown"
		switch {
		case strings.HasPrefix(calleeName, "stored:"):
			kind, sem = calleeName, "later" // kept in a struct field; run by whoever calls that field
		case strings.HasPrefix(calleeName, "calls:"):
			kind, sem = "sync:"+strings.TrimPrefix(calleeName, "calls:"), "sync"
		case timerCallees[calleeName]:
			kind, sem = "timer:"+calleeName, "timer"
		case syncCallees[calleeName]:
			kind, sem = "sync:"+calleeName, "sync"
		case strings.HasPrefix(calleeName, "dyn:"):
			sem = "unknown"
		default:
			sem = "later" // the kind string is reviewed in Lean; an unreviewed one fails there
		}
		if !w.useFunc(c, a, kind, sem) {
			w.expr(c, a)
		}
	}
}

// paramFlow[function][parameter index] = what an analysed function does with a func-typed parameter:
// {"fwd", callee, index} it only hands it on to one callee; {"call"} it only calls it;
// {"store", field} it only keeps it in a struct field (composite literal, assignment, append); {"other"}.
type flow struct {
	kind  string
	to    string
	idx   int
	field string
}

var paramFlow = map[string]map[int]flow{}

func resolveSinkIdx(callee string, idx, depth int) (string, int) {
	if depth > 8 {
		return callee, idx
	}
	fl, ok := paramFlow[callee][idx]
	if !ok {
		return callee, idx
	}
	switch fl.kind {
	case "fwd":
		return resolveSinkIdx(fl.to, fl.idx, depth+1)
	case "call":
		return "calls:" + callee, idx
	case "store":
		return "stored:" + fl.field, idx
	}
	return callee, idx
}

// ---- bound parameters: a func-typed parameter of an UNEXPORTED analysed function (so every caller is analysed
// code) whose only uses are calls `p(...)`, in the function itself or in the literals nested in it.  Such a call
// is resolved to the function values the callers pass (0-CFA on that parameter): an edge from the node that
// contains `p(...)` to every such value.  When the set of values is not known completely (an argument that is
// not a literal / named function / method value, the function used as a value, spawned with `go`, or reachable
// through an interface call) the old conservative treatment applies: a `value <type>` site and `arg:<callee>` kinds.
type bkey struct {
	fn  string
	idx int
}
type bsite struct {
	from   int
	direct bool
	desc   string
}

var boundSites = map[bkey][]bsite{}
var boundVals = map[bkey][]*node{}
var boundUnknown = map[bkey]bool{}
var boundObjs = map[types.Object]bkey{} // parameter object -> (function, index), for flows of kind "bound"

func markFuncEscapes(name string) {
	for idx, fl := range paramFlow[name] {
		if fl.kind == "bound" {
			boundUnknown[bkey{name, idx}] = true
		}
	}
}

func (w *walker) boundParamOf(fun ast.Expr) (bkey, bool) {
	id, ok := unparen(fun).(*ast.Ident)
	if !ok {
		return bkey{}, false
	}
	k, ok := boundObjs[w.info.Uses[id]]
	return k, ok
}

func resolveBound(g *graph) {
	keys := map[bkey]bool{}
	for k := range boundSites {
		keys[k] = true
	}
	for k := range boundVals {
		keys[k] = true
	}
	for k := range keys {
		if boundUnknown[k] {
			for _, s := range boundSites[k] {
				g.sites[site{s.from, s.desc, s.direct, ""}] = true
			}
			for _, v := range boundVals[k] {
				g.lits[[2]string{v.name, "arg:" + k.fn}] = true
				g.tmRoots[v.id] = true // unknown use: also a goroutine root, as for every unknown literal use
			}
			continue
		}
		for _, s := range boundSites[k] {
			for _, v := range boundVals[k] {
				g.calls[edge{s.from, v.id, s.direct}] = true
			}
		}
	}
}

// storedField: the identifier (a func-typed parameter) is only put into a struct field here —
// `T{f: p}`, `T{…, p, …}`, `x.f = p`, `x.f = append(x.f, p)`; returns "field pkg.T.f" (with "[]" for append).
func storedField(info *types.Info, stack []ast.Node, id *ast.Ident) string {
	n := len(stack)
	fieldOfSel := func(e ast.Expr) string {
		sel, ok := unparen(e).(*ast.SelectorExpr)
		if !ok {
			return ""
		}
		if s := info.Selections[sel]; s != nil && s.Kind() == types.FieldVal {
			return "field " + typeName(s.Recv()) + "." + fieldLabel(structOfType(s.Recv()), sel.Sel.Name)
		}
		return ""
	}
	structOf := func(cl *ast.CompositeLit) (*types.Struct, string) {
		tv, ok := info.Types[cl]
		if !ok || tv.Type == nil {
			return nil, ""
		}
		st, _ := tv.Type.Underlying().(*types.Struct)
		return st, typeName(tv.Type)
	}
	switch parent := stack[n-2].(type) {
	case *ast.KeyValueExpr:
		if parent.Value != ast.Expr(id) || n < 3 {
			return ""
		}
		if cl, ok := stack[n-3].(*ast.CompositeLit); ok {
			if st, tn := structOf(cl); st != nil {
				if k, ok := parent.Key.(*ast.Ident); ok {
					return "field " + tn + "." + fieldLabel(st, k.Name)
				}
			}
		}
	case *ast.CompositeLit:
		if st, tn := structOf(parent); st != nil {
			for i, e := range parent.Elts {
				if e == ast.Expr(id) && i < st.NumFields() {
					return "field " + tn + "." + fieldLabel(st, st.Field(i).Name())
				}
			}
		}
	case *ast.AssignStmt:
		for i, e := range parent.Rhs {
			if e == ast.Expr(id) && i < len(parent.Lhs) && len(parent.Lhs) == len(parent.Rhs) {
				return fieldOfSel(parent.Lhs[i])
			}
		}
	case *ast.CallExpr:
		if fn, ok := parent.Fun.(*ast.Ident); ok && fn.Name == "append" && n >= 3 {
			if _, isB := info.Uses[fn].(*types.Builtin); isB {
				if as, ok := stack[n-3].(*ast.AssignStmt); ok && len(as.Lhs) == 1 && len(as.Rhs) == 1 && as.Rhs[0] == ast.Expr(parent) {
					if f := fieldOfSel(as.Lhs[0]); f != "" {
						return f + "[]"
					}
				}
			}
		}
	}
	return ""
}

// summarise computes paramFlow for one function declaration.
func summarise(info *types.Info, fd *ast.FuncDecl, name string) {
	if fd.Body == nil || fd.Type.Params == nil {
		return
	}
	params := map[types.Object]int{}
	i := 0
	for _, fld := range fd.Type.Params.List {
		if len(fld.Names) == 0 {
			i++
			continue
		}
		for _, nm := range fld.Names {
			if obj := info.Defs[nm]; obj != nil {
				if _, isFn := obj.Type().Underlying().(*types.Signature); isFn {
					params[obj] = i
				}
			}
			i++
		}
	}
	if len(params) == 0 {
		return
	}
	uses := map[int][]flow{}
	var stack []ast.Node
	ast.Inspect(fd.Body, func(n ast.Node) bool {
		if n == nil {
			stack = stack[:len(stack)-1]
			return true
		}
		stack = append(stack, n)
		id, ok := n.(*ast.Ident)
		if !ok {
			return true
		}
		pi, isParam := params[info.Uses[id]]
		if !isParam {
			return true
		}
		inLit := false
		for _, a := range stack {
			if _, ok := a.(*ast.FuncLit); ok {
				inLit = true
			}
		}
		f := flow{kind: "other"}
		if len(stack) >= 2 && !inLit {
			if fld := storedField(info, stack, id); fld != "" {
				f = flow{kind: "store", field: fld}
			} else if call, ok := stack[len(stack)-2].(*ast.CallExpr); ok {
				if unparen(call.Fun) == ast.Expr(id) {
					f = flow{kind: "call"}
				} else {
					for j, a := range call.Args {
						if unparen(a) == ast.Expr(id) {
							var callee *types.Func
							switch x := unparen(call.Fun).(type) {
							case *ast.Ident:
								callee, _ = info.Uses[x].(*types.Func)
							case *ast.SelectorExpr:
								callee, _ = info.Uses[x.Sel].(*types.Func)
								if s := info.Selections[x]; s != nil {
									if _, isIface := s.Recv().Underlying().(*types.Interface); isIface {
										callee = nil
									}
								}
							}
							if callee != nil {
								f = flow{kind: "fwd", to: funcName(callee), idx: j}
							}
						}
					}
				}
			}
		}
		if f.kind == "other" && len(stack) >= 2 {
			if call, ok := stack[len(stack)-2].(*ast.CallExpr); ok && unparen(call.Fun) == ast.Expr(id) {
				f = flow{kind: "callnested"} // called inside a literal nested in the function
			}
		}
		uses[pi] = append(uses[pi], f)
		return true
	})
	unexported := !ast.IsExported(fd.Name.Name)
	for pi, fs := range uses {
		res := fs[0]
		onlyCalls := unexported
		for _, f := range fs {
			if f.kind != "call" && f.kind != "callnested" {
				onlyCalls = false
			}
		}
		for _, f := range fs[1:] {
			if f != res {
				res = flow{kind: "other"}
			}
		}
		if onlyCalls {
			res = flow{kind: "bound"}
			for obj, i := range params {
				if i == pi {
					boundObjs[obj] = bkey{name, pi}
				}
			}
		} else if res.kind == "callnested" {
			res = flow{kind: "other"}
		}
		if res.kind != "other" {
			if paramFlow[name] == nil {
				paramFlow[name] = map[int]flow{}
			}
			paramFlow[name][pi] = res
		}
	}
}

// recordIface remembers an interface call site for CHA resolution.
func (w *walker) recordIface(c ctx, fun ast.Expr, f *types.Func) {
	sel := fun.(*ast.SelectorExpr)
	s := w.info.Selections[sel]
	if it, _ := s.Recv().Underlying().(*types.Interface); it != nil {
		ifaceCalls = append(ifaceCalls, ifaceCall{c.cur.id, c.direct, it, f.Name()})
	}
}

func (w *walker) expr(c ctx, e ast.Expr) {
	if e == nil {
		return
	}
	ast.Inspect(e, func(n ast.Node) bool {
		switch x := n.(type) {
		case *ast.CallExpr:
			w.call(c, x, "call")
			return false
		case *ast.FuncLit:
			w.useFunc(c, x, "stored", "unknown")
			return false
		case *ast.SelectorExpr:
			if f := w.funcObj(x); f != nil {
				w.useFunc(c, x, "stored", "unknown")
				w.expr(c, x.X)
				return false
			}
		case *ast.Ident:
			if f := w.funcObj(x); f != nil {
				w.useFunc(c, x, "stored", "unknown")
				return false
			}
		}
		return true
	})
}

func (w *walker) block(c ctx, b *ast.BlockStmt) {
	if b == nil {
		return
	}
	for _, s := range b.List {
		w.stmt(c, s)
	}
}

func (w *walker) stmt(c ctx, s ast.Stmt) {
	switch x := s.(type) {
	case nil:
	case *ast.BlockStmt:
		w.block(c, x)
	case *ast.IfStmt:
		w.stmt(c, x.Init)
		w.expr(c, x.Cond)
		if _, neg, ok := w.flagCond(x.Cond); ok && x.Init == nil {
			thenC, elseC := c, c
			if neg {
				thenC.direct = true
			} else {
				elseC.direct = true
			}
			w.block(thenC, x.Body)
			if x.Else != nil {
				w.stmt(elseC, x.Else)
			}
			return
		}
		w.block(c, x.Body)
		w.stmt(c, x.Else)
	case *ast.GoStmt:
		fun := unparen(x.Call.Fun)
		spawner := w.top
		if fl, ok := fun.(*ast.FuncLit); ok {
			n := w.newLit(c, fl, "go")
			w.g.goRoots[[2]string{n.name, spawner}] = true
		} else if _, isIface := w.isIfaceCall(fun); isIface {
			w.g.goRoots[[2]string{"<go through interface " + w.pos(x) + ">", spawner}] = true
			w.g.lits[[2]string{"<go through interface in " + c.cur.name + ">", "go-dynamic"}] = true
		} else if f := w.funcObj(fun); f != nil && f.Pkg() != nil && w.analysed[f.Pkg().Path()] {
			w.g.goRoots[[2]string{funcName(f), spawner}] = true
			w.g.parents[[2]int{w.g.node(funcName(f)).id, c.cur.id}] = true
			markFuncEscapes(funcName(f))
			if sel, ok := fun.(*ast.SelectorExpr); ok {
				w.expr(c, sel.X)
			}
		} else if f != nil {
			// a goroutine running foreign code only
			if isCell(f.Pkg()) {
				w.g.lits[[2]string{"<go " + funcName(f) + " in " + c.cur.name + ">", "go-external"}] = true
			}
		} else {
			w.g.lits[[2]string{"<go " + w.dynDesc(fun) + " in " + c.cur.name + ">", "go-dynamic"}] = true
		}
		for _, a := range x.Call.Args {
			if !w.useFunc(c, a, "arg:go", "unknown") {
				w.expr(c, a)
			}
		}
	case *ast.DeferStmt:
		w.call(c, x.Call, "defer")
	case *ast.ExprStmt:
		w.expr(c, x.X)
	case *ast.SendStmt:
		tv := w.info.Types[x.Chan]
		d := "send ?"
		if tv.Type != nil {
			if ch, ok := tv.Type.Underlying().(*types.Chan); ok {
				d = "send " + typeName(ch.Elem())
			}
		}
		w.g.sends[site{c.cur.id, d, c.direct, ""}] = true
		w.expr(c, x.Chan)
		w.expr(c, x.Value)
	case *ast.AssignStmt:
		for _, e := range x.Lhs {
			w.expr(c, e)
		}
		for i, e := range x.Rhs {
			// `x.f = func(...) {...}`: a closure put into a struct field after construction.  Who calls the field
			// is not known here (waterfall hands Chain.callbackFunc to the user's tasks, which complete from any
			// goroutine), so the closure is treated like a goroutine root ("unknown": call edge + root); the kind
			// names the field and is reviewed in Lean.
			if fl, ok := unparen(e).(*ast.FuncLit); ok && len(x.Lhs) == len(x.Rhs) {
				if sel, ok := unparen(x.Lhs[i]).(*ast.SelectorExpr); ok {
					if sl := w.info.Selections[sel]; sl != nil && sl.Kind() == types.FieldVal {
						w.useFunc(c, fl, "assigned:field "+typeName(sl.Recv())+"."+fieldLabel(structOfType(sl.Recv()), sel.Sel.Name), "unknown")
						continue
					}
				}
			}
			w.expr(c, e)
		}
	case *ast.ReturnStmt:
		for _, e := range x.Results {
			// a function value returned by a top-level function ("factory") is classified by how the
			// callers use the call's result (resolved after all packages are walked)
			if !c.cur.lit {
				ue := unparen(e)
				if fl, isLit := ue.(*ast.FuncLit); isLit {
					returnsOf[w.top] = append(returnsOf[w.top], w.newLit(c, fl, ""))
					continue
				}
				if _, isCall := ue.(*ast.CallExpr); !isCall {
					if f := w.funcObj(ue); f != nil && f.Pkg() != nil && w.analysed[f.Pkg().Path()] {
						if _, isIface := w.isIfaceCall(ue); !isIface {
							n := w.g.node(funcName(f))
							w.g.parents[[2]int{n.id, c.cur.id}] = true
							returnsOf[w.top] = append(returnsOf[w.top], n)
							continue
						}
					}
				}
			}
			w.expr(c, e)
		}
	case *ast.IncDecStmt:
		w.expr(c, x.X)
	case *ast.DeclStmt:
		if gd, ok := x.Decl.(*ast.GenDecl); ok {
			for _, sp := range gd.Specs {
				if vs, ok := sp.(*ast.ValueSpec); ok {
					for _, e := range vs.Values {
						w.expr(c, e)
					}
				}
			}
		}
	case *ast.ForStmt:
		w.stmt(c, x.Init)
		w.expr(c, x.Cond)
		w.stmt(c, x.Post)
		w.block(c, x.Body)
	case *ast.RangeStmt:
		w.expr(c, x.X)
		w.block(c, x.Body)
	case *ast.SwitchStmt:
		w.stmt(c, x.Init)
		w.expr(c, x.Tag)
		w.block(c, x.Body)
	case *ast.TypeSwitchStmt:
		w.stmt(c, x.Init)
		w.stmt(c, x.Assign)
		w.block(c, x.Body)
	case *ast.SelectStmt:
		w.block(c, x.Body)
	case *ast.CaseClause:
		for _, e := range x.List {
			w.expr(c, e)
		}
		for _, st := range x.Body {
			w.stmt(c, st)
		}
	case *ast.CommClause:
		w.stmt(c, x.Comm)
		for _, st := range x.Body {
			w.stmt(c, st)
		}
	case *ast.LabeledStmt:
		w.stmt(c, x.Stmt)
	case *ast.BranchStmt, *ast.EmptyStmt:
	default:
		w.g.lits[[2]string{fmt.Sprintf("<unhandled statement %T at %s>", s, w.pos(s)), "unhandled"}] = true
	}
}

// ---------------------------------------------------------------- main

func leanStr(s string) string {
	var b strings.Builder
	b.WriteByte('"')
	for _, r := range s {
		switch {
		case r == '"' || r == '\\':
			b.WriteByte('\\')
			b.WriteRune(r)
		case r < 32:
			fmt.Fprintf(&b, "\\x%02x", r)
		default:
			b.WriteRune(r)
		}
	}
	b.WriteByte('"')
	return b.String()
}

func main() {
	root := flag.String("root", "/repo", "repository root (a mutated copy is mapped over /repo with a build overlay)")
	out := flag.String("out", "", "Lean file to write")
	moddir := flag.String("moddir", ".", "directory of the harness module (go list runs there)")
	verbose := flag.Bool("v", false, "print the graph summary")
	flag.Parse()
	if *out == "" {
		fatal("-out is required")
	}
	ov, ovfile := loadOverlay(filepath.Clean(*root))
	if ovfile != "" {
		defer os.Remove(ovfile)
	}
	pkgs := goList(*moddir, ovfile)
	anSet := analysedSet
	for _, p := range analysed {
		anSet[p] = true
		lp := pkgs[p]
		if lp == nil {
			fatal("package %s not listed", p)
		}
		if lp.Error != nil {
			fatal("package %s: %s", p, lp.Error.Err)
		}
	}

	fset := token.NewFileSet()
	lookup := func(path string) (io.ReadCloser, error) {
		p := pkgs[path]
		if p == nil || p.Export == "" {
			return nil, fmt.Errorf("no export data for %s", path)
		}
		return os.Open(p.Export)
	}
	imp := importer.ForCompiler(fset, "gc", lookup)

	g := &graph{byName: map[string]*node{}, calls: map[edge]bool{}, sites: map[site]bool{}, goRoots: map[[2]string]bool{},
		tmRoots: map[int]bool{}, lits: map[[2]string]bool{}, sends: map[site]bool{}, extPkgs: map[string]bool{},
		facts: map[string]bool{}, parents: map[[2]int]bool{}}

	type loaded struct {
		lp    *listPkg
		files []*ast.File
		info  *types.Info
		tp    *types.Package
	}
	var lds []*loaded
	for _, path := range analysed {
		lp := pkgs[path]
		ld := &loaded{lp: lp}
		for _, gf := range lp.GoFiles {
			full := filepath.Join(lp.Dir, gf)
			read := full
			if r, ok := ov[full]; ok && r != "" {
				read = r
			}
			src, err := os.ReadFile(read)
			if err != nil {
				fatal("%v", err)
			}
			f, err := parser.ParseFile(fset, full, src, parser.SkipObjectResolution)
			if err != nil {
				fatal("parse %s: %v", read, err)
			}
			ld.files = append(ld.files, f)
		}
		ld.info = &types.Info{Types: map[ast.Expr]types.TypeAndValue{}, Uses: map[*ast.Ident]types.Object{},
			Defs: map[*ast.Ident]types.Object{}, Selections: map[*ast.SelectorExpr]*types.Selection{}}
		conf := types.Config{Importer: imp, Error: func(err error) {}}
		tp, err := conf.Check(path, fset, ld.files, ld.info)
		if err != nil {
			fatal("type-check %s: %v", path, err)
		}
		ld.tp = tp
		lds = append(lds, ld)
	}

	// pass 1: declare nodes; collect the method sets for CHA
	type methodOwner struct {
		named *types.Named
		pkg   string
	}
	var owners []methodOwner
	for _, ld := range lds {
		for _, f := range ld.files {
			for _, d := range f.Decls {
				fd, ok := d.(*ast.FuncDecl)
				if !ok {
					continue
				}
				obj, _ := ld.info.Defs[fd.Name].(*types.Func)
				if obj == nil {
					continue
				}
				if notAnalysed[funcName(obj)] {
					continue
				}
				n := g.node(funcName(obj))
				summarise(ld.info, fd, funcName(obj))
				n.exported = ast.IsExported(fd.Name.Name)
				p := fset.Position(fd.Pos())
				n.pos = fmt.Sprintf("%s:%d", filepath.Base(p.Filename), p.Line)
			}
		}
		sc := ld.tp.Scope()
		for _, nm := range sc.Names() {
			if tn, ok := sc.Lookup(nm).(*types.TypeName); ok {
				if named, ok := tn.Type().(*types.Named); ok {
					if _, isIface := named.Underlying().(*types.Interface); !isIface {
						owners = append(owners, methodOwner{named, ld.lp.ImportPath})
					}
				}
			}
		}
	}

	// pass 2: walk bodies
	for _, ld := range lds {
		for _, f := range ld.files {
			for _, d := range f.Decls {
				switch x := d.(type) {
				case *ast.FuncDecl:
					obj, _ := ld.info.Defs[x.Name].(*types.Func)
					if obj == nil || x.Body == nil || notAnalysed[funcName(obj)] {
						continue
					}
					w := &walker{g: g, info: ld.info, fset: fset, pkg: ld.tp, analysed: anSet, top: funcName(obj)}
					w.block(ctx{cur: g.node(funcName(obj))}, x.Body)
				case *ast.GenDecl:
					// package-level initialisers run once at start-up on the main goroutine
					for _, sp := range x.Specs {
						vs, ok := sp.(*ast.ValueSpec)
						if !ok {
							continue
						}
						for _, e := range vs.Values {
							w := &walker{g: g, info: ld.info, fset: fset, pkg: ld.tp, analysed: anSet, top: shortPath(ld.lp.ImportPath) + ".<init>"}
							w.expr(ctx{cur: g.node(shortPath(ld.lp.ImportPath) + ".<init>")}, e)
						}
					}
				}
			}
		}
	}

	// factories: the closures a function returns are used the way its callers use the result
	for f, nodes := range returnsOf {
		uses := factoryUses[f]
		for _, n := range nodes {
			if len(uses) == 0 {
				g.lits[[2]string{n.name, "return:" + f}] = true
				continue
			}
			for _, u := range uses {
				g.lits[[2]string{n.name, u.kind}] = true
				g.parents[[2]int{n.id, u.from}] = true
				applySem(g, u.from, u.direct, n, u.sem)
			}
		}
	}
	for f := range factoryUses {
		if len(returnsOf[f]) == 0 {
			g.lits[[2]string{"<function value returned by " + f + " is not a literal or named function>", "opaque-factory"}] = true
		}
	}

	// CHA: interface call -> analysed implementers
	for _, ic := range ifaceCalls {
		for _, o := range owners {
			for _, t := range []types.Type{o.named, types.NewPointer(o.named)} {
				if !types.Implements(t, ic.iface) {
					continue
				}
				obj, _, _ := types.LookupFieldOrMethod(t, true, o.named.Obj().Pkg(), ic.method)
				if f, ok := obj.(*types.Func); ok && f.Pkg() != nil && anSet[f.Pkg().Path()] {
					if n, ok := g.byName[funcName(f)]; ok {
						g.calls[edge{ic.from, n.id, ic.direct}] = true
						markFuncEscapes(funcName(f))
					}
				}
				break
			}
		}
	}
	for _, pe := range g.pending {
		n, ok := g.byName[pe.to]
		if !ok {
			n = g.node(pe.to) // declared without body (should not happen)
		}
		g.calls[edge{pe.from, n.id, pe.direct}] = true
	}

	resolveBound(g)

	// facts
	g.facts["NewStandardRunService creates its event centre with useChan=true"] = factStdCentre(lds[0].files)
	setters := 0
	for e := range g.calls {
		if g.nodes[e.b].name == "event.LocalEventCenter.SetLocalUseChan" {
			setters++
		}
	}
	g.facts["no analysed code calls LocalEventCenter.SetLocalUseChan"] = setters == 0

	emit(g, *out, *verbose)
}

// factStdCentre: the body of NewStandardRunService passes the literal `true` to event.NewLocalEventCenter
func factStdCentre(files []*ast.File) bool {
	ok := false
	n := 0
	for _, f := range files {
		for _, d := range f.Decls {
			fd, isF := d.(*ast.FuncDecl)
			if !isF || fd.Body == nil {
				continue
			}
			ast.Inspect(fd.Body, func(nd ast.Node) bool {
				c, isC := nd.(*ast.CallExpr)
				if !isC {
					return true
				}
				if sel, isS := c.Fun.(*ast.SelectorExpr); isS && sel.Sel.Name == "NewLocalEventCenter" {
					n++
					if len(c.Args) == 1 {
						if id, isI := c.Args[0].(*ast.Ident); isI && id.Name == "true" && fd.Name.Name == "NewStandardRunService" {
							ok = true
						}
					}
				}
				return true
			})
		}
	}
	return ok && n == 1
}
