package zoo

import "time"

type FuncWithSucc func(bool)
type A struct{}
type B struct{}
type C struct{}
type D struct{}
type E struct{}
type F struct{}
type G struct{}
type H struct{}
type I struct{}
type J struct{}
type K struct{}
type L struct{}
type M struct{}
type N struct{}

// ok: goroutine completes
func (a *A) Start(next FuncWithSucc) { go func() { time.Sleep(1); next(true) }() }
// ok: defer
func (a *A) Stop(next FuncWithSucc) { defer next(true); if x() { return } }
// bad: loop
func (b *B) Start(next FuncWithSucc) { for i := 0; i < 2; i++ { next(true) } }
// bad: timer callback (not interpreted)
func (b *B) Stop(next FuncWithSucc) { time.AfterFunc(1, func() { next(true) }) }
// bad: escapes
func (c *C) Start(next FuncWithSucc) { helper(next) }
// not once: return inside loop without next
func (c *C) Stop(next FuncWithSucc) { for { if x() { return } }; next(true) }
// not once: closure return does not leave outer
func (d *D) Start(next FuncWithSucc) { func() { if x() { next(false); return } }(); next(true) }
// ok: closure with own return, outer unaffected
func (d *D) Stop(next FuncWithSucc) { func() { if x() { return } }(); next(true) }
// bad: shadow
func (e *E) Start(next FuncWithSucc) { next := func(bool) {}; next(true) }
// bad: condition mentions next
func (e *E) Stop(next FuncWithSucc) { if next != nil { next(true) } }
// ok: switch with default
func (f *F) Start(next FuncWithSucc) { switch y() { case 1: next(false); case 2: next(true); default: next(true) } }
// not once: switch without default
func (f *F) Stop(next FuncWithSucc) { switch y() { case 1: next(false); case 2: next(true) } }
// not once: panic path before completion
func (g *G) Start(next FuncWithSucc) { if x() { panic("boom") }; next(true) }
// ok: unknown arg
func (g *G) Stop(next FuncWithSucc) { err := z(); next(err == nil) }
// unnamed param: never completes
func (h *H) Start(FuncWithSucc) {}
// func(bool) signature ok
func (h *H) Stop(done func(succ bool)) { done(true) }
// suspicious signature
func (i *I) Start(next func()) { next() }
// not a module (ignored)
func (i *I) Stop(n int) {}
// else-if chain ok
func (j *J) Start(next FuncWithSucc) { if x() { next(true) } else if x() { next(false) } else { next(true) } }
// not once: else-if chain without final else
func (j *J) Stop(next FuncWithSucc) { if x() { next(true) } else if x() { next(false) } }
// bad: select
func (k *K) Start(next FuncWithSucc) { select { case <-ch: next(true) } }
// bad: goto/label
func (k *K) Stop(next FuncWithSucc) { goto end; end: next(true) }
// bad: assignment of next
func (l *L) Start(next FuncWithSucc) { l2 := next; l2(true) }
// ok: go next
func (l *L) Stop(next FuncWithSucc) { go next(true) }
// bad: closure param shadows
func (m *M) Start(next FuncWithSucc) { func(next FuncWithSucc) { next(true) }(nil) }
// bad: fallthrough
func (m *M) Stop(next FuncWithSucc) { switch y() { case 1: fallthrough; default: next(true) } }
// not once: defer + explicit
func (n *N) Start(next FuncWithSucc) { defer func() { next(true) }(); next(true) }
// bad: break in switch
func (n *N) Stop(next FuncWithSucc) { switch y() { case 1: if x() { break }; next(true); default: next(true) } }
