package main

import "testing"

// The translator must be conservative: on this zoo of constructs exactly the
// listed bodies may be accepted as "completes exactly once on every path".
func TestZoo(t *testing.T) {
	once := map[string]bool{
		"zoo.A.Start": true, // go func(){ ..; next(true) }()
		"zoo.A.Stop":  true, // defer next(true); early return
		"zoo.D.Stop":  true, // closure with its own return
		"zoo.F.Start": true, // switch with default
		"zoo.G.Stop":  true, // next(err == nil)
		"zoo.H.Stop":  true, // func(succ bool) signature
		"zoo.J.Start": true, // if / else if / else
		"zoo.L.Stop":  true, // go next(true)
	}
	mods := collect("testdata/root", "node/modules", nil)
	if len(mods) != 27 {
		t.Fatalf("expected 27 bodies, got %d", len(mods))
	}
	for _, m := range mods {
		if m.Once != once[m.Name] {
			t.Errorf("%s: once=%v, expected %v (paths %v, notes %v)", m.Name, m.Once, once[m.Name], m.Paths, m.Notes)
		}
	}
}
