// Command c11 is the C11 translator: it turns the body of every Start/Stop
// method of the modules shipped under <root>/node/modules into a term of the
// tiny statement language of lean/Cell2v/Model/Modules.lean (Stmt) and writes
//
//	-out  <file>.lean   definitions `Cell2v.Gen.C11.shipped : List ShippedBody`
//	-json <file>.json   the same bodies as distinct `next` call sequences per path
//	                    (replayed by harness/c11 through the real ModList)
//
// It is deliberately conservative: every construct it does not interpret and
// that mentions the completion callback (or may leave the function) becomes
// `Stmt.bad`, which makes the proof obligation `shipped_modules_complete_once`
// fail.  go/ast only — no type information.
//
// Sources are read from -root (default /repo).  A `-overlay=<json>` inside the
// environment variable VERIF_GO_FLAGS (the development aid of bin/check) is
// honoured, so a mutated copy of a file can be translated without touching /repo.
package main

import (
	"encoding/json"
	"flag"
	"fmt"
	"go/ast"
	"go/parser"
	"go/token"
	"os"
	"path/filepath"
	"sort"
	"strings"
)

// ---- term language ----------------------------------------------------------

type stmt struct {
	k    string // skip | call | ret | seq | ite | closure | bad
	b    string // call: "T" | "F" | "?"
	c    int    // ite: condition number
	a, e *stmt  // seq: a;e   ite: then/else   closure: a
	why  string
}

var skip = &stmt{k: "skip"}

func seq(a, b *stmt) *stmt {
	if a.k == "skip" {
		return b
	}
	if b.k == "skip" {
		return a
	}
	return &stmt{k: "seq", a: a, e: b}
}

func bad(why string) *stmt { return &stmt{k: "bad", why: why} }

func (s *stmt) lean() string {
	switch s.k {
	case "skip":
		return ".skip"
	case "call":
		switch s.b {
		case "T":
			return ".callNext (some true)"
		case "F":
			return ".callNext (some false)"
		}
		return ".callNext none"
	case "ret":
		return ".ret"
	case "seq":
		return "(.seq " + paren(s.a.lean()) + " " + paren(s.e.lean()) + ")"
	case "ite":
		return fmt.Sprintf("(.ite %d %s %s)", s.c, paren(s.a.lean()), paren(s.e.lean()))
	case "closure":
		return "(.closure " + paren(s.a.lean()) + ")"
	}
	return "(.bad " + leanString(s.why) + ")"
}

func paren(x string) string {
	if strings.HasPrefix(x, "(") || !strings.Contains(x, " ") {
		return x
	}
	return "(" + x + ")"
}

func leanString(x string) string {
	var sb strings.Builder
	sb.WriteByte('"')
	for _, r := range x {
		switch {
		case r == '"' || r == '\\':
			sb.WriteByte('\\')
			sb.WriteRune(r)
		case r < 32 || r > 126:
			sb.WriteByte('?')
		default:
			sb.WriteRune(r)
		}
	}
	sb.WriteByte('"')
	return sb.String()
}

type path struct {
	calls    []string
	returned bool
}

const maxPaths = 1024

// paths mirrors Stmt.paths of the Lean model.
func (s *stmt) paths() []path {
	switch s.k {
	case "skip", "bad":
		return []path{{}}
	case "call":
		return []path{{calls: []string{s.b}}}
	case "ret":
		return []path{{returned: true}}
	case "seq":
		var out []path
		pb := s.e.paths()
		for _, ra := range s.a.paths() {
			if ra.returned {
				out = append(out, ra)
				continue
			}
			for _, rb := range pb {
				out = append(out, path{calls: append(append([]string{}, ra.calls...), rb.calls...), returned: rb.returned})
				if len(out) > maxPaths {
					return out
				}
			}
		}
		return out
	case "ite":
		return append(append([]path{}, s.a.paths()...), s.e.paths()...)
	case "closure":
		var out []path
		for _, r := range s.a.paths() {
			out = append(out, path{calls: r.calls})
		}
		return out
	}
	return nil
}

func (s *stmt) clean() bool {
	switch s.k {
	case "bad":
		return false
	case "seq", "ite":
		return s.a.clean() && s.e.clean()
	case "closure":
		return s.a.clean()
	}
	return true
}

// ---- translation --------------------------------------------------------------

type tr struct {
	next  string // name of the completion callback parameter ("" = unnamed)
	conds int
	fset  *token.FileSet
}

func (t *tr) mentions(n ast.Node) bool {
	if n == nil || t.next == "" {
		return false
	}
	found := false
	ast.Inspect(n, func(x ast.Node) bool {
		if id, ok := x.(*ast.Ident); ok && id.Name == t.next {
			found = true
		}
		return !found
	})
	return found
}

// leaves reports a return statement or a panic(..) call outside nested function literals.
func leaves(n ast.Node) bool {
	if n == nil {
		return false
	}
	found := false
	ast.Inspect(n, func(x ast.Node) bool {
		switch y := x.(type) {
		case *ast.FuncLit:
			return false
		case *ast.ReturnStmt:
			found = true
		case *ast.BranchStmt:
			if y.Tok == token.GOTO {
				found = true
			}
		case *ast.CallExpr:
			if id, ok := y.Fun.(*ast.Ident); ok && id.Name == "panic" {
				found = true
			}
		}
		return !found
	})
	return found
}

func (t *tr) pos(n ast.Node) string {
	p := t.fset.Position(n.Pos())
	return fmt.Sprintf("%s:%d", filepath.Base(p.Filename), p.Line)
}

func (t *tr) opaque(n ast.Node, what string) *stmt {
	if n == nil {
		return skip
	}
	if t.mentions(n) {
		return bad(what + " involving the completion callback at " + t.pos(n))
	}
	if leaves(n) {
		return bad(what + " that may leave the function at " + t.pos(n))
	}
	return skip
}

func (t *tr) block(list []ast.Stmt) *stmt {
	ts := make([]*stmt, len(list))
	for i, s := range list {
		ts[i] = t.stmt(s) // in source order, so that conditions are numbered top-down
	}
	out := skip
	for i := len(ts) - 1; i >= 0; i-- {
		out = seq(ts[i], out)
	}
	return out
}

// call interprets a call expression in statement position (plain, go, defer).
func (t *tr) call(c *ast.CallExpr, what string) *stmt {
	switch f := c.Fun.(type) {
	case *ast.Ident:
		if t.next != "" && f.Name == t.next {
			if len(c.Args) != 1 || t.mentions(c.Args[0]) {
				return bad("unexpected arguments of the completion callback at " + t.pos(c))
			}
			b := "?"
			if id, ok := c.Args[0].(*ast.Ident); ok && (id.Name == "true" || id.Name == "false") {
				b = map[string]string{"true": "T", "false": "F"}[id.Name]
			}
			return &stmt{k: "call", b: b}
		}
		if f.Name == "panic" && what == "call" {
			if t.mentions(c) {
				return bad("panic involving the completion callback at " + t.pos(c))
			}
			return &stmt{k: "ret"}
		}
	case *ast.FuncLit:
		for _, a := range c.Args {
			if t.mentions(a) {
				return bad("completion callback passed to a closure at " + t.pos(c))
			}
		}
		if f.Type.Params != nil {
			for _, fld := range f.Type.Params.List {
				for _, nm := range fld.Names {
					if nm.Name == t.next {
						return bad("closure parameter shadows the completion callback at " + t.pos(c))
					}
				}
			}
		}
		if !t.mentions(f.Body) {
			return skip // a closure that cannot complete the module (its own returns are local)
		}
		return &stmt{k: "closure", a: t.block(f.Body.List)}
	}
	if t.mentions(c) {
		return bad(what + " involving the completion callback at " + t.pos(c))
	}
	return skip
}

func (t *tr) stmt(s ast.Stmt) *stmt {
	switch x := s.(type) {
	case nil:
		return skip
	case *ast.BlockStmt:
		return t.block(x.List)
	case *ast.ExprStmt:
		if c, ok := x.X.(*ast.CallExpr); ok {
			return t.call(c, "call")
		}
		return t.opaque(x, "expression")
	case *ast.GoStmt:
		return t.call(x.Call, "go statement")
	case *ast.DeferStmt:
		return t.call(x.Call, "defer statement")
	case *ast.ReturnStmt:
		if t.mentions(x) {
			return bad("return value involving the completion callback at " + t.pos(x))
		}
		return &stmt{k: "ret"}
	case *ast.IfStmt:
		if !t.mentions(x) && !leaves(x) {
			return skip
		}
		if t.mentions(x.Cond) {
			return bad("condition involving the completion callback at " + t.pos(x))
		}
		init := skip
		if x.Init != nil {
			init = t.opaque(x.Init, "if-initialiser")
		}
		c := t.conds
		t.conds++
		th := t.block(x.Body.List)
		el := skip
		if x.Else != nil {
			el = t.stmt(x.Else)
		}
		return seq(init, &stmt{k: "ite", c: c, a: th, e: el})
	case *ast.SwitchStmt:
		if !t.mentions(x) && !leaves(x) {
			return skip
		}
		if t.mentions(x.Tag) || t.mentions(x.Init) {
			return bad("switch header involving the completion callback at " + t.pos(x))
		}
		return t.clauses(x.Body.List, x)
	case *ast.TypeSwitchStmt:
		if !t.mentions(x) && !leaves(x) {
			return skip
		}
		if t.mentions(x.Assign) || t.mentions(x.Init) {
			return bad("switch header involving the completion callback at " + t.pos(x))
		}
		return t.clauses(x.Body.List, x)
	case *ast.LabeledStmt:
		if !t.mentions(x) && !leaves(x) {
			return skip
		}
		return bad("labeled statement at " + t.pos(x))
	case *ast.BranchStmt:
		return bad("branch statement (" + x.Tok.String() + ") at " + t.pos(x))
	case *ast.ForStmt, *ast.RangeStmt, *ast.SelectStmt:
		return t.opaque(x, "loop/select")
	default: // assignments, declarations, inc/dec, send, empty
		return t.opaque(x, "statement")
	}
}

// clauses turns `case` clauses into a chain of opaque conditions.
func (t *tr) clauses(list []ast.Stmt, sw ast.Node) *stmt {
	type cl struct {
		body []ast.Stmt
		def  bool
	}
	var cs []cl
	for _, s := range list {
		cc, ok := s.(*ast.CaseClause)
		if !ok {
			return bad("unexpected switch body at " + t.pos(sw))
		}
		for _, e := range cc.List {
			if t.mentions(e) {
				return bad("case expression involving the completion callback at " + t.pos(cc))
			}
		}
		// break / fallthrough / goto / continue anywhere in a clause (also nested in an `if`) changes
		// which statements of the clause run: not interpreted
		var branch *ast.BranchStmt
		for _, b := range cc.Body {
			ast.Inspect(b, func(x ast.Node) bool {
				switch y := x.(type) {
				case *ast.FuncLit:
					return false
				case *ast.BranchStmt:
					if branch == nil {
						branch = y
					}
				}
				return branch == nil
			})
		}
		if branch != nil {
			return bad(branch.Tok.String() + " inside a switch clause at " + t.pos(branch))
		}
		cs = append(cs, cl{cc.Body, cc.List == nil})
	}
	out := skip
	for _, c := range cs {
		if c.def {
			out = t.block(c.body)
		}
	}
	for i := len(cs) - 1; i >= 0; i-- {
		if cs[i].def {
			continue
		}
		c := t.conds
		t.conds++
		out = &stmt{k: "ite", c: c, a: t.block(cs[i].body), e: out}
	}
	return out
}

// ---- source discovery ---------------------------------------------------------------

type overlay struct{ Replace map[string]string }

func loadOverlay() map[string]string {
	for _, f := range strings.Fields(os.Getenv("VERIF_GO_FLAGS")) {
		if strings.HasPrefix(f, "-overlay=") {
			b, err := os.ReadFile(strings.TrimPrefix(f, "-overlay="))
			if err != nil {
				fatal("cannot read overlay: %v", err)
			}
			var o overlay
			if err := json.Unmarshal(b, &o); err != nil {
				fatal("cannot parse overlay: %v", err)
			}
			return o.Replace
		}
	}
	return nil
}

func fatal(f string, a ...interface{}) {
	fmt.Fprintf(os.Stderr, "extract/c11: "+f+"\n", a...)
	os.Exit(2)
}

type module struct {
	Name  string     `json:"name"`
	File  string     `json:"file"`
	Line  int        `json:"line"`
	Phase string     `json:"phase"`
	Clean bool       `json:"clean"`
	Once  bool       `json:"once"`
	Paths [][]string `json:"paths"`
	Notes []string   `json:"notes,omitempty"`
	term  *stmt
}

func recvName(e ast.Expr) string {
	switch x := e.(type) {
	case *ast.StarExpr:
		return recvName(x.X)
	case *ast.Ident:
		return x.Name
	case *ast.IndexExpr:
		return recvName(x.X)
	}
	return "?"
}

// callbackParam classifies the single parameter: 1 = completion callback, 0 = not a module method, -1 = suspicious.
func callbackParam(e ast.Expr) int {
	switch x := e.(type) {
	case *ast.SelectorExpr:
		if x.Sel.Name == "FuncWithSucc" {
			return 1
		}
		if strings.Contains(x.Sel.Name, "Func") {
			return -1
		}
	case *ast.Ident:
		if x.Name == "FuncWithSucc" {
			return 1
		}
		if strings.Contains(x.Name, "Func") {
			return -1
		}
	case *ast.FuncType:
		if x.Results == nil && x.Params != nil && len(x.Params.List) == 1 && len(x.Params.List[0].Names) <= 1 {
			if id, ok := x.Params.List[0].Type.(*ast.Ident); ok && id.Name == "bool" {
				return 1
			}
		}
		return -1
	}
	return 0
}

func collectBad(s *stmt, out *[]string) {
	if s == nil {
		return
	}
	if s.k == "bad" {
		*out = append(*out, s.why)
	}
	collectBad(s.a, out)
	collectBad(s.e, out)
}

// collect translates every Start/Stop method of the modules below root/dir.
func collect(root, dir string, ov map[string]string) []*module {
	base := filepath.Join(root, dir)
	files := map[string]string{} // logical path -> path to read
	err := filepath.Walk(base, func(p string, info os.FileInfo, err error) error {
		if err != nil {
			return err
		}
		if !info.IsDir() && strings.HasSuffix(p, ".go") && !strings.HasSuffix(p, "_test.go") {
			files[p] = p
		}
		return nil
	})
	if err != nil {
		fatal("cannot walk %s: %v", base, err)
	}
	for k, v := range ov {
		if strings.HasPrefix(k, base+string(filepath.Separator)) && strings.HasSuffix(k, ".go") && !strings.HasSuffix(k, "_test.go") {
			if v == "" {
				delete(files, k)
			} else {
				files[k] = v
			}
		}
	}
	var names []string
	for k := range files {
		names = append(names, k)
	}
	sort.Strings(names)

	var mods []*module
	fset := token.NewFileSet()
	for _, logical := range names {
		src, err := os.ReadFile(files[logical])
		if err != nil {
			fatal("%v", err)
		}
		f, err := parser.ParseFile(fset, logical, src, 0)
		if err != nil {
			fatal("cannot parse %s: %v", logical, err)
		}
		rel, _ := filepath.Rel(root, logical)
		for _, d := range f.Decls {
			fd, ok := d.(*ast.FuncDecl)
			if !ok || fd.Recv == nil || len(fd.Recv.List) != 1 || (fd.Name.Name != "Start" && fd.Name.Name != "Stop") {
				continue
			}
			ps := fd.Type.Params
			if ps == nil || len(ps.List) != 1 || len(ps.List[0].Names) > 1 {
				continue
			}
			kind := callbackParam(ps.List[0].Type)
			if kind == 0 {
				continue
			}
			m := &module{Name: f.Name.Name + "." + recvName(fd.Recv.List[0].Type) + "." + fd.Name.Name, File: rel,
				Line: fset.Position(fd.Pos()).Line, Phase: strings.ToLower(fd.Name.Name)}
			t := &tr{fset: fset}
			if len(ps.List[0].Names) == 1 && ps.List[0].Names[0].Name != "_" {
				t.next = ps.List[0].Names[0].Name
			}
			switch {
			case kind < 0:
				m.term = bad("unrecognised callback signature at " + t.pos(fd))
			case fd.Body == nil:
				m.term = bad("method without body at " + t.pos(fd))
			default:
				m.term = t.block(fd.Body.List)
			}
			pths := m.term.paths()
			if len(pths) > maxPaths {
				m.term = bad("more than 1024 paths at " + t.pos(fd))
				pths = m.term.paths()
			}
			m.Clean = m.term.clean()
			m.Once = m.Clean
			seen := map[string]bool{}
			for _, p := range pths {
				if len(p.calls) != 1 {
					m.Once = false
				}
				k := strings.Join(p.calls, "")
				if !seen[k] {
					seen[k] = true
					m.Paths = append(m.Paths, append([]string{}, p.calls...))
				}
			}
			sort.Slice(m.Paths, func(i, j int) bool { return strings.Join(m.Paths[i], "") < strings.Join(m.Paths[j], "") })
			collectBad(m.term, &m.Notes)
			mods = append(mods, m)
		}
	}
	sort.SliceStable(mods, func(i, j int) bool { return mods[i].Name < mods[j].Name })
	return mods
}

func main() {
	root := flag.String("root", "/repo", "repository root")
	dir := flag.String("dir", "node/modules", "directory (below root) holding the shipped modules")
	out := flag.String("out", "", "Lean file to write")
	jsonOut := flag.String("json", "", "JSON file to write (default: <out> with .json)")
	flag.Parse()
	if *out == "" {
		fatal("-out is required")
	}
	if *jsonOut == "" {
		*jsonOut = strings.TrimSuffix(*out, ".lean") + ".json"
	}
	mods := collect(*root, *dir, loadOverlay())

	var sb strings.Builder
	sb.WriteString("import Cell2v.Model.Modules\n")
	sb.WriteString("/-! GENERATED by harness/extract/c11 from the Start/Stop bodies under " + *dir + " — regenerated on every run, do not edit -/\n")
	sb.WriteString("namespace Cell2v.Gen.C11\nopen Cell2v.Modules\n\n")
	for i, m := range mods {
		fmt.Fprintf(&sb, "/-- %s  (%s:%d) -/\ndef body_%d : Stmt :=\n  %s\n\n", m.Name, m.File, m.Line, i, m.term.lean())
	}
	sb.WriteString("def shipped : List ShippedBody := [")
	for i, m := range mods {
		if i > 0 {
			sb.WriteString(",")
		}
		fmt.Fprintf(&sb, "\n  ⟨%s, body_%d⟩", leanString(m.Name), i)
	}
	sb.WriteString("]\n\nend Cell2v.Gen.C11\n")
	writeIfChanged(*out, []byte(sb.String()))

	js, _ := json.MarshalIndent(map[string]interface{}{"root": *root, "dir": *dir, "modules": mods}, "", " ")
	writeIfChanged(*jsonOut, append(js, '\n'))
	failing := 0
	for _, m := range mods {
		status := "once"
		if !m.Once {
			status = "NOT-ONCE"
			failing++
		}
		fmt.Printf("%-48s %-8s next-calls per path=%v %s\n", m.Name, status, m.Paths, strings.Join(m.Notes, "; "))
	}
	if failing > 0 {
		// both files are written; the Lean obligation shipped_modules_complete_once will not check
		fmt.Printf("%d shipped module bodies do not provably call the completion callback exactly once on every path\n", failing)
		os.Exit(3)
	}
}

func writeIfChanged(p string, b []byte) {
	if old, err := os.ReadFile(p); err == nil && string(old) == string(b) {
		return
	}
	if err := os.MkdirAll(filepath.Dir(p), 0o755); err != nil {
		fatal("%v", err)
	}
	if err := os.WriteFile(p, b, 0o644); err != nil {
		fatal("%v", err)
	}
}
