// Translator for C15: reads /repo/utils/sche (non-test files, go/ast only) and
// regenerates lean/Cell2v/Gen/C15Consts.lean with the facts the Lean theorems
// about the scheduler are stated over:
//
//	selfBlockDefend          initial value of the package variable
//	selfBlockDefendAssigned  does any statement outside tests assign it / take its address
//	queueSize                the constant QueueSize
//	chanCapIsQueueSize       NewSche makes chanTask with capacity QueueSize
//	doTaskRecovers           (*Sche).doTask defers a function that calls recover()
//	postRecovers             (*Sche).Post   defers a function that calls recover()
//
// Run from /verif/harness:  go1.26 run ./extract/c15 -out ../lean/Cell2v/Gen/C15Consts.lean
// A `-overlay=<json>` inside $VERIF_GO_FLAGS is honoured (same file the harness
// build is given), so that a mutated copy of sche.go is translated, not /repo's.
package main

import (
	"encoding/json"
	"flag"
	"fmt"
	"go/ast"
	"go/parser"
	"go/token"
	"os"
	"path/filepath"
	"sort"
	"strconv"
	"strings"
)

func overlayMap() map[string]string {
	for _, f := range strings.Fields(os.Getenv("VERIF_GO_FLAGS")) {
		if strings.HasPrefix(f, "-overlay=") {
			b, err := os.ReadFile(strings.TrimPrefix(f, "-overlay="))
			if err != nil {
				fail("cannot read overlay: %v", err)
			}
			var o struct{ Replace map[string]string }
			if err := json.Unmarshal(b, &o); err != nil {
				fail("bad overlay json: %v", err)
			}
			return o.Replace
		}
	}
	return nil
}

func fail(f string, a ...interface{}) {
	fmt.Fprintf(os.Stderr, "extract/c15: "+f+"\n", a...)
	os.Exit(2)
}

// callsRecover: does the body contain a direct call of the builtin recover()
// (not inside a nested function literal)?
func callsRecover(body *ast.BlockStmt) bool {
	found := false
	if body == nil {
		return false
	}
	ast.Inspect(body, func(n ast.Node) bool {
		switch x := n.(type) {
		case *ast.FuncLit:
			return false
		case *ast.CallExpr:
			if id, ok := x.Fun.(*ast.Ident); ok && id.Name == "recover" && len(x.Args) == 0 {
				found = true
			}
		}
		return true
	})
	return found
}

func main() {
	root := flag.String("root", "/repo", "repository root")
	out := flag.String("out", "", "Lean file to write (default: stdout)")
	flag.Parse()
	dir := filepath.Join(*root, "utils", "sche")
	ov := overlayMap()
	ents, err := os.ReadDir(dir)
	if err != nil {
		fail("%v", err)
	}
	nameSet := map[string]bool{}
	for _, e := range ents {
		n := e.Name()
		if strings.HasSuffix(n, ".go") && !strings.HasSuffix(n, "_test.go") {
			nameSet[n] = true
		}
	}
	for k, v := range ov { // files an overlay adds to / deletes from the package
		if filepath.Dir(k) == dir && strings.HasSuffix(k, ".go") && !strings.HasSuffix(k, "_test.go") {
			if v == "" {
				delete(nameSet, filepath.Base(k))
			} else {
				nameSet[filepath.Base(k)] = true
			}
		}
	}
	var names []string
	for n := range nameSet {
		names = append(names, n)
	}
	sort.Strings(names)
	fset := token.NewFileSet()
	var files []*ast.File
	for _, n := range names {
		p := filepath.Join(dir, n)
		src := p
		if r, ok := ov[p]; ok {
			src = r
		}
		b, err := os.ReadFile(src)
		if err != nil {
			fail("%v", err)
		}
		f, err := parser.ParseFile(fset, p, b, parser.SkipObjectResolution)
		if err != nil {
			fail("parse %s: %v", src, err)
		}
		files = append(files, f)
	}

	defendInit, defendFound := "unknown", false
	queueSize, queueFound := 0, false
	funcs := map[string]*ast.FuncDecl{} // "Recv.Name" or "Name"
	for _, f := range files {
		for _, d := range f.Decls {
			switch x := d.(type) {
			case *ast.GenDecl:
				for _, s := range x.Specs {
					vs, ok := s.(*ast.ValueSpec)
					if !ok {
						continue
					}
					for i, nm := range vs.Names {
						if nm.Name == "selfBlockDefend" && x.Tok == token.VAR {
							defendFound = true
							if i < len(vs.Values) {
								if id, ok := vs.Values[i].(*ast.Ident); ok && (id.Name == "true" || id.Name == "false") {
									defendInit = id.Name
								}
							} else if len(vs.Values) == 0 {
								if id, ok := vs.Type.(*ast.Ident); ok && id.Name == "bool" {
									defendInit = "false" // zero value
								}
							}
						}
						if nm.Name == "QueueSize" && x.Tok == token.CONST && i < len(vs.Values) {
							if bl, ok := vs.Values[i].(*ast.BasicLit); ok && bl.Kind == token.INT {
								if v, err := strconv.ParseInt(bl.Value, 0, 64); err == nil && v >= 0 {
									queueSize, queueFound = int(v), true
								}
							}
						}
					}
				}
			case *ast.FuncDecl:
				key := x.Name.Name
				if x.Recv != nil && len(x.Recv.List) == 1 {
					t := x.Recv.List[0].Type
					if st, ok := t.(*ast.StarExpr); ok {
						t = st.X
					}
					if id, ok := t.(*ast.Ident); ok {
						key = id.Name + "." + key
					}
				}
				funcs[key] = x
			}
		}
	}
	if !defendFound {
		fail("package variable selfBlockDefend not found in %s", dir)
	}
	if !queueFound {
		fail("integer constant QueueSize not found in %s", dir)
	}

	// any write to / address-of selfBlockDefend outside its declaration.
	// A function that declares a local of the same name is skipped as a whole
	// only if it never mentions the package variable otherwise; to stay on the
	// safe side every syntactic assignment to that name counts.
	assigned := false
	isDefend := func(e ast.Expr) bool {
		for {
			if p, ok := e.(*ast.ParenExpr); ok {
				e = p.X
				continue
			}
			break
		}
		id, ok := e.(*ast.Ident)
		return ok && id.Name == "selfBlockDefend"
	}
	for _, f := range files {
		ast.Inspect(f, func(n ast.Node) bool {
			switch x := n.(type) {
			case *ast.AssignStmt:
				for _, l := range x.Lhs {
					if isDefend(l) {
						assigned = true
					}
				}
			case *ast.IncDecStmt:
				if isDefend(x.X) {
					assigned = true
				}
			case *ast.UnaryExpr:
				if x.Op == token.AND && isDefend(x.X) {
					assigned = true
				}
			case *ast.RangeStmt:
				if (x.Key != nil && isDefend(x.Key)) || (x.Value != nil && isDefend(x.Value)) {
					assigned = true
				}
			}
			return true
		})
	}

	// recover discipline: a `defer` whose callee is a function literal calling
	// recover() directly, or a function/method of this package that does.
	defersRecover := func(key string) bool {
		fd := funcs[key]
		if fd == nil || fd.Body == nil {
			return false
		}
		ok := false
		for _, st := range fd.Body.List { // top-level statements only: the defer must cover the whole body
			ds, isDefer := st.(*ast.DeferStmt)
			if !isDefer {
				continue
			}
			switch fn := ds.Call.Fun.(type) {
			case *ast.FuncLit:
				if callsRecover(fn.Body) {
					ok = true
				}
			case *ast.Ident:
				if g := funcs[fn.Name]; g != nil && callsRecover(g.Body) {
					ok = true
				}
			case *ast.SelectorExpr:
				for k, g := range funcs {
					if strings.HasSuffix(k, "."+fn.Sel.Name) && callsRecover(g.Body) {
						ok = true
					}
				}
			}
		}
		return ok
	}

	// the task channel: every `make(chan *RunTask, <cap>)` of the package (whatever the field that holds it is
	// called, wherever the constructor puts it) must use the constant QueueSize as its capacity, and there
	// must be at least one.  (Formerly keyed on the field name `chanTask` inside NewSche: a harmless rename
	// of that unexported field was reported as a broken obligation - false alarm C15-indh-h9, repaired.)
	capIsQS := false
	capOther := false
	isRunTaskChan := func(e ast.Expr) bool {
		ct, ok := e.(*ast.ChanType)
		if !ok {
			return false
		}
		t := ct.Value
		if st, ok := t.(*ast.StarExpr); ok {
			t = st.X
		}
		id, ok := t.(*ast.Ident)
		return ok && id.Name == "RunTask"
	}
	for _, f := range files {
		ast.Inspect(f, func(n ast.Node) bool {
			c, ok := n.(*ast.CallExpr)
			if !ok {
				return true
			}
			id, ok := c.Fun.(*ast.Ident)
			if !ok || id.Name != "make" || len(c.Args) < 1 || !isRunTaskChan(c.Args[0]) {
				return true
			}
			if len(c.Args) == 2 {
				if a, ok := c.Args[1].(*ast.Ident); ok && a.Name == "QueueSize" {
					capIsQS = true
					return true
				}
			}
			capOther = true // unbuffered, or another capacity
			return true
		})
	}
	capIsQS = capIsQS && !capOther

	b2 := func(b bool) string {
		if b {
			return "true"
		}
		return "false"
	}
	// an initial value that is not a literal is treated as "enabled" (conservative)
	initLean := defendInit
	if initLean == "unknown" {
		initLean = "true"
	}
	var sb strings.Builder
	sb.WriteString("-- GENERATED by /verif/harness/extract/c15 from " + dir + " (non-test files) on every run of bin/check C15.\n")
	sb.WriteString("-- Do not edit: the property theorems of C15 are re-checked against this file.\n")
	sb.WriteString("namespace Cell2v.Gen.C15\n\n")
	sb.WriteString("/-- initial value of the package variable `selfBlockDefend` (a non-literal initialiser counts as `true`) -/\n")
	sb.WriteString("def selfBlockDefend : Bool := " + initLean + "\n\n")
	sb.WriteString("/-- some statement outside the tests assigns `selfBlockDefend` or takes its address -/\n")
	sb.WriteString("def selfBlockDefendAssigned : Bool := " + b2(assigned) + "\n\n")
	sb.WriteString("/-- the constant `QueueSize` -/\n")
	sb.WriteString("def queueSize : Nat := " + strconv.Itoa(queueSize) + "\n\n")
	sb.WriteString("/-- every `make(chan *RunTask, n)` of the package has n = `QueueSize` (and there is one) -/\n")
	sb.WriteString("def chanCapIsQueueSize : Bool := " + b2(capIsQS) + "\n\n")
	sb.WriteString("/-- `(*Sche).doTask` (or `DoTask`, which wraps it) defers a function that calls `recover()` -/\n")
	sb.WriteString("def doTaskRecovers : Bool := " + b2(defersRecover("Sche.doTask") || defersRecover("Sche.DoTask")) + "\n\n")
	sb.WriteString("/-- `(*Sche).Post` defers a function that calls `recover()` -/\n")
	sb.WriteString("def postRecovers : Bool := " + b2(defersRecover("Sche.Post")) + "\n\n")
	sb.WriteString("end Cell2v.Gen.C15\n")
	if *out == "" {
		fmt.Print(sb.String())
		return
	}
	old, _ := os.ReadFile(*out)
	if string(old) == sb.String() {
		return // unchanged: keep the timestamp so that lake does not rebuild
	}
	if err := os.MkdirAll(filepath.Dir(*out), 0o755); err != nil {
		fail("%v", err)
	}
	if err := os.WriteFile(*out, []byte(sb.String()), 0o644); err != nil {
		fail("%v", err)
	}
}
