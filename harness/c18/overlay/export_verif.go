package center

// White-box accessors for the C18 correspondence harness.  This file is NOT part
// of /repo: it is mapped into the package directory at build time only
// (go test -overlay=.../overlay.json).  Read-only, except VerifUpdate which calls
// the periodic update the 1 s timer of PlayerMgr.Start would call.

type VerifPlayer struct {
	Present   bool
	State     int
	StTimeout int64
	Lock      bool
	Reason    int
	LkTimeout int64
	Front     string
	Net       uint32
	Logic     string
}

type VerifTask struct {
	Present bool
	Front   string
	Net     uint32
	Start   int64
}

func (m *PlayerMgr) VerifPlayer(uid int64) VerifPlayer {
	p := m.players[uid]
	if p == nil {
		return VerifPlayer{}
	}
	return VerifPlayer{Present: true, State: p.GetState(), StTimeout: p.state.VerifTimeout(),
		Lock: p.lock.lock, Reason: p.lock.reason, LkTimeout: p.lock.timeout,
		Front: p.FrontId, Net: p.NetId, Logic: p.logicId}
}

func (m *PlayerMgr) VerifTask(uid int64) VerifTask {
	t := m.kickWaitMgr.tasks[uid]
	if t == nil {
		return VerifTask{}
	}
	return VerifTask{Present: true, Front: t.frontId, Net: t.netId, Start: t.startTime}
}

func (m *PlayerMgr) VerifCounts() (players int, tasks int) {
	return len(m.players), len(m.kickWaitMgr.tasks)
}

func (m *PlayerMgr) VerifNextCheck() int64 { return m.kickWaitMgr.nextCheckExpired }

func (m *PlayerMgr) VerifUpdate() { m.update() }
