package center

// The one thing the C18 harness cannot reach from outside the package: the periodic update that
// the 1 s timer of PlayerMgr.Start calls.  This file is NOT part of /repo; it is mapped into the package
// directory at build time only (go test -overlay=.../overlay.json).  Everything else the harness observes
// is read through exported API or located by type/shape with reflect (see harness/c18/c18_test.go).
func (m *PlayerMgr) VerifUpdate() { m.update() }
