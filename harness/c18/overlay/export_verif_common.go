package common

// White-box accessor for the C18 harness (overlay only, not part of /repo).
func (l *StateWithTimeout) VerifTimeout() int64 { return l.timeout }
