#!/bin/sh
# C18 builds with its own -overlay (the white-box shim); Go honours only the LAST -overlay flag, so a
# mutated source file must be put into ONE overlay file together with the shim entries:
#   VERIF_GO_FLAGS=-overlay=$(harness/c18/overlay/with_mutation.sh /repo/_projects/mmo/server/servers/center/playermgr.go /tmp/mine/playermgr.go) bin/check C18
# prints the path of the merged overlay JSON (written next to the mutated copy)
set -e
python3 - "$1" "$2" <<'PY'
import json, sys, os
orig, mut = sys.argv[1], os.path.abspath(sys.argv[2])
ov = json.load(open(os.path.join(os.path.dirname(os.path.abspath("/verif/harness/c18/overlay/overlay.json")), "overlay.json")))
ov["Replace"][orig] = mut
out = mut + ".c18-overlay.json"
json.dump(ov, open(out, "w"))
print(out)
PY
