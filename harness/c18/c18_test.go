// C18 correspondence harness: the real mmo centre PlayerMgr hosted on a real
// service.NodeService actor (local proto.actor system, no remote) inside a
// testing/synctest bubble (virtual clock).  Front-ends ("gate-1", "gate-2") and
// the logic server ("logic-1") are recording actors reached through the cluster
// directory + an address resolver.  One op line in, one canonical observation out.
package c18

import (
	"fmt"
	"io"
	"log"
	"os"
	"sort"
	"strings"
	"sync"
	"syscall"
	"testing"
	"testing/synctest"
	"time"

	"cell2verif/hx"

	"github.com/asynkron/protoactor-go/actor"
	"github.com/asynkron/protoactor-go/remote"
	"github.com/sirupsen/logrus"

	as "github.com/dfklegend/cell2/actorex/service"
	messages "github.com/dfklegend/cell2/actorex/service/servicemsgs"
	"github.com/dfklegend/cell2/node/app"
	"github.com/dfklegend/cell2/node/cluster"
	"github.com/dfklegend/cell2/node/service"
	"github.com/dfklegend/cell2/utils/common"
	"github.com/dfklegend/cell2/utils/logger"

	"mmo/common/define"
	mymsg "mmo/messages"
	"mmo/servers/center"
)

const nAccts = 3 // accounts 1..3 are printed in every observation

// ---------------------------------------------------------------- engine

type centerSvc struct {
	*service.NodeService
}

type pendingOff struct {
	uid  int64
	req  *messages.ServiceRequest
	sent int64
}

type env struct {
	system *actor.ActorSystem
	svc    *centerSvc
	pid    *actor.PID
	mgr    *center.PlayerMgr
	t0     int64

	mu      sync.Mutex
	kicks   []string      // "front:net" captured by the front peers during the current op
	offs    []int64       // uids of offline requests captured during the current op
	pending []*pendingOff // unanswered offline requests (FIFO)
	acks    []string      // acknowledgements passed to login callbacks during the current op
	caseNo  int
	seq     [nAccts + 2]int // per-account login counter
}

func (e *env) wait() { synctest.Wait() }

// onSvc runs f on the centre service's own goroutine and waits for quiescence.
func (e *env) onSvc(f func()) {
	e.svc.Post(f)
	e.wait()
}

func frontName(f int) string {
	switch f {
	case 0:
		return ""
	case 1:
		return "gate-1"
	case 2:
		return "gate-2"
	}
	return "gate-x" // not in the directory
}

func frontNo(name string) int {
	switch name {
	case "gate-1":
		return 1
	case "gate-2":
		return 2
	case "":
		return 0
	}
	return 3
}

func newEnv() *env {
	logger.SetLogLevel(logrus.PanicLevel)
	logger.GetLogProxy("exception").SetLogLevel(logrus.PanicLevel)
	log.SetOutput(io.Discard)

	e := &env{}
	e.system = actor.NewActorSystem()
	sys := e.system
	sys.ProcessRegistry.RegisterAddressResolver(func(pid *actor.PID) (actor.Process, bool) {
		return sys.ProcessRegistry.GetLocal(pid.Id)
	})
	app.Node.GetCluster().UpdateClusterTopology([]*cluster.Member{{Id: "c@n1", Host: "h", Port: 1, State: 1,
		Services: []string{"gate.gate-1", "gate.gate-2", "logic.logic-1", "center.center-1"}}})

	// front peers: record the kick and answer at once
	for _, name := range []string{"gate-1", "gate-2"} {
		name := name
		sys.Root.SpawnNamed(actor.PropsFromFunc(func(ctx actor.Context) {
			if req, ok := ctx.Message().(*messages.ServiceRequest); ok {
				if req.Route == "sys.kick" {
					m, err := deserialize(req)
					if k, ok2 := m.(interface{ GetSessionId() uint32 }); err == nil && ok2 {
						e.mu.Lock()
						e.kicks = append(e.kicks, fmt.Sprintf("%d:%d", frontNo(name), k.GetSessionId()))
						e.mu.Unlock()
					}
				}
				if req.Sender != nil && req.ReqId != as.NotifyReqID {
					ctx.Send(req.Sender, &messages.ServiceResponse{ReqId: req.ReqId})
				}
			}
		}), name)
	}
	// logic peer: record the offline request, answer only when told to
	sys.Root.SpawnNamed(actor.PropsFromFunc(func(ctx actor.Context) {
		if req, ok := ctx.Message().(*messages.ServiceRequest); ok {
			if req.Route == "logicremote.onoffline" {
				m, err := deserialize(req)
				if o, ok2 := m.(*mymsg.OnOffline); err == nil && ok2 {
					e.mu.Lock()
					e.offs = append(e.offs, o.UId)
					e.pending = append(e.pending, &pendingOff{uid: o.UId, req: req, sent: common.NowMs()})
					e.mu.Unlock()
					return
				}
			}
			if req.Sender != nil && req.ReqId != as.NotifyReqID {
				ctx.Send(req.Sender, &messages.ServiceResponse{ReqId: req.ReqId})
			}
		}
	}), "logic-1")

	e.svc = &centerSvc{NodeService: service.NewService()}
	e.svc.Service.InitReqReceiver(e.svc)
	props, _ := as.NewServicePropsWithNewScheDisp(func() actor.Actor { return e.svc }, "center-1")
	pid, err := sys.Root.SpawnNamed(props, "center-1")
	if err != nil {
		panic(err)
	}
	e.pid = pid
	e.wait()
	return e
}

func deserialize(req *messages.ServiceRequest) (interface{}, error) {
	return remote.Deserialize(req.Body, req.Type, as.DefaultSerializeId)
}

// reset: answer what is still outstanding (callbacks of the old case are ignored
// through caseNo), then a fresh PlayerMgr on the same service.
func (e *env) reset() {
	e.mu.Lock()
	pend := e.pending
	e.pending = nil
	e.caseNo++
	e.mu.Unlock()
	for _, p := range pend {
		e.system.Root.Send(p.req.Sender, &messages.ServiceResponse{ReqId: p.req.ReqId})
	}
	e.wait()
	e.onSvc(func() { e.mgr = center.NewPlayerMgr(e.svc.NodeService) })
	e.mu.Lock()
	e.kicks, e.offs, e.acks = nil, nil, nil
	e.seq = [nAccts + 2]int{}
	e.mu.Unlock()
	e.t0 = common.NowMs()
}

var stateNames = []string{"Init", "Logining", "Logined", "SwitchLine", "Logouting", "WaitRemove", "Abnormal"}
var reasonNames = []string{"Init", "Login", "Logout", "Reonline", "SwitchLine"}

func name(tab []string, i int) string {
	if i >= 0 && i < len(tab) {
		return tab[i]
	}
	return fmt.Sprintf("?%d", i)
}

func (e *env) rel(t int64) int64 {
	if t == 0 {
		return 0
	}
	return t - e.t0
}

func logicNo(s string) string {
	switch s {
	case "":
		return "-"
	case "logic-1":
		return "1"
	}
	return "0"
}

// snapshot: canonical per-account state through the overlay shim (read on the service goroutine)
func (e *env) snapshot() string {
	var sb strings.Builder
	e.onSvc(func() {
		e.mu.Lock()
		defer e.mu.Unlock()
		for u := int64(1); u <= nAccts; u++ {
			p := e.mgr.VerifPlayer(u)
			t := e.mgr.VerifTask(u)
			po := 0
			for _, q := range e.pending {
				if q.uid == u {
					po++
				}
			}
			sb.WriteString(" |")
			if !p.Present && !t.Present && po == 0 {
				sb.WriteString(" -")
				continue
			}
			if p.Present {
				lk := "-"
				if p.Lock {
					lk = fmt.Sprintf("%s@%d", name(reasonNames, p.Reason), e.rel(p.LkTimeout))
				}
				fmt.Fprintf(&sb, " st=%s@%d lk=%s c=%d:%d lg=%s", name(stateNames, p.State), e.rel(p.StTimeout), lk,
					frontNo(p.Front), p.Net, logicNo(p.Logic))
			} else {
				sb.WriteString(" st=-")
			}
			if t.Present {
				fmt.Fprintf(&sb, " tk=%d:%d@%d", frontNo(t.Front), t.Net, e.rel(t.Start))
			} else {
				sb.WriteString(" tk=-")
			}
			fmt.Fprintf(&sb, " po=%d", po)
		}
		np, nt := e.mgr.VerifCounts()
		fmt.Fprintf(&sb, " | nc=%d np=%d nt=%d", e.rel(e.mgr.VerifNextCheck()), np, nt)
	})
	return sb.String()
}

func (e *env) expiredTasks() int {
	n := 0
	now := common.NowMs()
	for u := int64(1); u <= nAccts; u++ {
		t := e.mgr.VerifTask(u)
		if t.Present && now > t.Start+30*1000 {
			n++
		}
	}
	return n
}

func codeName(a *mymsg.CenterReqLoginAck) string {
	switch define.ErrorCode(a.Code) {
	case define.Succ:
		if a.IsReconnect {
			return "re" + logicNo(a.LogicId)
		}
		return "ok"
	case define.ErrAlreadyOnline:
		return "already"
	case define.ErrSystemBusy:
		return "busy"
	}
	return fmt.Sprintf("code%d", a.Code)
}

// exec interprets one op line against the real code.
func (e *env) exec(op string) string {
	ws := hx.Words(op)
	if len(ws) == 0 {
		return "bad-op"
	}
	if ws[0] == "reset" {
		e.reset()
		return "ok" + e.snapshot()
	}
	if e.mgr == nil {
		return "bad-op"
	}
	uid := int64(hx.KVInt(ws, "u"))
	switch ws[0] {
	case "tick", "adv":
	case "login", "closed", "logined", "reonline", "logoutreq", "logoutdone", "abnormal", "swbegin", "swend", "offreply":
		if uid < 1 || uid > nAccts {
			return "bad-op"
		}
	default:
		return "bad-op"
	}
	switch ws[0] {
	case "closed", "logined", "offreply":
		// the map-order dependent case (two parked logins expired at one scan) is not driven
		skip := false
		e.onSvc(func() { skip = common.NowMs() >= e.mgr.VerifNextCheck() && e.expiredTasks() >= 2 })
		if skip {
			return "nondet"
		}
	}
	e.mu.Lock()
	e.kicks, e.offs, e.acks = nil, nil, nil
	e.mu.Unlock()
	ret := "-"
	panicked := false
	call := func(f func()) {
		e.onSvc(func() {
			defer func() {
				if r := recover(); r != nil {
					panicked = true
				}
			}()
			f()
		})
	}
	b2s := func(b bool) string {
		if b {
			return "t"
		}
		return "f"
	}
	switch ws[0] {
	case "login":
		for _, key := range []string{"f", "n", "k"} {
			if _, ok := hx.KV(ws, key); !ok {
				return "bad-op"
			}
		}
		f, n, k := hx.KVInt(ws, "f"), uint32(hx.KVInt(ws, "n")), hx.KVInt(ws, "k") == 1
		e.seq[uid]++
		id := fmt.Sprintf("%d.%d", uid, e.seq[uid])
		cn := e.caseNo
		cb := func(err error, r interface{}) {
			e.mu.Lock()
			defer e.mu.Unlock()
			if cn != e.caseNo {
				return
			}
			if a, ok := r.(*mymsg.CenterReqLoginAck); ok && err == nil {
				e.acks = append(e.acks, fmt.Sprintf("%s:%d:%s", id, n, codeName(a)))
			} else {
				e.acks = append(e.acks, fmt.Sprintf("%s:%d:err", id, n))
			}
		}
		call(func() { e.mgr.ReqLogin(uid, frontName(f), n, k, cb) })
	case "closed":
		call(func() { e.mgr.OnClientSessionClosed(uid) })
	case "logined":
		lg := "logic-1"
		if hx.KVInt(ws, "lg") != 1 {
			lg = "logic-x"
		}
		call(func() { e.mgr.OnLogicLogined(uid, lg) })
	case "reonline":
		call(func() { e.mgr.OnLogicReOnline(uid) })
	case "logoutreq":
		call(func() { ret = b2s(e.mgr.ReqLogout(uid)) })
	case "logoutdone":
		call(func() { e.mgr.OnLogicLogout(uid) })
	case "abnormal":
		call(func() { e.mgr.OnLogicAbnormalLogout(uid) })
	case "swbegin":
		call(func() { ret = b2s(e.mgr.ReqSwitchLine(uid)) })
	case "swend":
		ok := hx.KVInt(ws, "ok") == 1
		call(func() { ret = b2s(e.mgr.OnSwitchLineEnd(uid, ok)) })
	case "offreply":
		var p *pendingOff
		e.mu.Lock()
		for i, q := range e.pending {
			if q.uid == uid {
				p = q
				e.pending = append(e.pending[:i:i], e.pending[i+1:]...)
				break
			}
		}
		e.mu.Unlock()
		if p == nil {
			return "none"
		}
		res := &messages.ServiceResponse{ReqId: p.req.ReqId}
		if hx.KVInt(ws, "ok") != 1 {
			res.ErrCode = 1
			res.ErrInfo = "logic failed"
		}
		e.system.Root.Send(p.req.Sender, res)
		e.wait()
	case "tick":
		call(func() { e.mgr.VerifUpdate() })
	case "adv":
		if _, ok := hx.KV(ws, "ms"); !ok {
			return "bad-op"
		}
		ms := int64(hx.KVInt(ws, "ms"))
		now := common.NowMs()
		e.mu.Lock()
		old := false
		for _, q := range e.pending {
			if now+ms-q.sent >= 29000 {
				old = true
			}
		}
		e.mu.Unlock()
		if old || ms <= 0 {
			return "refused"
		}
		time.Sleep(time.Duration(ms) * time.Millisecond)
		e.wait()
	default:
		return "bad-op"
	}
	if panicked {
		return "panic"
	}
	e.mu.Lock()
	sort.Strings(e.kicks)
	offs := make([]string, len(e.offs))
	for i, u := range e.offs {
		offs[i] = fmt.Sprint(u)
	}
	obs := fmt.Sprintf("ret=%s acks=%s kicks=%s offs=%s", ret, strings.Join(e.acks, ","), strings.Join(e.kicks, ","), strings.Join(offs, ","))
	e.mu.Unlock()
	return obs + e.snapshot()
}

// ---------------------------------------------------------------- generator

var limits = []int{3000, 30000, 120000, 180000, 300000, 1800000}

type gen struct {
	h        *hx.T
	now      int64
	mark     []int64 // times at which something with a time limit started
	uids     int
	conns    [][2]int
	last     string // the implementation's last observation
	afterAdv bool   // the previous op was a clock advance: probe the limits now
}

func (g *gen) uid() int {
	if g.h.R.Intn(40) == 0 {
		return 1 + g.h.R.Intn(nAccts)
	}
	return 1 + g.h.R.Intn(g.uids)
}

func (g *gen) conn() (int, int) {
	r := g.h.R
	if r.Intn(60) == 0 {
		g.h.Count("conn.net0")
		return 1 + r.Intn(2), 0
	}
	if r.Intn(40) == 0 {
		g.h.Count("conn.unknown-front")
		return 3, 1 + r.Intn(9)
	}
	c := g.conns[r.Intn(len(g.conns))]
	return c[0], c[1]
}

// deadlines the implementation currently shows (lock limits, state limits, expiry of a parked
// login, next expiry scan), relative to the case start
func (g *gen) deadlines() []int64 {
	var ds []int64
	for _, w := range hx.Words(g.last) {
		i := strings.IndexByte(w, '@')
		if i < 0 || !(strings.HasPrefix(w, "lk=") || strings.HasPrefix(w, "st=") || strings.HasPrefix(w, "tk=")) {
			if strings.HasPrefix(w, "nc=") {
				var t int64
				fmt.Sscanf(w[3:], "%d", &t)
				if t > 0 {
					ds = append(ds, t)
				}
			}
			continue
		}
		var t int64
		fmt.Sscanf(w[i+1:], "%d", &t)
		if strings.HasPrefix(w, "tk=") {
			t += 30000
		}
		if t > 0 {
			ds = append(ds, t)
		}
	}
	return ds
}

// advance: mostly to just before / exactly at / just after a time limit the implementation shows,
// else relative to an instant at which something with a limit started
func (g *gen) adv() string {
	r := g.h.R
	var ms int64
	ds := g.deadlines()
	switch x := r.Intn(10); {
	case x == 0:
		ms = int64(1 + r.Intn(5000))
		g.h.Count("adv.small")
	case x == 1:
		ms = int64(limits[r.Intn(len(limits))])
		g.h.Count("adv.limit")
	case x < 7 && len(ds) > 0:
		target := ds[r.Intn(len(ds))] + int64(r.Intn(3)) - 1
		ms = target - g.now
		if ms <= 0 {
			ms = int64(1 + r.Intn(1000))
		}
		g.h.Count("adv.shown-deadline")
	default:
		if len(g.mark) == 0 {
			ms = int64(limits[r.Intn(len(limits))]) + int64(r.Intn(3)) - 1
		} else {
			m := g.mark[r.Intn(len(g.mark))]
			target := m + int64(limits[r.Intn(len(limits))]) + int64(r.Intn(3)) - 1
			ms = target - g.now
			if ms <= 0 {
				ms = int64(1 + r.Intn(1000))
			}
		}
		g.h.Count("adv.edge")
	}
	g.afterAdv = true
	return fmt.Sprintf("adv ms=%d", ms)
}

// op: weighted by what the implementation last showed for the chosen account, so that the
// protocol's own sequences (login, logined, second login parks, closed, offline reply, reconnect,
// re-online, logout request, logout done, tick; line switch begin/end) are common, with every
// other operation still possible in every state.
var malformed = []string{"login u=9 f=1 n=1 k=1", "closed u=0", "frobnicate u=1", "login u=1 f=1", "adv", "logined lg=1", "swend u=77 ok=1",
	"login u=1 f=7 n=4 k=1", "login u=1 f=0 n=5 k=1", "adv ms=0", ""}

func (g *gen) op() string {
	r := g.h.R
	if r.Intn(80) == 0 {
		g.h.Count("op.malformed")
		if m := malformed[r.Intn(len(malformed))]; m != "" {
			return m
		}
		return "offreply u=2 ok=1"
	}
	u := g.uid()
	acct := ""
	if parts := strings.Split(g.last, " | "); len(parts) > u {
		acct = parts[u]
	}
	has := func(x string) bool { return strings.Contains(acct, x) }
	w := map[string]int{"login": 6, "closed": 3, "logined": 3, "reonline": 2, "logoutreq": 3, "logoutdone": 2, "abnormal": 1,
		"swbegin": 2, "swend": 2, "offreply": 1, "tick": 4, "adv": 6}
	switch {
	case acct == "" || acct == "-" || has("st=- "):
		w["login"] += 20
	case has("st=Logining"):
		w["logined"] += 18
		w["closed"] += 4
	case has("st=Logined"):
		if has("c=0:0") {
			w["login"] += 12
			w["logoutreq"] += 5
		} else {
			w["login"] += 10
			w["closed"] += 8
			w["swbegin"] += 5
			w["logoutreq"] += 3
		}
	case has("st=SwitchLine"):
		w["swend"] += 16
	case has("st=Logouting"):
		w["logoutdone"] += 14
	case has("st=WaitRemove"):
		w["tick"] += 16
		w["logined"] += 2
		w["logoutreq"] += 2
	}
	if has("lk=Reonline") {
		w["reonline"] += 12
	}
	if has("tk=") && !has("tk=-") {
		w["closed"] += 10
		w["login"] += 4
		w["adv"] += 3
	}
	if !has("po=0") && has("po=") {
		w["offreply"] += 16
	}
	if g.afterAdv {
		g.afterAdv = false
		w["logoutreq"] += 10
		w["swbegin"] += 6
		w["login"] += 8
		w["tick"] += 12
		w["adv"] = 1
	}
	keys := []string{"login", "closed", "logined", "reonline", "logoutreq", "logoutdone", "abnormal", "swbegin", "swend", "offreply", "tick", "adv"}
	total := 0
	for _, k := range keys {
		total += w[k]
	}
	x := r.Intn(total)
	kind := ""
	for _, k := range keys {
		if x < w[k] {
			kind = k
			break
		}
		x -= w[k]
	}
	switch kind {
	case "login":
		f, n := g.conn()
		k := 1
		if r.Intn(4) == 0 {
			k = 0
		}
		return fmt.Sprintf("login u=%d f=%d n=%d k=%d", u, f, n, k)
	case "logined":
		lg := 1
		if r.Intn(12) == 0 {
			lg = 0
		}
		return fmt.Sprintf("logined u=%d lg=%d", u, lg)
	case "swend":
		return fmt.Sprintf("swend u=%d ok=%d", u, r.Intn(2))
	case "offreply":
		return fmt.Sprintf("offreply u=%d ok=%d", u, hx.B2i(r.Intn(5) != 0))
	case "tick":
		return "tick"
	case "adv":
		return g.adv()
	}
	return fmt.Sprintf("%s u=%d", kind, u)
}

func opKind(op string) string {
	if i := strings.IndexByte(op, ' '); i > 0 {
		return op[:i]
	}
	return op
}

// note what the generator reached (from the implementation's observation)
func (g *gen) account(op, obs string) {
	h := g.h
	if strings.HasPrefix(obs, "ret=") {
		g.reach(op, g.last, obs)
		g.last = obs
	}
	h.Count("op." + opKind(op))
	if strings.HasPrefix(op, "adv") && obs != "refused" {
		g.now += int64(hx.KVInt(hx.Words(op), "ms"))
	}
	if strings.HasPrefix(obs, "ret=") {
		ws := hx.Words(obs)
		if a, _ := hx.KV(ws, "acks"); a != "" {
			for _, one := range strings.Split(a, ",") {
				if i := strings.LastIndexByte(one, ':'); i >= 0 {
					c := one[i+1:]
					if strings.HasPrefix(c, "re") {
						c = "reconnect"
					}
					h.Count("ack." + c)
				}
			}
			if strings.HasPrefix(op, "offreply") {
				h.Count("reach.parked-login-run")
			}
			if strings.HasPrefix(op, "login") && strings.Count(a, ",") > 0 {
				h.Count("reach.two-acks-in-one-op")
			}
			g.mark = append(g.mark, g.now)
		}
		if v, _ := hx.KV(ws, "ret"); v == "t" {
			h.Count("accepted." + opKind(op))
			g.mark = append(g.mark, g.now)
		} else if v == "f" {
			h.Count("refused." + opKind(op))
		}
		if k, _ := hx.KV(ws, "kicks"); k != "" {
			h.Count("reach.kick")
		}
		if o, _ := hx.KV(ws, "offs"); o != "" {
			h.Count("reach.offline-sent")
		}
		if strings.Contains(obs, "tk=1:") || strings.Contains(obs, "tk=2:") || strings.Contains(obs, "tk=3:") {
			h.Count("reach.parked-present")
			if strings.HasPrefix(op, "login") {
				g.mark = append(g.mark, g.now)
			}
		}
	} else {
		h.Count("obs." + obs)
	}
}

func field(acct, key string) string {
	v, _ := hx.KV(hx.Words(acct), key)
	return v
}

// reach: which time-limit dependent branches the history went through
func (g *gen) reach(op, prev, cur string) {
	pp, cp := strings.Split(prev, " | "), strings.Split(cur, " | ")
	for u := 1; u <= nAccts && u < len(pp) && u < len(cp); u++ {
		a, b := pp[u], cp[u]
		la, lb := field(a, "lk"), field(b, "lk")
		if la != "" && la != "-" && lb != "" && lb != "-" && la != lb && opKind(op) != "tick" {
			g.h.Count("reach.lock-taken-over-after-expiry")
		}
		sa := field(a, "st")
		if opKind(op) == "tick" && (b == "-" || field(b, "st") == "-") {
			switch {
			case strings.HasPrefix(sa, "Logining"):
				g.h.Count("reach.tick-expired-Logining")
			case strings.HasPrefix(sa, "Logouting"):
				g.h.Count("reach.tick-expired-Logouting")
			case strings.HasPrefix(sa, "WaitRemove"):
				g.h.Count("reach.tick-removed-WaitRemove")
			}
		}
		if opKind(op) == "tick" && b != "-" && field(b, "st") != "-" && (strings.HasPrefix(sa, "Logining") || strings.HasPrefix(sa, "Logouting")) {
			g.h.Count("reach.tick-kept-unexpired")
		}
		ta, tb := field(a, "tk"), field(b, "tk")
		if ta != "" && ta != "-" && tb == "-" && !strings.Contains(cur, "acks="+fmt.Sprint(u)+".") {
			g.h.Count("reach.parked-login-dropped-unanswered")
		}
		if strings.HasPrefix(sa, "WaitRemove") && !strings.HasPrefix(field(b, "st"), "WaitRemove") && b != "-" && field(b, "st") != "-" {
			g.h.Count("reach.lingering-record-revived")
		}
	}
}

func (g *gen) newCase() {
	r := g.h.R
	g.now = 0
	g.last = ""
	g.mark = g.mark[:0]
	g.uids = 1
	if r.Intn(3) == 0 {
		g.uids = 2
	}
	nc := 2 + r.Intn(2)
	g.conns = g.conns[:0]
	for i := 0; i < nc; i++ {
		g.conns = append(g.conns, [2]int{1 + r.Intn(2), 1 + i})
	}
}

// ---------------------------------------------------------------- test entry points

func bubble(t *testing.T, body func(e *env, h *hx.T)) {
	synctest.Test(t, func(t *testing.T) {
		h := hx.Open()
		e := newEnv()
		body(e, h)
		h.Close()
		syscall.Exit(0) // the service goroutines never end (BUILDING.md)
	})
}

func TestRun(t *testing.T) {
	bubble(t, func(e *env, h *hx.T) {
		run := func(op string) string {
			obs := e.exec(op)
			h.Emit(op, obs)
			return obs
		}
		if ops := hx.ReplayOps(); ops != nil {
			for _, op := range ops {
				run(op)
			}
			return
		}
		for _, op := range hx.CorpusOps(hx.Env("VERIF_CORPUS", "corpus/C18")) {
			h.Count("corpus")
			run(op)
		}
		g := &gen{h: h}
		n := hx.EnvInt("VERIF_N", 1500)
		for i := 0; i < n; i++ {
			g.newCase()
			run("reset")
			l := 6 + h.R.Intn(20)
			for j := 0; j < l; j++ {
				op := g.op()
				g.account(op, run(op))
			}
		}
	})
}

var exhAlphabet = []string{
	"login u=1 f=1 n=1 k=1", "login u=1 f=2 n=2 k=1", "closed u=1", "logined u=1 lg=1", "reonline u=1",
	"logoutreq u=1", "logoutdone u=1", "abnormal u=1", "swbegin u=1", "swend u=1 ok=1", "offreply u=1 ok=1",
	"tick", "adv ms=120000", "adv ms=180001",
}

// TestExhaustive: every op sequence of length VERIF_DEPTH over 1 account x 2 connections
func TestExhaustive(t *testing.T) {
	bubble(t, func(e *env, h *hx.T) {
		depth := hx.EnvInt("VERIF_DEPTH", 4)
		idx := make([]int, depth)
		total := 0
		for {
			h.Emit("reset", e.exec("reset"))
			for _, i := range idx {
				op := exhAlphabet[i]
				h.Emit(op, e.exec(op))
			}
			total++
			k := depth - 1
			for k >= 0 {
				idx[k]++
				if idx[k] < len(exhAlphabet) {
					break
				}
				idx[k] = 0
				k--
			}
			if k < 0 {
				break
			}
		}
		h.Stats[fmt.Sprintf("exhaustive.sequences.depth%d.alphabet%d", depth, len(exhAlphabet))] = total
	})
}

// stateKey: everything the future behaviour of the centre can depend on, with times taken
// relative to the current instant and limits that have already passed collapsed (a passed limit
// stays passed).  Used only to prune the reachability search below, never compared with the model.
func (e *env) stateKey() string {
	var sb strings.Builder
	e.onSvc(func() {
		e.mu.Lock()
		defer e.mu.Unlock()
		now := common.NowMs()
		fut := func(t int64) string {
			if t <= now {
				return "past"
			}
			return fmt.Sprint(t - now)
		}
		for u := int64(1); u <= nAccts; u++ {
			p := e.mgr.VerifPlayer(u)
			t := e.mgr.VerifTask(u)
			if p.Present {
				st := "0"
				if p.StTimeout != 0 {
					st = fut(p.StTimeout)
				}
				lk := "-"
				if p.Lock {
					lk = fmt.Sprintf("%d@%s", p.Reason, fut(p.LkTimeout))
				}
				fmt.Fprintf(&sb, "P%d:%s:%s:%s:%d:%s;", p.State, st, lk, p.Front, p.Net, p.Logic)
			} else {
				sb.WriteString("P-;")
			}
			if t.Present {
				fmt.Fprintf(&sb, "T%s:%d:%s;", t.Front, t.Net, fut(t.Start+30*1000+1))
			} else {
				sb.WriteString("T-;")
			}
			for _, q := range e.pending {
				if q.uid == u {
					fmt.Fprintf(&sb, "O%d;", now-q.sent)
				}
			}
			sb.WriteString("|")
		}
		sb.WriteString("N" + fut(e.mgr.VerifNextCheck()))
	})
	return sb.String()
}

var reachAlphabet = []string{
	"login u=1 f=1 n=1 k=1", "login u=1 f=2 n=2 k=1", "login u=1 f=2 n=2 k=0", "closed u=1", "logined u=1 lg=1", "logined u=1 lg=0",
	"reonline u=1", "logoutreq u=1", "logoutdone u=1", "abnormal u=1", "swbegin u=1", "swend u=1 ok=1", "offreply u=1 ok=1",
	"tick", "adv ms=1", "adv ms=2999", "adv ms=30000", "adv ms=119999", "adv ms=179999", "adv ms=299999", "adv ms=1799999",
}

// TestReachable: breadth-first over the states of 1 account x 2 connections; every op of the
// alphabet is tried from every distinct state found (one representative history per state), down
// to VERIF_DEPTH or until VERIF_MAXOPS op lines have been produced.  Every executed history is
// part of the trace, i.e. compared with the model and checked by the property monitor.
func TestReachable(t *testing.T) {
	bubble(t, func(e *env, h *hx.T) {
		depth := hx.EnvInt("VERIF_DEPTH", 6)
		maxOps := hx.EnvInt("VERIF_MAXOPS", 300000)
		seen := map[string]bool{}
		h.Emit("reset", e.exec("reset"))
		seen[e.stateKey()] = true
		frontier := [][]string{{}}
		done := 0
		for d := 1; d <= depth && len(frontier) > 0; d++ {
			var next [][]string
			complete := true
			for _, seq := range frontier {
				if h.N > maxOps {
					complete = false
					break
				}
				for _, a := range reachAlphabet {
					h.Emit("reset", e.exec("reset"))
					for _, op := range seq {
						h.Emit(op, e.exec(op))
					}
					obs := e.exec(a)
					h.Emit(a, obs)
					if !strings.HasPrefix(obs, "ret=") {
						continue
					}
					k := e.stateKey()
					if !seen[k] {
						seen[k] = true
						ns := make([]string, 0, len(seq)+1)
						ns = append(append(ns, seq...), a)
						next = append(next, ns)
					}
				}
			}
			if !complete {
				break
			}
			done = d
			h.Stats[fmt.Sprintf("reachable.new-states.depth%d", d)] = len(next)
			frontier = next
		}
		h.Stats["reachable.depth-completed"] = done
		h.Stats["reachable.distinct-states"] = len(seen)
	})
}

var _ = os.Getenv
