// C18 correspondence harness: the real mmo centre service (servers/center/handler.Service: a
// service.NodeService with the "center.remote" API dispatcher, started by StartServiceCmd as the
// service builder does, owning the real PlayerMgr) on a local proto.actor system (no remote) inside a
// testing/synctest bubble (virtual clock).  Every operation of the protocol is a real ServiceRequest
// sent to the centre's remote API (routes centerremote.*, the ones gate and logic call); what comes
// back (the ServiceResponse: login acknowledgement, NormalAck code) is what is observed, i.e. exactly
// what gate and logic see.  Front-ends ("gate-1", "gate-2") and the logic server ("logic-1") are
// recording actors reached through the cluster directory + an address resolver; "client-1" is the
// recording actor the requests are sent from.  One op line in, one canonical observation out.
package c18

import (
	"fmt"
	"io"
	"log"
	"os"
	"reflect"
	"sort"
	"strings"
	"sync"
	"syscall"
	"testing"
	"testing/synctest"
	"time"
	"unsafe"

	"cell2verif/hx"

	"github.com/asynkron/protoactor-go/actor"
	"github.com/asynkron/protoactor-go/remote"
	"github.com/sirupsen/logrus"

	as "github.com/dfklegend/cell2/actorex/service"
	messages "github.com/dfklegend/cell2/actorex/service/servicemsgs"
	"github.com/dfklegend/cell2/apimapper/registry"
	"github.com/dfklegend/cell2/node/app"
	"github.com/dfklegend/cell2/node/builtin"
	"github.com/dfklegend/cell2/node/cluster"
	"github.com/dfklegend/cell2/node/config"
	"github.com/dfklegend/cell2/node/service"
	"github.com/dfklegend/cell2/utils/common"
	"github.com/dfklegend/cell2/utils/logger"
	cetimer "github.com/dfklegend/cell2/utils/timer"

	mmocommon "mmo/common"
	"mmo/common/define"
	mymsg "mmo/messages"
	"mmo/servers/center"
	"mmo/servers/center/handler"
)

const nAccts = 3 // accounts 1..3 are printed in every observation

// ---------------------------------------------------------------- engine

// reqInfo: what the harness remembers about a request it sent to the centre's remote API
type reqInfo struct {
	kind   string // op kind
	uid    int64
	k8     int    // login: per-account request number
	n      uint32 // login: net id
	caseNo int
	nres   int // responses received so far
}

type pendingOff struct {
	uid  int64
	req  *messages.ServiceRequest
	sent int64
}

type env struct {
	system *actor.ActorSystem
	svc    *handler.Service
	pid    *actor.PID
	client *actor.PID // the recording actor the requests are sent from
	mgr    *center.PlayerMgr
	t0     int64

	mu      sync.Mutex
	kicks   []string      // "front:net" captured by the front peers during the current op
	offs    []int64       // uids of offline requests captured during the current op
	pending []*pendingOff // unanswered offline requests (FIFO)
	acks    []string      // login acknowledgements (responses to reqlogin requests) received during the current op
	ret     string        // what the centre answered to the current (non-login) request
	reqs    map[int32]*reqInfo
	nextReq int32
	caseNo  int
	seq     map[int64]int           // per-account login counter
	open    map[int64]map[int]int64 // per account: login request -> issue time, while unanswered
	pr      *probeT

	// cases started by `reset timer=1` run with the real 1 s timer of PlayerMgr.Start (time passes with
	// `advt`, every firing on the way calls update); the other cases call update explicitly (`tick`)
	timer    bool
	timerIds []cetimer.IdType // what Start registered, cancelled at the next reset

	// the periodic update, as PlayerMgr.Start hands it to the service's timer manager (the callback of the timer
	// object Start registered, read from the manager's table: exported API and exported fields only); the
	// explicit `tick` calls it.  nil when the timer manager's shape is not recognised (whitebox.update=unavailable).
	update func()
}

// timerObj: the timer object registered under id (the value stored in the timer manager's sync.Map)
func timerObj(tm *cetimer.Mgr, id cetimer.IdType) *cetimer.Obj {
	idx := one(fieldsOf(reflect.TypeOf(cetimer.Mgr{}), ofType(reflect.TypeOf(sync.Map{}))))
	if idx < 0 {
		return nil
	}
	m, ok := fld(reflect.ValueOf(tm), idx).Addr().Interface().(*sync.Map)
	if !ok {
		return nil
	}
	v, _ := m.Load(id)
	o, _ := v.(*cetimer.Obj)
	return o
}

// timerSet: the ids of the timers registered with the service's timer manager (the only sync.Map field of
// timer.Mgr, located by type); ok=false when that shape is gone: timer cases are then not generated.
func timerSet(tm *cetimer.Mgr) (map[cetimer.IdType]bool, bool) {
	idx := one(fieldsOf(reflect.TypeOf(cetimer.Mgr{}), ofType(reflect.TypeOf(sync.Map{}))))
	if idx < 0 {
		return nil, false
	}
	m, ok := fld(reflect.ValueOf(tm), idx).Addr().Interface().(*sync.Map)
	if !ok {
		return nil, false
	}
	ids := map[cetimer.IdType]bool{}
	good := true
	m.Range(func(k, _ interface{}) bool {
		id, isId := k.(cetimer.IdType)
		if !isId {
			good = false
			return false
		}
		ids[id] = true
		return true
	})
	return ids, good
}

func (e *env) timerOK() bool {
	_, ok := timerSet(e.svc.GetRunService().GetTimerMgr())
	return ok
}

func (e *env) wait() { synctest.Wait() }

// onSvc runs f on the centre service's own goroutine and waits for quiescence.
func (e *env) onSvc(f func()) {
	e.svc.Post(f)
	e.wait()
}

func frontName(f int) string {
	switch f {
	case 0:
		return ""
	case 1:
		return "gate-1"
	case 2:
		return "gate-2"
	}
	return "gate-x" // not in the directory
}

func frontNo(name string) int {
	switch name {
	case "gate-1":
		return 1
	case "gate-2":
		return 2
	case "":
		return 0
	}
	return 3
}

func newEnv() *env {
	logger.SetLogLevel(logrus.PanicLevel)
	logger.GetLogProxy("exception").SetLogLevel(logrus.PanicLevel)
	log.SetOutput(io.Discard)

	handler.Visit()
	builtin.Visit()
	registry.Registry.Build()

	e := &env{pr: newProbe(), reqs: map[int32]*reqInfo{}}
	e.system = actor.NewActorSystem()
	sys := e.system
	sys.ProcessRegistry.RegisterAddressResolver(func(pid *actor.PID) (actor.Process, bool) {
		return sys.ProcessRegistry.GetLocal(pid.Id)
	})
	app.Node.GetCluster().UpdateClusterTopology([]*cluster.Member{{Id: "c@n1", Host: "h", Port: 1, State: 1,
		Services: []string{"gate.gate-1", "gate.gate-2", "logic.logic-1", "center.center-1"}}})

	// front peers: record the kick and answer at once
	for _, name := range []string{"gate-1", "gate-2"} {
		name := name
		sys.Root.SpawnNamed(actor.PropsFromFunc(func(ctx actor.Context) {
			if req, ok := ctx.Message().(*messages.ServiceRequest); ok {
				if req.Route == "sys.kick" {
					m, err := deserialize(req)
					if k, ok2 := m.(interface{ GetSessionId() uint32 }); err == nil && ok2 {
						e.mu.Lock()
						e.kicks = append(e.kicks, fmt.Sprintf("%d:%d", frontNo(name), k.GetSessionId()))
						e.mu.Unlock()
					}
				}
				if req.Sender != nil && req.ReqId != as.NotifyReqID {
					ctx.Send(req.Sender, &messages.ServiceResponse{ReqId: req.ReqId})
				}
			}
		}), name)
	}
	// logic peer: record the offline request, answer only when told to
	sys.Root.SpawnNamed(actor.PropsFromFunc(func(ctx actor.Context) {
		if req, ok := ctx.Message().(*messages.ServiceRequest); ok {
			if req.Route == "logicremote.onoffline" {
				m, err := deserialize(req)
				if o, ok2 := m.(*mymsg.OnOffline); err == nil && ok2 {
					e.mu.Lock()
					e.offs = append(e.offs, o.UId)
					e.pending = append(e.pending, &pendingOff{uid: o.UId, req: req, sent: common.NowMs()})
					e.mu.Unlock()
					return
				}
			}
			if req.Sender != nil && req.ReqId != as.NotifyReqID {
				ctx.Send(req.Sender, &messages.ServiceResponse{ReqId: req.ReqId})
			}
		}
	}), "logic-1")

	// the requester: records every ServiceResponse the centre sends back
	e.client, _ = sys.Root.SpawnNamed(actor.PropsFromFunc(func(ctx actor.Context) {
		if res, ok := ctx.Message().(*messages.ServiceResponse); ok {
			e.onResponse(res)
		}
	}), "client-1")

	// the centre: the real handler.Service, built and started the way node/servicebuilder does
	e.svc = handler.NewService()
	props, _ := service.NewServiceWithDispatcher(func() actor.Actor { return e.svc }, "center-1", "center.remote")
	pid, err := sys.Root.SpawnNamed(props, "center-1")
	if err != nil {
		panic(err)
	}
	e.pid = pid
	e.wait()
	// StartServiceCmd: names the service, gives it its logger and runs handler.Service.Start, which calls
	// PlayerMgr.Start (1 s update timer).  The timers registered here belong to the first PlayerMgr; they are
	// cancelled at the first reset like those of every later `reset timer=1`.
	var before map[cetimer.IdType]bool
	var okB bool
	e.onSvc(func() { before, okB = timerSet(e.svc.GetRunService().GetTimerMgr()) })
	service.StartNodeService(sys.Root, pid, "center-1", &config.ServiceInfo{Type: "center"})
	e.wait()
	e.onSvc(func() {
		if after, ok := timerSet(e.svc.GetRunService().GetTimerMgr()); ok && okB {
			for id := range after {
				if !before[id] {
					e.timerIds = append(e.timerIds, id)
				}
			}
		}
	})
	return e
}

// onResponse: a ServiceResponse arrived at the requester.  Login: one acknowledgement per response
// (a request answered twice shows up as two).  Other requests: the answer becomes `ret`.
func (e *env) onResponse(res *messages.ServiceResponse) {
	e.mu.Lock()
	defer e.mu.Unlock()
	ri := e.reqs[res.ReqId]
	if ri == nil || ri.caseNo != e.caseNo {
		return
	}
	ri.nres++
	var m interface{}
	good := res.ErrCode == 0
	if good && res.Type != "" {
		func() {
			defer func() {
				if r := recover(); r != nil {
					good = false
				}
			}()
			var err error
			if m, err = remote.Deserialize(res.Body, res.Type, as.DefaultSerializeId); err != nil {
				good = false
			}
		}()
	}
	if ri.kind == "login" {
		id := fmt.Sprintf("%d.%d", ri.uid, ri.k8)
		delete(e.open[ri.uid], ri.k8)
		if a, ok := m.(*mymsg.CenterReqLoginAck); ok && good {
			e.acks = append(e.acks, fmt.Sprintf("%s:%d:%s", id, ri.n, codeName(a)))
		} else {
			e.acks = append(e.acks, fmt.Sprintf("%s:%d:err", id, ri.n))
		}
		return
	}
	if ri.nres > 1 {
		e.ret = "twice"
		return
	}
	e.ret = ackRet(ri.kind, m, good)
}

// ackRet: the centre's answer to a non-login request as the caller reads it.  Requests that ask for a
// transaction (logout, line switch begin / end) are granted (t) or refused (f) by the NormalAck code;
// notifications are acknowledged with Succ (-).
func ackRet(kind string, m interface{}, good bool) string {
	if !good {
		return "err"
	}
	a, isAck := m.(*mymsg.NormalAck)
	if m == nil && kind == "closed" {
		return "-" // the close report is acknowledged without a body
	}
	if !isAck {
		return "badack"
	}
	switch define.ErrorCode(a.Code) {
	case define.Succ:
		switch kind {
		case "logoutreq", "swbegin", "swend":
			return "t"
		}
		return "-"
	case define.ErrFaild:
		switch kind {
		case "logoutreq", "swbegin", "swend":
			return "f"
		}
	}
	return fmt.Sprintf("code%d", a.Code)
}

// request: one real ServiceRequest to the centre's remote API, then quiescence
func (e *env) request(route string, msg interface{}, ri *reqInfo) {
	b, tn, err := remote.Serialize(msg, as.DefaultSerializeId)
	if err != nil {
		panic(err)
	}
	e.mu.Lock()
	e.nextReq++
	id := e.nextReq
	ri.caseNo = e.caseNo
	e.reqs[id] = ri
	e.mu.Unlock()
	e.system.Root.Send(e.pid, &messages.ServiceRequest{Sender: e.client, ReqId: id, Route: "centerremote." + route, Type: tn, Body: b})
	e.wait()
}

func deserialize(req *messages.ServiceRequest) (interface{}, error) {
	return remote.Deserialize(req.Body, req.Type, as.DefaultSerializeId)
}

// reset: answer what is still outstanding (callbacks of the old case are ignored
// through caseNo), then a fresh PlayerMgr on the same service.
func (e *env) reset(withTimer bool) {
	e.mu.Lock()
	pend := e.pending
	e.pending = nil
	e.caseNo++
	e.mu.Unlock()
	for _, p := range pend {
		e.system.Root.Send(p.req.Sender, &messages.ServiceResponse{ReqId: p.req.ReqId})
	}
	e.wait()
	e.onSvc(func() {
		tm := e.svc.GetRunService().GetTimerMgr()
		for _, id := range e.timerIds {
			tm.Cancel(id)
		}
		e.timerIds = nil
		e.svc.Mgr = center.NewPlayerMgr(e.svc.NodeService)
		e.mgr = e.svc.Mgr
		e.timer = false
		e.update = nil
		if before, ok := timerSet(tm); ok {
			// Start registers the periodic update with the timer manager; its callback is what `tick` calls.
			// Without `timer=1` the timer is cancelled again at once (no time passes in between: it never fires).
			e.mgr.Start()
			after, _ := timerSet(tm)
			var ids []cetimer.IdType
			for id := range after {
				if !before[id] {
					ids = append(ids, id)
				}
			}
			if len(ids) == 1 {
				if o := timerObj(tm, ids[0]); o != nil && o.CB != nil {
					cb, args := o.CB, o.Args
					e.update = func() { cb(args...) }
				}
			}
			if withTimer {
				e.timerIds = ids
				e.timer = true
			} else {
				for _, id := range ids {
					tm.Cancel(id)
				}
			}
		}
	})
	e.mu.Lock()
	e.kicks, e.offs, e.acks = nil, nil, nil
	e.reqs = map[int32]*reqInfo{}
	e.seq = map[int64]int{}
	e.open = map[int64]map[int]int64{}
	e.mu.Unlock()
	e.t0 = common.NowMs()
}

var stateNames = []string{"Init", "Logining", "Logined", "SwitchLine", "Logouting", "WaitRemove", "Abnormal"}
var reasonNames = []string{"Init", "Login", "Logout", "Reonline", "SwitchLine"}

func name(tab []string, i int) string {
	if i >= 0 && i < len(tab) {
		return tab[i]
	}
	return fmt.Sprintf("?%d", i)
}

func (e *env) rel(t int64) int64 {
	if t == 0 {
		return 0
	}
	return t - e.t0
}

func logicNo(s string) string {
	switch s {
	case "":
		return "-"
	case "logic-1":
		return "1"
	}
	return "0"
}

// ---------------------------------------------------------------- white-box probe
//
// The correspondence also compares the centre's per-account record.  What exported API gives
// (Player.GetState / FrontId / NetId / GetLogicId) is read through it; the rest (the players map, the
// transaction lock's held/kind/limit, the state's limit, the parked kick-wait task, the next scan time) is
// read with reflect+unsafe, the fields being located by TYPE and SHAPE, never by name, so that renaming or
// reordering unexported fields does not matter.  A part whose shape is no longer recognised is reported
// as unresolved: the observation shows `?` there, the `reset` line tells the model driver (which echoes
// `?`), the histogram counts probe.unresolved.<part>.  VERIF_C18_FORCE_UNRES=L,S forces that path.

type probeT struct {
	players   int   // field of PlayerMgr: map[int64]*Player
	kw        int   // field of PlayerMgr: *KickWaitTaskMgr
	tasks     int   // field of KickWaitTaskMgr: map[int64]*KickWaitTask
	nextCheck int   // field of KickWaitTaskMgr: the only int64
	lock      int   // field of Player: *PlayerTransactionLock
	state     int   // field of Player: *StateWithTimeout
	lkHeld    int   // lock: the only bool
	lkKind    int   // lock: the only int
	lkI64     []int // lock: int64 fields (limit, and the uid if still kept)
	stLimit   int   // StateWithTimeout: the only int64
	tkFront   int   // task: the only string
	tkNet     int   // task: the only uint32
	unres     map[string]bool
}

func fieldsOf(t reflect.Type, pred func(reflect.StructField) bool) []int {
	var r []int
	for i := 0; i < t.NumField(); i++ {
		if pred(t.Field(i)) {
			r = append(r, i)
		}
	}
	return r
}

func one(xs []int) int {
	if len(xs) == 1 {
		return xs[0]
	}
	return -1
}

func ofType(want reflect.Type) func(reflect.StructField) bool {
	return func(f reflect.StructField) bool { return f.Type == want }
}

func ofKind(k reflect.Kind) func(reflect.StructField) bool {
	return func(f reflect.StructField) bool { return f.Type.Kind() == k }
}

func newProbe() *probeT {
	p := &probeT{unres: map[string]bool{}}
	mgrT := reflect.TypeOf(center.PlayerMgr{})
	plT := reflect.TypeOf(center.Player{})
	lkT := reflect.TypeOf(center.PlayerTransactionLock{})
	stT := reflect.TypeOf(mmocommon.StateWithTimeout{})
	kwT := reflect.TypeOf(center.KickWaitTaskMgr{})
	tkT := reflect.TypeOf(center.KickWaitTask{})
	p.players = one(fieldsOf(mgrT, ofType(reflect.TypeOf(map[int64]*center.Player{}))))
	p.kw = one(fieldsOf(mgrT, ofType(reflect.TypeOf(&center.KickWaitTaskMgr{}))))
	p.tasks = one(fieldsOf(kwT, ofType(reflect.TypeOf(map[int64]*center.KickWaitTask{}))))
	p.nextCheck = one(fieldsOf(kwT, ofKind(reflect.Int64)))
	p.lock = one(fieldsOf(plT, ofType(reflect.TypeOf(&center.PlayerTransactionLock{}))))
	p.state = one(fieldsOf(plT, ofType(reflect.TypeOf(&mmocommon.StateWithTimeout{}))))
	p.lkHeld = one(fieldsOf(lkT, ofKind(reflect.Bool)))
	p.lkKind = one(fieldsOf(lkT, ofKind(reflect.Int)))
	p.lkI64 = fieldsOf(lkT, ofKind(reflect.Int64))
	p.stLimit = one(fieldsOf(stT, ofKind(reflect.Int64)))
	p.tkFront = one(fieldsOf(tkT, ofKind(reflect.String)))
	p.tkNet = one(fieldsOf(tkT, ofKind(reflect.Uint32)))
	if p.players < 0 {
		p.unres["P"] = true
	}
	if p.lock < 0 || p.lkHeld < 0 || p.lkKind < 0 || len(p.lkI64) < 1 || len(p.lkI64) > 2 {
		p.unres["L"] = true
	}
	if p.state < 0 || p.stLimit < 0 {
		p.unres["S"] = true
	}
	if p.kw < 0 || p.tasks < 0 {
		p.unres["T"] = true
	}
	if p.tkFront < 0 || p.tkNet < 0 {
		p.unres["C"] = true
	}
	if p.kw < 0 || p.nextCheck < 0 {
		p.unres["N"] = true
	}
	for _, f := range strings.Split(os.Getenv("VERIF_C18_FORCE_UNRES"), ",") {
		if f != "" {
			p.unres[f] = true
		}
	}
	return p
}

func (p *probeT) unresList() string {
	var ks []string
	for k := range p.unres {
		ks = append(ks, k)
	}
	sort.Strings(ks)
	return strings.Join(ks, ",")
}

// fld: the i-th field of the struct v points to, readable even when unexported
func fld(v reflect.Value, i int) reflect.Value {
	f := v.Elem().Field(i)
	return reflect.NewAt(f.Type(), unsafe.Pointer(f.UnsafeAddr())).Elem()
}

type playerView struct {
	present bool
	p       *center.Player
}

func (e *env) player(u int64) (*center.Player, bool) {
	m := fld(reflect.ValueOf(e.mgr), e.pr.players)
	v := m.MapIndex(reflect.ValueOf(u))
	if !v.IsValid() || v.IsNil() {
		return nil, false
	}
	return v.Interface().(*center.Player), true
}

func (e *env) playerCount() int { return fld(reflect.ValueOf(e.mgr), e.pr.players).Len() }

func (e *env) kwMgr() reflect.Value { return fld(reflect.ValueOf(e.mgr), e.pr.kw) }

func (e *env) task(u int64) (reflect.Value, bool) {
	v := fld(e.kwMgr(), e.pr.tasks).MapIndex(reflect.ValueOf(u))
	if !v.IsValid() || v.IsNil() {
		return v, false
	}
	return v, true
}

func (e *env) taskCount() int { return fld(e.kwMgr(), e.pr.tasks).Len() }

// lockView: held, kind, limit of the player's transaction lock
func (e *env) lockView(p *center.Player) (bool, int, int64) {
	lk := fld(reflect.ValueOf(p), e.pr.lock)
	held := fld(lk, e.pr.lkHeld).Bool()
	kind := int(fld(lk, e.pr.lkKind).Int())
	var limit int64
	if len(e.pr.lkI64) == 1 {
		limit = fld(lk, e.pr.lkI64[0]).Int()
	} else {
		// two int64 fields: one is the account id the lock was initialised with, the other the limit
		a, b := fld(lk, e.pr.lkI64[0]).Int(), fld(lk, e.pr.lkI64[1]).Int()
		if a == p.UId && b != p.UId {
			limit = b
		} else {
			limit = a
		}
	}
	return held, kind, limit
}

func (e *env) stateLimit(p *center.Player) int64 {
	return fld(fld(reflect.ValueOf(p), e.pr.state), e.pr.stLimit).Int()
}

// snapshot: canonical per-account state (read on the service goroutine)
func (e *env) snapshot() string {
	var sb strings.Builder
	un := e.pr.unres
	e.onSvc(func() {
		e.mu.Lock()
		defer e.mu.Unlock()
		for u := int64(1); u <= nAccts; u++ {
			var p *center.Player
			pPresent, tPresent := false, false
			var t reflect.Value
			if !un["P"] {
				p, pPresent = e.player(u)
			}
			if !un["T"] {
				t, tPresent = e.task(u)
			}
			po := 0
			for _, q := range e.pending {
				if q.uid == u {
					po++
				}
			}
			sb.WriteString(" |")
			if !un["P"] && !un["T"] && !pPresent && !tPresent && po == 0 {
				sb.WriteString(" -")
				continue
			}
			switch {
			case un["P"]:
				sb.WriteString(" st=?")
			case pPresent:
				st := "?"
				if !un["S"] {
					st = fmt.Sprint(e.rel(e.stateLimit(p)))
				}
				lk := "?"
				if !un["L"] {
					lk = "-"
					if held, kind, limit := e.lockView(p); held {
						lk = fmt.Sprintf("%s@%d", name(reasonNames, kind), e.rel(limit))
					}
				}
				fmt.Fprintf(&sb, " st=%s@%s lk=%s c=%d:%d lg=%s", name(stateNames, p.GetState()), st, lk,
					frontNo(p.FrontId), p.NetId, logicNo(p.GetLogicId()))
			default:
				sb.WriteString(" st=-")
			}
			switch {
			case un["T"]:
				sb.WriteString(" tk=?")
			case tPresent && un["C"]:
				sb.WriteString(" tk=?:?")
			case tPresent:
				fmt.Fprintf(&sb, " tk=%d:%d", frontNo(fld(t, e.pr.tkFront).String()), fld(t, e.pr.tkNet).Uint())
			default:
				sb.WriteString(" tk=-")
			}
			fmt.Fprintf(&sb, " po=%d", po)
		}
		nc, np, nt := "?", "?", "?"
		if !un["N"] {
			nc = fmt.Sprint(e.rel(fld(e.kwMgr(), e.pr.nextCheck).Int()))
		}
		if !un["P"] {
			np = fmt.Sprint(e.playerCount())
		}
		if !un["T"] {
			nt = fmt.Sprint(e.taskCount())
		}
		fmt.Fprintf(&sb, " | nc=%s np=%s nt=%s", nc, np, nt)
	})
	return sb.String()
}

// staleUnanswered: accounts that have a login request issued more than 30 s ago and not answered so far
// (a parked login that may have expired).  Two of them at a scan = Go map order decides which parked login
// is dropped: such operations are not driven.  Computed from the observable history only; the model
// driver applies the same rule.
func (e *env) staleUnanswered() int {
	n := 0
	now := common.NowMs()
	for _, reqs := range e.open {
		for _, t := range reqs {
			if now > t+30*1000 {
				n++
				break
			}
		}
	}
	return n
}

func codeName(a *mymsg.CenterReqLoginAck) string {
	switch define.ErrorCode(a.Code) {
	case define.Succ:
		if a.IsReconnect {
			return "re" + logicNo(a.LogicId)
		}
		return "ok"
	case define.ErrAlreadyOnline:
		return "already"
	case define.ErrSystemBusy:
		return "busy"
	}
	return fmt.Sprintf("code%d", a.Code)
}

// login: one reqlogin request (a new request number of the account, remembered as unanswered until its
// acknowledgement arrives)
func (e *env) login(uid int64, f int, n uint32, k bool) {
	e.mu.Lock()
	e.seq[uid]++
	k8 := e.seq[uid]
	if e.open[uid] == nil {
		e.open[uid] = map[int]int64{}
	}
	e.open[uid][k8] = common.NowMs()
	e.mu.Unlock()
	e.request("reqlogin", &mymsg.CenterReqLogin{UId: uid, ServerId: frontName(f), NetId: n, KickPrev: k},
		&reqInfo{kind: "login", uid: uid, k8: k8, n: n})
}

const crowdBase = 1000 // `crowd b=B n=N` addresses accounts crowdBase+B+1 .. crowdBase+B+N
const crowdMax = 4096

// crowd: the other accounts of a busy centre.  For each of N accounts beyond the printed ones the ordinary
// double-device sequence - login on gate-1 (k=0), logined, a second login from gate-2 asking for the kick -
// is sent as three real requests; the account ends logged-in with a parked kick-wait login (on the
// unchanged code).  The observation is a summary: fresh authorisations, other login answers, notifications
// acknowledged, kick / offline requests; np / nt of the snapshot count the crowd's records and parked logins.
func (e *env) crowd(ws []string) string {
	if _, ok := hx.KV(ws, "n"); !ok {
		return "bad-op"
	}
	b, n := int64(hx.KVInt(ws, "b")), int64(hx.KVInt(ws, "n"))
	if n < 1 || n > crowdMax || b < 0 || b > crowdMax {
		return "bad-op"
	}
	e.mu.Lock()
	e.kicks, e.offs, e.acks = nil, nil, nil
	e.mu.Unlock()
	noti := 0
	for i := int64(1); i <= n; i++ {
		uid := crowdBase + b + i
		e.login(uid, 1, uint32(2*i-1), false)
		e.mu.Lock()
		e.ret = "noack"
		e.mu.Unlock()
		e.request("onlogiclogined", &mymsg.OnLogicLogined{UId: uid, LogicId: "logic-1"}, &reqInfo{kind: "logined", uid: uid})
		e.mu.Lock()
		if e.ret == "-" {
			noti++
		}
		e.mu.Unlock()
		e.login(uid, 2, uint32(2*i), true)
	}
	e.mu.Lock()
	ok, oth := 0, 0
	for _, a := range e.acks {
		if strings.HasSuffix(a, ":ok") {
			ok++
		} else {
			oth++
		}
	}
	obs := fmt.Sprintf("ret=- crowd=%d ok=%d oth=%d noti=%d kicks=%d offs=%d", n, ok, oth, noti, len(e.kicks), len(e.offs))
	e.kicks, e.offs, e.acks = nil, nil, nil
	e.mu.Unlock()
	return obs + e.snapshot()
}

// exec interprets one op line against the real code.
func (e *env) exec(op string) string {
	ws := hx.Words(op)
	if len(ws) == 0 {
		return "bad-op"
	}
	if ws[0] == "reset" {
		e.reset(hx.KVInt(ws, "timer") == 1)
		return "ok" + e.snapshot()
	}
	if e.mgr == nil {
		return "bad-op"
	}
	uid := int64(hx.KVInt(ws, "u"))
	switch ws[0] {
	case "tick", "adv", "advt":
	case "crowd":
		return e.crowd(ws)
	case "login", "closed", "logined", "reonline", "logoutreq", "logoutdone", "abnormal", "swbegin", "swend", "offreply":
		if uid < 1 || uid > nAccts {
			return "bad-op"
		}
	default:
		return "bad-op"
	}
	switch ws[0] {
	case "closed", "logined", "offreply":
		// the map-order dependent case (two parked logins expired at one scan) is not driven
		e.mu.Lock()
		skip := e.staleUnanswered() >= 2
		e.mu.Unlock()
		if skip {
			return "nondet"
		}
	}
	e.mu.Lock()
	e.kicks, e.offs, e.acks = nil, nil, nil
	e.ret = "noack"
	e.mu.Unlock()
	panicked := false
	call := func(f func()) {
		e.onSvc(func() {
			defer func() {
				if r := recover(); r != nil {
					panicked = true
				}
			}()
			f()
		})
	}
	// the protocol's operations: real requests to the centre's remote API (what gate / logic send)
	asked := true
	switch ws[0] {
	case "login":
		for _, key := range []string{"f", "n", "k"} {
			if _, ok := hx.KV(ws, key); !ok {
				return "bad-op"
			}
		}
		f, n, k := hx.KVInt(ws, "f"), uint32(hx.KVInt(ws, "n")), hx.KVInt(ws, "k") == 1
		e.login(uid, f, n, k)
	case "closed":
		e.request("onsessionclose", &mymsg.CenterOnSessionClose{UId: uid}, &reqInfo{kind: ws[0], uid: uid})
	case "logined":
		lg := "logic-1"
		if hx.KVInt(ws, "lg") != 1 {
			lg = "logic-x"
		}
		e.request("onlogiclogined", &mymsg.OnLogicLogined{UId: uid, LogicId: lg}, &reqInfo{kind: ws[0], uid: uid})
	case "reonline":
		e.request("onlogicreonline", &mymsg.OnLogicReOnline{UId: uid}, &reqInfo{kind: ws[0], uid: uid})
	case "logoutreq":
		e.request("reqlogout", &mymsg.ReqLogout{UId: uid}, &reqInfo{kind: ws[0], uid: uid})
	case "logoutdone":
		e.request("onlogout", &mymsg.OnLogout{UId: uid}, &reqInfo{kind: ws[0], uid: uid})
	case "abnormal":
		e.request("onabnormallogout", &mymsg.OnLogout{UId: uid}, &reqInfo{kind: ws[0], uid: uid})
	case "swbegin":
		e.request("reqswitchline", &mymsg.ReqSwitchLine{UId: uid}, &reqInfo{kind: ws[0], uid: uid})
	case "swend":
		e.request("onswitchlineend", &mymsg.OnSwitchLineEnd{UId: uid, Succ: hx.KVInt(ws, "ok") == 1}, &reqInfo{kind: ws[0], uid: uid})
	default:
		asked = false
	}
	if asked && ws[0] == "login" {
		asked = false // answered through the acknowledgement list, possibly in a later operation
	}
	switch ws[0] {
	case "login", "closed", "logined", "reonline", "logoutreq", "logoutdone", "abnormal", "swbegin", "swend":
	case "offreply":
		var p *pendingOff
		e.mu.Lock()
		for i, q := range e.pending {
			if q.uid == uid {
				p = q
				e.pending = append(e.pending[:i:i], e.pending[i+1:]...)
				break
			}
		}
		e.mu.Unlock()
		if p == nil {
			return "none"
		}
		res := &messages.ServiceResponse{ReqId: p.req.ReqId}
		if hx.KVInt(ws, "ok") != 1 {
			res.ErrCode = 1
			res.ErrInfo = "logic failed"
		}
		e.system.Root.Send(p.req.Sender, res)
		e.wait()
	case "tick":
		if e.update == nil {
			return "whitebox-unavailable"
		}
		call(func() { e.update() })
	case "adv", "advt":
		// time passes either with the timer of PlayerMgr.Start running (advt) or without it (adv)
		if e.timer != (ws[0] == "advt") {
			return "bad-op"
		}
		if _, ok := hx.KV(ws, "ms"); !ok {
			return "bad-op"
		}
		ms := int64(hx.KVInt(ws, "ms"))
		now := common.NowMs()
		e.mu.Lock()
		old := false
		for _, q := range e.pending {
			if now+ms-q.sent >= 29000 {
				old = true
			}
		}
		e.mu.Unlock()
		if old || ms <= 0 {
			return "refused"
		}
		time.Sleep(time.Duration(ms) * time.Millisecond)
		e.wait()
	default:
		return "bad-op"
	}
	if panicked {
		return "panic"
	}
	e.mu.Lock()
	sort.Strings(e.kicks)
	offs := make([]string, len(e.offs))
	for i, u := range e.offs {
		offs[i] = fmt.Sprint(u)
	}
	ret := "-"
	if asked {
		ret = e.ret
	}
	obs := fmt.Sprintf("ret=%s acks=%s kicks=%s offs=%s", ret, strings.Join(e.acks, ","), strings.Join(e.kicks, ","), strings.Join(offs, ","))
	e.mu.Unlock()
	return obs + e.snapshot()
}

// ---------------------------------------------------------------- generator

var limits = []int{3000, 30000, 120000, 180000, 300000, 1800000}

type gen struct {
	h        *hx.T
	now      int64
	mark     []int64 // times at which something with a time limit started
	uids     int
	conns    [][2]int
	dl       []int64 // armed limits (see deadlines)
	last     string  // the implementation's last observation
	afterAdv bool    // the previous op was a clock advance: probe the limits now
	timer    bool    // this case runs with the 1 s timer of PlayerMgr.Start (advt instead of adv)
	timerOK  bool    // the timer manager's shape is recognised (else no timer cases)
	crowd    int     // this case starts with that many other accounts holding a parked login (0 = none)
}

func (g *gen) uid() int {
	if g.h.R.Intn(40) == 0 {
		return 1 + g.h.R.Intn(nAccts)
	}
	return 1 + g.h.R.Intn(g.uids)
}

func (g *gen) conn() (int, int) {
	r := g.h.R
	if r.Intn(60) == 0 {
		g.h.Count("conn.net0")
		return 1 + r.Intn(2), 0
	}
	if r.Intn(40) == 0 {
		g.h.Count("conn.unknown-front")
		return 3, 1 + r.Intn(9)
	}
	c := g.conns[r.Intn(len(g.conns))]
	return c[0], c[1]
}

// deadlines: the limits armed so far, computed by the generator from what is observable (an
// acknowledgement, an accepted request, a login left unanswered = parked, a scan) plus the constants
// of define.go / playermgr.go / kickwait.go — not read out of the implementation
func (g *gen) deadlines() []int64 {
	var ds []int64
	for _, d := range g.dl {
		if d >= g.now {
			ds = append(ds, d)
		}
	}
	g.dl = append(g.dl[:0], ds...)
	return ds
}

func (g *gen) arm(ms ...int64) {
	for _, d := range ms {
		g.dl = append(g.dl, g.now+d)
	}
}

// advance: mostly to just before / exactly at / just after an armed time limit,
// else relative to an instant at which something with a limit started
func (g *gen) adv() string {
	r := g.h.R
	var ms int64
	ds := g.deadlines()
	switch x := r.Intn(10); {
	case x == 0:
		ms = int64(1 + r.Intn(5000))
		g.h.Count("adv.small")
	case x == 1:
		ms = int64(limits[r.Intn(len(limits))])
		g.h.Count("adv.limit")
	case x < 7 && len(ds) > 0:
		target := ds[r.Intn(len(ds))] + int64(r.Intn(3)) - 1
		ms = target - g.now
		if ms <= 0 {
			ms = int64(1 + r.Intn(1000))
		}
		g.h.Count("adv.shown-deadline")
	default:
		if len(g.mark) == 0 {
			ms = int64(limits[r.Intn(len(limits))]) + int64(r.Intn(3)) - 1
		} else {
			m := g.mark[r.Intn(len(g.mark))]
			target := m + int64(limits[r.Intn(len(limits))]) + int64(r.Intn(3)) - 1
			ms = target - g.now
			if ms <= 0 {
				ms = int64(1 + r.Intn(1000))
			}
		}
		g.h.Count("adv.edge")
	}
	g.afterAdv = true
	if g.timer {
		if r.Intn(4) == 0 {
			// land exactly on / just around a firing of the timer
			ms = (g.now+ms)/1000*1000 + int64(r.Intn(3)) - 1 - g.now
			if ms <= 0 {
				ms = 1000 - g.now%1000
			}
			g.h.Count("adv.timer-edge")
		}
		return fmt.Sprintf("advt ms=%d", ms)
	}
	return fmt.Sprintf("adv ms=%d", ms)
}

// op: weighted by what the implementation last showed for the chosen account, so that the
// protocol's own sequences (login, logined, second login parks, closed, offline reply, reconnect,
// re-online, logout request, logout done, tick; line switch begin/end) are common, with every
// other operation still possible in every state.
var malformed = []string{"login u=9 f=1 n=1 k=1", "closed u=0", "frobnicate u=1", "crowd n=0", "crowd b=3", "crowd b=0 n=5000", "login u=1 f=1", "adv", "logined lg=1", "swend u=77 ok=1",
	"login u=1 f=7 n=4 k=1", "login u=1 f=0 n=5 k=1", "adv ms=0", ""}

func (g *gen) op() string {
	r := g.h.R
	if r.Intn(80) == 0 {
		g.h.Count("op.malformed")
		if m := malformed[r.Intn(len(malformed))]; m != "" {
			return m
		}
		return "offreply u=2 ok=1"
	}
	u := g.uid()
	acct := ""
	if parts := strings.Split(g.last, " | "); len(parts) > u {
		acct = parts[u]
	}
	has := func(x string) bool { return strings.Contains(acct, x) }
	w := map[string]int{"login": 6, "closed": 3, "logined": 3, "reonline": 2, "logoutreq": 3, "logoutdone": 2, "abnormal": 1,
		"swbegin": 2, "swend": 2, "offreply": 1, "tick": 4, "adv": 6}
	switch {
	case acct == "" || acct == "-" || has("st=- "):
		w["login"] += 20
	case has("st=Logining"):
		w["logined"] += 18
		w["closed"] += 4
	case has("st=Logined"):
		if has("c=0:0") {
			w["login"] += 12
			w["logoutreq"] += 5
		} else {
			w["login"] += 10
			w["closed"] += 8
			w["swbegin"] += 5
			w["logoutreq"] += 3
		}
	case has("st=SwitchLine"):
		w["swend"] += 16
	case has("st=Logouting"):
		w["logoutdone"] += 14
	case has("st=WaitRemove"):
		w["tick"] += 16
		w["logined"] += 2
		w["logoutreq"] += 2
	}
	if has("lk=Reonline") {
		w["reonline"] += 12
	}
	if has("tk=") && !has("tk=-") {
		w["closed"] += 10
		w["login"] += 4
		w["adv"] += 3
	}
	if !has("po=0") && has("po=") {
		w["offreply"] += 16
	}
	if g.crowd > 0 {
		w["adv"] = 1 // 30 s after the crowd parked, every operation that scans is map-order dependent (not driven)
		w["login"] += 6
		if has("tk=") && !has("tk=-") {
			w["login"] += 8 // the impatient second device asks again
		}
	}
	if g.afterAdv {
		g.afterAdv = false
		w["logoutreq"] += 10
		w["swbegin"] += 6
		w["login"] += 8
		w["tick"] += 12
		w["adv"] = 1
	}
	keys := []string{"login", "closed", "logined", "reonline", "logoutreq", "logoutdone", "abnormal", "swbegin", "swend", "offreply", "tick", "adv"}
	total := 0
	for _, k := range keys {
		total += w[k]
	}
	x := r.Intn(total)
	kind := ""
	for _, k := range keys {
		if x < w[k] {
			kind = k
			break
		}
		x -= w[k]
	}
	switch kind {
	case "login":
		f, n := g.conn()
		k := 1
		if r.Intn(4) == 0 {
			k = 0
		}
		return fmt.Sprintf("login u=%d f=%d n=%d k=%d", u, f, n, k)
	case "logined":
		lg := 1
		if r.Intn(12) == 0 {
			lg = 0
		}
		return fmt.Sprintf("logined u=%d lg=%d", u, lg)
	case "swend":
		return fmt.Sprintf("swend u=%d ok=%d", u, r.Intn(2))
	case "offreply":
		return fmt.Sprintf("offreply u=%d ok=%d", u, hx.B2i(r.Intn(5) != 0))
	case "tick":
		return "tick"
	case "adv":
		return g.adv()
	}
	return fmt.Sprintf("%s u=%d", kind, u)
}

func opKind(op string) string {
	if i := strings.IndexByte(op, ' '); i > 0 {
		return op[:i]
	}
	return op
}

// note what the generator reached (from the implementation's observation)
func (g *gen) account(op, obs string) {
	h := g.h
	if strings.HasPrefix(obs, "ret=") {
		ows := hx.Words(obs)
		a, _ := hx.KV(ows, "acks")
		switch {
		case strings.Contains(a, ":ok"):
			g.arm(120000, 300000)
		case strings.Contains(a, ":re"):
			g.arm(180000)
		}
		if opKind(op) == "login" && !strings.Contains(a, ":ok") && !strings.Contains(a, ":re") && !strings.Contains(a, ":already") {
			g.arm(30000) // left unanswered (parked), or answered busy
		}
		if r, _ := hx.KV(ows, "ret"); r == "t" {
			switch opKind(op) {
			case "logoutreq":
				g.arm(180000, 1800000)
			case "swbegin":
				g.arm(180000)
			}
		}
		switch opKind(op) {
		case "offreply", "closed", "logined":
			g.arm(3000)
		}
	}
	if strings.HasPrefix(obs, "ret=") {
		g.reach(op, g.last, obs)
		g.last = obs
	}
	h.Count("op." + opKind(op))
	if strings.HasPrefix(op, "adv") && obs != "refused" {
		g.now += int64(hx.KVInt(hx.Words(op), "ms"))
	}
	if strings.HasPrefix(obs, "ret=") {
		ws := hx.Words(obs)
		if a, _ := hx.KV(ws, "acks"); a != "" {
			for _, one := range strings.Split(a, ",") {
				if i := strings.LastIndexByte(one, ':'); i >= 0 {
					c := one[i+1:]
					if strings.HasPrefix(c, "re") {
						c = "reconnect"
					}
					h.Count("ack." + c)
				}
			}
			if strings.HasPrefix(op, "offreply") {
				h.Count("reach.parked-login-run")
			}
			if strings.HasPrefix(op, "login") && strings.Count(a, ",") > 0 {
				h.Count("reach.two-acks-in-one-op")
			}
			g.mark = append(g.mark, g.now)
		}
		if v, _ := hx.KV(ws, "ret"); v == "t" {
			h.Count("accepted." + opKind(op))
			g.mark = append(g.mark, g.now)
		} else if v == "f" {
			h.Count("refused." + opKind(op))
		}
		if k, _ := hx.KV(ws, "kicks"); k != "" {
			h.Count("reach.kick")
		}
		if o, _ := hx.KV(ws, "offs"); o != "" {
			h.Count("reach.offline-sent")
		}
		if strings.Contains(obs, "tk=1:") || strings.Contains(obs, "tk=2:") || strings.Contains(obs, "tk=3:") {
			h.Count("reach.parked-present")
			if strings.HasPrefix(op, "login") {
				g.mark = append(g.mark, g.now)
			}
		}
	} else {
		h.Count("obs." + obs)
	}
}

func field(acct, key string) string {
	v, _ := hx.KV(hx.Words(acct), key)
	return v
}

// reach: which time-limit dependent branches the history went through
func (g *gen) reach(op, prev, cur string) {
	pp, cp := strings.Split(prev, " | "), strings.Split(cur, " | ")
	for u := 1; u <= nAccts && u < len(pp) && u < len(cp); u++ {
		a, b := pp[u], cp[u]
		la, lb := field(a, "lk"), field(b, "lk")
		if la != "" && la != "-" && lb != "" && lb != "-" && la != lb && opKind(op) != "tick" {
			g.h.Count("reach.lock-taken-over-after-expiry")
		}
		sa := field(a, "st")
		if opKind(op) == "advt" && (b == "-" || field(b, "st") == "-") {
			switch {
			case strings.HasPrefix(sa, "Logining"):
				g.h.Count("reach.timer-expired-Logining")
			case strings.HasPrefix(sa, "Logouting"):
				g.h.Count("reach.timer-expired-Logouting")
			case strings.HasPrefix(sa, "WaitRemove"):
				g.h.Count("reach.timer-removed-WaitRemove")
			}
		}
		if opKind(op) == "advt" && b != "-" && field(b, "st") != "-" && (strings.HasPrefix(sa, "Logining") || strings.HasPrefix(sa, "Logouting")) {
			g.h.Count("reach.timer-kept-unexpired")
		}
		if opKind(op) == "tick" && (b == "-" || field(b, "st") == "-") {
			switch {
			case strings.HasPrefix(sa, "Logining"):
				g.h.Count("reach.tick-expired-Logining")
			case strings.HasPrefix(sa, "Logouting"):
				g.h.Count("reach.tick-expired-Logouting")
			case strings.HasPrefix(sa, "WaitRemove"):
				g.h.Count("reach.tick-removed-WaitRemove")
			}
		}
		if opKind(op) == "tick" && b != "-" && field(b, "st") != "-" && (strings.HasPrefix(sa, "Logining") || strings.HasPrefix(sa, "Logouting")) {
			g.h.Count("reach.tick-kept-unexpired")
		}
		ta, tb := field(a, "tk"), field(b, "tk")
		if ta != "" && ta != "-" && tb == "-" && !strings.Contains(cur, "acks="+fmt.Sprint(u)+".") {
			g.h.Count("reach.parked-login-dropped-unanswered")
		}
		if strings.HasPrefix(sa, "WaitRemove") && !strings.HasPrefix(field(b, "st"), "WaitRemove") && b != "-" && field(b, "st") != "-" {
			g.h.Count("reach.lingering-record-revived")
		}
	}
}

func (g *gen) newCase() {
	r := g.h.R
	g.now = 0
	g.dl = g.dl[:0]
	g.last = ""
	g.mark = g.mark[:0]
	g.uids = 1
	if r.Intn(3) == 0 {
		g.uids = 2
	}
	nc := 2 + r.Intn(2)
	g.conns = g.conns[:0]
	for i := 0; i < nc; i++ {
		g.conns = append(g.conns, [2]int{1 + r.Intn(2), 1 + i})
	}
	g.timer = g.timerOK && r.Intn(3) == 0
	if g.timer {
		g.h.Count("case.timer")
	}
	// a busy centre: many other accounts logged in with a second device waiting for the kick (table sizes
	// around powers of two and a few small ones), about 1 case in 80
	g.crowd = 0
	if r.Intn(80) == 0 {
		g.crowd = crowdSizes[r.Intn(len(crowdSizes))] + r.Intn(3) - 1
		g.uids = 1
		g.h.Count("case.crowd")
	}
}

var crowdSizes = []int{2, 64, 512, 1024, 1024, 1200}

func (g *gen) resetOp() string {
	if g.timer {
		return "reset timer=1"
	}
	return "reset"
}

// ---------------------------------------------------------------- test entry points

// emit executes one op and records it; a `reset` line is recorded with the parts of the white-box
// probe that could not be resolved against the code under test (the model driver echoes `?` for them)
func emit(h *hx.T, e *env, op string) string {
	obs := e.exec(op)
	if ws := hx.Words(op); len(ws) > 0 && ws[0] == "reset" {
		op = "reset"
		if e.timer {
			op += " timer=1"
		}
		if u := e.pr.unresList(); u != "" {
			op += " unres=" + u
			for _, k := range strings.Split(u, ",") {
				h.Count("probe.unresolved." + k)
			}
		}
	}
	h.Emit(op, obs)
	return obs
}

func bubble(t *testing.T, body func(e *env, h *hx.T)) {
	synctest.Test(t, func(t *testing.T) {
		h := hx.Open()
		e := newEnv()
		body(e, h)
		h.Close()
		syscall.Exit(0) // the service goroutines never end (BUILDING.md)
	})
}

func TestRun(t *testing.T) {
	bubble(t, func(e *env, h *hx.T) {
		run := func(op string) string {
			return emit(h, e, op)
		}
		if ops := hx.ReplayOps(); ops != nil {
			for _, op := range ops {
				run(op)
			}
			return
		}
		for _, op := range hx.CorpusOps(hx.Env("VERIF_CORPUS", "corpus/C18")) {
			h.Count("corpus")
			run(op)
		}
		g := &gen{h: h, timerOK: e.timerOK()}
		if !g.timerOK {
			h.Count("probe.unresolved.timer")
			h.Count("whitebox.update=unavailable")
		}
		n := hx.EnvInt("VERIF_N", 1500)
		for i := 0; i < n; i++ {
			g.newCase()
			run(g.resetOp())
			l := 6 + h.R.Intn(20)
			if g.crowd > 0 {
				op := fmt.Sprintf("crowd b=0 n=%d", g.crowd)
				g.account(op, run(op))
			}
			for j := 0; j < l; j++ {
				op := g.op()
				g.account(op, run(op))
			}
		}
	})
}

var exhAlphabet = []string{
	"login u=1 f=1 n=1 k=1", "login u=1 f=2 n=2 k=1", "closed u=1", "logined u=1 lg=1", "reonline u=1",
	"logoutreq u=1", "logoutdone u=1", "abnormal u=1", "swbegin u=1", "swend u=1 ok=1", "offreply u=1 ok=1",
	"tick", "adv ms=120000", "adv ms=180001",
}

// TestExhaustive: every op sequence of length VERIF_DEPTH over 1 account x 2 connections
func TestExhaustive(t *testing.T) {
	bubble(t, func(e *env, h *hx.T) {
		depth := hx.EnvInt("VERIF_DEPTH", 4)
		idx := make([]int, depth)
		total := 0
		for {
			emit(h, e, "reset")
			for _, i := range idx {
				op := exhAlphabet[i]
				emit(h, e, op)
			}
			total++
			k := depth - 1
			for k >= 0 {
				idx[k]++
				if idx[k] < len(exhAlphabet) {
					break
				}
				idx[k] = 0
				k--
			}
			if k < 0 {
				break
			}
		}
		h.Stats[fmt.Sprintf("exhaustive.sequences.depth%d.alphabet%d", depth, len(exhAlphabet))] = total
	})
}

// stateKey: everything the future behaviour of the centre can depend on, with times taken
// relative to the current instant and limits that have already passed collapsed (a passed limit
// stays passed).  Used only to prune the reachability search below, never compared with the model.
func (e *env) stateKey() string {
	var sb strings.Builder
	un := e.pr.unres
	e.onSvc(func() {
		e.mu.Lock()
		defer e.mu.Unlock()
		now := common.NowMs()
		fut := func(t int64) string {
			if t <= now {
				return "past"
			}
			return fmt.Sprint(t - now)
		}
		for u := int64(1); u <= nAccts; u++ {
			if p, ok := e.player(u); !un["P"] && ok {
				st, lk := "?", "?"
				if !un["S"] {
					st = "0"
					if l := e.stateLimit(p); l != 0 {
						st = fut(l)
					}
				}
				if !un["L"] {
					lk = "-"
					if held, kind, limit := e.lockView(p); held {
						lk = fmt.Sprintf("%d@%s", kind, fut(limit))
					}
				}
				fmt.Fprintf(&sb, "P%d:%s:%s:%s:%d:%s;", p.GetState(), st, lk, p.FrontId, p.NetId, p.GetLogicId())
			} else {
				sb.WriteString("P-;")
			}
			if t, ok := e.task(u); !un["T"] && ok && !un["C"] {
				fmt.Fprintf(&sb, "T%s:%d;", fld(t, e.pr.tkFront).String(), fld(t, e.pr.tkNet).Uint())
			} else {
				sb.WriteString("T-;")
			}
			// unanswered logins (the parked one among them): their ages decide expiry
			var ages []string
			for _, t0 := range e.open[u] {
				ages = append(ages, fut(t0+30*1000+1))
			}
			sort.Strings(ages)
			sb.WriteString("A" + strings.Join(ages, ",") + ";")
			for _, q := range e.pending {
				if q.uid == u {
					fmt.Fprintf(&sb, "O%d;", now-q.sent)
				}
			}
			sb.WriteString("|")
		}
		if !un["N"] {
			sb.WriteString("N" + fut(fld(e.kwMgr(), e.pr.nextCheck).Int()))
		}
		if e.timer {
			fmt.Fprintf(&sb, "|phase%d", (now-e.t0)%1000)
		}
	})
	return sb.String()
}

var reachAlphabet = []string{
	"login u=1 f=1 n=1 k=1", "login u=1 f=2 n=2 k=1", "login u=1 f=2 n=2 k=0", "closed u=1", "logined u=1 lg=1", "logined u=1 lg=0",
	"reonline u=1", "logoutreq u=1", "logoutdone u=1", "abnormal u=1", "swbegin u=1", "swend u=1 ok=1", "offreply u=1 ok=1",
	"tick", "adv ms=1", "adv ms=2999", "adv ms=30000", "adv ms=119999", "adv ms=179999", "adv ms=299999", "adv ms=1799999",
}

// with the timer: no explicit tick is needed; advances that stop just before / on / after a firing
var reachAlphabetT = []string{
	"login u=1 f=1 n=1 k=1", "login u=1 f=2 n=2 k=1", "closed u=1", "logined u=1 lg=1",
	"reonline u=1", "logoutreq u=1", "logoutdone u=1", "abnormal u=1", "swbegin u=1", "swend u=1 ok=1", "offreply u=1 ok=1",
	"advt ms=1", "advt ms=999", "advt ms=1000", "advt ms=119000", "advt ms=119999", "advt ms=179999", "advt ms=1799000", "advt ms=1799999",
}

// TestReachable: breadth-first over the states of 1 account x 2 connections; every op of the
// alphabet is tried from every distinct state found (one representative history per state), down
// to VERIF_DEPTH or until VERIF_MAXOPS op lines have been produced.  Every executed history is
// part of the trace, i.e. compared with the model and checked by the property monitor.
func TestReachable(t *testing.T) {
	bubble(t, func(e *env, h *hx.T) {
		depth := hx.EnvInt("VERIF_DEPTH", 6)
		maxOps := hx.EnvInt("VERIF_MAXOPS", 300000)
		// VERIF_TIMER=1: the same search with the 1 s timer of PlayerMgr.Start running (advt for adv)
		resetOp, reachAlphabet := "reset", reachAlphabet
		if hx.EnvInt("VERIF_TIMER", 0) == 1 && e.timerOK() {
			resetOp = "reset timer=1"
			reachAlphabet = nil
			for _, a := range reachAlphabetT {
				reachAlphabet = append(reachAlphabet, a)
			}
		}
		seen := map[string]bool{}
		emit(h, e, resetOp)
		seen[e.stateKey()] = true
		frontier := [][]string{{}}
		done := 0
		for d := 1; d <= depth && len(frontier) > 0; d++ {
			var next [][]string
			complete := true
			for _, seq := range frontier {
				if h.N > maxOps {
					complete = false
					break
				}
				for _, a := range reachAlphabet {
					emit(h, e, resetOp)
					for _, op := range seq {
						emit(h, e, op)
					}
					obs := emit(h, e, a)
					if !strings.HasPrefix(obs, "ret=") {
						continue
					}
					k := e.stateKey()
					if !seen[k] {
						seen[k] = true
						ns := make([]string, 0, len(seq)+1)
						ns = append(append(ns, seq...), a)
						next = append(next, ns)
					}
				}
			}
			if !complete {
				break
			}
			done = d
			h.Stats[fmt.Sprintf("reachable.new-states.depth%d", d)] = len(next)
			frontier = next
		}
		h.Stats["reachable.depth-completed"] = done
		h.Stats["reachable.distinct-states"] = len(seen)
	})
}

var _ = os.Getenv
