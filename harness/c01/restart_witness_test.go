package c01

import (
	"fmt"
	"os"
	"strings"
	"syscall"
	"testing"
	"testing/synctest"

	messages "github.com/dfklegend/cell2/actorex/service/servicemsgs"
)

// TestRestartWitness (opt-in: VERIF_C01_RESTART=1; in no tier of the check) documents the regime the C01 theorems
// exclude by assumption ("a completion callback invoked by handleResponse does not panic"): such a panic escalates
// through the mailbox, the supervisor restarts the actor, the producer builds a fresh Service (empty table, request ids
// from 1 again) — and the peer's reply to a request of the OLD incarnation completes an unrelated request of the NEW
// one; the old request is timed out by the orphaned object's 1 s timer although its reply was delivered.
//
//	cd /verif/harness && VERIF_C01_RESTART=1 go1.26 test -vet=off -tags verif -run TestRestartWitness ./c01
//
// exit 1 ("HAZARD PRESENT") as long as the reply crosses the restart.
func TestRestartWitness(t *testing.T) {
	if os.Getenv("VERIF_C01_RESTART") == "" {
		t.Skip("opt-in: set VERIF_C01_RESTART=1")
	}
	synctest.Test(t, func(t *testing.T) {
		w := newWorld()
		var lines []string
		p := func(op string) string {
			rec, obs := w.exec(op)
			lines = append(lines, rec+"\t"+obs)
			return obs
		}
		p("reset")
		p("req s=R") // tag 0, id 1: the peer holds it
		c := w.cur
		// tag 1, id 2: its callback panics when the reply arrives (under handleResponse)
		c.onSvc(func() {
			c.mu.Lock()
			k := c.nextTag
			c.nextTag++
			c.kind[k] = 'R'
			c.t0[k] = c.now()
			c.mu.Unlock()
			c.svc.RequestEx(w.peerPid, "a.b", &messages.TestHello{I: int32(k)}, func(err error, msg interface{}) {
				panic("c01: user callback panics under handleResponse")
			})
		})
		lines = append(lines, "req(panicking callback)\t"+c.observe("ok"))
		o1 := p("deliver k=1 kind=ok w=1") // -> panic -> supervisor restart
		p("req s=R")                       // tag 2: id 1 again
		o2 := p("deliver k=0 kind=ok w=5") // the answer to tag 0
		o3 := p("adv dt=31000")
		for _, l := range lines {
			fmt.Println(l)
		}
		hazard := strings.HasPrefix(o1, "restarted") && strings.Contains(o2, "cb=2:ok:5@")
		fmt.Printf("restarted=%v reply-to-tag0-completed-tag2=%v tag0-timed-out-by-orphaned-timer=%v\n",
			strings.HasPrefix(o1, "restarted"), strings.Contains(o2, "cb=2:ok:5@"), strings.Contains(o3, "0:timeout@"))
		os.Stdout.Sync()
		if hazard {
			fmt.Println("HAZARD PRESENT: a reply crossed the actor restart (request ids restart at 1)")
			os.Stdout.Sync()
			syscall.Exit(1)
		}
		syscall.Exit(0)
	})
}
