// C01 correspondence harness: a real actorex/service.Service (embedded in a
// node NodeService, as every cell2 service is) issues requests / notifies to a
// scripted peer service inside a testing/synctest bubble (virtual clock).  One
// op line in, one canonical observation out; see exec().
//
// Op language (one case = everything from a `reset` to the next one):
//
//	reset [next=<n>]                      fresh requester; optionally presets the id allocator (wrap tests)
//	req s=<act>                           one top-level issue; <act> is a script item (below)
//	noroute cb=<0|1> [route=<str>]        node-level app.Request whose route finds no target (= req s=X / req s=x); `route` (may be
//	                                      empty) overrides the route string: well-formed with an unknown service type, or malformed
//	                                      (not exactly serviceType.registry.method), or @query / @kick (app.QuerySession / app.Kick for an
//	                                      unknown front service) — every one of them must end in ErrorNoService
//	burst n=<k> s=<act>                   k top-level issues of the same script item by ONE piece of handler code (1 <= k <= 300):
//	                                      a whole batch outstanding at once, expiring in the same scan (64, 128, ... entries)
//	preq s=<act>                          request / notify to a peer that is a real service with an API dispatcher (apimapper): its
//	                                      handler park.Park keeps the completion callback; `deliver` completes it later, in any
//	                                      order, with other requests dispatched in between (asynchronous API handlers)
//	areq peer=echo|hold s=<act>           node-level app.Request routed through the cluster directory to the peer that answers at
//	                                      once with TestHello{7000+tag} (echo) or to the scripted one that holds requests (hold)
//	anotify peer=echo|hold|none [ser=0]   node-level app.Notify to such a peer (none: no routable target)
//	deliver k=<tag> kind=ok|nil|err|bad|badtype|empty w=<n> [code=<int32>]   (badtype: success code and a type name nobody
//	                                      registered — remote.Deserialize panics on it, D22; empty: a reply of the field-less type EmptyArg; ok w=0 and empty
//	                                      serialise to ZERO bytes and must still arrive as a non-nil message of their type)
//	                                      the peer answers the message it received for instance <tag>
//	                                      (kind=err: ErrCode = code, default 999; any code != 0 is an error reply)
//	inject id=<n> kind=ok|nil|err|bad|badtype w=<n>     a raw ServiceResponse for an arbitrary id reaches the requester
//	adv dt=<ms> flood=<n> [order=..]      as adv, but the service goroutine is parked in a posted closure for the whole time after
//	                                      starting n zero-delay timers (n >= 1000 overflows timer.Mgr's 999-slot queue): an expiry
//	                                      tick falling into the window is delivered late — at the end — not lost
//	adv dt=<ms> [order=<tag,...>]         virtual time passes (the 1 s expiry scan runs inside);
//	                                      `order` is appended by the harness AFTER execution: the order
//	                                      in which the implementation (Go map iteration) ran the timeout
//	                                      callbacks (instance tags) and, as i<id>, which nil-callback entries it had
//	                                      already removed before each of them — the legitimate nondeterminism,
//	                                      fed to the model as its choice
//
//	stop                                  the requester actor is stopped (ActorSystem.Root.Stop: Stopping, Stopped, the pid leaves the
//	                                      registry).  Service.Receive has no case for those messages (its `case *actor.Stop` never
//	                                      matches: Stop is a system message the actor context consumes), so the run-service goroutine and
//	                                      the expiry timer live on: replies are dead letters from now on, every pending request is
//	                                      still completed — by the timeout —, and timeout callbacks / posted code can still issue
//	                                      requests (which can only time out)
//
//	crowd n=<k> w=<v>                     k fresh services spawned from ONE props (one scheDisp / run-service goroutine), each with
//	                                      one request outstanding; the shared goroutine is parked inside a posted closure while
//	                                      k foreign goroutines deliver one reply each (more than the dispatcher's 9-slot queue
//	                                      holds when k > 9), then released: every reply callback, timer callback and posted
//	                                      closure must run on that one goroutine and never two at a time
//
// script item:  R request with callback | r request with nil callback | N notify
//
//	F request+callback whose message cannot be serialised | f same, nil callback | n notify, not serialisable
//	X node-level app.Request whose route finds no target, with callback (completed at once with ErrorNoService) |
//	x same, nil callback | y app.Notify without a target.  The route string of an X/x/y item is noRoutes[tag % len] (@query / @kick: app.QuerySession / app.Kick): unknown
//	service types and malformed routes (two parts, four parts, empty, empty service type) alternate
//	R, F and X may be followed by "(" items ")" : what the callback does when it runs.
//	P (inside a callback script only): the callback panics — but only when it runs as part of a timeout
//	completion (directly or nested through an F callback): that panic is recovered by timer.Mgr; a panic
//	under handleResponse would restart the actor (supervisor) and is outside this check.
//
// Observation: `<status> iss=.. cb=.. sent=.. pend=..`   status `restarted`: the supervisor replaced the requester by a fresh Service
//
//	iss  = instances issued during the op  <tag>:<kind char>@<t>
//	cb   = callback invocations in order   <tag>:<class>@<t>[!ctx]   class = ok:<v> | ok:nil | rerr:<w> | err | timeout | noservice
//	sent = what the peer received          <tag>:<reqid>:<route>
//	pend = sorted keys of Service.Handlers at quiescence
//	pan  = virtual times at which a script panicked during the op
package c01

import (
	"errors"
	"fmt"
	"os"
	"reflect"
	"sort"
	"strconv"
	"strings"
	"sync"
	"sync/atomic"
	"syscall"
	"testing"
	"testing/synctest"
	"time"
	"unsafe"

	"cell2verif/hx"

	"github.com/asynkron/protoactor-go/actor"

	as "github.com/dfklegend/cell2/actorex/service"
	messages "github.com/dfklegend/cell2/actorex/service/servicemsgs"
	api "github.com/dfklegend/cell2/apimapper"
	"github.com/dfklegend/cell2/apimapper/apientry"
	"github.com/dfklegend/cell2/node/app"
	"github.com/dfklegend/cell2/node/cluster"
	ns "github.com/dfklegend/cell2/node/service"
	"github.com/dfklegend/cell2/nodectrl/define"
	"github.com/dfklegend/cell2/utils/common"
	"github.com/dfklegend/cell2/utils/serialize/proto"
)

// ---------------------------------------------------------------- script

type act struct {
	kind byte
	sub  []*act
}

func parseActs(s string, i *int) []*act {
	var out []*act
	for *i < len(s) {
		ch := s[*i]
		if ch == ')' {
			return out
		}
		if !strings.ContainsRune("RrNFfnPXxy", rune(ch)) {
			*i++
			continue
		}
		a := &act{kind: ch}
		*i++
		if *i < len(s) && s[*i] == '(' {
			*i++
			a.sub = parseActs(s, i)
			if *i < len(s) && s[*i] == ')' {
				*i++
			}
			if ch != 'R' && ch != 'F' && ch != 'X' {
				a.sub = nil
			}
		}
		out = append(out, a)
	}
	return out
}

// noRoutes: route strings for which node-level routing finds no target — a well-formed route to an unknown service
// type, and routes that are not serviceType.registry.method at all (SplitClientRoute yields an empty service type)
// "@query" / "@kick": app.QuerySession / app.Kick for a front service nobody knows (same shape: ErrorNoService through the callback)
var noRoutes = []string{"nosuch.remote.hello", "nosuch.entry", "", "a.b.c.d", "@query", "nosuch", ".remote.hello", "peer.remote.hello.x", "@kick", "nosuch..", "peer"}

// nodeRequest: the node-level request API selected by the route string
func nodeRequest(n *ns.NodeService, route string, k int, msg any, cb func(error, any)) {
	switch route {
	case "@query":
		app.QuerySession(n, "nosuch-front-1", uint32(k), cb)
	case "@kick":
		app.Kick(n, "nosuch-front-1", uint32(k), cb)
	default:
		app.Request(n, route, "", msg, cb)
	}
}

type plain struct{ X int } // not a proto.Message: remote.Serialize fails

// ---------------------------------------------------------------- actors

type reqSvc struct{ *ns.NodeService }

type peerSvc struct {
	*as.Service
	w    *world
	echo bool // answers every request at once with TestHello{7000+tag}
}

func (p *peerSvc) ReceiveRequest(ctx actor.Context, request *messages.ServiceRequest, raw interface{}) {
	m, ok := raw.(*messages.TestHello)
	if !ok || request.Sender == nil {
		return
	}
	w := p.w
	k := int(m.I)
	w.mu.Lock()
	c := w.cur
	if c == nil || c.pid == nil || request.Sender.Id != c.pid.Id {
		w.mu.Unlock()
		return
	}
	if _, dup := c.recv[k]; !dup {
		c.recv[k] = request
	}
	c.sent = append(c.sent, fmt.Sprintf("%d:%d:%s", k, request.ReqId, request.Route))
	w.mu.Unlock()
	if p.echo {
		p.Response(request, 0, "", &messages.TestHello{I: int32(7000 + k)}) // a notification is not answered (ResponseEx)
	}
}

// ParkEntry is the API collection of the asynchronous peer: Park keeps the completion
// callback (nil for a notification) until the script completes it.
type ParkEntry struct {
	api.APIEntry
}

var theWorld *world

func (e *ParkEntry) Park(d *as.RemoteContext, msg *messages.TestHello, cbFunc apientry.HandlerCBFunc) error {
	w := theWorld
	request, _ := d.ActorContext.Message().(*messages.ServiceRequest)
	if w == nil || request == nil || request.Sender == nil {
		return nil
	}
	k := int(msg.I)
	w.mu.Lock()
	defer w.mu.Unlock()
	c := w.cur
	if c == nil || c.pid == nil || request.Sender.Id != c.pid.Id {
		return nil
	}
	if _, dup := c.recv[k]; !dup {
		c.recv[k] = request
		c.parked[k] = cbFunc
		c.isParked[k] = true
	}
	c.sent = append(c.sent, fmt.Sprintf("%d:%d:%s", k, request.ReqId, request.Route))
	return nil
}

type world struct {
	sys     *actor.ActorSystem
	peer    *peerSvc
	peerPid *actor.PID
	apiPeer *peerSvc // real service with an API dispatcher; its handlers complete asynchronously
	apiPid  *actor.PID
	mu      sync.Mutex
	cur     *caseCtx
	nCase   int
}

type caseCtx struct {
	w        *world
	mu       sync.Mutex // bookkeeping below (a mutated implementation may call back from a foreign goroutine)
	dead     bool
	stopped  bool // the actor was stopped by the `stop` op
	svc      *reqSvc
	svc0     *reqSvc // the incarnation the case started with
	pid      *actor.PID
	start    int64
	gid      int
	nextTag  int
	t0       map[int]int64 // tag -> issue time
	kind     map[int]byte
	done     map[int]bool // callback seen
	iss      []string
	cbs      []string
	order    []string
	pans     []string
	inTO     int            // >0 while a timeout callback is on the stack
	noRoute  *string        // route override of the current top-level `noroute` op
	reported map[int32]bool // nil-callback ids whose removal has been put into an order annotation
	sent     []string
	recv     map[int]*messages.ServiceRequest
	parked   map[int]apientry.HandlerCBFunc // completion callbacks kept by the API peer
	isParked map[int]bool
}

func (c *caseCtx) now() int64 { return common.NowMs() - c.start }

func classify(err error, msg interface{}) string {
	if err == nil {
		if m, ok := msg.(*messages.TestHello); ok && m != nil {
			return fmt.Sprintf("ok:%d", m.I)
		}
		if msg == nil {
			return "ok:nil"
		}
		if m, ok := msg.(*messages.EmptyArg); ok && m != nil {
			return "ok:empty"
		}
		return "ok:?"
	}
	if errors.Is(err, as.ErrTimeout) {
		return "timeout"
	}
	if errors.Is(err, app.ErrorNoService) {
		return "noservice"
	}
	if t := err.Error(); len(t) > 1 && t[0] == 'E' {
		if n, e := strconv.Atoi(t[1:]); e == nil {
			return fmt.Sprintf("rerr:%d", n)
		}
	}
	return "err"
}

func (c *caseCtx) mkcb(k int, sub []*act) as.ResCBFunc {
	return func(err error, msg interface{}) {
		if c.dead {
			return
		}
		cls := classify(err, msg)
		ctx := ""
		if common.GetRoutineID() != c.gid {
			ctx = "!ctx"
		}
		c.mu.Lock()
		c.cbs = append(c.cbs, fmt.Sprintf("%d:%s@%d%s", k, cls, c.now(), ctx))
		c.done[k] = true
		if cls == "timeout" {
			// which nil-callback entries has the scan (or a reply) removed so far and not been reported yet:
			// they leave no other trace, and a panic now would stop the scan before the remaining ones
			var gone []int
			c.w.mu.Lock()
			for tag, rq := range c.recv {
				if c.kind[tag] != 'r' || c.reported[rq.ReqId] {
					continue
				}
				if _, still := c.svc.Handlers[rq.ReqId]; !still {
					gone = append(gone, int(rq.ReqId))
					c.reported[rq.ReqId] = true
				}
			}
			c.w.mu.Unlock()
			sort.Ints(gone)
			for _, id := range gone {
				c.order = append(c.order, "i"+strconv.Itoa(id))
			}
			c.order = append(c.order, strconv.Itoa(k))
		}
		if cls == "timeout" {
			c.inTO++
			defer func() { c.inTO-- }()
		}
		c.mu.Unlock()
		for _, a := range sub {
			if a.kind == 'P' {
				if c.inTO > 0 {
					c.mu.Lock()
					c.pans = append(c.pans, strconv.FormatInt(c.now(), 10))
					c.mu.Unlock()
					panic("c01: scripted callback panic")
				}
				continue
			}
			c.issue(a, "x.y")
		}
	}
}

// issue runs on the requester's own goroutine.
func (c *caseCtx) issue(a *act, route string) { c.issueVia(a, route, "") }

// issueVia: via == "" sends straight to the scripted peer's PID; otherwise through node/app (route
// "peer.remote.hello", routeParam = the directory name of the target service).
func (c *caseCtx) issueVia(a *act, route string, via string) {
	c.mu.Lock()
	k := c.nextTag
	c.nextTag++
	c.t0[k] = c.now()
	c.kind[k] = a.kind
	c.iss = append(c.iss, fmt.Sprintf("%d:%c@%d", k, a.kind, c.now()))
	c.mu.Unlock()
	var msg interface{} = &messages.TestHello{I: int32(k)}
	if a.kind == 'F' || a.kind == 'f' || a.kind == 'n' {
		msg = plain{k}
	}
	nr := noRoutes[k%len(noRoutes)]
	if c.noRoute != nil {
		nr, c.noRoute = *c.noRoute, nil
	}
	switch a.kind {
	case 'X':
		f := c.mkcb(k, a.sub)
		nodeRequest(c.svc.NodeService, nr, k, msg, func(e error, r any) { f(e, r) })
		return
	case 'x':
		nodeRequest(c.svc.NodeService, nr, k, msg, nil)
		return
	case 'y':
		app.Notify(c.svc.NodeService, nr, "", msg)
		return
	}
	if via == "api" {
		switch a.kind {
		case 'R', 'F':
			c.svc.RequestEx(c.w.apiPid, "park.Park", msg, c.mkcb(k, a.sub))
		case 'r', 'f':
			c.svc.RequestEx(c.w.apiPid, "park.Park", msg, nil)
		case 'N', 'n':
			c.svc.NotifyEx(c.w.apiPid, "park.Park", msg)
		}
		return
	}
	if via != "" {
		switch a.kind {
		case 'R', 'F':
			f := c.mkcb(k, a.sub)
			app.Request(c.svc.NodeService, "peer.remote.hello", via, msg, func(e error, r any) { f(e, r) })
		case 'r', 'f':
			app.Request(c.svc.NodeService, "peer.remote.hello", via, msg, nil)
		case 'N', 'n':
			app.Notify(c.svc.NodeService, "peer.remote.hello", via, msg)
		}
		return
	}
	switch a.kind {
	case 'R', 'F':
		c.svc.RequestEx(c.w.peerPid, route, msg, c.mkcb(k, a.sub))
	case 'r', 'f':
		c.svc.RequestEx(c.w.peerPid, route, msg, nil)
	case 'N', 'n':
		c.svc.NotifyEx(c.w.peerPid, route, msg)
	}
}

// onSvc runs fn on the requester's goroutine and waits for quiescence.
func (c *caseCtx) onSvc(fn func()) {
	c.svc.Post(fn)
	synctest.Wait()
}

func (c *caseCtx) pend() string {
	ids := make([]int, 0, len(c.svc.Handlers))
	for id := range c.svc.Handlers {
		ids = append(ids, int(id))
	}
	sort.Ints(ids)
	ss := make([]string, len(ids))
	for i, v := range ids {
		ss[i] = strconv.Itoa(v)
	}
	return strings.Join(ss, ",")
}

func (c *caseCtx) observe(status string) string {
	c.w.mu.Lock()
	sent := strings.Join(c.sent, ",")
	c.sent = nil
	c.w.mu.Unlock()
	c.mu.Lock()
	defer c.mu.Unlock()
	if c.svc != c.svc0 {
		status = "restarted" // the actor was restarted: a new Service object (empty table, ids from 1)
	}
	o := fmt.Sprintf("%s iss=%s cb=%s sent=%s pend=%s pan=%s", status, strings.Join(c.iss, ","), strings.Join(c.cbs, ","), sent, c.pend(), strings.Join(c.pans, ","))
	c.iss, c.cbs, c.pans = nil, nil, nil
	return o
}

// setNextId presets the unexported allocator state (white-box through reflect;
// falls back to calling the exported AllocReqId until the value is reached).
func setNextId(s *as.Service, v int32) {
	f := reflect.ValueOf(s).Elem().FieldByName("nextId")
	if f.IsValid() && f.Kind() == reflect.Int32 {
		*(*int32)(unsafe.Pointer(f.UnsafeAddr())) = v
		return
	}
	if v <= 0 {
		return
	}
	for i := 0; i < 1<<32; i++ {
		if s.AllocReqId() == v {
			return
		}
	}
}

func (w *world) reset(ws []string) *caseCtx {
	if old := w.cur; old != nil {
		old.dead = true
		if len(old.svc.Handlers) > 0 {
			time.Sleep(33 * time.Second) // let the old requester's entries expire and its timer free itself
		} else {
			time.Sleep(1100 * time.Millisecond)
		}
		synctest.Wait()
	}
	w.nCase++
	c := &caseCtx{w: w, parked: map[int]apientry.HandlerCBFunc{}, isParked: map[int]bool{}, reported: map[int32]bool{}, t0: map[int]int64{}, kind: map[int]byte{}, done: map[int]bool{}, recv: map[int]*messages.ServiceRequest{}}
	name := fmt.Sprintf("c01req%d", w.nCase)
	props, _ := as.NewServicePropsWithNewScheDisp(func() actor.Actor {
		n := ns.NewService()
		c.svc = &reqSvc{NodeService: n}
		return c.svc
	}, name)
	pid, err := w.sys.Root.SpawnNamed(props, name)
	if err != nil {
		panic(err)
	}
	c.pid = pid
	synctest.Wait()
	c.svc0 = c.svc
	w.mu.Lock()
	w.cur = c
	w.mu.Unlock()
	c.onSvc(func() { c.gid = common.GetRoutineID() })
	if v, ok := hx.KV(ws, "next"); ok {
		n, _ := strconv.ParseInt(v, 10, 64)
		c.onSvc(func() { setNextId(c.svc.Service, int32(n)) })
	}
	c.start = common.NowMs()
	return c
}

func newWorld() *world {
	w := &world{sys: actor.NewActorSystem()}
	props, _ := as.NewServicePropsWithNewScheDisp(func() actor.Actor {
		p := &peerSvc{Service: as.NewService(), w: w}
		p.Service.InitReqReceiver(p)
		w.peer = p
		return p
	}, "c01peer")
	pid, err := w.sys.Root.SpawnNamed(props, "c01peer")
	if err != nil {
		panic(err)
	}
	w.peerPid = pid
	eprops, _ := as.NewServicePropsWithNewScheDisp(func() actor.Actor {
		p := &peerSvc{Service: as.NewService(), w: w, echo: true}
		p.Service.InitReqReceiver(p)
		return p
	}, "c01echo")
	if _, err := w.sys.Root.SpawnNamed(eprops, "c01echo"); err != nil {
		panic(err)
	}
	col := apientry.NewCollection()
	col.Register(&ParkEntry{}, apientry.WithGroupName("park"),
		apientry.WithSerializer(proto.GetDefaultSerializer()), apientry.WithSerializeRet(false)).Build()
	aprops, ext := as.NewServicePropsWithNewScheDisp(func() actor.Actor {
		p := &peerSvc{Service: as.NewService(), w: w}
		p.Service.InitReqReceiver(p)
		w.apiPeer = p
		return p
	}, "c01api")
	ext.WithDispatcher(as.NewDispatcher(col))
	apid, err := w.sys.Root.SpawnNamed(aprops, "c01api")
	if err != nil {
		panic(err)
	}
	w.apiPid = apid
	theWorld = w
	// the cluster directory names both peers; its host:port PIDs resolve to the local actors
	w.sys.ProcessRegistry.RegisterAddressResolver(func(pid *actor.PID) (actor.Process, bool) {
		return w.sys.ProcessRegistry.GetLocal(pid.Id)
	})
	app.Node.GetCluster().UpdateClusterTopology([]*cluster.Member{{Id: "c@n1", Host: "h", Port: 1, State: int(define.Working),
		Services: []string{"peer.c01peer", "peer.c01echo"}}})
	synctest.Wait()
	return w
}

func peerName(p string) string {
	switch p {
	case "echo":
		return "c01echo"
	case "hold":
		return "c01peer"
	}
	return ""
}

// errCode reads the optional code=<int32> of an error reply (default CodeErrString).
func errCode(ws []string) int32 {
	v, ok := hx.KV(ws, "code")
	if !ok {
		return as.CodeErrString
	}
	n, err := strconv.ParseInt(v, 10, 32)
	if err != nil {
		return as.CodeErrString
	}
	return int32(n)
}

func mkResponse(id int32, kind string, wv int, code int32) *messages.ServiceResponse {
	r := &messages.ServiceResponse{ReqId: id}
	switch kind {
	case "ok":
		b, _ := protoMarshalHello(int32(wv))
		r.Type, r.Body = "servicemsgs.TestHello", b
	case "nil":
	case "empty":
		r.Type, r.Body = "servicemsgs.EmptyArg", []byte{}
	case "err":
		r.ErrCode, r.ErrInfo = code, fmt.Sprintf("E%d", wv)
	case "bad":
		r.Type, r.Body = "servicemsgs.TestHello", []byte{0xff}
	case "badtype":
		r.Type, r.Body = "c01.NoSuchType", []byte{1}
	}
	return r
}

type crowdSvc struct{ *as.Service }

// crowd runs the shared-dispatcher scenario (see the op table) and returns its observation.
func (w *world) crowd(n, wv int) string {
	w.nCase++
	name := fmt.Sprintf("c01crowd%d", w.nCase)
	svcs := make([]*crowdSvc, 0, n)
	props, _ := as.NewServicePropsWithNewScheDisp(func() actor.Actor {
		s := &crowdSvc{Service: as.NewService()}
		svcs = append(svcs, s)
		return s
	}, name)
	pids := make([]*actor.PID, n)
	for i := 0; i < n; i++ {
		pid, err := w.sys.Root.SpawnNamed(props, fmt.Sprintf("%s-%d", name, i))
		if err != nil {
			return "bad-op"
		}
		pids[i] = pid
		synctest.Wait() // keep producer calls (svcs order) aligned with pids
	}
	if len(svcs) != n {
		return "bad-op"
	}
	var mu sync.Mutex
	var active int32
	gid := 0
	cbs := make([]string, n)
	counts := map[string]int{}
	var viol []string
	// every piece of service code goes through enter/leave
	enter := func(what string) func() {
		v := atomic.AddInt32(&active, 1)
		g := common.GetRoutineID()
		mu.Lock()
		if gid != 0 && g != gid {
			viol = append(viol, "ctx:"+what)
		}
		if v != 1 {
			viol = append(viol, "conc:"+what)
		}
		mu.Unlock()
		return func() { atomic.AddInt32(&active, -1) }
	}
	svcs[0].Post(func() { gid = common.GetRoutineID() })
	synctest.Wait()
	for i := 0; i < n; i++ {
		i := i
		svcs[i].Post(func() {
			defer enter(fmt.Sprintf("issue%d", i))()
			svcs[i].RequestEx(w.peerPid, "a.b", &messages.TestHello{I: int32(1000 + i)}, func(err error, msg interface{}) {
				defer enter(fmt.Sprintf("cb%d", i))()
				mu.Lock()
				if cbs[i] != "" {
					cbs[i] += "+"
				}
				cbs[i] += classify(err, msg)
				mu.Unlock()
			})
		})
	}
	synctest.Wait()
	release := make(chan struct{})
	rs := svcs[0].GetRunService()
	svcs[0].Post(func() {
		defer enter("blocker")()
		for j := 0; j < 3; j++ {
			rs.GetTimerMgr().After(0, func(args ...interface{}) {
				defer enter("timer")()
				mu.Lock()
				counts["timer"]++
				mu.Unlock()
			})
			svcs[(j+1)%n].Post(func() {
				defer enter("post")()
				mu.Lock()
				counts["post"]++
				mu.Unlock()
			})
		}
		<-release // the service goroutine is busy in a handler
	})
	synctest.Wait()
	for i := 0; i < n; i++ {
		i := i
		go w.sys.Root.Send(pids[i], mkResponse(1, "ok", wv, 0)) // foreign goroutines post to every actor's mailbox
	}
	synctest.Wait()
	close(release)
	synctest.Wait()
	mu.Lock()
	defer mu.Unlock()
	parts := make([]string, n)
	left := 0
	for i := 0; i < n; i++ {
		c := cbs[i]
		if c == "" {
			c = "none"
		}
		parts[i] = fmt.Sprintf("%d:%s", i, c)
		left += len(svcs[i].Handlers)
	}
	sort.Strings(viol)
	return fmt.Sprintf("ok crowd=%d cb=%s timers=%d posts=%d left=%d viol=%s", n, strings.Join(parts, ","), counts["timer"], counts["post"], left, strings.Join(viol, ","))
}

// exec interprets one op line against the real code; it returns the op line
// to record (the `adv` op gets its `order=` annotation) and the observation.
// restartCase is the composite op `restart a= b= w= off=` (first op of a case): `a` requests held by the peer, one
// more whose completion callback PANICS under handleResponse, the clock moved by `off` ms (so the two expiry timers
// never fire at the same instant), the reply to the panicking one (-> mailbox escalation, the supervisor restarts the
// actor, the producer builds a fresh Service), `b` requests issued by the new incarnation, the peer's reply to the OLD
// request 0 (id 1), +31 s.  Observation: the sub-observations joined by '|' (blanks -> ';', callbacks of one
// sub-step sorted by tag).  Model: Model/ServiceLife.lean (`LOp.crash`, orphans) through the driver.
func (w *world) restartCase(c *caseCtx, a, b, wv, off int) string {
	if c.nextTag != 0 || c.svc != c.svc0 || a < 1 || a > 6 || b < 0 || b > 6 || off < 1 || off > 999 {
		return "bad-op"
	}
	var parts []string
	add := func(o string) {
		ws := strings.Split(o, " ")
		for i, f := range ws {
			if strings.HasPrefix(f, "cb=") && len(f) > 3 {
				es := strings.Split(f[3:], ",")
				sort.SliceStable(es, func(x, y int) bool {
					tx, _ := strconv.Atoi(strings.SplitN(es[x], ":", 2)[0])
					ty, _ := strconv.Atoi(strings.SplitN(es[y], ":", 2)[0])
					return tx < ty
				})
				ws[i] = "cb=" + strings.Join(es, ",")
			}
		}
		parts = append(parts, strings.Join(ws, ";"))
	}
	sub := func(op string) { _, o := w.exec(op); add(o) }
	for i := 0; i < a; i++ {
		sub("req s=R")
	}
	c.onSvc(func() {
		c.mu.Lock()
		k := c.nextTag
		c.nextTag++
		c.kind[k] = 'R'
		c.t0[k] = c.now()
		c.iss = append(c.iss, fmt.Sprintf("%d:R@%d", k, c.now()))
		c.mu.Unlock()
		c.svc.RequestEx(w.peerPid, "a.b", &messages.TestHello{I: int32(k)}, func(err error, msg interface{}) {
			panic("c01: user callback panics under handleResponse")
		})
	})
	add(c.observe("ok"))
	sub(fmt.Sprintf("adv dt=%d", off))
	sub(fmt.Sprintf("deliver k=%d kind=ok w=1", a))
	for i := 0; i < b; i++ {
		sub("req s=R")
	}
	sub(fmt.Sprintf("deliver k=0 kind=ok w=%d", wv))
	sub("adv dt=31000")
	return "ok r=" + strings.Join(parts, "|")
}

func (w *world) exec(op string) (string, string) {
	ws := hx.Words(op)
	if len(ws) == 0 {
		return op, "bad-op"
	}
	if ws[0] == "reset" {
		w.reset(ws)
		return op, "ok"
	}
	if ws[0] == "crowd" {
		n := hx.KVInt(ws, "n")
		if n < 1 || n > 64 {
			return op, "bad-op"
		}
		return op, w.crowd(n, hx.KVInt(ws, "w"))
	}
	c := w.cur
	if c == nil {
		return op, "bad-op"
	}
	if ws[0] == "restart" {
		return op, w.restartCase(c, hx.KVInt(ws, "a"), hx.KVInt(ws, "b"), hx.KVInt(ws, "w"), hx.KVInt(ws, "off"))
	}
	switch ws[0] {
	case "req":
		s, _ := hx.KV(ws, "s")
		i := 0
		acts := parseActs(s, &i)
		if len(acts) != 1 || acts[0].kind == 'P' {
			return op, "bad-op"
		}
		c.onSvc(func() { c.issue(acts[0], "a.b") })
		return op, c.observe("ok")
	case "preq":
		s, _ := hx.KV(ws, "s")
		i := 0
		acts := parseActs(s, &i)
		if len(acts) != 1 || acts[0].kind == 'P' || isNoRoute(acts[0].kind) {
			return op, "bad-op"
		}
		c.onSvc(func() { c.issueVia(acts[0], "park.Park", "api") })
		return op, c.observe("ok")
	case "areq":
		s, _ := hx.KV(ws, "s")
		i := 0
		acts := parseActs(s, &i)
		pn, _ := hx.KV(ws, "peer")
		if len(acts) != 1 || acts[0].kind == 'P' || acts[0].kind == 'N' || acts[0].kind == 'n' || isNoRoute(acts[0].kind) || peerName(pn) == "" {
			return op, "bad-op"
		}
		c.onSvc(func() { c.issueVia(acts[0], "remote.hello", peerName(pn)) })
		return op, c.observe("ok")
	case "anotify":
		pn, _ := hx.KV(ws, "peer")
		kind := byte('N')
		if v, ok := hx.KV(ws, "ser"); ok && v == "0" {
			kind = 'n'
		}
		if pn == "none" {
			c.onSvc(func() { c.issue(&act{kind: 'y'}, "") })
			return op, c.observe("ok")
		}
		if peerName(pn) == "" {
			return op, "bad-op"
		}
		c.onSvc(func() { c.issueVia(&act{kind: kind}, "remote.hello", peerName(pn)) })
		return op, c.observe("ok")
	case "stop":
		c.stopped = true
		w.sys.Root.Stop(c.pid)
		synctest.Wait()
		return op, c.observe("ok")
	case "noroute":
		kind := byte('x')
		if hx.KVInt(ws, "cb") == 1 {
			kind = 'X'
		}
		var ovr *string
		if v, ok := hx.KV(ws, "route"); ok {
			ovr = &v
		}
		c.onSvc(func() { c.noRoute = ovr; c.issue(&act{kind: kind}, ""); c.noRoute = nil })
		return op, c.observe("ok")
	case "burst":
		s, _ := hx.KV(ws, "s")
		i := 0
		acts := parseActs(s, &i)
		n := hx.KVInt(ws, "n")
		if len(acts) != 1 || acts[0].kind == 'P' || n < 1 || n > 300 {
			return op, "bad-op"
		}
		c.onSvc(func() {
			for j := 0; j < n; j++ {
				c.issue(acts[0], "a.b")
			}
		})
		return op, c.observe("ok")
	case "deliver":
		if _, ok := hx.KV(ws, "k"); !ok {
			return op, "bad-op"
		}
		k := hx.KVInt(ws, "k")
		kind, _ := hx.KV(ws, "kind")
		if !validKind(kind) {
			return op, "bad-op"
		}
		wv := hx.KVInt(ws, "w")
		w.mu.Lock()
		req := c.recv[k]
		w.mu.Unlock()
		if req == nil {
			return op, c.observe("nopeer")
		}
		w.mu.Lock()
		parked, isParked := c.parked[k], c.isParked[k]
		w.mu.Unlock()
		if isParked && kind != "bad" && kind != "badtype" {
			// the API handler's kept completion callback is invoked now, in the peer's own context
			var e error
			var ret interface{}
			switch kind {
			case "ok":
				ret = &messages.TestHello{I: int32(wv)}
			case "empty":
				ret = &messages.EmptyArg{}
			case "err":
				if errCode(ws) != 0 {
					e = fmt.Errorf("E%d", wv)
				}
			}
			w.apiPeer.Post(func() { apientry.CheckInvokeCBFunc(parked, e, ret) })
			synctest.Wait()
			return op, c.observe("ok")
		}
		switch kind {
		case "ok":
			w.peer.Post(func() { w.peer.Response(req, 0, "", &messages.TestHello{I: int32(wv)}) })
		case "nil":
			w.peer.Post(func() { w.peer.Response(req, 0, "", nil) })
		case "empty":
			w.peer.Post(func() { w.peer.Response(req, 0, "", &messages.EmptyArg{}) })
		case "err":
			code := errCode(ws)
			w.peer.Post(func() { w.peer.Response(req, code, fmt.Sprintf("E%d", wv), nil) })
		case "bad", "badtype":
			if req.ReqId != as.NotifyReqID {
				w.sys.Root.Send(c.pid, mkResponse(req.ReqId, kind, wv, 0))
			}
		default:
			return op, "bad-op"
		}
		synctest.Wait()
		return op, c.observe("ok")
	case "inject":
		if _, ok := hx.KV(ws, "id"); !ok {
			return op, "bad-op"
		}
		idStr, _ := hx.KV(ws, "id")
		id, perr := strconv.ParseInt(idStr, 10, 32) // the wire field is an int32: negative ids can arrive, too
		if perr != nil || strings.HasPrefix(idStr, "+") {
			return op, "bad-op"
		}
		kind, _ := hx.KV(ws, "kind")
		if !validKind(kind) {
			return op, "bad-op"
		}
		w.sys.Root.Send(c.pid, mkResponse(int32(id), kind, hx.KVInt(ws, "w"), errCode(ws)))
		synctest.Wait()
		return op, c.observe("ok")
	case "adv":
		if _, ok := hx.KV(ws, "dt"); !ok {
			return op, "bad-op"
		}
		dt := hx.KVInt(ws, "dt")
		flood := hx.KVInt(ws, "flood")
		if flood > 0 && dt < 100 {
			return op, "bad-op"
		}
		c.mu.Lock()
		c.order = nil
		c.mu.Unlock()
		var release chan struct{}
		fired := int32(0)
		if flood > 0 {
			// park the service goroutine inside a handler with more timer events pending than the queue holds
			release = make(chan struct{})
			c.svc.Post(func() {
				tm := c.svc.GetRunService().GetTimerMgr()
				for j := 0; j < flood; j++ {
					tm.After(0, func(args ...interface{}) { atomic.AddInt32(&fired, 1) })
				}
				<-release
			})
			synctest.Wait()
		}
		time.Sleep(time.Duration(dt) * time.Millisecond)
		synctest.Wait()
		if release != nil {
			close(release)
			synctest.Wait()
			// the run-service loop throttles itself after a frame that cost >= 100 ms: time.Sleep(2ms) before it
			// looks at its queues again (RunService.analysisRunning) — part of the op
			time.Sleep(2 * time.Millisecond)
			synctest.Wait()
		}
		c.mu.Lock()
		rec := fmt.Sprintf("adv dt=%d order=%s", dt, strings.Join(c.order, ","))
		if flood > 0 {
			rec = fmt.Sprintf("adv dt=%d flood=%d order=%s", dt, flood, strings.Join(c.order, ","))
		}
		c.mu.Unlock()
		st := "ok"
		if flood > 0 && int(atomic.LoadInt32(&fired)) != flood {
			st = fmt.Sprintf("ok-lost-timers:%d", flood-int(fired))
		}
		return rec, c.observe(st)
	}
	return op, "bad-op"
}

func isNoRoute(k byte) bool { return k == 'X' || k == 'x' || k == 'y' }

func validKind(k string) bool {
	return k == "ok" || k == "nil" || k == "err" || k == "bad" || k == "empty" || k == "badtype"
}

func protoMarshalHello(v int32) ([]byte, error) {
	// field 1 (I), varint
	if v == 0 {
		return []byte{}, nil
	}
	b := []byte{0x08}
	u := uint64(uint32(v))
	if v < 0 {
		u = uint64(int64(v))
	}
	for u >= 0x80 {
		b = append(b, byte(u)|0x80)
		u >>= 7
	}
	return append(b, byte(u)), nil
}

// ---------------------------------------------------------------- generator

const maxReqId = 0x7FFFFFF0

type gen struct {
	h *hx.T
	w *world
}

func (g *gen) script(depth int) string {
	r := g.h.R
	var sb strings.Builder
	n := 1 + r.Intn(3)
	for i := 0; i < n; i++ {
		if r.Intn(9) == 0 {
			// the callback panics here (takes effect on a timeout completion only)
			g.h.Count("script.panic")
			sb.WriteString("P")
			if r.Intn(2) == 0 {
				break
			}
			continue
		}
		sb.WriteString(g.act(depth))
	}
	return sb.String()
}

func (g *gen) act(depth int) string {
	r := g.h.R
	switch x := r.Intn(22); {
	case x >= 20:
		// node-level calls whose route finds no target: completed at once with ErrorNoService, inside callbacks too
		g.h.Count("script.noroute")
		switch r.Intn(4) {
		case 0:
			return "x"
		case 1:
			return "y"
		}
		if depth < 2 && r.Intn(2) == 0 {
			return "X(" + g.script(depth+1) + ")"
		}
		return "X"
	case x < 9:
		if depth < 2 && r.Intn(4) == 0 {
			g.h.Count("script.nested")
			return "R(" + g.script(depth+1) + ")"
		}
		if depth == 0 && r.Intn(8) == 0 {
			g.h.Count("script.panic")
			return []string{"R(P)", "R(RP)", "R(F(P)R)", "R(NPR)"}[r.Intn(4)]
		}
		return "R"
	case x < 12:
		return "r"
	case x < 15:
		return "N"
	case x < 17:
		if depth < 2 && r.Intn(3) == 0 {
			g.h.Count("script.serfail-nested")
			return "F(" + g.script(depth+1) + ")"
		}
		return "F"
	case x < 18:
		return "f"
	default:
		if r.Intn(3) == 0 {
			return "n"
		}
		return "N"
	}
}

var errCodes = []int64{-1, -999, -2147483648, 1, 999, 1000, 2147483647}

// payloadKind draws the kind of a reply; error replies carry an int32 code from the whole range
// (reserved 1..999, user >= 1000, and negative ones: anything but 0 is an error), rarely the degenerate 0.
func (g *gen) payloadKind() string {
	switch x := g.h.R.Intn(10); {
	case x < 5:
		if g.h.R.Intn(8) == 0 {
			g.h.Count("reply.empty-type")
			return "empty"
		}
		return "ok"
	case x < 6:
		return "nil"
	case x < 8:
		if g.h.R.Intn(4) == 0 {
			return "err" // default code
		}
		if g.h.R.Intn(25) == 0 {
			g.h.Count("reply.err.code0")
			return "err code=0"
		}
		c := errCodes[g.h.R.Intn(len(errCodes))]
		if c < 0 {
			g.h.Count("reply.err.negative-code")
		}
		return fmt.Sprintf("err code=%d", c)
	default:
		if g.h.R.Intn(2) == 0 {
			g.h.Count("reply.badtype")
			return "badtype" // a type name the requester's registry does not know (D22)
		}
		return "bad"
	}
}

// outstanding returns the tags of registered requests that are still pending (by the harness' own bookkeeping).
func (c *caseCtx) outstanding() []int {
	var out []int
	for k := 0; k < c.nextTag; k++ {
		if (c.kind[k] == 'R' || c.kind[k] == 'r') && !c.done[k] {
			if req := c.recv[k]; req != nil {
				if _, p := c.svc.Handlers[req.ReqId]; p {
					out = append(out, k)
				}
			}
		}
	}
	return out
}

// wval: the value carried by an ok reply; 0 often (an all-default message serialises to zero bytes)
func (g *gen) wval() int {
	if g.h.R.Intn(5) == 0 {
		g.h.Count("reply.zero-value")
		return 0
	}
	return g.h.R.Intn(1000)
}

func (g *gen) genCase(run func(string)) {
	h, r := g.h, g.h.R
	if r.Intn(40) == 0 {
		// a completion callback panics under handleResponse with requests outstanding: supervisor restart (the whole case)
		h.Count("case.restart")
		run("reset")
		run(fmt.Sprintf("restart a=%d b=%d w=%d off=%d", 1+r.Intn(6), r.Intn(7), g.wval(), []int{1, 2, 500, 998, 999, 1 + r.Intn(999)}[r.Intn(6)]))
		return
	}
	switch x := r.Intn(10); {
	case x == 0:
		h.Count("case.wrap")
		run(fmt.Sprintf("reset next=%d", maxReqId-r.Intn(24)))
	case x == 1:
		h.Count("case.preset")
		run(fmt.Sprintf("reset next=%d", r.Intn(1<<30)))
	default:
		run("reset")
	}
	target := 1 + r.Intn(40)
	if r.Intn(3) == 0 {
		target = 1 + r.Intn(4)
	}
	steps := 10 + r.Intn(70)
	if r.Intn(6) == 0 {
		// several requests due in the same scan, some of whose callbacks panic: the others must still be
		// completed (by the following scans)
		h.Count("case.panicburst")
		n := 2 + r.Intn(10)
		for j := 0; j < n; j++ {
			switch r.Intn(4) {
			case 0:
				run("req s=" + []string{"R(P)", "R(RP)", "R(F(P)R)", "R(NPR)", "R(PR)"}[r.Intn(5)])
			case 1:
				run("req s=r")
			default:
				run("req s=" + g.act(0))
			}
		}
		run("adv dt=" + strconv.Itoa(30001+r.Intn(1200)))
		for j := 0; j < 1+r.Intn(4); j++ {
			run("adv dt=" + strconv.Itoa(400+r.Intn(900)))
		}
	} else if r.Intn(12) == 0 {
		// mass expiry: a whole batch (peer gone) falls due in the same scan — around 64 / 128 / 256 entries —, many of the
		// timeout callbacks retry (issue requests re-entrantly); the retries are answered or expire one period later
		h.Count("case.massexpiry")
		total := []int{33, 63, 64, 65, 66, 100, 127, 128, 129, 200, 257, 40 + r.Intn(60)}[r.Intn(12)]
		if r.Intn(3) == 0 {
			run("req s=R") // an older survivor-to-be: due one scan earlier or kept, depending on the gap
			run("adv dt=" + strconv.Itoa(1+r.Intn(2500)))
		}
		for left := total; left > 0; {
			n := left
			if r.Intn(2) == 0 {
				n = 1 + r.Intn(left)
			}
			left -= n
			sc := []string{"R(R)", "R(R)", "R(RN)", "R(r)", "R", "r", "R(F(R))", "R(X(R))", "R(R(R))", g.act(0)}[r.Intn(10)]
			run(fmt.Sprintf("burst n=%d s=%s", n, sc))
			if r.Intn(4) == 0 {
				run("adv dt=" + strconv.Itoa(1+r.Intn(120)))
			}
		}
		if r.Intn(3) == 0 {
			run("req s=R(R)")
		}
		run("adv dt=" + strconv.Itoa(30001+r.Intn(1200)))
		c := g.w.cur
		for j := 0; j < 4 && c.nextTag > 0; j++ {
			run(fmt.Sprintf("deliver k=%d kind=%s w=%d", r.Intn(c.nextTag), g.payloadKind(), g.wval()))
		}
		run("adv dt=" + strconv.Itoa(400+r.Intn(900)))
		if r.Intn(2) == 0 {
			run("adv dt=" + strconv.Itoa(30500+r.Intn(1200)))
		}
	} else if r.Intn(3) == 0 {
		// burst: many requests outstanding at once, issued over a few ms
		h.Count("case.burst")
		for j := 0; j < target; j++ {
			run("req s=" + g.act(0))
			if r.Intn(6) == 0 {
				run("adv dt=" + strconv.Itoa(1+r.Intn(400)))
			}
		}
	}
	stopAt := -1
	if r.Intn(12) == 0 {
		// the actor is stopped somewhere in the case: what is pending must still time out, replies are dead letters
		h.Count("case.stop")
		stopAt = r.Intn(steps)
	}
	for i := 0; i < steps; i++ {
		c := g.w.cur
		if i == stopAt {
			run("stop")
		}
		out := c.outstanding()
		x := r.Intn(100)
		switch {
		case len(out) < target && x < 45:
			a := g.act(0)
			h.Count("op.req." + a[:1])
			switch y := r.Intn(8); {
			case isNoRoute(a[0]):
				run("req s=" + a)
			case y <= 2 && (a[0] == 'N' || a[0] == 'n'):
				h.Count("op.anotify")
				run("anotify peer=" + []string{"echo", "hold", "hold", "none"}[r.Intn(4)] + map[byte]string{'N': "", 'n': " ser=0"}[a[0]])
			case y >= 5:
				// the peer whose API handler completes asynchronously
				h.Count("op.preq")
				run("preq s=" + a)
			case y <= 1 && a[0] != 'N' && a[0] != 'n':
				h.Count("op.areq")
				run("areq peer=" + []string{"echo", "hold"}[r.Intn(2)] + " s=" + a)
			default:
				run("req s=" + a)
			}
		case x < 50:
			switch y := r.Intn(12); {
			case y < 5:
				run("adv dt=" + strconv.Itoa(1+r.Intn(999)))
			case y < 10:
				h.Count("op.noroute")
				if r.Intn(2) == 0 {
					h.Count("op.noroute.route")
					run(fmt.Sprintf("noroute cb=%d route=%s", r.Intn(2), noRoutes[r.Intn(len(noRoutes))]))
				} else {
					run(fmt.Sprintf("noroute cb=%d", r.Intn(2)))
				}
			case y == 10 && r.Intn(3) == 0:
				// > 9 services on one dispatcher, replies posted from foreign goroutines while it is busy
				h.Count("op.crowd")
				run(fmt.Sprintf("crowd n=%d w=%d", []int{3, 9, 10, 12, 13, 16, 24}[r.Intn(7)], r.Intn(1000)))
			default:
				// malformed op lines: both sides must reject them without touching the state
				h.Count("op.malformed")
				run([]string{"req s=", "req s=RR", "req s=(", "deliver k=0 kind=zzz w=1", "inject kind=ok w=1", "adv", "frobnicate"}[r.Intn(7)])
			}
		case x < 72:
			// reply: mostly to an outstanding request; sometimes a duplicate / late reply / reply to a notify or unknown tag
			k := 0
			switch y := r.Intn(10); {
			case y < 7 && len(out) > 0:
				k = out[r.Intn(len(out))]
				h.Count("op.deliver.pending")
			case y < 9 && c.nextTag > 0:
				k = r.Intn(c.nextTag)
				h.Count("op.deliver.anytag")
			default:
				k = c.nextTag + r.Intn(3)
				h.Count("op.deliver.unknown")
			}
			op := fmt.Sprintf("deliver k=%d kind=%s w=%d", k, g.payloadKind(), g.wval())
			run(op)
			if r.Intn(5) == 0 {
				h.Count("op.deliver.duplicate")
				run(op)
			}
		case x < 78:
			id := 0
			switch y := r.Intn(7); y {
			case 6:
				// the wire field is a signed int32: negative ids are never allocated and must miss
				h.Count("op.inject.negative-id")
				id = []int{-1, -2, -1 - r.Intn(50), -2147483648, -0x7FFFFFF0}[r.Intn(5)]
			case 0:
				id = 0
			case 1:
				id = 1 + r.Intn(50)
			case 2:
				id = maxReqId - r.Intn(3)
			case 3:
				id = 0x7fffffff
			default:
				// a raw response for a pending id (the peer answering without going through Response)
				if len(out) > 0 {
					id = int(c.recv[out[r.Intn(len(out))]].ReqId)
				}
			}
			h.Count("op.inject")
			run(fmt.Sprintf("inject id=%d kind=%s w=%d", id, g.payloadKind(), g.wval()))
		default:
			// time: aim at the deadline of some outstanding request
			dt := 1 + r.Intn(2000)
			if len(out) > 0 && r.Intn(5) != 0 {
				k := out[r.Intn(len(out))]
				d := c.t0[k] + 30000
				offs := []int64{-1000, -1, 0, 1, 2, 500, 999, 1000, 1001, 2000, int64(r.Intn(3000)) - 1000}
				tgt := d + offs[r.Intn(len(offs))]
				if tgt > c.now() {
					dt = int(tgt - c.now())
					h.Count("op.adv.deadline")
				} else {
					dt = 1 + r.Intn(1200)
				}
			}
			if r.Intn(12) == 0 {
				dt = 30000 + r.Intn(3000)
				h.Count("op.adv.long")
			}
			if len(out) > 0 && r.Intn(40) == 0 {
				// the service is stuck in a handler while > 999 timer events pile up, an expiry tick among them
				h.Count("op.adv.flood")
				run(fmt.Sprintf("adv dt=%d flood=%d", 700+r.Intn(2500), []int{999, 1000, 1001, 1300}[r.Intn(4)]))
				run("req s=R")
				run("adv dt=" + strconv.Itoa(31000+r.Intn(1500)))
				continue
			}
			run("adv dt=" + strconv.Itoa(dt))
		}
	}
	if r.Intn(2) == 0 {
		// drain: everything still outstanding expires; then late replies
		h.Count("case.drain")
		run("adv dt=" + strconv.Itoa(31000+r.Intn(1500)))
		c := g.w.cur
		for j := 0; j < 3 && c.nextTag > 0; j++ {
			run(fmt.Sprintf("deliver k=%d kind=%s w=%d", r.Intn(c.nextTag), g.payloadKind(), g.wval()))
		}
		run("adv dt=1500")
	}
}

// countObs: histogram of what the implementation actually did (reach of the generator).
func countObs(h *hx.T, op, obs string) {
	ws := hx.Words(obs)
	cb, _ := hx.KV(ws, "cb")
	if cb != "" {
		nt := 0
		for _, e := range strings.Split(cb, ",") {
			parts := strings.SplitN(e, ":", 3)
			if len(parts) < 2 {
				continue
			}
			cls := parts[1]
			if i := strings.IndexByte(cls, '@'); i >= 0 {
				cls = cls[:i]
			}
			h.Count("seen.cb." + cls)
			if cls == "timeout" {
				nt++
			}
		}
		if nt >= 2 {
			h.Count("seen.scan.multi-timeout")
		}
		if strings.HasPrefix(op, "adv") && strings.Contains(obs, " iss=") && !strings.Contains(obs, " iss= ") {
			h.Count("seen.scan.callback-issued-requests")
		}
	} else if strings.HasPrefix(op, "deliver") && strings.HasPrefix(obs, "ok ") {
		h.Count("seen.deliver.no-callback(late/dup/notify/nilcb)")
	}
	if p, _ := hx.KV(ws, "pan"); p != "" {
		h.Count("seen.scan.callback-panicked")
		if strings.Count(cb, "timeout") >= 2 {
			h.Count("seen.scan.panic-with-several-due")
		}
	}
	if strings.HasPrefix(op, "adv") && strings.Count(cb, "timeout") >= 64 {
		h.Count("seen.scan.timeouts>=64")
	}
	if p, _ := hx.KV(ws, "pend"); p != "" {
		n := strings.Count(p, ",") + 1
		switch {
		case n >= 64:
			h.Count("seen.pending>=64")
		case n >= 30:
			h.Count("seen.pending>=30")
		case n >= 10:
			h.Count("seen.pending>=10")
		}
	}
}

func stripOrder(op string) string {
	if strings.HasPrefix(op, "adv ") {
		if i := strings.Index(op, " order="); i >= 0 {
			return op[:i]
		}
	}
	return op
}

func TestRun(t *testing.T) {
	synctest.Test(t, func(t *testing.T) {
		h := hx.Open()
		w := newWorld()
		run := func(op string) {
			rec, obs := w.exec(stripOrder(op))
			countObs(h, rec, obs)
			h.Emit(rec, obs)
			h.Flush() // a crash of the code under test must not lose the ops that led to it
		}
		finish := func() {
			h.Close()
			os.Stdout.Sync()
			syscall.Exit(0)
		}
		if ops := hx.ReplayOps(); ops != nil {
			for _, op := range ops {
				run(op)
			}
			finish()
		}
		var cur []string
		for _, op := range hx.CorpusOps(hx.Env("VERIF_CORPUS", "corpus/C01")) {
			h.Count("corpus")
			cur = append(cur, op)
			run(op)
		}
		g := &gen{h: h, w: w}
		n := hx.EnvInt("VERIF_N", 3000)
		for h.N < n {
			g.genCase(run)
			h.Count("cases")
		}
		finish()
	})
}

// TestWrapByAlloc (thorough tier): black-box check of the allocator across the
// wrap at MaxReqId through the exported AllocReqId only (≈2^31 calls).
func TestWrapByAlloc(t *testing.T) {
	h := hx.Open()
	defer h.Close()
	run := func(count, tail int) {
		s := as.NewService()
		var last []string
		for i := 0; i < count; i++ {
			id := s.AllocReqId()
			if i >= count-tail {
				last = append(last, strconv.Itoa(int(id)))
			}
		}
		h.Emit(fmt.Sprintf("allocrun count=%d tail=%d", count, tail), "ok ids="+strings.Join(last, ","))
	}
	run(5, 5)
	run(maxReqId+6, 12)
	h.Count("allocrun")
}

// TestEnum (thorough tier): every op sequence of length 4 over a 12-letter
// alphabet (two request shapes, a failing one, a notify, an unroutable node-level request whose
// callback issues a request, replies to the first two instances — one of an unregistered type —,
// a raw response, two clock steps that together cross the deadline).
func TestEnum(t *testing.T) {
	synctest.Test(t, func(t *testing.T) {
		h := hx.Open()
		w := newWorld()
		alpha := []string{"req s=R(P)", "req s=r", "req s=F(R)", "req s=R(N)", "deliver k=0 kind=ok w=7", "deliver k=1 kind=err w=8",
			"deliver k=0 kind=bad w=0", "inject id=2 kind=nil w=0", "adv dt=15500", "adv dt=15501",
			"deliver k=1 kind=badtype w=0", "req s=X(R)"}
		L := hx.EnvInt("VERIF_ENUM_LEN", 4)
		idx := make([]int, L)
		n := 0
		for {
			rec, obs := w.exec("reset")
			h.Emit(rec, obs)
			for _, i := range idx {
				rec, obs := w.exec(alpha[i])
				h.Emit(rec, obs)
			}
			rec, obs = w.exec("adv dt=31000")
			h.Emit(rec, obs)
			h.Flush()
			n++
			j := L - 1
			for j >= 0 {
				idx[j]++
				if idx[j] < len(alpha) {
					break
				}
				idx[j] = 0
				j--
			}
			if j < 0 {
				break
			}
		}
		h.Stats[fmt.Sprintf("exhaustive.sequences.len%d.alphabet%d", L, len(alpha))] = n
		h.Close()
		os.Stdout.Sync()
		syscall.Exit(0)
	})
}
