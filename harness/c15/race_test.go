// Concurrency stream for the scheduler registry (utils/sche/sche_mgr.go): N goroutines ask a
// sche.Mgr for the SAME, not yet existing name at the same time.  The window is forced, not hoped
// for: the harness takes the manager's own lock (reached through reflect/unsafe - the field is
// unexported), starts the N callers, waits until every one of them is parked on that lock (read
// off the goroutine dump), then releases it.  All callers must get the same scheduler, and every
// closure posted through any of the returned handles must run exactly once on the one consumer.
// Runs outside the synctest bubble (goroutines blocked on a mutex are not "durably blocked").
package c15

import (
	"fmt"
	"reflect"
	"runtime"
	"strings"
	"sync"
	"testing"
	"time"
	"unsafe"

	"cell2verif/hx"

	"github.com/dfklegend/cell2/utils/sche"
)

// lockMgr takes the manager's write lock; ok=false when the field cannot be reached (then the
// callers are only released together by a barrier)
func lockMgr(m *sche.Mgr) (unlock func(), ok bool) {
	defer func() {
		if recover() != nil {
			unlock, ok = nil, false
		}
	}()
	f := reflect.ValueOf(m).Elem().FieldByName("mutex")
	if !f.IsValid() || !f.CanAddr() {
		return nil, false
	}
	p := unsafe.Pointer(f.UnsafeAddr())
	switch f.Type() {
	case reflect.TypeOf(sync.Mutex{}):
		mu := (*sync.Mutex)(p)
		mu.Lock()
		return mu.Unlock, true
	case reflect.TypeOf(sync.RWMutex{}):
		mu := (*sync.RWMutex)(p)
		mu.Lock()
		return mu.Unlock, true
	}
	return nil, false
}

func parkedInGetSche() int {
	buf := make([]byte, 1<<20)
	buf = buf[:runtime.Stack(buf, true)]
	n := 0
	for _, g := range strings.Split(string(buf), "\n\n") {
		if !strings.Contains(g, "(*Mgr).GetSche") {
			continue
		}
		head := g
		if i := strings.IndexByte(g, '\n'); i >= 0 {
			head = g[:i]
		}
		if strings.Contains(head, "[sync.") || strings.Contains(head, "[semacquire") {
			n++
		}
	}
	return n
}

// raceGetSche: the forced window; what each caller got
func raceGetSche(m *sche.Mgr, name string, n int) (got []*sche.Sche, forced bool) {
	got = make([]*sche.Sche, n)
	var wg sync.WaitGroup
	unlock, ok := lockMgr(m)
	barrier := make(chan struct{})
	for i := 0; i < n; i++ {
		wg.Add(1)
		go func(i int) {
			defer wg.Done()
			<-barrier
			got[i] = m.GetSche(name)
		}(i)
	}
	close(barrier)
	if ok {
		deadline := time.Now().Add(3 * time.Second)
		for parkedInGetSche() < n && time.Now().Before(deadline) {
			runtime.Gosched()
			time.Sleep(50 * time.Microsecond)
		}
		forced = parkedInGetSche() >= n
		unlock()
	}
	wg.Wait()
	return got, forced
}

// execRace: "race name=<k> n=<N> post=<m>"
func execRace(h *hx.T, ws []string) string {
	n, m := hx.KVInt(ws, "n"), hx.KVInt(ws, "post")
	name, _ := hx.KV(ws, "name")
	if n < 1 || n > 8 || m > 50 {
		return "bad-op"
	}
	mgr := sche.NewScheMgr()
	got, forced := raceGetSche(mgr, "race-"+name, n)
	if forced {
		h.Count("g.window-forced")
	} else {
		h.Count("g.window-not-forced")
	}
	distinct := map[*sche.Sche]bool{}
	for _, s := range got {
		if s == nil {
			return "nil-scheduler"
		}
		distinct[s] = true
	}
	// the consumer: whoever runs a RunService of that name consumes what the registry now hands out
	cons := mgr.GetSche("race-" + name)
	var mu sync.Mutex
	var consGid int64
	var log []string
	labels := map[string]bool{}
	ready := make(chan struct{})
	go func() {
		consGid = goid()
		close(ready)
		cons.Handler()
	}()
	<-ready
	okc, nilc := 0, 0
	for i, s := range got {
		for k := 0; k < m; k++ {
			i, k := i, k
			t := s.Post(func() {
				g := goid()
				mu.Lock()
				log = append(log, fmt.Sprintf("%d.%d", i, k))
				if g == consGid {
					labels["c"] = true
				} else {
					labels["o"] = true
				}
				mu.Unlock()
			})
			if t == nil {
				nilc++
			} else {
				okc++
			}
		}
	}
	deadline := time.Now().Add(2 * time.Second)
	for time.Now().Before(deadline) {
		mu.Lock()
		done := len(log) >= n*m
		mu.Unlock()
		if done {
			break
		}
		time.Sleep(200 * time.Microsecond)
	}
	time.Sleep(2 * time.Millisecond) // anything executed twice would show up now
	for s := range distinct {
		hx.Guard(func() string { s.Stop(); return "" })
	}
	if !distinct[cons] {
		hx.Guard(func() string { cons.Stop(); return "" })
	}
	mu.Lock()
	defer mu.Unlock()
	ex, gl := "-", "-"
	if len(log) > 0 {
		ex = strings.Join(log, ",")
		gl = "c"
		if labels["o"] {
			gl = "o"
			if labels["c"] {
				gl = "c+o"
			}
		}
	}
	same := 0
	if distinct[cons] {
		same = 1
	}
	return fmt.Sprintf("distinct=%d registered=%d exec=%s g=%s ret=%d:%d", len(distinct), same, ex, gl, okc, nilc)
}

func TestRace(t *testing.T) {
	quiet()
	h := hx.Open()
	defer h.Close()
	run := func(op string) string {
		obs := "bad-op"
		ws := hx.Words(op)
		switch {
		case len(ws) == 0:
		case ws[0] == "reset" || ws[0] == "end":
			obs = "ok"
			if ws[0] == "reset" {
				obs = fmt.Sprintf("ok cap=%d", cap(sche.NewSche().GetChanTask()))
			}
		case ws[0] == "race":
			obs = execRace(h, ws)
		}
		h.Emit(op, obs)
		h.Flush()
		return obs
	}
	if all := hx.ReplayOps(); all != nil {
		for _, op := range all {
			if !strings.HasPrefix(op, "<") {
				run(op)
			}
		}
		return
	}
	n := hx.EnvInt("VERIF_N", 40)
	for i := 0; i < n; i++ {
		if i%10 == 0 {
			if i > 0 {
				run("end")
			}
			run("reset kind=g")
		}
		callers := 2 + h.R.Intn(3)
		h.Count(fmt.Sprintf("g.callers.%d", callers))
		obs := run(fmt.Sprintf("race name=%d n=%d post=%d", i, callers, 1+h.R.Intn(4)))
		if !strings.HasPrefix(obs, "distinct=1 registered=1") {
			break // the registry handed out different schedulers: one witness is enough (each one costs a timeout)
		}
	}
	run("end")
}
