// C15 correspondence harness: the real utils/sche.Sche (consumed by its own
// Handler() or by a runservice.RunService) and utils/waterfall.Sche chains,
// driven op by op inside one testing/synctest bubble.  Every op runs to
// quiescence (synctest.Wait) before it is observed.
//
// Scheduler cases (reset kind=s):
//
//	burst p<id>=<kinds> ...   each named poster goroutine posts the closures (n<k> normal, x<k> panicking, h<k> parking,
//	                          d<k> posted from the bottom of a deep call chain and panicking at the bottom of one)
//	start                     start the consumer (go Handler() / RunService.Start())
//	release                   let a consumer parked in an `h` closure go on
//	stop                      Sche.Stop() / RunService.Stop()
//	end                       end of the case (the model driver replays the whole case through the model here)
//	observation: exec=<p>.<seq>,... g=<goroutines> fill=<len(chanTask)> P=<p>:<ok>:<nil>:<blocked>:<panicked>;...
//
// Several anonymous run services (reset kind=m): svc id= / mpost svc= n= [x=] / mchain svc= n= / mstop svc=
//
// Waterfall cases (reset kind=w, consumer running):
//
//	chain id=<c> via=sche|builder [bld=<k>] tasks=<mode><err><a|r><val>,...   (bld: the Builder object <k> of this case is
//	                          used again: Next(the new tasks).Final().Do() on top of what it already holds)
//	fire k=<pending index> via=go|main|timer|post
//	wstop
//	observation: t<c>.<i>[args]<g>#<chain instance> / f<c>.<err>[args]<g> events in order, or "-" (c = the chain op that
//	                          made the task, i = its position in the builder / task list; the chain instance is the
//	                          ordinal of the callback object the task was handed)
package c15

import (
	"fmt"
	"io"
	"log"
	"reflect"
	"runtime"
	"sort"
	"strconv"
	"strings"
	"sync"
	"sync/atomic"
	"syscall"
	"testing"
	"testing/synctest"
	"time"
	"unsafe"

	"cell2verif/hx"

	"github.com/sirupsen/logrus"

	"github.com/dfklegend/cell2/utils/logger/proxy"
	"github.com/dfklegend/cell2/utils/runservice"
	"github.com/dfklegend/cell2/utils/sche"
	"github.com/dfklegend/cell2/utils/waterfall"
)

// goid parses the goroutine id out of the stack header ("goroutine 12 [running]:").
func goid() int64 {
	var buf [64]byte
	n := runtime.Stack(buf[:], false)
	f := strings.Fields(string(buf[:n]))
	if len(f) < 2 {
		return -1
	}
	id, err := strconv.ParseInt(f[1], 10, 64)
	if err != nil {
		return -1
	}
	return id
}

type execRec struct {
	p, seq int
	g      int64
}

type poster struct {
	id   int
	cmds chan string
	gid  int64
	next int
	ok   atomic.Int32
	nil_ atomic.Int32
	blk  atomic.Int32
	pan  atomic.Int32
}

type pendEntry struct {
	cb  waterfall.Callback
	err bool
	res []interface{}
}

type env struct {
	kind    string // "s" | "w"
	cons    string // "h" | "r"
	s       *sche.Sche
	rs      *runservice.RunService
	started bool
	stopped bool
	closing bool
	mainGid int64

	mu       sync.Mutex
	consGid  int64
	consDead bool // Handler() goroutine ended by a panic
	execLog  []execRec
	seen     int // execLog entries already reported
	gate     chan struct{}
	reentrant int // closures the parked closure posts to its own scheduler when released
	posters  map[int]*poster
	events   []string
	pend     []pendEntry

	// waterfall cases: consumer parked in a hold closure; the harness' own account of what it queued behind it
	parked   bool
	wFill    int  // filler closures queued
	wChain   int  // chain closures queued (start / invokeCallback), the blocked starter included
	wBlocked bool // one chain starter is blocked in Post on the full channel
	// task lists carved as adjacent windows out of one shared backing array (`chain ... mem=arena`): arena[off:off+n]
	// has spare capacity that reaches into the following chains' tasks
	arena []waterfall.Task
	// Builder objects that are used for several chains (`chain ... bld=<k>`) and the number of tasks each holds
	blds map[int]*bldState
	// chain instances: the callback object handed to a task identifies the chain that runs it
	cbToks map[uintptr]cbTok

	// kind=m: several anonymous run services alive at once
	svcs map[int]*msvc
	mlog []execRec // executions on the services since the last op
}

type bldState struct {
	b *waterfall.Builder
	n int
}

type cbTok struct {
	cb  waterfall.Callback // kept alive: its address must not be reused inside a case
	ord int
}

// chainInst: ordinal (first sighting, from 1) of the callback object a task was handed - one per chain.
func (e *env) chainInst(cb waterfall.Callback) int {
	p := *(*uintptr)(unsafe.Pointer(&cb))
	e.mu.Lock()
	defer e.mu.Unlock()
	if e.cbToks == nil {
		e.cbToks = map[uintptr]cbTok{}
	}
	if t, ok := e.cbToks[p]; ok {
		return t.ord
	}
	t := cbTok{cb, len(e.cbToks) + 1}
	e.cbToks[p] = t
	return t.ord
}

// deep runs f at the bottom of a call chain whose stack dump is well beyond 4 KB.
//
//go:noinline
func deep(n int, f func()) {
	if n == 0 {
		f()
		return
	}
	deep(n-1, f)
}

const deepFrames = 120

type msvc struct {
	id      int
	name    string
	rs      *runservice.RunService
	probe   chan int
	gid     int64
	next    int
	started bool
	stopped bool
	gate    chan struct{} // non-nil while the loop is parked in a blocking closure
	pending int           // closures accepted but not yet runnable (service not started / loop parked)
}

var caseNo int

func newEnv(kind, cons string) *env {
	caseNo++
	e := &env{kind: kind, cons: cons, posters: map[int]*poster{}, mainGid: goid(), svcs: map[int]*msvc{}}
	if kind == "m" {
		e.s = sche.NewSche() // only to report the channel capacity; the services bring their own schedulers
		e.stopped = true
		return e
	}
	if cons == "r" {
		e.rs = runservice.NewRunService(fmt.Sprintf("c15-%d", caseNo))
		e.s = e.rs.GetScheduler()
	} else {
		e.s = sche.NewSche()
	}
	return e
}

func (e *env) startConsumer() {
	if e.started {
		return
	}
	e.started = true
	if e.cons == "r" {
		// identify the loop goroutine through a selector of our own (independent of Sche.Post)
		probe := make(chan int, 1)
		e.rs.GetSelector().AddSelector("verifprobe", sche.NewFuncSelector(reflect.ValueOf(probe),
			func(v reflect.Value, ok bool) {
				e.mu.Lock()
				e.consGid = goid()
				e.mu.Unlock()
			}))
		e.rs.Start()
		probe <- 1
		return
	}
	ready := make(chan struct{})
	go func() {
		e.mu.Lock()
		e.consGid = goid()
		e.mu.Unlock()
		close(ready)
		defer func() {
			if r := recover(); r != nil {
				e.mu.Lock()
				e.consDead = true
				e.mu.Unlock()
			}
		}()
		e.s.Handler()
	}()
	<-ready
}

func (e *env) stop() string {
	if e.stopped {
		return "stop=twice"
	}
	e.stopped = true
	return "stop=" + hx.Guard(func() string {
		if e.cons == "r" {
			e.rs.Stop()
		} else {
			e.s.Stop()
		}
		return "ok"
	})
}

func (e *env) closure(p, seq int, kind byte) func() {
	return func() {
		g := goid()
		e.mu.Lock()
		e.execLog = append(e.execLog, execRec{p, seq, g})
		var gate chan struct{}
		if kind == 'h' && !e.closing {
			gate = make(chan struct{})
			e.gate = gate
		}
		e.mu.Unlock()
		switch kind {
		case 'x':
			panic("C15 harness: this closure panics")
		case 'd':
			deep(deepFrames, func() { panic("C15 harness: this closure panics at the bottom of a deep call chain") })
		case 'h':
			if gate != nil {
				<-gate
				// re-entrant posts: the closure the consumer was parked in posts to its own scheduler
				// (poster 99 = the consumer goroutine itself), then returns
				e.mu.Lock()
				k := e.reentrant
				e.reentrant = 0
				e.mu.Unlock()
				if k > 0 {
					e.selfPost(k)
				}
			}
		}
	}
}

const selfPoster = 99

func (e *env) selfPost(k int) {
	p := e.posters[selfPoster]
	for i := 0; i < k; i++ {
		seq := p.next
		p.next++
		cb := e.closure(selfPoster, seq, 'n')
		p.blk.Store(1)
		func() {
			defer func() {
				if r := recover(); r != nil {
					p.pan.Add(1)
				}
			}()
			if t := e.s.Post(cb); t == nil {
				p.nil_.Add(1)
			} else {
				p.ok.Add(1)
			}
		}()
		p.blk.Store(0)
	}
}

func (e *env) release() {
	e.mu.Lock()
	g := e.gate
	e.gate = nil
	e.mu.Unlock()
	if g != nil {
		close(g)
	}
}

func (p *poster) loop(e *env, ready chan struct{}) {
	p.gid = goid()
	close(ready)
	for ks := range p.cmds {
		for i := 0; i < len(ks); i++ {
			seq := p.next
			p.next++
			cb := e.closure(p.id, seq, ks[i])
			p.blk.Store(1)
			func() {
				defer func() {
					if r := recover(); r != nil {
						p.pan.Add(1)
					}
				}()
				post := func() {
					if t := e.s.Post(cb); t == nil {
						p.nil_.Add(1)
					} else {
						p.ok.Add(1)
					}
				}
				if ks[i] == 'd' {
					deep(deepFrames, post) // Post is reached through a long call chain
				} else {
					post()
				}
			}()
			p.blk.Store(0)
		}
	}
}

// expandKinds: "n3x1h1" -> "nnnxh"
func expandKinds(spec string) (string, bool) {
	var sb strings.Builder
	i := 0
	for i < len(spec) {
		k := spec[i]
		if k != 'n' && k != 'x' && k != 'h' && k != 'd' {
			return "", false
		}
		j := i + 1
		for j < len(spec) && spec[j] >= '0' && spec[j] <= '9' {
			j++
		}
		n, err := strconv.Atoi(spec[i+1 : j])
		if err != nil || n > 100000 {
			return "", false
		}
		sb.WriteString(strings.Repeat(string(k), n))
		i = j
	}
	return sb.String(), true
}

func (e *env) label(g int64) string {
	if g == e.consGid && g != 0 {
		return "c"
	}
	if g == e.mainGid {
		return "m"
	}
	for _, p := range e.posters {
		if p.gid == g {
			return fmt.Sprintf("p%d", p.id)
		}
	}
	return "o"
}

// observe: the scheduler-case observation at quiescence.
func (e *env) observe(extra string) string {
	e.mu.Lock()
	recs := append([]execRec(nil), e.execLog[e.seen:]...)
	e.seen = len(e.execLog)
	if e.consGid == 0 && len(recs) > 0 {
		// RunService consumer whose probe was never served (started after Stop): the first executor that is
		// neither the test goroutine nor a poster
		g := recs[0].g
		isPoster := g == e.mainGid
		for _, p := range e.posters {
			if p.gid == g {
				isPoster = true
			}
		}
		if !isPoster {
			e.consGid = g
		}
	}
	e.mu.Unlock()
	var ex []string
	var labels []string
	seenL := map[string]bool{}
	for _, r := range recs {
		ex = append(ex, fmt.Sprintf("%d.%d", r.p, r.seq))
		l := e.label(r.g)
		if !seenL[l] {
			seenL[l] = true
			labels = append(labels, l)
		}
	}
	exs, gs := "-", "-"
	if len(ex) > 0 {
		exs = strings.Join(ex, ",")
		gs = strings.Join(labels, "+")
	}
	ids := make([]int, 0, len(e.posters))
	for id := range e.posters {
		ids = append(ids, id)
	}
	sort.Ints(ids)
	var rows []string
	for _, id := range ids {
		p := e.posters[id]
		rows = append(rows, fmt.Sprintf("%d:%d:%d:%d:%d", id, p.ok.Load(), p.nil_.Load(), p.blk.Load(), p.pan.Load()))
	}
	rs := "-"
	if len(rows) > 0 {
		rs = strings.Join(rows, ";")
	}
	obs := fmt.Sprintf("exec=%s g=%s fill=%d P=%s", exs, gs, len(e.s.GetChanTask()), rs)
	if extra != "" {
		obs += " " + extra
	}
	return obs
}

func (e *env) cleanup() {
	if e == nil {
		return
	}
	for _, v := range e.svcs {
		if v.gate != nil {
			close(v.gate)
			v.gate = nil
		}
		if !v.stopped {
			v.stopped = true
			hx.Guard(func() string { v.rs.Stop(); return "" })
		}
	}
	e.mu.Lock()
	e.closing = true
	e.mu.Unlock()
	e.release()
	synctest.Wait()
	if !e.stopped {
		e.stop()
	}
	for _, p := range e.posters {
		if p.cmds != nil {
			close(p.cmds)
		}
	}
	for i := 0; i < 4; i++ {
		synctest.Wait()
		e.release()
	}
	if e.cons == "r" && !e.started {
		// a RunService that was never started has no goroutine; nothing to do
	}
}

// ---- waterfall -----------------------------------------------------------

type taskSpec struct {
	mode   byte
	err    bool
	rmode  byte // a: received args + val, r: [val], z: no results, u: one nil value, m: three values
	val    int
}

func parseTasks(v string) ([]taskSpec, bool) {
	var out []taskSpec
	if v == "" {
		return out, true
	}
	for _, s := range strings.Split(v, ",") {
		if len(s) < 4 || !strings.ContainsRune("sglntvpqx", rune(s[0])) || (s[1] != '0' && s[1] != '1') || !strings.ContainsRune("arzum", rune(s[2])) {
			return nil, false
		}
		n, err := strconv.Atoi(s[3:])
		if err != nil || n < 0 {
			return nil, false
		}
		out = append(out, taskSpec{s[0], s[1] == '1', s[2], n})
	}
	return out, true
}

func showArgs(args []interface{}) string {
	parts := make([]string, len(args))
	for i, a := range args {
		if a == nil {
			parts[i] = "999999" // a nil result value
		} else {
			parts[i] = fmt.Sprint(a)
		}
	}
	return "[" + strings.Join(parts, ",") + "]"
}

func (e *env) event(s string) { e.eventSfx(s, "") }

func (e *env) eventSfx(s, sfx string) {
	g := goid()
	e.mu.Lock()
	l := "x"
	if g == e.consGid && g != 0 {
		l = "c"
	} else if g == e.mainGid {
		l = "m"
	}
	e.events = append(e.events, s+l+sfx)
	e.mu.Unlock()
}

func (e *env) takeEvents() string {
	e.mu.Lock()
	defer e.mu.Unlock()
	if len(e.events) == 0 {
		return "-"
	}
	s := strings.Join(e.events, " ")
	e.events = nil
	return s
}

func (e *env) buildTasks(id int, specs []taskSpec, base int) ([]waterfall.Task, waterfall.FinalCallback) {
	tasks := make([]waterfall.Task, len(specs))
	for i := range specs {
		i, sp := base+i, specs[i]
		if sp.mode == 'x' {
			continue // an unset step of a conditionally assembled chain: the entry stays nil
		}
		tasks[i-base] = func(cb waterfall.Callback, args ...interface{}) {
			if cb == nil {
				// the task was handed no usable callback: it cannot complete
				e.event(fmt.Sprintf("t%d.%d%s!nilcb:", id, i, showArgs(args)))
				return
			}
			e.eventSfx(fmt.Sprintf("t%d.%d%s", id, i, showArgs(args)), fmt.Sprintf("#%d", e.chainInst(cb)))
			var res []interface{}
			switch sp.rmode {
			case 'a':
				res = append(append(res, args...), sp.val)
			case 'z':
				res = nil
			case 'u':
				res = []interface{}{nil}
			case 'm':
				res = []interface{}{sp.val, sp.val + 1, sp.val + 2}
			default:
				res = []interface{}{sp.val}
			}
			res2 := []interface{}{sp.val + 1000}
			switch sp.mode {
			case 's':
				cb(sp.err, res...)
			case 'g':
				done := make(chan struct{})
				go func() { cb(sp.err, res...); close(done) }()
				<-done
			case 'l':
				e.mu.Lock()
				e.pend = append(e.pend, pendEntry{cb, sp.err, res})
				e.mu.Unlock()
			case 'n':
			case 't':
				cb(sp.err, res...)
				cb(sp.err, res2...)
			case 'v':
				done := make(chan struct{})
				go func() { cb(sp.err, res...); cb(sp.err, res2...); close(done) }()
				<-done
			case 'p':
				panic("C15 harness: this task panics before completing")
			case 'q':
				cb(sp.err, res...)
				panic("C15 harness: this task panics after completing")
			}
		}
	}
	final := func(err bool, args ...interface{}) {
		e.event(fmt.Sprintf("f%d.%d%s", id, hx.B2i(err), showArgs(args)))
	}
	return tasks, final
}

// ---- op interpreter ------------------------------------------------------

var cur *env

func exec(op string) string {
	ws := hx.Words(op)
	if len(ws) == 0 {
		return "bad-op"
	}
	if ws[0] == "reset" {
		cur.cleanup()
		kind, _ := hx.KV(ws, "kind")
		cons, _ := hx.KV(ws, "cons")
		if kind == "m" {
			cons = "r"
		}
		if (kind != "s" && kind != "w" && kind != "m") || (cons != "h" && cons != "r") {
			cur = nil
			return "bad-op"
		}
		cur = newEnv(kind, cons)
		if kind == "w" {
			cur.startConsumer()
			synctest.Wait()
		}
		return fmt.Sprintf("ok cap=%d", cap(cur.s.GetChanTask()))
	}
	e := cur
	if e == nil {
		return "bad-op"
	}
	if ws[0] == "end" { // end of a case: the model driver replays the whole scheduler case here
		synctest.Wait()
		return "ok"
	}
	if ws[0] == "next" { // announcement of an op that hands a panicking closure to the code (see postsPanic)
		return "ok"
	}
	if e.kind == "m" {
		return e.execMulti(ws)
	}
	if e.kind == "s" {
		switch ws[0] {
		case "burst":
			type cmd struct {
				p  int
				ks string
			}
			var cmds []cmd
			for _, w := range ws[1:] {
				eq := strings.IndexByte(w, '=')
				if eq < 2 || w[0] != 'p' {
					return "bad-op"
				}
				id, err := strconv.Atoi(w[1:eq])
				ks, ok := expandKinds(w[eq+1:])
				if err != nil || !ok {
					return "bad-op"
				}
				cmds = append(cmds, cmd{id, ks})
			}
			for _, c := range cmds {
				if e.posters[c.p] == nil {
					p := &poster{id: c.p, cmds: make(chan string, 4096)}
					e.posters[c.p] = p
					ready := make(chan struct{})
					go p.loop(e, ready)
					<-ready
				}
			}
			for _, c := range cmds {
				e.posters[c.p].cmds <- c.ks
			}
			synctest.Wait()
			return e.observe("")
		case "start":
			e.startConsumer()
			synctest.Wait()
			return e.observe("")
		case "release":
			if _, ok := hx.KV(ws, "post"); ok {
				k := hx.KVInt(ws, "post")
				e.mu.Lock()
				parked := e.gate != nil
				e.mu.Unlock()
				// a re-entrant post into a channel without room deadlocks the consumer on its own queue (documented
				// above Post): only within the free slots, and only when the consumer is parked in a closure
				if !parked || e.stopped || k < 1 || len(e.s.GetChanTask())+k > sche.QueueSize {
					return "bad-op"
				}
				if e.posters[selfPoster] == nil {
					e.posters[selfPoster] = &poster{id: selfPoster, gid: -7}
				}
				e.mu.Lock()
				e.reentrant = k
				e.mu.Unlock()
			}
			e.release()
			synctest.Wait()
			return e.observe("")
		case "stop":
			r := e.stop()
			synctest.Wait()
			return e.observe(r)
		}
		return "bad-op"
	}
	switch ws[0] {
	case "park": // a helper goroutine posts a closure that parks the consumer until `unpark`
		if e.parked || e.stopped {
			return "bad-op"
		}
		e.parked = true
		go e.s.Post(e.closure(-1, 0, 'h'))
		synctest.Wait()
		return e.takeEvents()
	case "fill": // n filler closures behind the parked consumer (never beyond the capacity, never behind chain closures)
		n := hx.KVInt(ws, "n")
		if !e.parked || e.wChain > 0 || e.wFill+n > sche.QueueSize {
			return "bad-op"
		}
		e.wFill += n
		go func() {
			for i := 0; i < n; i++ {
				e.s.Post(func() {})
			}
		}()
		synctest.Wait()
		return fmt.Sprintf("fill=%d", len(e.s.GetChanTask()))
	case "unpark":
		if !e.parked {
			return "bad-op"
		}
		e.parked, e.wFill, e.wChain, e.wBlocked = false, 0, 0, false
		e.release()
		synctest.Wait()
		return e.takeEvents()
	case "chain":
		id := hx.KVInt(ws, "id")
		tv, ok := hx.KV(ws, "tasks")
		specs, ok2 := parseTasks(tv)
		if !ok || !ok2 {
			return "bad-op"
		}
		via, _ := hx.KV(ws, "via")
		from, _ := hx.KV(ws, "from")
		if _, ok := hx.KV(ws, "bld"); ok {
			if mem, _ := hx.KV(ws, "mem"); via != "builder" || mem == "arena" {
				return "bad-op"
			}
		}
		if e.parked {
			// keep the scenario free of the documented self-post deadlock and of a second blocked sender
			room := e.wFill+e.wChain < sche.QueueSize
			if from == "cons" || e.wChain >= 4 || e.wBlocked || (!room && from != "go") {
				return "bad-op"
			}
			e.wChain++
			if !room {
				e.wBlocked = true
			}
		}
		var bld *bldState
		if _, ok := hx.KV(ws, "bld"); ok {
			// one Builder object used for several chains: it keeps what it holds, the new tasks come on top
			if e.blds == nil {
				e.blds = map[int]*bldState{}
			}
			k := hx.KVInt(ws, "bld")
			if e.blds[k] == nil {
				e.blds[k] = &bldState{b: waterfall.NewBuilder(e.s)}
			}
			bld = e.blds[k]
		}
		base := 0
		if bld != nil {
			base = bld.n
			bld.n += len(specs)
		}
		tasks, final := e.buildTasks(id, specs, base)
		if mem, _ := hx.KV(ws, "mem"); mem == "arena" {
			// the chain's task list is a window of a larger shared array: the next chain's tasks follow directly
			if e.arena == nil {
				e.arena = make([]waterfall.Task, 0, 4096)
			}
			off := len(e.arena)
			e.arena = append(e.arena, tasks...)
			tasks = e.arena[off : off+len(tasks)]
		}
		start := func() string {
			return hx.Guard(func() string {
				if via == "builder" {
					b := waterfall.NewBuilder(e.s)
					if bld != nil {
						b = bld.b
					}
					for _, t := range tasks {
						b.Next(t)
					}
					b.Final(final).Do()
				} else {
					waterfall.Sche(e.s, tasks, final)
				}
				return ""
			})
		}
		r := ""
		var mu sync.Mutex
		switch from {
		case "go": // a foreign goroutine starts the chain (it may block in Post on a full channel)
			go func() {
				x := start()
				mu.Lock()
				r = x
				mu.Unlock()
			}()
		case "cons": // the chain is started from a closure running on the consumer itself
			e.s.Post(func() {
				x := start()
				mu.Lock()
				r = x
				mu.Unlock()
			})
		default:
			r = start()
		}
		synctest.Wait()
		mu.Lock()
		defer mu.Unlock()
		if r != "" {
			return r
		}
		return e.takeEvents()
	case "fire":
		if _, ok := hx.KV(ws, "k"); !ok {
			return "bad-op"
		}
		k := hx.KVInt(ws, "k")
		via, _ := hx.KV(ws, "via")
		e.mu.Lock()
		var pe *pendEntry
		if k < len(e.pend) {
			pe = &e.pend[k]
		}
		e.mu.Unlock()
		if e.parked && (via == "post" || e.wChain >= 4 || e.wBlocked || e.wFill+e.wChain >= sche.QueueSize) {
			return "bad-op"
		}
		if pe == nil {
			return "-"
		}
		if e.parked {
			e.wChain++
		}
		call := func() { pe.cb(pe.err, pe.res...) }
		r := hx.Guard(func() string {
			switch via {
			case "main":
				call()
			case "timer":
				time.AfterFunc(3*time.Millisecond, call)
				time.Sleep(5 * time.Millisecond)
			case "post":
				if e.s.Post(call) == nil {
					// stopped scheduler: the relay closure itself is refused
				}
			default:
				go call()
			}
			return ""
		})
		synctest.Wait()
		if r != "" {
			return r
		}
		return e.takeEvents()
	case "wstop":
		if e.parked {
			return "bad-op"
		}
		r := e.stop()
		synctest.Wait()
		if r != "stop=ok" {
			return r
		}
		return "ok"
	}
	return "bad-op"
}

// ---- several anonymous run services ---------------------------------------

func (e *env) svcLabel(g int64) string {
	for _, v := range e.svcs {
		if v.gid == g && g != 0 {
			return fmt.Sprintf("s%d", v.id)
		}
	}
	if g == e.mainGid {
		return "m"
	}
	return "o"
}

func (e *env) takeMlog() string {
	e.mu.Lock()
	defer e.mu.Unlock()
	if len(e.mlog) == 0 {
		return "-"
	}
	parts := make([]string, len(e.mlog))
	for i, x := range e.mlog {
		parts[i] = fmt.Sprintf("%d.%d@%s", x.p, x.seq, e.svcLabel(x.g))
	}
	e.mlog = nil
	return strings.Join(parts, ",")
}

func (e *env) execMulti(ws []string) string {
	switch ws[0] {
	case "svc": // runservice.NewRunService(name) [+ Start]; name "" as actorex's NewScheDisp("") does
		if _, ok := hx.KV(ws, "id"); !ok {
			return "bad-op"
		}
		id := hx.KVInt(ws, "id")
		name, _ := hx.KV(ws, "name")
		if e.svcs[id] != nil {
			return "bad-op"
		}
		if name != "" {
			for _, u := range e.svcs {
				if u.name == name && !u.stopped {
					return "bad-op" // same name while its holder lives = same scheduler by design: two consumers
				}
			}
		}
		v := &msvc{id: id, name: name}
		start := true
		if x, ok := hx.KV(ws, "start"); ok && x == "0" {
			start = false
		}
		r := hx.Guard(func() string {
			real := name
			if name != "" {
				real = fmt.Sprintf("c15m-%d-%s", caseNo, name)
			}
			v.rs = runservice.NewRunService(real)
			v.probe = make(chan int, 1)
			v.rs.GetSelector().AddSelector("verifprobe", sche.NewFuncSelector(reflect.ValueOf(v.probe),
				func(reflect.Value, bool) {
					e.mu.Lock()
					v.gid = goid()
					e.mu.Unlock()
				}))
			if start {
				v.started = true
				v.rs.Start()
				v.probe <- 1
			}
			return "ok"
		})
		e.svcs[id] = v
		synctest.Wait()
		return r
	case "mpost", "mchain", "mstop", "mstart", "mblock", "munblock":
		v := e.svcs[hx.KVInt(ws, "svc")]
		if _, ok := hx.KV(ws, "svc"); !ok || v == nil || v.rs == nil {
			return "bad-op"
		}
		switch ws[0] {
		case "mstop":
			// with closures queued behind a parked loop the number drained after Stop is not determined: refused
			if v.stopped || (v.gate != nil && v.pending > 0) {
				return "bad-op"
			}
			v.stopped = true
			r := hx.Guard(func() string { v.rs.Stop(); return "ok" })
			synctest.Wait()
			return r
		case "mstart":
			if v.started || v.stopped {
				return "bad-op"
			}
			v.started = true
			v.pending = 0
			r := hx.Guard(func() string { v.rs.Start(); v.probe <- 1; return "" })
			synctest.Wait()
			if r != "" {
				return r
			}
			return "exec=" + e.takeMlog()
		case "mblock": // park the service's loop in a closure
			if !v.started || v.stopped || v.gate != nil {
				return "bad-op"
			}
			gate := make(chan struct{})
			v.gate = gate
			r := hx.Guard(func() string {
				if v.rs.GetScheduler().Post(func() { <-gate }) == nil {
					return "refused"
				}
				return "ok"
			})
			synctest.Wait()
			return r
		case "munblock":
			if v.gate == nil {
				return "bad-op"
			}
			close(v.gate)
			v.gate = nil
			v.pending = 0
			synctest.Wait()
			return "exec=" + e.takeMlog()
		case "mpost":
			if _, ok := hx.KV(ws, "n"); !ok {
				return "bad-op"
			}
			n := hx.KVInt(ws, "n")
			px := -1
			if _, ok := hx.KV(ws, "x"); ok {
				px = hx.KVInt(ws, "x")
			}
			if !v.stopped && (!v.started || v.gate != nil) {
				if v.pending+n > 900 {
					return "bad-op" // stay clear of the channel capacity
				}
				v.pending += n
			}
			okc, nilc := 0, 0
			r := hx.Guard(func() string {
				for i := 0; i < n; i++ {
					seq, panics := v.next, i == px
					v.next++
					t := v.rs.GetScheduler().Post(func() {
						g := goid()
						e.mu.Lock()
						e.mlog = append(e.mlog, execRec{v.id, seq, g})
						e.mu.Unlock()
						if panics {
							panic("C15 harness: this closure panics")
						}
					})
					if t == nil {
						nilc++
					} else {
						okc++
					}
				}
				return ""
			})
			synctest.Wait()
			if r != "" {
				return r
			}
			return fmt.Sprintf("exec=%s ret=%d:%d", e.takeMlog(), okc, nilc)
		case "mchain":
			if _, ok := hx.KV(ws, "n"); !ok {
				return "bad-op"
			}
			if !v.stopped && (!v.started || v.gate != nil) {
				return "bad-op"
			}
			n := hx.KVInt(ws, "n")
			var evs []string
			note := func(s string) {
				g := goid()
				e.mu.Lock()
				evs = append(evs, s+"@"+e.svcLabel(g))
				e.mu.Unlock()
			}
			tasks := make([]waterfall.Task, n)
			for i := range tasks {
				i := i
				tasks[i] = func(cb waterfall.Callback, args ...interface{}) {
					note(fmt.Sprintf("t%d%s", i, showArgs(args)))
					if cb != nil {
						cb(false, append(append([]interface{}{}, args...), i)...)
					}
				}
			}
			r := hx.Guard(func() string {
				waterfall.Sche(v.rs.GetScheduler(), tasks, func(err bool, args ...interface{}) {
					note(fmt.Sprintf("f%d%s", hx.B2i(err), showArgs(args)))
				})
				return ""
			})
			synctest.Wait()
			if r != "" {
				return r
			}
			e.mu.Lock()
			defer e.mu.Unlock()
			if len(evs) == 0 {
				return "-"
			}
			return strings.Join(evs, " ")
		}
	}
	return "bad-op"
}

// multiCase: several run services (anonymous, or with explicit names that are reused after a stop) alive at once;
// started late or never, stopped and re-created in any order, their loops parked in a closure now and then.
func (g *gen) multiCase() {
	h := g.h
	R := h.R
	g.run("reset kind=m")
	type svc struct {
		id                        int
		name                      string
		started, stopped, blocked bool
	}
	var all []*svc
	next := 1
	names := []string{"a", "b", "c"}
	create := func() {
		name := ""
		if R.Intn(2) == 0 {
			name = names[R.Intn(len(names))]
			for _, u := range all {
				if u.name == name && !u.stopped {
					name = "" // its holder lives: fall back to an anonymous one
				}
			}
			if name != "" {
				for _, u := range all {
					if u.name == name {
						h.Count("m.name-reused-after-stop")
						break
					}
				}
			}
		}
		v := &svc{id: next, name: name, started: true}
		op := fmt.Sprintf("svc id=%d", next)
		if name != "" {
			op += " name=" + name
		}
		if R.Intn(5) == 0 {
			v.started = false
			op += " start=0"
			h.Count("m.created-unstarted")
		}
		for _, u := range all {
			if u.stopped {
				h.Count("m.created-after-stop")
				break
			}
		}
		g.run(op)
		all = append(all, v)
		next++
	}
	create()
	if R.Intn(4) > 0 {
		create()
	}
	steps := 5 + R.Intn(12)
	for i := 0; i < steps; i++ {
		v := all[R.Intn(len(all))]
		switch x := R.Intn(14); {
		case x < 5:
			n := 1 + R.Intn(6)
			op := fmt.Sprintf("mpost svc=%d n=%d", v.id, n)
			if R.Intn(4) == 0 {
				op += fmt.Sprintf(" x=%d", R.Intn(n))
				h.Count("m.post.panicking")
			}
			h.Count("m.post")
			g.run(op)
		case x < 7:
			h.Count("m.chain")
			g.run(fmt.Sprintf("mchain svc=%d n=%d", v.id, R.Intn(5)))
		case x < 9:
			if !v.stopped {
				v.stopped = true
				h.Count("m.stop")
				if !v.started {
					h.Count("m.stop-without-start")
				}
				if v.blocked {
					h.Count("m.stop-while-loop-parked")
				}
				if g.run(fmt.Sprintf("mstop svc=%d", v.id)) == "bad-op" {
					v.stopped = false
				} else if v.name != "" && R.Intn(2) == 0 && len(all) < 8 {
					// immediately re-create a service of the same name
					u := &svc{id: next, name: v.name, started: true}
					h.Count("m.name-reused-after-stop")
					g.run(fmt.Sprintf("svc id=%d name=%s", next, v.name))
					all = append(all, u)
					next++
					g.run(fmt.Sprintf("mpost svc=%d n=%d", u.id, 1+R.Intn(3)))
				}
			}
		case x < 10:
			if !v.started && !v.stopped {
				v.started = true
				h.Count("m.start-late")
				g.run(fmt.Sprintf("mstart svc=%d", v.id))
			}
		case x < 12:
			if v.blocked {
				v.blocked = false
				g.run(fmt.Sprintf("munblock svc=%d", v.id))
			} else if v.started && !v.stopped {
				v.blocked = true
				h.Count("m.loop-parked")
				g.run(fmt.Sprintf("mblock svc=%d", v.id))
			}
		default:
			if len(all) < 8 {
				create()
			}
		}
	}
	for _, v := range all {
		if v.blocked {
			g.run(fmt.Sprintf("munblock svc=%d", v.id))
		}
	}
	h.Count(fmt.Sprintf("m.services.%d", len(all)))
}

// ---- generators ----------------------------------------------------------

type gen struct {
	h   *hx.T
	run func(op string) string
}

// note: histogram of what the scheduler observations reached (blocked posters, refused posts, closures
// drained after Stop, executions under a parked consumer's release, ...)
func note(h *hx.T, op, obs string, stopped bool) {
	ws := hx.Words(obs)
	ex, _ := hx.KV(ws, "exec")
	rows, _ := hx.KV(ws, "P")
	blocked, refused := 0, 0
	if rows != "-" {
		for _, r := range strings.Split(rows, ";") {
			f := strings.Split(r, ":")
			if len(f) == 5 {
				if f[3] == "1" {
					blocked++
				}
				if f[2] != "0" {
					refused++
				}
			}
		}
	}
	if blocked > 0 {
		h.Count(fmt.Sprintf("s.obs.blocked-posters.%d", blocked))
	}
	if refused > 0 {
		h.Count("s.obs.posts-refused")
	}
	if ex != "-" && ex != "" {
		n := strings.Count(ex, ",") + 1
		b := "1-9"
		if n >= 1000 {
			b = ">=1000"
		} else if n >= 100 {
			b = "100-999"
		} else if n >= 10 {
			b = "10-99"
		}
		h.Count("s.obs.exec." + b)
		if stopped {
			h.Count("s.obs.exec-after-stop")
		}
	}
	if hx.KVInt(ws, "fill") >= sche.QueueSize {
		h.Count("s.obs.channel-full")
	}
}

func (g *gen) cons() string {
	if g.h.R.Intn(2) == 0 {
		return "h"
	}
	return "r"
}

func kindsRun(r func(int) int, n int, panicPct, holdPct int) string {
	// run-length encoded kinds string of n closures
	var sb strings.Builder
	last, cnt := byte(0), 0
	flush := func() {
		if cnt > 0 {
			fmt.Fprintf(&sb, "%c%d", last, cnt)
		}
	}
	for i := 0; i < n; i++ {
		k := byte('n')
		x := r(100)
		if x < panicPct {
			k = 'x'
			if x%3 == 0 {
				k = 'd' // the panic comes from the bottom of a deep call chain (and so does the Post)
			}
		} else if x < panicPct+holdPct {
			k = 'h'
		}
		if k != last {
			flush()
			last, cnt = k, 0
		}
		cnt++
	}
	flush()
	return sb.String()
}

// scheCase: one scheduler scenario.
func (g *gen) scheCase() {
	h := g.h
	R := h.R
	cons := g.cons()
	g.run("reset kind=s cons=" + cons)
	h.Count("s.cons." + cons)
	nPosters := 1 + R.Intn(8)
	h.Count(fmt.Sprintf("s.posters.%d", nPosters))
	qs := sche.QueueSize
	pre := []int{0, 0, 3, qs - 1, qs, qs + 1, qs + 501, 40}[R.Intn(8)]
	h.Count(fmt.Sprintf("s.prefill.%d", pre))
	started, stopped := false, false
	run0 := g.run
	g = &gen{h: h, run: func(op string) string {
		obs := run0(op)
		note(h, op, obs, stopped && op != "stop")
		return obs
	}}
	panicPct := []int{0, 5, 30}[R.Intn(3)]
	burst := func(total int, holdPct int) {
		// split `total` closures over a random subset of posters
		k := 1 + R.Intn(nPosters)
		perm := R.Perm(nPosters)[:k]
		sort.Ints(perm)
		var toks []string
		left := total
		for i, p := range perm {
			n := left
			if i < len(perm)-1 {
				n = R.Intn(left + 1)
			}
			left -= n
			if n == 0 {
				continue
			}
			toks = append(toks, fmt.Sprintf("p%d=%s", p, kindsRun(R.Intn, n, panicPct, holdPct)))
		}
		if len(toks) == 0 {
			toks = append(toks, fmt.Sprintf("p%d=n1", perm[0]))
		}
		h.Count(fmt.Sprintf("s.burst.posters.%d", len(toks)))
		g.run("burst " + strings.Join(toks, " "))
	}
	if pre > 0 {
		if R.Intn(3) == 0 {
			// one poster fills alone (its order in the channel is then fully determined)
			g.run(fmt.Sprintf("burst p%d=%s", R.Intn(nPosters), kindsRun(R.Intn, pre, panicPct, 0)))
		} else {
			burst(pre, 0)
		}
		if R.Intn(3) == 0 {
			burst(1+R.Intn(30), 2) // more arrivals while nobody consumes
		}
	}
	steps := 2 + R.Intn(7)
	for i := 0; i < steps; i++ {
		switch x := R.Intn(10); {
		case x < 2 && !started:
			started = true
			h.Count("s.op.start")
			g.run("start")
		case x < 6:
			n := []int{1, 2, 5, 17, 60, 300}[R.Intn(6)]
			hp := 0
			if R.Intn(3) == 0 {
				hp = 8
			}
			if stopped {
				h.Count("s.op.burst-after-stop")
			} else if !started {
				h.Count("s.op.burst-unconsumed")
			} else {
				h.Count("s.op.burst-running")
			}
			burst(n, hp)
		case x < 8:
			h.Count("s.op.release")
			g.run("release")
		case x == 8 && !stopped:
			stopped = true
			h.Count("s.op.stop")
			if !started {
				h.Count("s.op.stop-before-start")
			}
			g.run("stop")
		default:
			if !started {
				started = true
				h.Count("s.op.start")
				g.run("start")
			} else {
				g.run("release")
			}
		}
	}
	if !stopped && R.Intn(3) == 0 {
		// re-entrant episode: park the consumer, fill to cap-12..cap-2, the parked closure posts 2..8 (within the room)
		if !started {
			started = true
			g.run("start")
		}
		for i := 0; i < 3; i++ {
			g.run("release")
		}
		g.run(fmt.Sprintf("burst p%d=h1", R.Intn(nPosters)))
		fill := qs - 12 + R.Intn(11)
		g.run(fmt.Sprintf("burst p%d=n%d", R.Intn(nPosters), fill))
		k := 2 + R.Intn(7)
		if fill+k > qs {
			k = qs - fill
		}
		h.Count(fmt.Sprintf("s.reentrant.fill.%d", fill))
		g.run(fmt.Sprintf("release post=%d", k))
	}
	// run down: consumer on, gates open, so that "everything accepted runs" is checked
	if !started {
		g.run("start")
	}
	for i := 0; i < 3; i++ {
		g.run("release")
	}
	if !stopped && R.Intn(2) == 0 {
		g.run("stop")
		burst(1+R.Intn(5), 0)
	}
}

var modes = []byte("sssgggllltvnpqx")

func (g *gen) taskSpec(mode byte, err bool) string {
	R := g.h.R
	am := []string{"a", "a", "a", "a", "r", "z", "u", "m"}[R.Intn(8)]
	if err && R.Intn(2) == 0 {
		am = []string{"z", "u", "m"}[R.Intn(3)] // a failing task passing no / a nil / several result values
	}
	g.h.Count("w.result." + am)
	return fmt.Sprintf("%c%d%s%d", mode, hx.B2i(err), am, R.Intn(90))
}

func (g *gen) wfCase() {
	h := g.h
	R := h.R
	cons := g.cons()
	g.run("reset kind=w cons=" + cons)
	h.Count("w.cons." + cons)
	nChains := 1 + R.Intn(4)
	pending := 0
	bldUses := map[int]int{}
	if R.Intn(3) == 0 {
		// a Builder reused for every chain of the case
		h.Count("w.builder.reuse-case")
		nChains = 2 + R.Intn(3)
		bldUses[0] = 1
	}
	for c := 1; c <= nChains; c++ {
		n := R.Intn(7)
		errPos := -1
		if n > 0 && R.Intn(2) == 0 {
			errPos = R.Intn(n)
		}
		var specs []string
		for i := 0; i < n; i++ {
			m := modes[R.Intn(len(modes))]
			h.Count("w.mode." + string(m))
			if m == 'l' {
				pending++
			}
			specs = append(specs, g.taskSpec(m, i == errPos))
		}
		h.Count(fmt.Sprintf("w.len.%d", n))
		if errPos >= 0 {
			h.Count(fmt.Sprintf("w.errpos.%d", errPos))
		}
		via := "sche"
		if R.Intn(3) == 0 || bldUses[0] > 0 && R.Intn(4) > 0 {
			via = "builder"
		}
		if R.Intn(3) == 0 {
			via += " mem=arena"
			h.Count("w.mem.arena")
		} else if via == "builder" && R.Intn(4) > 0 {
			// one of two Builder objects of the case, used again while its earlier chains are queued / pending / done
			k := 1 + R.Intn(2)
			via += fmt.Sprintf(" bld=%d", k)
			bldUses[k]++
			h.Count(fmt.Sprintf("w.builder.use.%d", min(bldUses[k], 3)))
		}
		from := []string{"main", "go", "go", "cons"}[R.Intn(4)]
		parkedHere := false
		if R.Intn(4) == 0 {
			// the chain is started while the consumer is parked behind a queue of 0 / 3 / cap-1 / cap closures
			parkedHere = true
			from = []string{"go", "go", "go", "main"}[R.Intn(4)]
			fill := []int{0, 3, sche.QueueSize - 1, sche.QueueSize, sche.QueueSize - 2}[R.Intn(5)]
			h.Count(fmt.Sprintf("w.parked.fill.%d", fill))
			g.run("park")
			if fill > 0 {
				g.run(fmt.Sprintf("fill n=%d", fill))
			}
		}
		h.Count("w.from." + from)
		obs := g.run(fmt.Sprintf("chain id=%d via=%s from=%s tasks=%s", c, via, from, strings.Join(specs, ",")))
		if obs == "bad-op" {
			h.Count("w.refused")
		}
		if parkedHere {
			if R.Intn(2) == 0 {
				// a second starter (blocks when the first one filled the last slot), or a late completion
				if R.Intn(2) == 0 {
					g.run(fmt.Sprintf("chain id=%d via=sche from=go tasks=%s", 100+c, g.taskSpec('s', false)))
				} else {
					g.fire(pending + 1)
				}
			}
			g.run("unpark")
		}
		if R.Intn(3) == 0 {
			g.fire(pending + 1)
		}
	}
	fires := R.Intn(3 + 2*pending)
	stopped := false
	for i := 0; i < fires; i++ {
		if !stopped && R.Intn(12) == 0 {
			stopped = true
			h.Count("w.op.wstop")
			g.run("wstop")
			if R.Intn(2) == 0 {
				g.run(fmt.Sprintf("chain id=%d via=sche tasks=%s", nChains+1, g.taskSpec('s', false)))
			}
			continue
		}
		g.fire(pending + 1)
	}
}

func (g *gen) fire(limit int) {
	R := g.h.R
	k := R.Intn(limit + 1) // may be out of range, may repeat an earlier one (= a task completing twice)
	via := []string{"go", "go", "main", "timer", "post"}[R.Intn(5)]
	g.h.Count("w.fire." + via)
	g.run(fmt.Sprintf("fire k=%d via=%s", k, via))
}

// sweep: every chain length 0..6 × error position × completion mode, deterministic.
func (g *gen) sweep() {
	for _, cons := range []string{"h", "r"} {
		for _, m := range []byte("sgltvq") {
			g.run("reset kind=w cons=" + cons)
			id := 0
			npend := 0
			for n := 0; n <= 6; n++ {
				for errPos := -1; errPos < n; errPos++ {
					id++
					var specs []string
					for i := 0; i < n; i++ {
						specs = append(specs, fmt.Sprintf("%c%da%d", m, hx.B2i(i == errPos), 10*id+i))
					}
					g.h.Count("w.sweep")
					g.run(fmt.Sprintf("chain id=%d via=sche tasks=%s", id, strings.Join(specs, ",")))
					if m == 'l' {
						// drive the chain to its end, one completion per op, through every route
						for i := 0; i < n; i++ {
							via := []string{"go", "main", "timer", "post"}[(id+i)%4]
							g.run(fmt.Sprintf("fire k=%d via=%s", npend, via))
							npend++
							if i == errPos {
								break
							}
						}
					}
				}
			}
		}
	}
	// the failing task passes no result values / one nil value / several values; every position; sync, goroutine, later
	for _, cons := range []string{"h", "r"} {
		g.run("reset kind=w cons=" + cons)
		id, npend := 0, 0
		for _, m := range []byte("sgl") {
			for _, rm := range []byte("zum") {
				for n := 1; n <= 4; n++ {
					for errPos := 0; errPos < n; errPos++ {
						id++
						var specs []string
						for i := 0; i < n; i++ {
							if i == errPos {
								specs = append(specs, fmt.Sprintf("%c1%c%d", m, rm, 10*id+i))
							} else {
								specs = append(specs, fmt.Sprintf("%c0%c%d", m, []byte("azum")[(id+i)%4], 10*id+i))
							}
						}
						g.h.Count("w.sweep.error-results")
						g.run(fmt.Sprintf("chain id=%d via=sche tasks=%s", id, strings.Join(specs, ",")))
						if m == 'l' {
							for i := 0; i <= errPos; i++ {
								g.run(fmt.Sprintf("fire k=%d via=%s", npend, []string{"go", "main", "timer", "post"}[(id+i)%4]))
								npend++
							}
						}
					}
				}
			}
		}
	}
	// chains started from a foreign goroutine / the consumer / the test goroutine, with the consumer idle or parked
	// behind 0 / 3 / cap-1 / cap queued closures (the starter then blocks in Post on the full channel)
	for _, cons := range []string{"h", "r"} {
		for _, fill := range []int{0, 3, sche.QueueSize - 1, sche.QueueSize} {
			g.run("reset kind=w cons=" + cons)
			g.run("chain id=1 via=sche from=go tasks=s0a1,l0a2,g0a3")
			g.run("chain id=2 via=builder from=cons tasks=s0a1,s1a2")
			g.run("park")
			if fill > 0 {
				g.run(fmt.Sprintf("fill n=%d", fill))
			}
			g.run("chain id=3 via=sche from=go tasks=s0a1,g0a2,l0a3")
			g.run("chain id=4 via=sche from=go tasks=")
			g.run("chain id=5 via=builder from=main tasks=t0a1,s0a2")
			g.run("fire k=0 via=go")
			g.run("unpark")
			g.run("fire k=0 via=timer")
			g.run("fire k=1 via=go")
			g.run("chain id=6 via=sche from=cons tasks=l0a1")
			g.run("fire k=2 via=main")
			g.h.Count("w.sweep.parked")
		}
	}
	// unset (nil) steps at every position of chains of length 1..4 (the call panics inside the scheduler's recover: the
	// chain stops there, nothing else runs), sync / goroutine / later predecessors, Sche and Builder
	for _, cons := range []string{"h", "r"} {
		g.run("reset kind=w cons=" + cons)
		id, npend := 0, 0
		for _, m := range []byte("sgl") {
			for n := 1; n <= 4; n++ {
				for nilPos := 0; nilPos < n; nilPos++ {
					id++
					var specs []string
					for i := 0; i < n; i++ {
						if i == nilPos {
							specs = append(specs, fmt.Sprintf("x0a%d", 10*id+i))
						} else {
							specs = append(specs, fmt.Sprintf("%c0a%d", m, 10*id+i))
						}
					}
					g.h.Count("w.sweep.unset-step")
					g.run(fmt.Sprintf("chain id=%d via=%s tasks=%s", id, []string{"sche", "builder"}[id%2], strings.Join(specs, ",")))
					if m == 'l' {
						for i := 0; i < nilPos; i++ {
							g.run(fmt.Sprintf("fire k=%d via=%s", npend, []string{"go", "main", "timer", "post"}[(id+i)%4]))
							npend++
						}
					}
				}
			}
		}
	}
	// one Builder object used for several chains (Next.. Final Do, again Next.. Final Do): it keeps what it holds, so each
	// chain runs the builder's tasks so far, and a chain that was started is not disturbed by what is built afterwards -
	// whether it is pending on a task, queued behind a parked consumer, or done
	for _, cons := range []string{"h", "r"} {
		g.run("reset kind=w cons=" + cons)
		g.run("chain id=1 via=builder bld=1 tasks=l0a1,s0a2")
		g.run("chain id=2 via=builder bld=1 tasks=s0a3")
		g.run("fire k=0 via=go")
		g.run("fire k=1 via=main")
		g.run("park")
		g.run("chain id=3 via=builder bld=2 from=go tasks=s0a4,g0a5")
		g.run("chain id=4 via=builder bld=2 from=go tasks=s1r6")
		g.run("chain id=5 via=builder bld=1 from=main tasks=")
		g.run("unpark")
		g.run("fire k=2 via=timer")
		g.run("chain id=6 via=builder bld=3 tasks=")
		g.run("chain id=7 via=builder bld=3 from=cons tasks=g0a7,l0a8,s0a9")
		g.run("chain id=8 via=builder bld=3 tasks=x0a1,s0a2")
		g.run("fire k=3 via=post")
		g.run("fire k=4 via=go")
		g.h.Count("w.sweep.builder-reused")
	}
	// task lists that are adjacent windows of one backing array (spare capacity reaching into the next chain's tasks),
	// started back to back with the consumer idle and parked, lengths 0..5
	for _, cons := range []string{"h", "r"} {
		g.run("reset kind=w cons=" + cons)
		for id := 1; id <= 6; id++ {
			var specs []string
			for i := 0; i < id-1; i++ {
				specs = append(specs, fmt.Sprintf("%c0a%d", []byte("sgs")[(id+i)%3], 10*id+i))
			}
			g.run(fmt.Sprintf("chain id=%d via=sche mem=arena tasks=%s", id, strings.Join(specs, ",")))
		}
		g.run("park")
		g.run("chain id=7 via=sche mem=arena from=go tasks=s0a71,s0a72")
		g.run("chain id=8 via=sche mem=arena from=go tasks=s0a81,l0a82,s0a83")
		g.run("chain id=9 via=sche mem=arena from=main tasks=g0a91")
		g.run("unpark")
		g.run("chain id=10 via=sche mem=arena tasks=s0a101,s1a102,s0a103")
		g.run("fire k=0 via=go")
		g.h.Count("w.sweep.arena")
	}
	// two anonymous run services side by side, one stopped, a third created afterwards; a panicking closure on each
	g.run("reset kind=m")
	g.run("svc id=1")
	g.run("svc id=2")
	g.run("mpost svc=1 n=6")
	g.run("mpost svc=2 n=6 x=2")
	g.run("mchain svc=1 n=3")
	g.run("mchain svc=2 n=0")
	g.run("mpost svc=1 n=40 x=0")
	g.run("mstop svc=1")
	g.run("mpost svc=2 n=5")
	g.run("mchain svc=2 n=4")
	g.run("mpost svc=1 n=2")
	g.run("svc id=3")
	g.run("mpost svc=3 n=4 x=3")
	g.run("mchain svc=3 n=2")
	g.run("mpost svc=2 n=3")
	g.run("mstop svc=2")
	g.run("mstop svc=3")
	g.run("svc id=4")
	g.run("mpost svc=4 n=2")
	g.h.Count("m.sweep")
	// explicit names reused after a stop: stop without start; stop while the loop is parked in a closure and an
	// immediate re-creation under the same name; late start with closures already queued
	g.run("reset kind=m")
	g.run("svc id=1 name=a start=0")
	g.run("mpost svc=1 n=2")
	g.run("mstop svc=1")
	g.run("svc id=2 name=a")
	g.run("mpost svc=2 n=3 x=1")
	g.run("mchain svc=2 n=2")
	g.run("mblock svc=2")
	g.run("mstop svc=2")
	g.run("svc id=3 name=a")
	g.run("mpost svc=3 n=4")
	g.run("mchain svc=3 n=3")
	g.run("munblock svc=2")
	g.run("mpost svc=3 n=2")
	g.run("svc id=4 name=b start=0")
	g.run("mpost svc=4 n=3")
	g.run("mstart svc=4")
	g.run("mblock svc=4")
	g.run("mpost svc=4 n=2 x=0")
	g.run("munblock svc=4")
	g.run("mstop svc=4")
	g.run("mstop svc=3")
	g.run("svc id=5 name=a")
	g.run("svc id=6 name=b")
	g.run("mpost svc=5 n=2")
	g.run("mpost svc=6 n=2")
	g.h.Count("m.sweep.names")
	// re-entrant posts: the consumer, parked in a closure, posts 2..8 closures to its own nearly full queue (within the
	// free slots - beyond them it would deadlock on its own channel); the consumer is then just one more poster
	for _, cons := range []string{"h", "r"} {
		for _, fill := range []int{0, 5, sche.QueueSize - 12, sche.QueueSize - 10, sche.QueueSize - 8, sche.QueueSize - 4} {
			for _, k := range []int{2, 4, 8} {
				if fill+k > sche.QueueSize {
					continue
				}
				g.run("reset kind=s cons=" + cons)
				g.run("start")
				g.run("burst p0=n1h1")
				if fill > 0 {
					g.run(fmt.Sprintf("burst p1=n%d", fill))
				}
				g.run(fmt.Sprintf("release post=%d", k))
				g.run("burst p0=h1 p1=n2")
				g.run("release post=3")
				g.h.Count("s.sweep.reentrant")
			}
		}
	}
	// fill levels: exactly at / around the capacity, single and multiple posters, both consumers
	qs := sche.QueueSize
	for _, cons := range []string{"h", "r"} {
		// closures that panic at the bottom of a deep call chain, posted through a deep call chain - before and after Stop
		g.run("reset kind=s cons=" + cons)
		g.run("burst p0=n1d1n2")
		g.run("start")
		g.run("burst p1=d2n1 p0=n1")
		g.run("stop")
		g.run("burst p0=d1 p2=d2n1")
		g.h.Count("s.sweep.deep")
		for _, pre := range []int{0, qs - 1, qs, qs + 1, qs + 501} {
			g.run("reset kind=s cons=" + cons)
			if pre > 0 {
				g.run(fmt.Sprintf("burst p0=n%d", pre))
			}
			g.run("burst p1=n2x1n2 p2=n3")
			g.run("start")
			g.run("burst p0=x1n1 p3=n4")
			g.run("stop")
			g.run("burst p1=n2 p4=n1")
			g.h.Count("s.sweep")
		}
		// Stop while posters are blocked on the full channel and the consumer never ran
		g.run("reset kind=s cons=" + cons)
		g.run(fmt.Sprintf("burst p0=n%d p1=n5 p2=n5", qs))
		g.run("stop")
		g.run("burst p0=n1 p3=n2")
		g.run("start")
		// consumer parked while the channel fills up, then released
		g.run("reset kind=s cons=" + cons)
		g.run("start")
		g.run("burst p0=n2h1n3")
		g.run(fmt.Sprintf("burst p1=n%d p2=x4", qs))
		g.run("burst p3=n7")
		g.run("release")
		g.run("burst p0=n1 p1=x1 p2=n1")
	}
}

// postsPanic: does the op hand a panicking closure / task to the code under test?
func postsPanic(op string) bool {
	ws := hx.Words(op)
	if len(ws) == 0 {
		return false
	}
	switch ws[0] {
	case "burst":
		for _, w := range ws[1:] {
			if i := strings.IndexByte(w, '='); i >= 0 && strings.ContainsAny(w[i+1:], "xd") {
				return true
			}
		}
	case "chain":
		v, _ := hx.KV(ws, "tasks")
		for _, t := range strings.Split(v, ",") {
			if len(t) > 0 && (t[0] == 'p' || t[0] == 'q' || t[0] == 'x') {
				return true
			}
		}
	case "mpost":
		_, ok := hx.KV(ws, "x")
		return ok
	}
	return false
}

// bubble runs `body` inside one synctest bubble with the trace plumbing; it never returns (syscall.Exit).
// quiet silences the panic reports of doTask / Post (stack traces through logrus) and "RunServeice loop end"
func quiet() {
	log.SetOutput(io.Discard)
	for _, n := range []string{"exception", "default"} {
		if l := proxy.GetLogs().GetLog(n); l != nil {
			l.SetLogLevel(logrus.PanicLevel)
		}
	}
}

func bubble(t *testing.T, body func(h *hx.T, run func(op string) string)) {
	quiet()
	h := hx.Open()
	synctest.Test(t, func(t *testing.T) {
		emit := func(op string) string {
			obs := exec(op)
			h.Emit(op, obs)
			h.Flush() // whole lines only, also when the code under test takes the process down
			return obs
		}
		open := false
		run := func(op string) string {
			if strings.HasPrefix(op, "next ") {
				return "ok" // regenerated below
			}
			if postsPanic(op) {
				// should the consumer's goroutine die of the panic the whole process goes down before this op can
				// be recorded: announce it, so that the trace (and the replay file) names the op that did it
				emit("next " + op)
			}
			if strings.HasPrefix(op, "reset") {
				if open {
					emit("end")
				}
				open = true
			} else if op == "end" {
				open = false
			}
			return emit(op)
		}
		body(h, run)
		if open {
			emit("end")
		}
		cur.cleanup()
		h.Close()
		syscall.Exit(0)
	})
}

func TestRun(t *testing.T) {
	bubble(t, func(h *hx.T, run func(op string) string) {
		if all := hx.ReplayOps(); all != nil {
			var ops []string
			for _, op := range all {
				if !strings.HasPrefix(op, "<") { // "<harness-exit ...>" is bin/check's note, not an op
					ops = append(ops, op)
				}
			}
			for i, op := range ops {
				run(op)
				if i == len(ops)-1 && strings.HasPrefix(op, "next ") {
					run(strings.TrimPrefix(op, "next ")) // the recording died inside the announced op
				}
			}
			return
		}
		g := &gen{h: h, run: run}
		for _, op := range hx.CorpusOps(hx.Env("VERIF_CORPUS", "corpus/C15")) {
			h.Count("corpus")
			run(op)
		}
		g.sweep()
		n := hx.EnvInt("VERIF_N", 60)
		for i := 0; i < n; i++ {
			if h.R.Intn(6) == 0 {
				h.Count("case.multi")
				g.multiCase()
			}
			if h.R.Intn(2) == 0 {
				h.Count("case.sche")
				g.scheCase()
			} else {
				h.Count("case.wf")
				g.wfCase()
				g.wfCase()
			}
		}
	})
}

// TestExhaustive (thorough tier): every chain of length <= 3 over the completion modes
// {sync, goroutine, later, twice, never} x {ok, error}, later completions delivered in order and the
// first one delivered a second time; and every fill level cap-2..cap+2 x consumer x Stop position with
// two posters racing for the last slots.
func TestExhaustive(t *testing.T) {
	bubble(t, func(h *hx.T, run func(op string) string) {
		ms := []byte("sgltnx")
		var all [][]string
		var rec func(prefix []string, n int)
		rec = func(prefix []string, n int) {
			if len(prefix) == n {
				all = append(all, append([]string(nil), prefix...))
				return
			}
			for _, m := range ms {
				for e := 0; e < 2; e++ {
					rec(append(prefix, fmt.Sprintf("%c%da%d", m, e, 1+len(prefix))), n)
				}
			}
		}
		for n := 0; n <= 3; n++ {
			rec(nil, n)
		}
		id := 0
		for i, specs := range all {
			if i%40 == 0 {
				run("reset kind=w cons=" + []string{"h", "r"}[(i/40)%2])
				id = 0
			}
			id++
			base := len(cur.pend)
			run(fmt.Sprintf("chain id=%d via=sche tasks=%s", id, strings.Join(specs, ",")))
			for k := base; k < len(cur.pend); k++ { // cur.pend grows while the chain advances
				run(fmt.Sprintf("fire k=%d via=%s", k, []string{"go", "main", "timer", "post"}[k%4]))
			}
			if len(cur.pend) > base {
				run(fmt.Sprintf("fire k=%d via=go", base)) // the first later-task completes a second time
			}
		}
		h.Stats["exhaustive.wf.len<=3.modes=sgltnx.err=01"] = len(all)
		qs := sche.QueueSize
		cnt := 0
		for _, cons := range []string{"h", "r"} {
			for pre := qs - 2; pre <= qs+2; pre++ {
				for stopAt := 0; stopAt < 3; stopAt++ {
					run("reset kind=s cons=" + cons)
					run(fmt.Sprintf("burst p0=n%d", pre-3))
					run("burst p1=n3x1 p2=n4")
					if stopAt == 0 {
						run("stop")
					}
					run("start")
					run("burst p1=n2 p2=n2 p0=x1")
					if stopAt == 1 {
						run("stop")
					}
					run("burst p3=n3")
					cnt++
				}
			}
		}
		h.Stats["exhaustive.sche.fill=cap-2..cap+2.x.cons.x.stop"] = cnt
	})
}
