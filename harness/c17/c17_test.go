// C17 correspondence harness: drives the real event centres (local, local with
// useChan, global singleton, light) with generated and replayed op lines.
// Listeners are scripts (lists of centre operations performed on invocation);
// every top-level op runs on a per-case worker goroutine under a real-time
// watchdog, so that a deadlock (a write lock requested under the caller's own
// read lock) becomes the observation token `blocked` instead of a hung run.
package c17

import (
	"bytes"
	"fmt"
	"runtime"
	"strconv"
	"strings"
	"sync"
	"sync/atomic"
	"testing"
	"time"

	"cell2verif/hx"

	"github.com/dfklegend/cell2/utils/event"
	"github.com/dfklegend/cell2/utils/event/light"
	"github.com/dfklegend/cell2/utils/runservice"
)

const maxDepth = 3
const absentID = uint64(1) << 62

type sop struct {
	k       byte // s u f p g c S(gs) U(gu) H(gsh) R(sr) V(ur)
	r       int
	c, e, t int
	g       bool
	a       []int
}

type tmpl struct {
	bound  []int
	fn     int
	script []sop
	spare  int // extra capacity of the bound-argument slice handed to Subscribe (def ... x=<spare>)
}

// boundArgs builds the slice passed as `args...` to the Subscribe family: pre ++ xs with `spare` unused slots behind
// (cap > len when spare > 0: the centre must not write into those slots, see D25)
func boundArgs(pre []interface{}, xs []int, spare int) []interface{} {
	out := make([]interface{}, 0, len(pre)+len(xs)+spare)
	out = append(out, pre...)
	for _, x := range xs {
		out = append(out, x)
	}
	return out
}

type centre struct {
	kind byte // L C T
	loc  *event.LocalEventCenter
	lt   *light.EventCenter
}

type kase struct {
	no      int
	cs      []*centre
	tmpls   map[int]*tmpl
	used    map[int]bool
	realID  map[int]uint64
	tagCtr  map[int]int
	hooked  map[int]bool
	recvs   map[int]*recvObj
	fnTag   map[int]int // light listeners with a code pointer of their own (8..15): code pointer -> tag
	depth   int
	aborted bool
	mu      sync.Mutex
	toks    []string
	jobs    chan func()
}

type recvObj struct{ n int }

func (k *kase) receiver(r int) *recvObj {
	if k.recvs[r] == nil {
		k.recvs[r] = &recvObj{r}
	}
	return k.recvs[r]
}

// hookedEC is a local centre whose GetId() runs a one-shot hook.
type hookedEC struct {
	*event.LocalEventCenter
	hook func()
}

func (h *hookedEC) GetId() uint64 {
	if f := h.hook; f != nil {
		h.hook = nil
		f()
	}
	return h.LocalEventCenter.GetId()
}

// hidden first bound argument that identifies a light listener sharing a code pointer
type tagArg struct{ tag int }

var cur *kase // the light centre's top-level listener functions find their case here
var caseNo int
var hangMs = hx.EnvInt("VERIF_HANG_MS", 300)
var hangs int

func (k *kase) tok(s string) {
	k.mu.Lock()
	k.toks = append(k.toks, s)
	k.mu.Unlock()
}

func (k *kase) name(e int) string { return fmt.Sprintf("k%d-e%d", k.no, e) }

func joinInts(xs []int, sep string) string {
	ss := make([]string, len(xs))
	for i, x := range xs {
		ss[i] = strconv.Itoa(x)
	}
	return strings.Join(ss, sep)
}

func parseInts(s, sep string) []int {
	if s == "" {
		return nil
	}
	var out []int
	for _, p := range strings.Split(s, sep) {
		if n, err := strconv.Atoi(p); err == nil && n >= 0 {
			out = append(out, n)
		}
	}
	return out
}

func atoi(s string) (int, bool) {
	n, err := strconv.Atoi(s)
	return n, err == nil && n >= 0
}

func parseOp(s string) (sop, bool) {
	p := strings.Split(s, ".")
	num := func(i int) (int, bool) { return atoi(p[i]) }
	switch {
	case len(p) == 5 && p[0] == "s":
		c, ok1 := num(1)
		e, ok2 := num(2)
		t, ok3 := num(3)
		return sop{k: 's', c: c, e: e, t: t, g: p[4] == "1"}, ok1 && ok2 && ok3
	case len(p) == 4 && (p[0] == "u" || p[0] == "f"):
		c, ok1 := num(1)
		e, ok2 := num(2)
		t, ok3 := num(3)
		return sop{k: p[0][0], c: c, e: e, t: t}, ok1 && ok2 && ok3
	case len(p) == 4 && p[0] == "p":
		c, ok1 := num(1)
		e, ok2 := num(2)
		return sop{k: 'p', c: c, e: e, a: parseInts(p[3], "_")}, ok1 && ok2
	case len(p) == 5 && (p[0] == "sr" || p[0] == "ur"):
		c, ok1 := num(1)
		e, ok2 := num(2)
		t, ok3 := num(3)
		r, ok4 := num(4)
		k := byte('R')
		if p[0] == "ur" {
			k = 'V'
		}
		return sop{k: k, c: c, e: e, t: t, r: r}, ok1 && ok2 && ok3 && ok4
	case len(p) == 4 && p[0] == "gsh":
		e, ok1 := num(1)
		c, ok2 := num(2)
		t, ok3 := num(3)
		return sop{k: 'H', e: e, c: c, t: t}, ok1 && ok2 && ok3
	case len(p) == 3 && (p[0] == "gs" || p[0] == "gu"):
		e, ok1 := num(1)
		c, ok2 := num(2)
		k := byte('S')
		if p[0] == "gu" {
			k = 'U'
		}
		return sop{k: k, e: e, c: c}, ok1 && ok2
	case len(p) == 3 && p[0] == "g":
		e, ok := num(1)
		return sop{k: 'g', e: e, a: parseInts(p[2], "_")}, ok
	case len(p) == 2 && p[0] == "c":
		c, ok := num(1)
		return sop{k: 'c', c: c}, ok
	}
	return sop{}, false
}

func parseOps(s string) ([]sop, bool) {
	if s == "" {
		return nil, true
	}
	var out []sop
	for _, x := range strings.Split(s, ";") {
		o, ok := parseOp(x)
		if !ok {
			return nil, false
		}
		out = append(out, o)
	}
	return out, true
}

func toArgs(xs []int) []interface{} {
	out := make([]interface{}, len(xs))
	for i, x := range xs {
		out[i] = x
	}
	return out
}

func showArgs(args []interface{}) string {
	var sb strings.Builder
	for i, a := range args {
		if i > 0 {
			sb.WriteByte('.')
		}
		if n, ok := a.(int); ok {
			sb.WriteString(strconv.Itoa(n))
		} else {
			sb.WriteString("?")
		}
	}
	return sb.String()
}

// invoke is what every listener does: log the call with the arguments it received, perform its script,
// then read its arguments again: they must still be the ones it was called with (token m<id>:<args> if not).
func (k *kase) invoke(tag int, args []interface{}) {
	atEntry := showArgs(args)
	k.tok(fmt.Sprintf("i%d:%s", tag, atEntry))
	if tm := k.tmpls[tag]; tm != nil {
		k.runOps(tm.script)
	}
	if after := showArgs(args); after != atEntry {
		k.tok(fmt.Sprintf("m%d:%s", tag, after))
	}
}

func (k *kase) localCB(tag int) event.CBFunc {
	return func(args ...interface{}) { k.invoke(tag, args) }
}

func lightCall(fn int, args []interface{}) {
	k := cur
	if k == nil {
		return
	}
	if len(args) > 0 {
		if ta, ok := args[0].(tagArg); ok {
			k.invoke(ta.tag, args[1:])
			return
		}
	}
	k.invoke(k.fnTag[fn], args)
}

func lf0(a ...interface{})  { lightCall(0, a) }
func lf1(a ...interface{})  { lightCall(1, a) }
func lf2(a ...interface{})  { lightCall(2, a) }
func lf3(a ...interface{})  { lightCall(3, a) }
func lf4(a ...interface{})  { lightCall(4, a) }
func lf5(a ...interface{})  { lightCall(5, a) }
func lf6(a ...interface{})  { lightCall(6, a) }
func lf7(a ...interface{})  { lightCall(7, a) }
func lf8(a ...interface{})  { lightCall(8, a) }
func lf9(a ...interface{})  { lightCall(9, a) }
func lf10(a ...interface{}) { lightCall(10, a) }
func lf11(a ...interface{}) { lightCall(11, a) }
func lf12(a ...interface{}) { lightCall(12, a) }
func lf13(a ...interface{}) { lightCall(13, a) }
func lf14(a ...interface{}) { lightCall(14, a) }
func lf15(a ...interface{}) { lightCall(15, a) }

var lightFns []light.CBFunc

func init() {
	lightFns = []light.CBFunc{lf0, lf1, lf2, lf3, lf4, lf5, lf6, lf7, lf8, lf9, lf10, lf11, lf12, lf13, lf14, lf15}
}

func (k *kase) centre(i int) *centre {
	if i < 0 || i >= len(k.cs) {
		return nil
	}
	return k.cs[i]
}

func (k *kase) qlens() []int {
	out := make([]int, len(k.cs))
	for i, c := range k.cs {
		if c.loc != nil {
			out[i] = len(c.loc.GetChanEvent())
		}
	}
	return out
}

func (k *kase) runOps(ops []sop) {
	for _, o := range ops {
		k.runOp(o)
	}
}

func (k *kase) runOp(o sop) {
	switch o.k {
	case 's':
		c, tm := k.centre(o.c), k.tmpls[o.t]
		if c == nil || tm == nil {
			k.tok("bad")
			return
		}
		if k.used[o.t] {
			k.tok("dup")
			return
		}
		k.used[o.t] = true
		var id uint64
		if c.kind == 'T' {
			// code pointers 8..15 identify their (single) template; the shared ones 0..7 carry a hidden tag argument
			var args []interface{}
			if tm.fn%16 < 8 {
				args = boundArgs([]interface{}{tagArg{o.t}}, tm.bound, tm.spare)
			} else {
				args = boundArgs(nil, tm.bound, tm.spare)
				k.fnTag[tm.fn%16] = o.t
			}
			if o.g {
				id = c.lt.SubscribeNoCheck(k.name(o.e), lightFns[tm.fn%16], args...)
			} else {
				id = c.lt.Subscribe(k.name(o.e), lightFns[tm.fn%16], args...)
			}
		} else if o.g {
			id = c.loc.GSubscribe(k.name(o.e), k.localCB(o.t), boundArgs(nil, tm.bound, tm.spare)...)
		} else {
			id = c.loc.Subscribe(k.name(o.e), k.localCB(o.t), boundArgs(nil, tm.bound, tm.spare)...)
		}
		k.realID[o.t] = id
		k.tagCtr[o.t] = o.c
		if id == 0 {
			k.tok("s0")
		} else {
			k.tok("s+")
		}
	case 'u':
		c := k.centre(o.c)
		if c == nil {
			k.tok("bad")
			return
		}
		id := absentID
		if rid, ok := k.realID[o.t]; ok && k.tagCtr[o.t] == o.c {
			id = rid
		}
		if c.kind == 'T' {
			c.lt.UnsubscribeById(k.name(o.e), id)
		} else {
			c.loc.Unsubscribe(k.name(o.e), id)
		}
		k.tok("u")
	case 'f':
		c := k.centre(o.c)
		if c == nil || c.kind != 'T' {
			k.tok("bad")
			return
		}
		c.lt.Unsubscribe(k.name(o.e), lightFns[o.t%16])
		k.tok("u")
	case 'p':
		c := k.centre(o.c)
		if c == nil {
			k.tok("bad")
			return
		}
		if c.kind == 'C' {
			c.loc.Publish(k.name(o.e), toArgs(o.a)...)
			k.tok("q")
			return
		}
		if k.depth >= maxDepth {
			k.tok("x")
			return
		}
		k.tok("[")
		k.depth++
		if c.kind == 'T' {
			c.lt.Publish(k.name(o.e), toArgs(o.a)...)
		} else {
			c.loc.Publish(k.name(o.e), toArgs(o.a)...)
		}
		k.depth--
		k.tok("]")
	case 'g':
		before := k.qlens()
		event.GetGlobalEC().Publish(k.name(o.e), toArgs(o.a)...)
		after := k.qlens()
		var grew []int
		for i := range before {
			for j := before[i]; j < after[i]; j++ {
				grew = append(grew, i)
			}
		}
		k.tok("g:" + joinInts(grew, "."))
	case 'R':
		// light centre SubscribeWithReceiver: ONE func value per code pointer, receivers are pointers kept per case
		c, tm := k.centre(o.c), k.tmpls[o.t]
		if c == nil || tm == nil || c.kind != 'T' || o.r == 0 {
			k.tok("bad")
			return
		}
		if k.used[o.t] {
			k.tok("dup")
			return
		}
		k.used[o.t] = true
		var args []interface{}
		if tm.fn%16 < 8 {
			args = boundArgs([]interface{}{tagArg{o.t}}, tm.bound, tm.spare)
		} else {
			args = boundArgs(nil, tm.bound, tm.spare)
			k.fnTag[tm.fn%16] = o.t
		}
		id := c.lt.SubscribeWithReceiver(k.name(o.e), k.receiver(o.r), lightFns[tm.fn%16], args...)
		k.realID[o.t] = id
		k.tagCtr[o.t] = o.c
		if id == 0 {
			k.tok("s0")
		} else {
			k.tok("s+")
		}
	case 'V':
		c := k.centre(o.c)
		if c == nil || c.kind != 'T' || o.r == 0 {
			k.tok("bad")
			return
		}
		c.lt.UnsubscribeWithReceiver(k.name(o.e), k.receiver(o.r), lightFns[o.t%16])
		k.tok("u")
	case 'H':
		// Subscribe through a wrapper centre whose GetId() — called by the global centre after it looked the
		// name's list up and before it stores the centre — performs the racing script (once)
		c := k.centre(o.c)
		if c == nil || c.loc == nil {
			k.tok("bad")
			return
		}
		if k.hooked[o.t] {
			k.tok("dup")
			return
		}
		k.hooked[o.t] = true
		var sc []sop
		if tm := k.tmpls[o.t]; tm != nil {
			sc = tm.script
		}
		w := &hookedEC{LocalEventCenter: c.loc}
		w.hook = func() { k.runOps(sc) }
		event.GetGlobalEC().Subscribe(k.name(o.e), w)
		if w.hook != nil { // GetId was not called: run the racing script anyway so that the trace stays aligned
			w.hook = nil
			k.runOps(sc)
		}
		k.tok("gs")
	case 'S', 'U':
		// direct calls on the exported global centre (a light centre is not an ILocalEventCenter)
		c := k.centre(o.c)
		if c == nil || c.loc == nil {
			k.tok("bad")
			return
		}
		if o.k == 'S' {
			event.GetGlobalEC().Subscribe(k.name(o.e), c.loc)
			k.tok("gs")
		} else {
			event.GetGlobalEC().Unsubscribe(k.name(o.e), c.loc)
			k.tok("gu")
		}
	case 'c':
		c := k.centre(o.c)
		if c == nil {
			k.tok("bad")
			return
		}
		if c.kind == 'T' {
			c.lt.Clear()
		} else {
			c.loc.Clear()
		}
		k.tok("c")
	default:
		k.tok("bad")
	}
}

func (k *kase) drain(ci, n int) {
	c := k.centre(ci)
	if c == nil || c.loc == nil {
		return
	}
	for i := 0; i < n; i++ {
		select {
		case e := <-c.loc.GetChanEvent():
			k.tok("[")
			k.depth++
			c.loc.DoEvent(e)
			k.depth--
			k.tok("]")
		default:
			return
		}
	}
}

// guarded runs f on the case's worker goroutine; a hang or a panic ends the case.
func (k *kase) guarded(f func()) string {
	if k.aborted {
		return "aborted"
	}
	k.mu.Lock()
	k.toks = nil
	k.mu.Unlock()
	done := make(chan string, 1)
	k.jobs <- func() {
		defer func() {
			if e := recover(); e != nil {
				done <- "panic"
				return
			}
			done <- ""
		}()
		f()
	}
	suffix := ""
	// watchdog: a hang is declared only after a full interval without a new token plus a grace period
	// (a descheduled process must not look like a deadlock)
	seen, idle := 0, 0
wait:
	for {
		select {
		case s := <-done:
			suffix = s
			if s != "" {
				k.aborted = true
			}
			break wait
		case <-time.After(time.Duration(hangMs) * time.Millisecond):
			k.mu.Lock()
			n := len(k.toks)
			k.mu.Unlock()
			if n != seen {
				seen, idle = n, 0
				continue
			}
			idle++
			if idle >= 3 {
				suffix = "blocked"
				k.aborted = true
				hangs++
				break wait
			}
		}
	}
	k.mu.Lock()
	toks := append([]string(nil), k.toks...)
	k.mu.Unlock()
	if suffix != "" {
		toks = append(toks, suffix)
	}
	if len(toks) == 0 {
		return "-"
	}
	return strings.Join(toks, " ")
}

func newCase(kinds string) *kase {
	caseNo++
	k := &kase{no: caseNo, tmpls: map[int]*tmpl{}, used: map[int]bool{}, realID: map[int]uint64{}, tagCtr: map[int]int{},
		fnTag: map[int]int{}, hooked: map[int]bool{}, recvs: map[int]*recvObj{}, jobs: make(chan func(), 1)}
	if kinds != "" {
		for _, s := range strings.Split(kinds, ",") {
			switch s {
			case "L":
				k.cs = append(k.cs, &centre{kind: 'L', loc: event.NewLocalEventCenter(false)})
			case "C":
				k.cs = append(k.cs, &centre{kind: 'C', loc: event.NewLocalEventCenter(true)})
			case "T":
				k.cs = append(k.cs, &centre{kind: 'T', lt: light.NewEventCenter()})
			}
		}
	}
	go func() {
		for j := range k.jobs {
			j()
		}
	}()
	return k
}

func (k *kase) end() {
	if k != nil && !k.aborted {
		close(k.jobs)
	}
}

func goid() uint64 {
	b := make([]byte, 64)
	b = b[:runtime.Stack(b, false)]
	b = bytes.TrimPrefix(b, []byte("goroutine "))
	if i := bytes.IndexByte(b, ' '); i > 0 {
		n, _ := strconv.ParseUint(string(b[:i]), 10, 64)
		return n
	}
	return 0
}

var rsNo int

// rsCase: a real StandardRunService owns the centre; global publications must be
// delivered in order on its loop goroutine; Stop (Clear) deregisters.
// burst > 0: Stop arrives while the owner is busy inside a listener and `burst` further publications (global and
// local channel-mode ones alternating) are still queued: none of them may reach the listener any more (Stop clears
// the centre first), and whatever is invoked is invoked on the loop goroutine only.
func rsCase(n, burst int) string {
	rsNo++
	s := runservice.NewStandardRunService(fmt.Sprintf("c17rs-%d-%d", caseNo, rsNo))
	s.Start()
	ec := s.GetEventCenter()
	name := fmt.Sprintf("rs%d-%d", caseNo, rsNo)
	me := goid()
	var mu sync.Mutex
	got, late, owner := 0, 0, uint64(0)
	ownerOK := true
	gate := make(chan struct{})
	entered := make(chan struct{}, 1)
	ec.GSubscribe(name, func(args ...interface{}) {
		g := goid()
		mu.Lock()
		if owner == 0 && g != me {
			owner = g
		}
		if g != owner || g == me {
			ownerOK = false
		}
		v := 0
		if len(args) == 2 && args[0] == 77 {
			v, _ = args[1].(int)
			if v == got {
				got++
			}
		}
		if v <= -2 {
			late++
		}
		mu.Unlock()
		if v == -1 {
			select {
			case entered <- struct{}{}:
			default:
			}
			<-gate
		}
	}, 77)
	for i := 0; i < n; i++ {
		event.GetGlobalEC().Publish(name, i)
	}
	deadline := time.Now().Add(1500 * time.Millisecond)
	for time.Now().Before(deadline) {
		mu.Lock()
		g := got
		mu.Unlock()
		if g >= n {
			break
		}
		time.Sleep(200 * time.Microsecond)
	}
	if burst > 0 {
		// the owner gets busy (blocked inside the listener), the burst piles up behind it, Stop comes from outside
		event.GetGlobalEC().Publish(name, -1)
		select {
		case <-entered:
		case <-time.After(1500 * time.Millisecond):
		}
		for i := 0; i < burst; i++ {
			if i%2 == 0 {
				event.GetGlobalEC().Publish(name, -2-i)
			} else {
				ec.Publish(name, -2-i)
			}
		}
	}
	// Stop comes from this goroutine's side while the owner is (burst > 0) still inside the listener; it must return
	// without waiting for that listener. If it does not (a lock held across the listener call), the listener is let go
	// after the watchdog interval so that the case ends, and the report says so (stopwait=1).
	stopped := make(chan struct{})
	go func() {
		defer func() { recover(); close(stopped) }()
		s.Stop()
	}()
	stopWait := false
	select {
	case <-stopped:
	case <-time.After(time.Duration(3*hangMs) * time.Millisecond):
		stopWait = true
		hangs++
	}
	close(gate)
	if stopWait {
		select {
		case <-stopped:
		case <-time.After(time.Duration(3*hangMs) * time.Millisecond):
		}
	}
	time.Sleep(2 * time.Millisecond)
	mu.Lock()
	g1 := got
	mu.Unlock()
	before := len(ec.GetChanEvent())
	event.GetGlobalEC().Publish(name, g1)
	after := len(ec.GetChanEvent())
	time.Sleep(5 * time.Millisecond)
	mu.Lock()
	defer mu.Unlock()
	dereg := got == g1 && after <= before
	out := fmt.Sprintf("got=%d owner=%d dereg=%d", got, hx.B2i(ownerOK), hx.B2i(dereg))
	if burst > 0 {
		out += fmt.Sprintf(" late=%d", late)
	}
	if stopWait {
		out += " stopwait=1"
	}
	return out
}

// lockstepEC is a local centre registered with the global centre through a wrapper whose GetChanEvent() makes the
// concurrent publishers look at the queue in lockstep: every publisher's i-th look waits (a few ms at most) until all
// publishers have arrived at their i-th look. Whatever a publisher does between two looks at the queue, the others do too.
type lockstepEC struct {
	*event.LocalEventCenter
	mu      sync.Mutex
	p       int
	looks   map[uint64]int
	arrived map[int]int
	gates   map[int]chan struct{}
}

func (s *lockstepEC) GetChanEvent() event.ChanEvent {
	g := goid()
	s.mu.Lock()
	i := s.looks[g]
	s.looks[g]++
	s.arrived[i]++
	ch := s.gates[i]
	if ch == nil {
		ch = make(chan struct{})
		s.gates[i] = ch
	}
	if s.arrived[i] == s.p {
		close(ch)
	}
	s.mu.Unlock()
	select {
	case <-ch:
	case <-time.After(5 * time.Millisecond):
	}
	return s.LocalEventCenter.GetChanEvent()
}

// concFullCase: `pubs` goroutines publish one global event each, at the same moment, to a centre whose 999-slot queue
// has `free` slots left (and to a second, empty centre): min(pubs, free) events are queued, the others are dropped,
// nobody blocks, and the second centre receives all of them.
func concFullCase(pubs, free int) string {
	rsNo++
	name := fmt.Sprintf("cfull%d-%d", caseNo, rsNo)
	if pubs < 1 || pubs > 16 || free < 0 || free > 999 {
		return "bad-op"
	}
	w := &lockstepEC{LocalEventCenter: event.NewLocalEventCenter(false), p: pubs,
		looks: map[uint64]int{}, arrived: map[int]int{}, gates: map[int]chan struct{}{}}
	other := event.NewLocalEventCenter(false)
	q := w.LocalEventCenter.GetChanEvent()
	for i := 0; i < 999-free; i++ {
		q <- &event.EObj{EventName: name, Args: []interface{}{-1}}
	}
	event.GetGlobalEC().Subscribe(name, w)
	other.GSubscribe(name, func(args ...interface{}) {})
	var done int32
	start := make(chan struct{})
	for p := 0; p < pubs; p++ {
		go func(p int) {
			<-start
			event.GetGlobalEC().Publish(name, p)
			atomic.AddInt32(&done, 1)
		}(p)
	}
	close(start)
	seen, idle := int32(0), 0
	for idle < hangMs {
		d := atomic.LoadInt32(&done)
		if int(d) == pubs {
			break
		}
		if d != seen {
			seen, idle = d, 0
		}
		idle++
		time.Sleep(time.Millisecond)
	}
	blocked := pubs - int(atomic.LoadInt32(&done))
	out := fmt.Sprintf("q=%d blocked=%d other=%d", len(q), blocked, len(other.GetChanEvent()))
	if blocked > 0 {
		hangs++
	}
	// let blocked publishers go
	event.GetGlobalEC().Unsubscribe(name, w)
	for i := 0; i < 2000 && int(atomic.LoadInt32(&done)) < pubs; i++ {
		select {
		case <-q:
		case <-time.After(time.Millisecond):
		}
	}
	other.Clear()
	w.LocalEventCenter.Clear()
	return out
}

// concCase: P goroutines publish N global events each to `cs` subscribed centres.
func concCase(pubs, n, cs int) string {
	rsNo++
	name := fmt.Sprintf("conc%d-%d", caseNo, rsNo)
	type rec struct {
		cnt  int
		next []int
		fifo bool
	}
	recs := make([]*rec, cs)
	ecs := make([]*event.LocalEventCenter, cs)
	for i := 0; i < cs; i++ {
		r := &rec{next: make([]int, pubs), fifo: true}
		recs[i] = r
		ecs[i] = event.NewLocalEventCenter(false)
		ecs[i].GSubscribe(name, func(args ...interface{}) {
			r.cnt++
			p, _ := args[0].(int)
			q, _ := args[1].(int)
			if p < 0 || p >= pubs || r.next[p] != q {
				r.fifo = false
			} else {
				r.next[p]++
			}
		})
	}
	var wg sync.WaitGroup
	for p := 0; p < pubs; p++ {
		wg.Add(1)
		go func(p int) {
			defer wg.Done()
			for i := 0; i < n; i++ {
				event.GetGlobalEC().Publish(name, p, i)
				if i%7 == 0 {
					runtime.Gosched()
				}
			}
		}(p)
	}
	wg.Wait()
	fifo := true
	var parts []string
	for i, ec := range ecs {
	loop:
		for {
			select {
			case e := <-ec.GetChanEvent():
				ec.DoEvent(e)
			default:
				break loop
			}
		}
		parts = append(parts, fmt.Sprintf("c%d=%d", i, recs[i].cnt))
		fifo = fifo && recs[i].fifo
		ec.Clear()
	}
	parts = append(parts, fmt.Sprintf("fifo=%d", hx.B2i(fifo)))
	return strings.Join(parts, " ")
}

// concSubCase: `cs` fresh centres GSubscribe the same NEW global name at the same moment from their own
// goroutines (`rounds` fresh names), then one global publication per name: every centre must receive it.
// (GlobalEventCenter.getECList does Load-then-Store, so two first subscribers can each install their own list.)
func concSubCase(cs, rounds int) string {
	lost := 0
	for r := 0; r < rounds; r++ {
		rsNo++
		name := fmt.Sprintf("csub%d-%d", caseNo, rsNo)
		ecs := make([]*event.LocalEventCenter, cs)
		start := make(chan struct{})
		var wg sync.WaitGroup
		for i := range ecs {
			ecs[i] = event.NewLocalEventCenter(false)
			wg.Add(1)
			go func(ec *event.LocalEventCenter) {
				defer wg.Done()
				<-start
				ec.GSubscribe(name, func(args ...interface{}) {})
			}(ecs[i])
		}
		close(start)
		wg.Wait()
		event.GetGlobalEC().Publish(name, 1)
		for _, ec := range ecs {
			if len(ec.GetChanEvent()) != 1 {
				lost++
			}
			ec.Clear()
		}
	}
	return fmt.Sprintf("lost=%d", lost)
}

// concRegCase: each worker owns a centre and repeatedly GSubscribes one shared name, publishes it globally, checks
// that its own centre received something, and unsubscribes (so the name's last subscription comes and goes all the
// time while others subscribe). A centre whose GSubscribe has returned must receive the next publication.
func concRegCase(workers, rounds int) string {
	rsNo++
	name := fmt.Sprintf("creg%d-%d", caseNo, rsNo)
	var missed int32
	var wg sync.WaitGroup
	for w := 0; w < workers; w++ {
		wg.Add(1)
		go func() {
			defer wg.Done()
			c := event.NewLocalEventCenter(false)
			for i := 0; i < rounds; i++ {
				id := c.GSubscribe(name, func(args ...interface{}) {})
				event.GetGlobalEC().Publish(name, i)
				got := 0
			drain:
				for {
					select {
					case <-c.GetChanEvent():
						got++
					default:
						break drain
					}
				}
				if got == 0 {
					atomic.AddInt32(&missed, 1)
				}
				c.Unsubscribe(name, id)
				for len(c.GetChanEvent()) > 0 {
					<-c.GetChanEvent()
				}
			}
			c.Clear()
		}()
	}
	wg.Wait()
	return fmt.Sprintf("missed=%d", atomic.LoadInt32(&missed))
}

// exec interprets one op line against the real code.
func exec(op string) string {
	ws := hx.Words(op)
	if len(ws) == 0 {
		return "bad-op"
	}
	if ws[0] == "reset" {
		cur.end()
		kinds, _ := hx.KV(ws, "cs")
		cur = newCase(kinds)
		return "ok"
	}
	if cur == nil {
		cur = newCase("")
	}
	k := cur
	switch ws[0] {
	case "def":
		t, okT := hx.KV(ws, "t")
		f, okF := hx.KV(ws, "f")
		s, okS := hx.KV(ws, "s")
		b, _ := hx.KV(ws, "b")
		tn, ok1 := atoi(t)
		fn, ok2 := atoi(f)
		sc, ok3 := parseOps(s)
		if !okT || !okF || !okS || !ok1 || !ok2 || !ok3 {
			return "bad-op"
		}
		if k.tmpls[tn] != nil {
			return "dup"
		}
		k.tmpls[tn] = &tmpl{bound: parseInts(b, "."), fn: fn, script: sc, spare: hx.KVInt(ws, "x") % 8}
		return "ok"
	case "do":
		s, okS := hx.KV(ws, "ops")
		ops, ok := parseOps(s)
		if !okS || !ok {
			return "bad-op"
		}
		return k.guarded(func() { k.runOps(ops) })
	case "gfill":
		e, okE := hx.KV(ws, "e")
		n, okN := hx.KV(ws, "n")
		a, _ := hx.KV(ws, "a")
		en, ok1 := atoi(e)
		nn, ok2 := atoi(n)
		if !okE || !okN || !ok1 || !ok2 {
			return "bad-op"
		}
		o := sop{k: 'g', e: en, a: parseInts(a, "_")}
		return k.guarded(func() {
			for i := 0; i < nn; i++ {
				k.runOp(o)
			}
		})
	case "drain":
		c, okC := hx.KV(ws, "c")
		n, okN := hx.KV(ws, "n")
		cn, ok1 := atoi(c)
		nn, ok2 := atoi(n)
		if !okC || !okN || !ok1 || !ok2 {
			return "bad-op"
		}
		return k.guarded(func() { k.drain(cn, nn) })
	case "q":
		c, okC := hx.KV(ws, "c")
		cn, ok1 := atoi(c)
		if !okC || !ok1 {
			return "bad-op"
		}
		ct := k.centre(cn)
		if ct == nil {
			return "bad"
		}
		if ct.loc == nil {
			return "q=0"
		}
		return fmt.Sprintf("q=%d", len(ct.loc.GetChanEvent()))
	case "n":
		// subscriber count of one name as the centre itself reports it (light centre: GetSubscribeNum / HasSubscribers;
		// the local centre has no such call)
		c, okC := hx.KV(ws, "c")
		e, okE := hx.KV(ws, "e")
		cn, ok1 := atoi(c)
		en, ok2 := atoi(e)
		if !okC || !okE || !ok1 || !ok2 {
			return "bad-op"
		}
		ct := k.centre(cn)
		if ct == nil {
			return "bad"
		}
		if ct.lt == nil {
			return "n=-"
		}
		return hx.Guard(func() string {
			return fmt.Sprintf("n=%d h=%d", ct.lt.GetSubscribeNum(k.name(en)), hx.B2i(ct.lt.HasSubscribers(k.name(en))))
		})
	case "rs":
		return hx.Guard(func() string { return rsCase(hx.KVInt(ws, "n"), hx.KVInt(ws, "burst")) })
	case "concfull":
		return hx.Guard(func() string { return concFullCase(hx.KVInt(ws, "pubs"), hx.KVInt(ws, "free")) })
	case "concreg":
		return hx.Guard(func() string { return concRegCase(hx.KVInt(ws, "workers"), hx.KVInt(ws, "rounds")) })
	case "concsub":
		return hx.Guard(func() string { return concSubCase(hx.KVInt(ws, "cs"), hx.KVInt(ws, "rounds")) })
	case "conc":
		return hx.Guard(func() string { return concCase(hx.KVInt(ws, "pubs"), hx.KVInt(ws, "n"), hx.KVInt(ws, "cs")) })
	}
	return "bad-op"
}

// ---------------------------------------------------------------- generator

type gen struct {
	h        *hx.T
	nc       int
	nt       int
	fullPubs int // publications onto a full useChan queue hang by design: keep them few
}

func (g *gen) args() string {
	r := g.h.R
	n := r.Intn(3)
	xs := make([]int, n)
	for i := range xs {
		xs[i] = r.Intn(10)
	}
	return joinInts(xs, "_")
}

// spare: two templates in three hand their bound arguments over in a slice with 1-4 unused slots behind them
func (g *gen) spare() string {
	r := g.h.R
	if r.Intn(3) == 0 {
		return ""
	}
	g.h.Count("def.bound-args-with-spare-capacity")
	return fmt.Sprintf(" x=%d", 1+r.Intn(4))
}

func (g *gen) centreIdx() int {
	r := g.h.R
	if r.Intn(60) == 0 {
		g.h.Count("malformed.centre")
		return g.nc + r.Intn(2)
	}
	return r.Intn(g.nc)
}

func (g *gen) tag() int {
	r := g.h.R
	if r.Intn(50) == 0 {
		g.h.Count("malformed.tag")
		return g.nt + 1 + r.Intn(3)
	}
	return 1 + r.Intn(g.nt)
}

// event names 1..3, biased towards 1 so that listeners and publications meet
func (g *gen) ev() int {
	if g.h.R.Intn(2) == 0 {
		return 1
	}
	return 1 + g.h.R.Intn(3)
}

// sopStr draws one centre operation; w = weights (sub, unsub, unsubfn, pub, gpub, clear, direct global sub, direct global unsub)
func (g *gen) sopStr(w [8]int) string {
	r := g.h.R
	tot := 0
	for _, x := range w {
		tot += x
	}
	x := r.Intn(tot)
	k := 0
	for ; k < 8; k++ {
		if x < w[k] {
			break
		}
		x -= w[k]
	}
	switch k {
	case 0:
		// fresh templates come from the upper half of the tag range (the opening line uses the lower half)
		t := g.tag()
		if r.Intn(4) != 0 {
			t = g.nt/2 + 1 + r.Intn(g.nt-g.nt/2)
		}
		return fmt.Sprintf("s.%d.%d.%d.%d", g.centreIdx(), g.ev(), t, r.Intn(2))
	case 1:
		return fmt.Sprintf("u.%d.%d.%d", g.centreIdx(), g.ev(), g.tag())
	case 2:
		// code pointers 8..15 are only ever subscribed with the check, so removal by pointer is unambiguous
		return fmt.Sprintf("f.%d.%d.%d", g.centreIdx(), g.ev(), 8+r.Intn(8))
	case 3:
		return fmt.Sprintf("p.%d.%d.%s", g.centreIdx(), g.ev(), g.args())
	case 4:
		return fmt.Sprintf("g.%d.%s", g.ev(), g.args())
	case 6:
		g.h.Count("op.direct-global-subscribe")
		return fmt.Sprintf("gs.%d.%d", g.ev(), g.centreIdx())
	case 7:
		g.h.Count("op.direct-global-unsubscribe")
		return fmt.Sprintf("gu.%d.%d", g.ev(), g.centreIdx())
	}
	return fmt.Sprintf("c.%d", g.centreIdx())
}

func (g *gen) script(maxLen int, w [8]int) string {
	n := g.h.R.Intn(maxLen + 1)
	parts := make([]string, n)
	for i := range parts {
		parts[i] = g.sopStr(w)
	}
	return strings.Join(parts, ";")
}

var kindSets = []string{"L", "C", "T", "L,C", "L,T", "C,C", "L,C,T", "L,L", "T,T", "C,L,C"}

// genCase produces the op lines of one case.
func (g *gen) genCase() []string {
	h, r := g.h, g.h.R
	kinds := kindSets[r.Intn(len(kindSets))]
	g.nc = strings.Count(kinds, ",") + 1
	g.nt = 6 + r.Intn(9)
	lines := []string{"reset cs=" + kinds}
	fam := r.Intn(10)
	var sw, tw [8]int // script weights, top-level weights
	maxScript := 3
	switch {
	case fam < 3:
		h.Count("family.quiet")
		maxScript = 0
		tw = [8]int{5, 3, 1, 6, 2, 1, 1, 1}
	case fam < 7:
		h.Count("family.reentrant")
		sw = [8]int{4, 5, 1, 3, 2, 1, 0, 1}
		tw = [8]int{6, 2, 1, 7, 2, 1, 1, 1}
	case fam < 9:
		h.Count("family.global")
		sw = [8]int{3, 4, 0, 1, 3, 1, 1, 1}
		tw = [8]int{6, 3, 0, 3, 7, 1, 3, 4}
	default:
		h.Count("family.clear-heavy")
		sw = [8]int{2, 2, 0, 2, 1, 5}
		tw = [8]int{6, 1, 0, 6, 2, 2}
	}
	// templates: 1..nt, code pointers: 0..7 shared between templates, 8..15 used by one template each
	uniq := 8
	for t := 1; t <= g.nt; t++ {
		nb := r.Intn(3)
		fn := r.Intn(8)
		if uniq < 16 && r.Intn(2) == 0 {
			fn = uniq
			uniq++
		}
		b := make([]int, nb)
		for i := range b {
			b[i] = 10 + r.Intn(10)
		}
		sc := ""
		if maxScript > 0 && r.Intn(3) != 0 {
			sc = g.script(maxScript, sw)
		}
		lines = append(lines, fmt.Sprintf("def t=%d b=%s f=%d s=%s%s", t, joinInts(b, "."), fn, sc, g.spare()))
	}
	if r.Intn(40) == 0 {
		h.Count("malformed.def")
		lines = append(lines, "def t=1 b= f=0 s=", "def t=99 b= f=0 s=zz", "do ops=s.0.1")
	}
	// opening line: a handful of subscriptions
	if r.Intn(5) != 0 {
		n := 2 + r.Intn(5)
		parts := make([]string, n)
		for j := range parts {
			parts[j] = fmt.Sprintf("s.%d.%d.%d.%d", r.Intn(g.nc), g.ev(), 1+r.Intn(g.nt/2), r.Intn(2))
		}
		lines = append(lines, "do ops="+strings.Join(parts, ";"))
	}
	nops := 4 + r.Intn(10)
	for i := 0; i < nops; i++ {
		switch x := r.Intn(20); {
		case x < 13:
			n := 1 + r.Intn(3)
			parts := make([]string, n)
			for j := range parts {
				parts[j] = g.sopStr(tw)
			}
			lines = append(lines, "do ops="+strings.Join(parts, ";"))
		case x < 17:
			h.Count("op.drain")
			lines = append(lines, fmt.Sprintf("drain c=%d n=%d", g.centreIdx(), r.Intn(4)))
		case x < 19:
			h.Count("op.q")
			lines = append(lines, fmt.Sprintf("q c=%d", g.centreIdx()))
		default:
			h.Count("op.gfill")
			lines = append(lines, fmt.Sprintf("gfill e=%d a=%s n=%d", g.ev(), g.args(), r.Intn(5)))
		}
	}
	// finish: deliver what is queued, then publish everything once more
	for c := 0; c < g.nc; c++ {
		lines = append(lines, fmt.Sprintf("drain c=%d n=50", c))
		for e := 1; e <= 3; e++ {
			lines = append(lines, fmt.Sprintf("do ops=p.%d.%d.%d", c, e, 1))
		}
		lines = append(lines, fmt.Sprintf("drain c=%d n=50", c))
		if r.Intn(2) == 0 {
			h.Count("op.subscriber-count")
			lines = append(lines, fmt.Sprintf("n c=%d e=%d", c, g.ev()))
		}
	}
	return lines
}

// leaveReturnCase: one-shot listeners. While a name is being delivered its listeners leave (unsubscribe themselves or
// one another, so that nobody may be left), the name is published again from inside the listener (a nested delivery
// to whoever is left - possibly to nobody), and listeners come (back): fresh templates are subscribed to the same
// name before the outer listener returns, some of them leave again at once. All of it in any order, 1-3 listeners,
// local / channel-mode / light centres. Afterwards the subscriber count is asked for and the name is published twice:
// whoever subscribed and did not leave must be counted and called.
func (g *gen) leaveReturnCase() []string {
	h, r := g.h, g.h.R
	h.Count("family.leave-and-return-inside-listener")
	kind := []string{"T", "T", "L", "C", "T,L"}[r.Intn(5)]
	lines := []string{"reset cs=" + kind}
	n := 1 + r.Intn(3)
	if r.Intn(2) == 0 {
		n = 1
	}
	fresh := n + 1
	var lastFresh int
	for t := 1; t <= n; t++ {
		var sc []string
		steps := 2 + r.Intn(4)
		for i := 0; i < steps; i++ {
			switch x := r.Intn(11); {
			case x < 3:
				sc = append(sc, fmt.Sprintf("u.0.1.%d", t))
			case x < 4:
				sc = append(sc, fmt.Sprintf("u.0.1.%d", 1+r.Intn(n)))
			case x < 7:
				sc = append(sc, fmt.Sprintf("p.0.1.%d", 20+r.Intn(10)))
			case x < 10 && fresh <= 14:
				sc = append(sc, fmt.Sprintf("s.0.1.%d.%d", fresh, r.Intn(2)))
				lastFresh = fresh
				fresh++
			case lastFresh > 0:
				sc = append(sc, fmt.Sprintf("u.0.1.%d", lastFresh))
			}
		}
		lines = append(lines, fmt.Sprintf("def t=%d b=%d f=%d s=%s", t, t, 7+t, strings.Join(sc, ";")))
	}
	for t := n + 1; t < fresh; t++ {
		f := 7 + t
		if f > 15 {
			f = r.Intn(8)
		}
		sc := ""
		if r.Intn(3) == 0 {
			sc = fmt.Sprintf("u.0.1.%d", t) // a one-shot listener itself
		}
		lines = append(lines, fmt.Sprintf("def t=%d b=%d f=%d s=%s", t, t, f, sc))
	}
	for t := 1; t <= n; t++ {
		lines = append(lines, fmt.Sprintf("do ops=s.0.1.%d.%d", t, r.Intn(2)))
	}
	lines = append(lines, "n c=0 e=1")
	for i := 0; i < 2; i++ {
		lines = append(lines, fmt.Sprintf("do ops=p.0.1.%d", r.Intn(10)), "drain c=0 n=50", "n c=0 e=1")
	}
	return lines
}

// directCase: the exported global centre used directly — Subscribe / Unsubscribe(name, centre) for registered and
// unregistered centres, duplicates of both, before and after real GSubscribe calls — then global publications.
func (g *gen) directCase() []string {
	h, r := g.h, g.h.R
	h.Count("family.direct-global")
	kinds := []string{"L,L", "L,C", "C,L,L", "L,C,T"}[r.Intn(4)]
	nc := strings.Count(kinds, ",") + 1
	lines := []string{"reset cs=" + kinds}
	for t := 1; t <= 6; t++ {
		sc := ""
		if t == 5 {
			sc = fmt.Sprintf("gu.1.%d", r.Intn(nc))
		}
		if t == 6 {
			sc = "u.0.1.6"
		}
		lines = append(lines, fmt.Sprintf("def t=%d b=%d f=%d s=%s", t, t, 7+t, sc))
	}
	pool := []string{}
	for c := 0; c < nc; c++ {
		for e := 1; e <= 2; e++ {
			pool = append(pool, fmt.Sprintf("gs.%d.%d", e, c), fmt.Sprintf("gu.%d.%d", e, c), fmt.Sprintf("gu.%d.%d", e, c))
		}
	}
	tag := 1
	n := 6 + r.Intn(10)
	for i := 0; i < n; i++ {
		switch x := r.Intn(10); {
		case x < 4:
			op := pool[r.Intn(len(pool))]
			if r.Intn(3) == 0 {
				op = op + ";" + op // duplicate
			}
			lines = append(lines, "do ops="+op)
		case x < 6 && tag <= 6:
			lines = append(lines, fmt.Sprintf("do ops=s.%d.%d.%d.%d", r.Intn(nc), 1+r.Intn(2), tag, hx.B2i(r.Intn(4) != 0)))
			tag++
		case x < 7:
			lines = append(lines, fmt.Sprintf("do ops=u.%d.%d.%d", r.Intn(nc), 1+r.Intn(2), 1+r.Intn(6)))
		default:
			lines = append(lines, fmt.Sprintf("do ops=g.%d.%d", 1+r.Intn(2), r.Intn(10)))
		}
	}
	for e := 1; e <= 2; e++ {
		lines = append(lines, fmt.Sprintf("do ops=g.%d.9", e))
	}
	for c := 0; c < nc; c++ {
		lines = append(lines, fmt.Sprintf("q c=%d", c), fmt.Sprintf("drain c=%d n=50", c))
	}
	if r.Intn(3) == 0 {
		lines = append(lines, "do ops=c.0", "do ops=g.1.3;g.2.3", "q c=0")
	}
	return lines
}

// raceCase: a centre subscribes a global name directly while "other goroutines" (the racing script, run inside the
// global centre's Subscribe between list lookup and store) remove the last subscription of that name, clear its
// centre, subscribe further centres, publish …; afterwards every registered centre must receive the publications.
func (g *gen) raceCase() []string {
	h, r := g.h, g.h.R
	h.Count("family.racing-subscribe")
	kinds := []string{"L,L", "L,C,L", "C,L", "L,L,L"}[r.Intn(4)]
	nc := strings.Count(kinds, ",") + 1
	lines := []string{"reset cs=" + kinds, "def t=1 b=1 f=8 s=", "def t=2 b=2 f=9 s=", "def t=3 b=3 f=10 s=", "def t=4 b= f=11 s="}
	racing := []string{"u.0.1.1", "gu.1.0", "c.0", "u.0.1.1;s.0.1.4.1", "u.0.1.1;g.1.4", "u.0.1.1;gs.1.%d", "s.%d.1.3.1;u.0.1.1", "", "u.0.1.1;u.0.1.2"}
	for t := 5; t <= 7; t++ {
		sc := racing[r.Intn(len(racing))]
		if strings.Contains(sc, "%d") {
			sc = fmt.Sprintf(sc, r.Intn(nc))
		}
		lines = append(lines, fmt.Sprintf("def t=%d b= f=%d s=%s", t, 7+t, sc))
	}
	// centre 0 holds the only subscription(s) of name 1
	lines = append(lines, "do ops=s.0.1.1.1")
	if r.Intn(3) == 0 {
		lines = append(lines, "do ops=s.0.1.2.1")
	}
	if r.Intn(2) == 0 {
		lines = append(lines, fmt.Sprintf("do ops=s.%d.1.2.%d", 1+r.Intn(nc-1), r.Intn(2)))
	}
	for t := 5; t <= 7; t++ {
		lines = append(lines, fmt.Sprintf("do ops=gsh.1.%d.%d", 1+r.Intn(nc-1), t), fmt.Sprintf("do ops=g.1.%d", t))
		if r.Intn(3) == 0 {
			lines = append(lines, fmt.Sprintf("do ops=gu.1.%d", r.Intn(nc)), "do ops=g.1.0")
		}
	}
	lines = append(lines, "do ops=gsh.1.0.5", "do ops=g.1.9")
	for c := 0; c < nc; c++ {
		lines = append(lines, fmt.Sprintf("q c=%d", c), fmt.Sprintf("drain c=%d n=50", c))
	}
	return lines
}

// nestedArgsCase: listeners with bound arguments re-publish the event they are handling with other arguments
// (nesting 1-3) and look at their own arguments again afterwards.
func (g *gen) nestedArgsCase() []string {
	h, r := g.h, g.h.R
	h.Count("family.nested-args")
	kind := []string{"T", "T", "L", "T,L"}[r.Intn(4)]
	nc := strings.Count(kind, ",") + 1
	lines := []string{"reset cs=" + kind}
	nt := 2 + r.Intn(3)
	for t := 1; t <= nt; t++ {
		nb := r.Intn(4)
		b := make([]int, nb)
		for i := range b {
			b[i] = 10*t + i
		}
		var sc []string
		for j := 0; j < 1+r.Intn(2); j++ {
			na := r.Intn(5)
			a := make([]int, na)
			for i := range a {
				a[i] = 50 + r.Intn(40)
			}
			sc = append(sc, fmt.Sprintf("p.%d.%d.%s", r.Intn(nc), 1+r.Intn(2), joinInts(a, "_")))
		}
		fn := 7 + t
		if r.Intn(2) == 0 {
			fn = r.Intn(8)
		}
		lines = append(lines, fmt.Sprintf("def t=%d b=%s f=%d s=%s%s", t, joinInts(b, "."), fn, strings.Join(sc, ";"), g.spare()))
	}
	for t := 1; t <= nt; t++ {
		// GSubscribe / SubscribeNoCheck mostly, the plain (checked) Subscribe now and then
		lines = append(lines, fmt.Sprintf("do ops=s.%d.%d.%d.%d", r.Intn(nc), 1+r.Intn(2), t, hx.B2i(r.Intn(3) != 0)))
	}
	for c := 0; c < nc; c++ {
		for e := 1; e <= 2; e++ {
			lines = append(lines, fmt.Sprintf("do ops=p.%d.%d.%s", c, e, g.args()))
		}
	}
	return lines
}

// receiverCase: the light centre's receiver API mixed with the receiver-less one for the SAME callback and name:
// Subscribe then (Un)SubscribeWithReceiver and the reverse, same and different receivers. The generator follows
// the documented matching rule only to keep `Unsubscribe(name, cb)` unambiguous (it removes "a" listener with
// that callback: with two receivers registered the choice depends on map order).
func (g *gen) receiverCase() []string {
	h, r := g.h, g.h.R
	h.Count("family.receiver-mix")
	lines := []string{"reset cs=T"}
	nt := 10
	fnOf := map[int]int{}
	for t := 1; t <= nt; t++ {
		fn := 1 + r.Intn(2)
		fnOf[t] = fn
		nb := r.Intn(3)
		b := make([]int, nb)
		for i := range b {
			b[i] = 10*t + i
		}
		lines = append(lines, fmt.Sprintf("def t=%d b=%s f=%d s=%s", t, joinInts(b, "."), fn, g.spare()))
	}
	type ent struct{ tag, fn, recv int }
	live := map[int][]ent{}
	match := func(e, fn, rc int) int { // index of the first listener (fn, no receiver or receiver rc); rc<0: any receiver
		for i, x := range live[e] {
			if x.fn == fn && (rc < 0 || x.recv == 0 || x.recv == rc) {
				return i
			}
		}
		return -1
	}
	tag := 1
	n := 8 + r.Intn(10)
	for i := 0; i < n; i++ {
		e := 1 + r.Intn(2)
		switch x := r.Intn(10); {
		case x < 2 && tag <= nt:
			if match(e, fnOf[tag], -1) < 0 {
				live[e] = append(live[e], ent{tag, fnOf[tag], 0})
			}
			lines = append(lines, fmt.Sprintf("do ops=s.0.%d.%d.0", e, tag))
			tag++
		case x < 5 && tag <= nt:
			rc := 1 + r.Intn(2)
			if match(e, fnOf[tag], rc) < 0 {
				live[e] = append(live[e], ent{tag, fnOf[tag], rc})
			}
			lines = append(lines, fmt.Sprintf("do ops=sr.0.%d.%d.%d", e, tag, rc))
			tag++
		case x < 8:
			fn, rc := 1+r.Intn(2), 1+r.Intn(2)
			if j := match(e, fn, rc); j >= 0 {
				live[e] = append(live[e][:j], live[e][j+1:]...)
			}
			lines = append(lines, fmt.Sprintf("do ops=ur.0.%d.%d.%d", e, fn, rc))
		default:
			fn := 1 + r.Intn(2)
			cnt := 0
			for _, x := range live[e] {
				if x.fn == fn {
					cnt++
				}
			}
			if cnt > 1 {
				continue
			}
			if j := match(e, fn, -1); j >= 0 {
				live[e] = append(live[e][:j], live[e][j+1:]...)
			}
			lines = append(lines, fmt.Sprintf("do ops=f.0.%d.%d", e, fn))
		}
		lines = append(lines, fmt.Sprintf("do ops=p.0.%d.%d", e, r.Intn(10)))
	}
	lines = append(lines, "do ops=p.0.1.7;p.0.2.7")
	return lines
}

// sharedCase: several listeners of ONE event name share a callback pointer on the light centre (SubscribeNoCheck
// duplicates of one function, or one method value under several receivers). They leave in any order - the newest
// first as often as not - by id or by receiver; a checked Subscribe of the same callback in between must be refused;
// once a single one is left the plain Unsubscribe(name, cb) must remove it (unambiguous), after which the callback
// can be subscribed again.
func (g *gen) sharedCase() []string {
	h, r := g.h, g.h.R
	h.Count("family.shared-pointer")
	lines := []string{"reset cs=T"}
	fn := 1 + r.Intn(3)
	for t := 1; t <= 9; t++ {
		lines = append(lines, fmt.Sprintf("def t=%d b=%d f=%d s=", t, 10*t, fn))
	}
	e := 1 + r.Intn(2)
	k := 2 + r.Intn(3)
	byRecv := r.Intn(2) == 0
	pub := func() { lines = append(lines, fmt.Sprintf("do ops=p.0.%d.%d", e, r.Intn(10))) }
	var live []int
	for t := 1; t <= k; t++ {
		switch {
		case byRecv:
			lines = append(lines, fmt.Sprintf("do ops=sr.0.%d.%d.%d", e, t, t))
		case t == 1 && r.Intn(2) == 0:
			lines = append(lines, fmt.Sprintf("do ops=s.0.%d.%d.0", e, t))
		default:
			lines = append(lines, fmt.Sprintf("do ops=s.0.%d.%d.1", e, t))
		}
		live = append(live, t)
	}
	pub()
	tag := k + 1
	for len(live) > 1 {
		j := len(live) - 1
		if r.Intn(2) == 0 {
			j = r.Intn(len(live))
		}
		t := live[j]
		if byRecv && r.Intn(2) == 0 {
			lines = append(lines, fmt.Sprintf("do ops=ur.0.%d.%d.%d", e, fn, t))
		} else {
			lines = append(lines, fmt.Sprintf("do ops=u.0.%d.%d", e, t))
		}
		live = append(live[:j], live[j+1:]...)
		pub()
		if r.Intn(3) == 0 && tag <= 8 {
			h.Count("op.checked-subscribe-of-shared-pointer")
			lines = append(lines, fmt.Sprintf("do ops=s.0.%d.%d.0", e, tag)) // refused: the callback is still registered
			tag++
			pub()
		}
	}
	h.Count("op.unsubscribe-by-pointer-last-of-shared")
	lines = append(lines, fmt.Sprintf("do ops=f.0.%d.%d", e, fn))
	pub()
	lines = append(lines, fmt.Sprintf("do ops=s.0.%d.%d.0", e, tag)) // accepted: nobody holds the callback any more
	pub()
	if r.Intn(2) == 0 {
		lines = append(lines, fmt.Sprintf("do ops=f.0.%d.%d", e, fn))
		pub()
	}
	return lines
}

// swapCase: listeners that, while an event is being delivered, unsubscribe other listeners of that very event AND
// subscribe new ones to it (a swap: the list has its old size again, or one more / one less), in either order; any
// listener may come first (map order), so each one targets others. Local, channel-mode and light centres.
func (g *gen) swapCase() []string {
	h, r := g.h, g.h.R
	h.Count("family.swap-inside-listener")
	kind := []string{"L", "L", "C", "T", "L,L"}[r.Intn(5)]
	lines := []string{"reset cs=" + kind}
	n := 2 + r.Intn(3)
	fresh := n + 1
	for t := 1; t <= n; t++ {
		var sc []string
		if r.Intn(4) != 0 {
			k := 1 + r.Intn(2)
			var us, ss []string
			for i := 0; i < k && i < n-1; i++ {
				v := 1 + (t+i+r.Intn(n-1))%n
				if v == t {
					v = 1 + t%n
				}
				us = append(us, fmt.Sprintf("u.0.1.%d", v))
			}
			ks := len(us)
			if r.Intn(4) == 0 {
				ks = len(us) - 1 + 2*r.Intn(2)
			}
			for i := 0; i < ks; i++ {
				ss = append(ss, fmt.Sprintf("s.0.1.%d.%d", fresh, r.Intn(2)))
				fresh++
			}
			if r.Intn(2) == 0 {
				sc = append(us, ss...)
			} else {
				sc = append(ss, us...)
			}
		}
		lines = append(lines, fmt.Sprintf("def t=%d b=%d f=%d s=%s", t, t, 7+t, strings.Join(sc, ";")))
	}
	for t := n + 1; t < fresh; t++ {
		f := 7 + t
		if f > 15 {
			f = r.Intn(8)
		}
		lines = append(lines, fmt.Sprintf("def t=%d b=%d f=%d s=", t, t, f))
	}
	for t := 1; t <= n; t++ {
		lines = append(lines, fmt.Sprintf("do ops=s.0.1.%d.%d", t, r.Intn(2)))
	}
	for i := 0; i < 2; i++ {
		lines = append(lines, fmt.Sprintf("do ops=p.0.1.%d", r.Intn(10)), "drain c=0 n=50")
	}
	return lines
}

// fullCase: the 999-slot queue: the 1000th global publication is dropped, a blocking local one hangs.
func (g *gen) fullCase() []string {
	h, r := g.h, g.h.R
	h.Count("family.queue-full")
	lines := []string{"reset cs=C,L", "def t=1 b=1 f=0 s=", "def t=2 b= f=8 s=", "def t=3 b=3 f=1 s=u.0.1.1",
		"do ops=s.0.1.1.1;s.1.1.2.1;s.0.2.3.0"}
	pre := r.Intn(4)
	if pre > 0 {
		lines = append(lines, fmt.Sprintf("do ops=p.0.2.%d", 5), "q c=0")
	}
	lines = append(lines, fmt.Sprintf("gfill e=1 a=7 n=%d", 995+r.Intn(4)), "q c=0", "q c=1",
		fmt.Sprintf("gfill e=1 a=8 n=%d", 2+r.Intn(6)), "q c=0", "q c=1")
	switch r.Intn(3) {
	case 0:
		lines = append(lines, fmt.Sprintf("drain c=0 n=%d", 1+r.Intn(3)), "gfill e=1 a=9 n=4", "q c=0", "drain c=0 n=1200", "q c=0", "drain c=1 n=1200")
	case 1:
		if g.fullPubs >= 4 {
			break
		}
		g.fullPubs++
		h.Count("op.publish-on-full-queue")
		lines = append(lines, "gfill e=1 a=9 n=6", "q c=0", "do ops=p.0.2.4", "do ops=p.0.2.4", "q c=0")
	default:
		lines = append(lines, "do ops=c.0", "gfill e=1 a=9 n=3", "q c=0", "q c=1", "drain c=0 n=1200", "drain c=1 n=1200")
	}
	return lines
}

// reach records which behaviours of the code under test the generated input actually reached.
func reach(h *hx.T, obs string) {
	depth, maxd, inv := 0, 0, 0
	for _, t := range strings.Fields(obs) {
		switch {
		case t == "[":
			depth++
			if depth > maxd {
				maxd = depth
			}
		case t == "]":
			depth--
		case t[0] == 'i':
			inv++
			if depth > 1 {
				h.Count("reached.invocation-in-nested-publication")
			}
		case t == "s0":
			h.Count("reached.subscribe-refused")
		case t == "s+" && depth > 0:
			h.Count("reached.subscribe-inside-listener")
		case t == "u" && depth > 0:
			h.Count("reached.unsubscribe-inside-listener")
		case t == "c" && depth > 0:
			h.Count("reached.clear-inside-listener")
		case t == "x":
			h.Count("reached.depth-cap")
		case t == "q":
			h.Count("reached.publish-queued-usechan")
		case strings.HasPrefix(t, "g:") && len(t) > 2:
			h.Count("reached.global-fanout")
			if strings.Contains(t, ".") {
				h.Count("reached.global-fanout-2+centres")
			}
		case t == "blocked":
			h.Count("reached.blocked")
		case t == "bad" || t == "dup":
			h.Count("reached.rejected-op")
		}
	}
	if inv > 0 {
		h.Count("reached.lines-with-invocations")
	}
	if inv > 1 {
		h.Count("reached.lines-with-2+invocations")
	}
	if maxd >= 3 {
		h.Count("reached.depth3")
	}
}

func TestRun(t *testing.T) {
	h := hx.Open()
	defer h.Close()
	run := func(op string) bool {
		obs := exec(op)
		h.Emit(op, obs)
		reach(h, obs)
		return hangs < 15
	}
	if ops := hx.ReplayOps(); ops != nil {
		for _, op := range ops {
			run(op)
		}
		return
	}
	for _, op := range hx.CorpusOps(hx.Env("VERIF_CORPUS", "corpus/C17")) {
		h.Count("corpus")
		if !run(op) {
			return
		}
	}
	g := &gen{h: h}
	n := hx.EnvInt("VERIF_N", 1200)
	for i := 0; i < n; i++ {
		var lines []string
		switch x := h.R.Intn(100); {
		case x < 2:
			lines = g.fullCase()
		case x >= 92:
			lines = g.directCase()
		case x >= 88:
			lines = g.raceCase()
		case x >= 84:
			lines = g.nestedArgsCase()
		case x >= 80:
			lines = g.receiverCase()
		case x >= 76:
			lines = g.sharedCase()
		case x >= 72:
			lines = g.swapCase()
		case x >= 68 && x < 71:
			lines = g.leaveReturnCase()
		case x == 71:
			// concurrent publishers at the queue limit, looking at the queue in lockstep
			h.Count("family.concurrent-at-queue-limit")
			lines = []string{"reset cs=L", fmt.Sprintf("concfull pubs=%d free=%d", 2+h.R.Intn(4), h.R.Intn(4))}
		case x < 3:
			h.Count("family.runservice")
			burst := 0
			if h.R.Intn(2) == 0 {
				// Stop while the owner is busy and publications are still queued
				h.Count("op.stop-with-queued-events")
				burst = 1 + h.R.Intn(5)
			}
			lines = []string{"reset cs=L", fmt.Sprintf("rs n=%d burst=%d", h.R.Intn(40), burst)}
		case x < 5 && i%4 == 0:
			// concurrent first subscriptions to one new global name (D17: getECList must LoadOrStore)
			h.Count("family.concurrent-subscribe")
			lines = []string{"reset cs=L", fmt.Sprintf("concsub cs=%d rounds=%d", 2+h.R.Intn(3), 60)}
		case x < 4:
			h.Count("family.concurrent")
			lines = []string{"reset cs=L", fmt.Sprintf("conc pubs=%d n=%d cs=%d", 1+h.R.Intn(4), 1+h.R.Intn(200), 1+h.R.Intn(3))}
		default:
			lines = g.genCase()
		}
		for _, op := range lines {
			if !run(op) {
				// too many hung cases (each costs the watchdog delay): the defect is established, stop cleanly
				h.Count("stopped-after-hangs")
				return
			}
		}
	}
	// one longer concurrent-subscribe case per run
	rounds := 500
	if h.Thorough() {
		rounds = 5000
	}
	h.Count("family.concurrent-subscribe")
	for _, op := range []string{"reset cs=L", fmt.Sprintf("concsub cs=4 rounds=%d", rounds), fmt.Sprintf("concsub cs=3 rounds=%d", rounds),
		fmt.Sprintf("concreg workers=4 rounds=%d", 6*rounds)} {
		run(op)
	}
	h.Stats["hangs"] = hangs
}
