// C11 correspondence harness: drives the real baseapp/module.ModList and
// baseapp.App with scripted modules (synchronous success / failure / panic before or after reporting,
// completion delayed to another goroutine or a timer, double completion as the
// negative stream) and records the log of Start/Stop entries, next() calls and
// finish() callbacks per op.  The bodies of the shipped modules (which need etcd /
// a node and cannot be executed) are replayed from the translator's JSON as
// scripted modules performing the same call sequences.
package c11

import (
	"encoding/json"
	"fmt"
	"io"
	"log"
	"net"
	"os"
	"path/filepath"
	"strings"
	"sync"
	"testing"
	"testing/synctest"
	"time"

	"cell2verif/hx"

	"github.com/asynkron/protoactor-go/remote"
	"github.com/dfklegend/cell2/baseapp"
	"github.com/dfklegend/cell2/baseapp/interfaces"
	"github.com/dfklegend/cell2/baseapp/module"
	nodeapp "github.com/dfklegend/cell2/node/app"
	actormodule "github.com/dfklegend/cell2/node/modules/actor"
	clustermodule "github.com/dfklegend/cell2/node/modules/cluster"
	welcomemodule "github.com/dfklegend/cell2/node/modules/welcome"
	nodeservice "github.com/dfklegend/cell2/node/service"
	"github.com/dfklegend/cell2/utils/runservice"
)

type mod struct {
	inner   interfaces.IAppModule // a real shipped module run in place of the script (its expected outcome is the script)
	rs      *runservice.StandardRunService
	id      int
	c       *caseT
	scripts [2]string                  // 0 = Start, 1 = Stop
	next    [2]interfaces.FuncWithSucc // the callback handed over in the current phase instance
}

type caseT struct {
	n     int
	kind  int // 0 plain ModList, 1 baseapp.App, 2 node/app.App (StartNode / StopNode through a launch mode)
	mods  []*mod
	ml    *module.ModList
	app   *baseapp.App
	node  *nodeapp.App
	added bool      // node: the launch mode has added the modules
	readd bool      // node: the launch mode registers n fresh modules every time it runs (default: only the first time)
	cb    [2]string // what the start- / stop-completion callback does: none | stop | gostop | start
	log   []string
	mu    sync.Mutex     // log (a second goroutine writes only when the code under test misbehaves)
	wg    sync.WaitGroup // goroutines handed a Stop by a module (script token G)
	fxT   int            // app: success reports of the stop phase seen so far
	over  bool           // app: the stop phase reported success twice; the case is over
	actor bool           // the real ActorSystemModule is one of the modules (its remote server is shut down with the case)
}

func (c *caseT) isApp() bool { return c.kind >= 1 }

const launchMode = "c11verif"

var (
	nodeCfgDirs = map[string]string{} // svc pattern -> configuration directory
	nodeInit    bool
	defaultSet  bool // baseapp.SetDefaultLaunchFunc has been called (it cannot be undone)
)

// launchAdder is the harness's launch mode: PrepareModules registers the case's modules; when StartNode
// runs it again (a second StartNode) it registers as many fresh ones, as a real launch mode does.
func launchAdder(app interfaces.IApp) {
	c := cur
	if c == nil {
		return
	}
	c.logf("P")
	if !c.added {
		c.added = true
		for _, m := range c.mods {
			app.AddModule(m)
		}
		return
	}
	if !c.readd {
		return
	}
	for i := 0; i < c.n; i++ {
		m := &mod{id: len(c.mods), c: c, scripts: [2]string{"T", "T"}}
		c.mods = append(c.mods, m)
		app.AddModule(m)
	}
}

// the node's services: creating one is logged as V<index> (StartServices runs inside StartNode's completion closure)
type svcCreator struct{}

func (svcCreator) Create(name string) {
	if c := cur; c != nil {
		c.logf("V%s", strings.TrimPrefix(name, "svc"))
	}
}

// nodeCfg writes a minimal node configuration: one node, clustering and node control off.  `svc` is
// the node's service list, one letter per service: P = the service has an entry under `services:`,
// M = it is named by the node but missing from the services map (tolerated by StartServices: log and skip).
var busyLis net.Listener // keeps one local port occupied for the whole run (addr=inuse)

func nodeCfg(svc, mode, clus, addrKind string, nodefault bool) string {
	if !nodeInit {
		nodeInit = true
		nodeservice.Factory.Register("c11svc", svcCreator{})
		baseapp.RegisterLaunchFunc(launchMode, launchAdder)
	}
	if !nodefault && !defaultSet {
		// the same for a node whose StartMode is empty or names a mode nobody registered (LaunchApp falls back)
		defaultSet = true
		baseapp.SetDefaultLaunchFunc(launchAdder)
	}
	key := svc + "/" + mode + "/" + clus + "/" + addrKind
	if d, ok := nodeCfgDirs[key]; ok {
		return d
	}
	startMode := launchMode
	switch mode {
	case "empty":
		startMode = "\"\""
	case "unreg":
		startMode = "c11nosuchmode"
	}
	dir, err := os.MkdirTemp("", "c11node")
	if err != nil {
		panic(err)
	}
	var names, entries []string
	for i, ch := range svc {
		name := fmt.Sprintf("svc%d", i)
		names = append(names, name)
		if ch == 'P' {
			entries = append(entries, "  "+name+":\n    Type: c11svc\n")
		}
	}
	addr, clusterCfg := "127.0.0.1:39511", "---\nEnable: false\nNodeCtrl: false\nName: c11verif\n"
	if clus == "badaddr" {
		// clustering on, and an own address without a port: the real ClusterModule's StartMember fails in
		// Provider.init before any network traffic (no etcd needed)
		addr, clusterCfg = "127.0.0.1", "---\nEnable: true\nNodeCtrl: false\nName: c11verif\nETCDServer: 127.0.0.1:1\n"
	}
	switch addrKind {
	case "inuse": // the node's address is occupied by somebody else: the real actor module cannot bind it
		if busyLis == nil {
			l, err := net.Listen("tcp", "127.0.0.1:0")
			if err != nil {
				panic(err)
			}
			busyLis = l
		}
		addr = busyLis.Addr().String()
	case "free": // port 0: the kernel picks a port nobody holds
		addr = "127.0.0.1:0"
	case "foreign": // an address that is not local to this host (TEST-NET-3)
		addr = "203.0.113.7:39511"
	}
	nodes := "---\nnodes:\n  n1:\n    StartMode: " + startMode + "\n    Address: " + addr + "\n    Services: [" + strings.Join(names, ", ") + "]\nservices:\n" + strings.Join(entries, "")
	cluster := clusterCfg
	os.WriteFile(filepath.Join(dir, "nodes.yaml"), []byte(nodes), 0o644)
	os.WriteFile(filepath.Join(dir, "cluster.yaml"), []byte(cluster), 0o644)
	nodeCfgDirs[key] = dir
	return dir
}

var (
	enterTok = [2]string{"S", "X"}
	callTok  = [2]string{"c", "d"}
	panicTok = [2]string{"p", "q"}
	finTok   = [2]string{"fs", "fx"}
)

func tf(b bool) string {
	if b {
		return "T"
	}
	return "F"
}

func (c *caseT) logf(f string, a ...interface{}) {
	c.mu.Lock()
	c.log = append(c.log, fmt.Sprintf(f, a...))
	c.mu.Unlock()
}

// addModule registers one more scripted module with the object under test (AddModule takes the
// module list's lock: never called from inside Filter's synchronous chain).
func (c *caseT) addModule(sync bool) {
	scr := ""
	if sync {
		scr = "T"
	}
	m := &mod{id: len(c.mods), c: c, scripts: [2]string{scr, scr}}
	c.mods = append(c.mods, m)
	c.logf("A%d", m.id)
	switch c.kind {
	case 2:
		c.node.App.AddModule(m)
	case 1:
		c.app.AddModule(m)
	default:
		c.ml.AddModule(m)
	}
}

func (m *mod) Init(rs *runservice.StandardRunService) {
	m.rs = rs
	if m.inner != nil {
		m.inner.Init(rs)
	}
}

func (m *mod) run(ph int, next interfaces.FuncWithSucc) {
	m.c.logf("%s%d", enterTok[ph], m.id)
	m.next[ph] = next
	if m.inner != nil {
		// a real shipped module that panics (e.g. the actor module when the node's address cannot be bound): logged like a
		// scripted panic, then handed on to ModList's wrapper
		defer func() {
			if e := recover(); e != nil {
				m.c.logf("%s%d", panicTok[ph], m.id)
				panic(e)
			}
		}()
		report := func(succ bool) {
			m.c.logf("%s%d%s", callTok[ph], m.id, tf(succ))
			next(succ)
		}
		if ph == 0 {
			m.inner.Start(report)
		} else {
			m.inner.Stop(report)
		}
		return
	}
	for _, ch := range m.scripts[ph] {
		switch ch {
		case 'T', 'F':
			m.c.logf("%s%d%s", callTok[ph], m.id, string(ch))
			next(ch == 'T')
		case '!':
			m.c.logf("%s%d", panicTok[ph], m.id)
			panic("scripted module panic")
		case 'A', 'a':
			m.c.addModule(ch == 'A')
		case 'X': // the module itself issues Stop
			m.c.logf("RX")
			m.c.invoke(1)
		case 'S':
			m.c.logf("RS")
			m.c.invoke(0)
		case 'G': // ... hands a Stop to another goroutine and gives it a moment
			c := m.c
			c.logf("RG")
			done := make(chan struct{})
			c.wg.Add(1)
			go func() {
				defer c.wg.Done()
				defer close(done)
				defer func() {
					if e := recover(); e != nil {
						c.logf("panic")
					}
				}()
				c.invoke(1)
			}()
			select {
			case <-done:
			case <-time.After(50 * time.Millisecond):
			}
		}
	}
}

func (m *mod) Start(next interfaces.FuncWithSucc) { m.run(0, next) }
func (m *mod) Stop(next interfaces.FuncWithSucc)  { m.run(1, next) }

var cur *caseT

// ---- virtual clock ----------------------------------------------------------------
// A case whose reset says clock=v runs inside one testing/synctest bubble (a server goroutine that executes
// op after op): time.AfterFunc / time.After / Sleep are virtual there, so `wait ms=..` lets any amount of
// time pass for free — "arbitrarily delayed completion".  Nothing in ModList / App is driven by time: while
// the modules do nothing, nothing may happen, however long that takes.  The bubble has its own current
// case (channels made in a bubble must not be touched from outside).  Plain ModList and baseapp.App only.
type bubbleReq struct {
	op  string
	out chan string
}

var (
	theT        *testing.T
	bubbleCh    chan bubbleReq
	bubbleDone  chan struct{}
	bubbleDead  bool
	virtualCase bool
	curV        *caseT
)

func bubbleExec(op string) string {
	if bubbleDead {
		return "blocked"
	}
	if bubbleCh == nil {
		bubbleCh = make(chan bubbleReq)
		bubbleDone = make(chan struct{})
		go func() {
			defer close(bubbleDone)
			synctest.Test(theT, func(t *testing.T) {
				for req := range bubbleCh {
					req.out <- execIn(req.op, &curV, true)
				}
				dispose(curV)
			})
		}()
	}
	out := make(chan string, 1)
	// real time: a goroutine stuck on a mutex inside the bubble freezes the bubble's clock
	select {
	case bubbleCh <- bubbleReq{op, out}:
	case <-time.After(20 * time.Second):
		bubbleDead = true
		return "blocked"
	}
	select {
	case r := <-out:
		return r
	case <-time.After(20 * time.Second):
		bubbleDead = true
		return "blocked"
	}
}

func bubbleClose() {
	if bubbleCh == nil || bubbleDead {
		return
	}
	close(bubbleCh)
	select {
	case <-bubbleDone:
	case <-time.After(20 * time.Second):
	}
}

func scripts(ws []string, key string, n int) []string {
	v, _ := hx.KV(ws, key)
	parts := strings.Split(v, ",")
	out := make([]string, n)
	for i := range out {
		if i < len(parts) {
			out[i] = parts[i]
		}
	}
	return out
}

func dispose(c *caseT) {
	if c == nil {
		return
	}
	if c.actor {
		c.actor = false
		func() {
			defer func() { recover() }() // never started (bind failure): no server to stop
			if sys := actormodule.GetSystem(); sys != nil {
				remote.GetRemote(sys).Shutdown(false)
			}
		}()
	}
	a := c.app
	if c.node != nil {
		a = c.node.App
	}
	if a == nil {
		return
	}
	func() {
		defer func() { recover() }() // already stopped by App.Cleanup: close of closed channel
		if rs := a.GetRunService(); rs != nil && !rs.IsStopped() {
			rs.Stop()
		}
	}()
}

// guarded runs f on its own goroutine; a panic that escapes the code under test is
// "panic", no return within 4 s (e.g. a lock never released) is "blocked".
func guarded(f func()) string {
	done := make(chan string, 1)
	go func() {
		defer func() {
			if e := recover(); e != nil {
				done <- "panic"
			}
		}()
		f()
		done <- ""
	}()
	select {
	case r := <-done:
		return r
	case <-time.After(4 * time.Second):
		return "blocked"
	}
}

func phase(ws []string) int {
	v, _ := hx.KV(ws, "ph")
	switch v {
	case "S":
		return 0
	case "X":
		return 1
	}
	return -1
}

// segment returns the log tokens of the op.  For an App the log of a case ends with the second
// fxT: what follows — the second Cleanup closes a closed channel — is outside the property (it needs
// a double completion) and is not compared.
func (c *caseT) segment(extra string) string {
	if extra == "" { // goroutines that a module handed a Stop to: finished long ago unless the Stop was not refused
		idle := make(chan struct{})
		go func() { c.wg.Wait(); close(idle) }()
		select {
		case <-idle:
		case <-time.After(4 * time.Second):
			extra = "blocked"
		}
	}
	c.mu.Lock()
	seg := c.log
	c.log = nil
	c.mu.Unlock()
	if extra != "" {
		seg = append(seg, extra)
	}
	if c.isApp() && !c.over {
		for i, t := range seg {
			if t == "fxT" {
				c.fxT++
				if c.fxT >= 2 {
					c.over = true
					if extra != "blocked" {
						seg = seg[:i+1]
					}
					break
				}
			}
		}
	}
	if len(seg) == 0 {
		return "-"
	}
	return strings.Join(seg, " ")
}

// invoke begins a phase on the object under test with the scripted completion callback.
func (c *caseT) invoke(ph int) {
	saved := make([]interfaces.FuncWithSucc, len(c.mods))
	for i, m := range c.mods {
		saved[i] = m.next[ph]
		m.next[ph] = nil
	}
	c.mu.Lock()
	before := len(c.log)
	c.mu.Unlock()
	fin := func(succ bool) {
		c.logf("%s%s", finTok[ph], tf(succ))
		switch c.cb[ph] {
		case "panic": // the completion callback itself panics (user code: e.g. a service creator inside StartNode's closure)
			panic("scripted completion callback panic")
		case "stop":
			c.logf("RX")
			c.invoke(1)
		case "start":
			c.logf("RS")
			c.invoke(0)
		case "gostop": // hands the Stop to another goroutine, which runs before this callback returns
			c.logf("RX")
			done := make(chan interface{}, 1)
			go func() {
				defer func() { done <- recover() }()
				c.invoke(1)
			}()
			if e := <-done; e != nil {
				panic(e)
			}
		}
	}
	var cbf interfaces.FuncWithSucc = fin
	if c.cb[ph] == "nil" && c.kind >= 1 {
		// no completion callback at all. App.Start / App.Stop / StopNode test `finish != nil`: nothing can be logged
		// when the phase ends; what it did to the App shows in what the next Start / Stop does. StartNode's closure
		// calls `fin(succ)` unconditionally, after StartServices / StartNodeCtrl: a nil function call, i.e. a callback
		// that panics without having logged anything. (ModList.Start / Stop take a mandatory callback: `nil` = none.)
		cbf = nil
	}
	switch {
	case c.kind == 2 && ph == 0:
		c.node.StartNode("n1", cbf)
	case c.kind == 2:
		c.node.StopNode(cbf)
	case c.kind == 1 && ph == 0:
		c.app.Start(cbf)
	case c.kind == 1:
		c.app.Stop(cbf)
	case ph == 0:
		c.ml.Start(fin)
	default:
		c.ml.Stop(fin)
	}
	c.mu.Lock()
	refused := true // nothing but (node) the launch mode's PrepareModules happened
	for _, t := range c.log[before:] {
		if t != "P" {
			refused = false
		}
	}
	c.mu.Unlock()
	if refused { // the guard refused: the old phase instance is still the current one
		for i, m := range c.mods {
			if i < len(saved) {
				m.next[ph] = saved[i]
			}
		}
	}
}

// exec interprets one op line against the real code (inside the bubble for a clock=v case).
func exec(op string) string {
	ws := hx.Words(op)
	if len(ws) > 0 && ws[0] == "reset" {
		v, _ := hx.KV(ws, "clock")
		virtualCase = v == "v" && hx.KVInt(ws, "app") <= 1
		// every App's run service uses the process-wide scheduler named "__App__": only one App may be alive
		if virtualCase {
			dispose(cur)
			cur = nil
		} else if curV != nil {
			bubbleExec("dispose")
		}
	}
	if virtualCase {
		return bubbleExec(op)
	}
	return execIn(op, &cur, false)
}

func execIn(op string, pcur **caseT, bubble bool) string {
	ws := hx.Words(op)
	if len(ws) == 0 {
		return "bad-op"
	}
	cur := *pcur
	switch ws[0] {
	case "dispose":
		dispose(cur)
		*pcur = nil
		return "ok"
	case "wait": // the modules do nothing for ms milliseconds (virtual); whatever happens meanwhile is the observation
		c := cur
		if c == nil {
			return "bad-op"
		}
		if bubble {
			time.Sleep(time.Duration(hx.KVInt(ws, "ms")) * time.Millisecond)
			synctest.Wait()
		}
		return c.segment("")
	case "reset":
		dispose(cur)
		n := hx.KVInt(ws, "n")
		c := &caseT{n: n, kind: hx.KVInt(ws, "app")}
		if v, _ := hx.KV(ws, "readd"); v == "1" {
			c.readd = true
		}
		for ph, key := range []string{"cbS", "cbX"} {
			c.cb[ph] = "none"
			if v, ok := hx.KV(ws, key); ok && v != "" {
				c.cb[ph] = v
			}
		}
		st, sp := scripts(ws, "start", n), scripts(ws, "stop", n)
		for i := 0; i < n; i++ {
			c.mods = append(c.mods, &mod{id: i, c: c, scripts: [2]string{st[i], sp[i]}})
		}
		if v, ok := hx.KV(ws, "real"); ok { // real=<pos>:<module>: a real shipped module at that position
			var pos int
			var name string
			if parts := strings.SplitN(v, ":", 2); len(parts) == 2 {
				fmt.Sscanf(parts[0], "%d", &pos)
				name = parts[1]
			}
			if pos < n {
				switch name {
				case "cluster":
					c.mods[pos].inner = clustermodule.NewClusterModule()
				case "welcome":
					c.mods[pos].inner = welcomemodule.NewWelcomeModule()
				case "actor":
					c.mods[pos].inner = actormodule.NewActorSystemModule()
					c.actor = true
				}
			}
		}
		*pcur = c
		switch c.kind {
		case 2: // the launch mode adds the modules inside StartNode
			svc, _ := hx.KV(ws, "svc")
			mode, _ := hx.KV(ws, "mode")
			clus, _ := hx.KV(ws, "cluster")
			_, nodefault := hx.KV(ws, "nodefault")
			if nodefault && defaultSet {
				return "unsupported" // a default launch mode cannot be unset: only the first node case of a process can run without
			}
			addrKind, _ := hx.KV(ws, "addr")
			dir := nodeCfg(svc, mode, clus, addrKind, nodefault)
			c.node = nodeapp.NewNode()
			nodeapp.Node = c.node // the shipped modules find their node through this global
			if v, _ := hx.KV(ws, "prep"); v != "0" {
				c.node.Prepare(dir)
			}
		case 1:
			c.app = baseapp.NewApp()
			c.app.Prepare()
			for _, m := range c.mods {
				c.app.AddModule(m)
			}
		default:
			c.ml = module.NewModList()
			for _, m := range c.mods {
				c.ml.AddModule(m)
			}
		}
		return "ok"
	case "begin":
		c, ph := cur, phase(ws)
		if c == nil || ph < 0 {
			return "bad-op"
		}
		if v, _ := hx.KV(ws, "node"); v == "bad" && c.kind == 2 && ph == 0 {
			// StartNode with an id that is not in the nodes table
			r := guarded(func() { c.node.StartNode("nosuchnode", func(succ bool) { c.logf("fs%s", tf(succ)) }) })
			return c.segment(r)
		}
		r := guarded(func() { c.invoke(ph) })
		return c.segment(r)
	case "fire":
		c, ph := cur, phase(ws)
		i := hx.KVInt(ws, "i")
		bs, _ := hx.KV(ws, "b")
		via, _ := hx.KV(ws, "via")
		if c == nil || ph < 0 || i >= len(c.mods) {
			return "bad-op"
		}
		if c.over {
			return "over"
		}
		nx := c.mods[i].next[ph]
		if nx == nil {
			return "noop"
		}
		if pre, _ := hx.KV(ws, "pre"); pre == "A" || pre == "a" {
			c.addModule(pre == "A")
		}
		if rs := c.mods[i].rs; via == "apptimer" && rs != nil {
			// the completion is delivered by the application's own run service timer (what BaseModule does)
			ch := make(chan interface{}, 1)
			rs.GetTimerMgr().After(time.Millisecond, func(args ...interface{}) {
				defer func() { ch <- recover() }()
				c.logf("%s%d%s", callTok[ph], i, bs)
				nx(bs == "T")
			})
			r := ""
			select {
			case e := <-ch:
				if e != nil {
					r = "panic"
				}
			case <-time.After(3 * time.Second):
				r = "undelivered" // the run service never ran the timer: this module can never complete
			}
			return c.segment(r)
		}
		c.logf("%s%d%s", callTok[ph], i, bs)
		var r string
		switch via {
		case "direct":
			r = hx.Guard(func() string { nx(bs == "T"); return "" })
		case "timer":
			r = guarded(func() {
				ch := make(chan interface{}, 1)
				time.AfterFunc(50*time.Microsecond, func() {
					defer func() { ch <- recover() }()
					nx(bs == "T")
				})
				if e := <-ch; e != nil {
					panic(e)
				}
			})
		default:
			r = guarded(func() { nx(bs == "T") })
		}
		return c.segment(r)
	}
	return "bad-op"
}

// ---- generator --------------------------------------------------------------------

type gen struct {
	h     *hx.T
	emit  func(op string) string
	n0    int  // modules of the case's reset line
	seenP bool // (node) the launch mode's PrepareModules has run in this case
	readd bool // (node) ... and registers n0 fresh modules every time
	n     int
	logs  [2][]string // tokens of the current instance of each phase, from the observations
}

// run executes an op and files the observed tokens under their phase.
func (g *gen) run(op string) string {
	obs := g.emit(op)
	if strings.HasPrefix(op, "reset") {
		g.n = hx.KVInt(hx.Words(op), "n")
		g.n0, g.seenP = g.n, false
		rv, _ := hx.KV(hx.Words(op), "readd")
		g.readd = rv == "1"
		g.logs = [2][]string{}
		return obs
	}
	for _, t := range strings.Fields(obs) {
		ph := -1
		if len(t) >= 2 && t[0] == 'A' && t[1] >= '0' && t[1] <= '9' {
			g.n++ // a module was registered
			continue
		}
		if t == "P" {
			if g.seenP && g.readd {
				g.n += g.n0 // PrepareModules ran again
			}
			g.seenP = true
			continue
		}
		switch {
		case strings.HasPrefix(t, "S"), strings.HasPrefix(t, "c"), strings.HasPrefix(t, "fs"), strings.HasPrefix(t, "p") && t != "panic":
			ph = 0
		case strings.HasPrefix(t, "X"), strings.HasPrefix(t, "d"), strings.HasPrefix(t, "fx"), strings.HasPrefix(t, "q"):
			ph = 1
		}
		if ph < 0 {
			continue
		}
		// a phase instance begins by entering the first module of its order
		if t == "S0" || t == fmt.Sprintf("X%d", g.n-1) {
			g.logs[ph] = nil
		}
		g.logs[ph] = append(g.logs[ph], t)
	}
	return obs
}

// outstanding returns the modules that were entered in the phase log but have not called next.
func outstanding(log []string, ph int) []int {
	entered, called := map[int]bool{}, map[int]bool{}
	var order []int
	for _, t := range log {
		var i int
		switch {
		case strings.HasPrefix(t, enterTok[ph]):
			if _, err := fmt.Sscanf(t[1:], "%d", &i); err == nil && !entered[i] {
				entered[i] = true
				order = append(order, i)
			}
		case strings.HasPrefix(t, callTok[ph]) && len(t) >= 3:
			if _, err := fmt.Sscanf(t[1:len(t)-1], "%d", &i); err == nil {
				called[i] = true
			}
		}
	}
	var out []int
	for _, i := range order {
		if !called[i] {
			out = append(out, i)
		}
	}
	return out
}

func finished(log []string, ph int) bool {
	for _, t := range log {
		if strings.HasPrefix(t, finTok[ph]) {
			return true
		}
	}
	return false
}

var vias = []string{"go", "direct", "timer"}
var phName = []string{"S", "X"}

// settle fires the outstanding (delayed) modules of a phase one by one with the planned outcome
// until the phase reports or nothing is outstanding.
func (g *gen) settle(ph int, plan func(i int) string) {
	for k := 0; k < 20; k++ {
		out := outstanding(g.logs[ph], ph)
		if len(out) == 0 || finished(g.logs[ph], ph) {
			return
		}
		b := plan(out[0])
		if b == "" {
			return // this module never completes
		}
		g.run(fmt.Sprintf("fire ph=%s i=%d b=%s via=%s", phName[ph], out[0], b, vias[g.h.R.Intn(len(vias))]))
	}
}

// drive begins a phase and completes it.
func (g *gen) drive(ph int, plan func(i int) string) {
	if g.run("begin ph="+phName[ph]) == "-" {
		return
	}
	g.settle(ph, plan)
}

func join(n int, f func(i int) string) string {
	p := make([]string, n)
	for i := range p {
		p[i] = f(i)
	}
	return strings.Join(p, ",")
}

func allT(i int) string { return "T" }

// service lists of the node (app=2): none, all present, the missing one first / in the middle / last, all missing
var svcPatterns = []string{"", "P", "M", "PPP", "MPP", "PMP", "PPM", "MMM", "MPM"}

// svcOpt picks the node's service list for a node case (k = any counter / random number).
func (g *gen) svcOpt(app, k int) string {
	if app != 2 {
		return ""
	}
	p := svcPatterns[k%len(svcPatterns)]
	mode := []string{"reg", "empty", "unreg"}[(k/2)%3]
	g.h.Count("node.services." + p)
	g.h.Count("node.launchmode." + mode)
	return " svc=" + p + " mode=" + mode
}

// realShipped runs the real ClusterModule / WelcomeModule (the shipped modules that can be executed without
// etcd or sockets) at every position of a 3-module node: clustering off (self cluster, success), clustering
// on with an own address that has no port (StartMember fails early, in Provider.init: failure), and demands
// what the translated bodies promise: completion exactly once.  The script of that position is the expected outcome.
func (g *gen) realShipped() {
	// ... and the real ActorSystemModule with the node's address free (success), occupied by somebody else and not local
	// to this host (remote.Start panics: ModList's wrapper reports the module as failed)
	type rc struct{ name, cluster, start, addr string }
	for _, r := range []rc{{"cluster", "off", "T", ""}, {"cluster", "badaddr", "F", ""}, {"welcome", "off", "T", ""},
		{"actor", "off", "T", " addr=free"}, {"actor", "off", "!", " addr=inuse"}, {"actor", "off", "!", " addr=foreign"}} {
		for pos := 0; pos < 3; pos++ {
			scr := func(i int) string {
				if i == pos {
					return r.start
				}
				return "T"
			}
			g.run(fmt.Sprintf("reset n=3 app=2 kind=shipped start=%s stop=T,T,T real=%d:%s cluster=%s name=real-%s%s", join(3, scr), pos, r.name, r.cluster, r.name, r.addr))
			g.run("begin ph=S")
			g.run("begin ph=X")
			g.h.Count("shipped.real-module-executed")
		}
	}
}

// owntimer: the delayed completion is delivered by the application's own run service timer
// (RunService.GetTimerMgr().After, what BaseModule-style modules do), in both phases.
func (g *gen) owntimer() {
	cases := 0
	for app := 1; app <= 2; app++ {
		for n := 1; n <= 3; n++ {
			for p := 0; p < n; p++ {
				for ph := 0; ph < 2; ph++ {
					scr := func(i int) string {
						if i == p {
							return ""
						}
						return "T"
					}
					st, sp := join(n, scr), join(n, allT)
					if ph == 1 {
						st, sp = sp, st
					}
					g.run(fmt.Sprintf("reset n=%d app=%d kind=gen start=%s stop=%s%s", n, app, st, sp, g.svcOpt(app, cases)))
					g.run("begin ph=S")
					if ph == 0 {
						g.run(fmt.Sprintf("fire ph=S i=%d b=T via=apptimer", p))
					}
					g.run("begin ph=X")
					if ph == 1 {
						g.run(fmt.Sprintf("fire ph=X i=%d b=T via=apptimer", p))
					}
					cases++
				}
			}
		}
	}
	g.h.Stats["owntimer.cases(app,n,pos,phase)"] = cases
}

// inside: a module itself issues Stop / Start from inside its Start or Stop (directly, or by handing
// a Stop to another goroutine and waiting briefly for it) before it completes.  On a guarded object
// every such call is refused: Start only from Prepared, Stop only from Normal, and while modules are
// being started / stopped the state is Starting / Stoping.  (Not generated for a plain ModList: without
// a guard the nested call re-enters Filter's lock.)
func (g *gen) inside() {
	cases := 0
	for app := 1; app <= 2; app++ {
		for n := 1; n <= 3; n++ {
			for p := 0; p < n; p++ {
				for _, tok := range []string{"X", "S", "G"} {
					for ph := 0; ph < 2; ph++ {
						for delayed := 0; delayed < 2; delayed++ {
							first := 0 // the module a phase enters first
							if ph == 1 {
								first = n - 1
							}
							scr := func(i int) string {
								s := "T"
								if i == p {
									s = tok + "T"
								}
								if delayed == 1 && i == first {
									s = strings.TrimSuffix(s, "T") // completes later: the rest of the chain runs outside Filter
								}
								return s
							}
							st, sp := join(n, scr), join(n, allT)
							if ph == 1 {
								st, sp = sp, st
							}
							g.run(fmt.Sprintf("reset n=%d app=%d kind=gen start=%s stop=%s%s", n, app, st, sp, g.svcOpt(app, cases)))
							g.drive(0, allT)
							g.drive(1, allT)
							g.run("begin ph=X")
							cases++
						}
					}
				}
			}
		}
	}
	g.h.Stats["inside.cases(app,n,pos,call,phase,delayed)"] = cases
}

// growing: a module registers a further module (AddModule) right before it completes — from its
// delayed completion (fire pre=) or synchronously inside a chain that runs outside Filter (module 0
// completes later) — at every position; doNow reads the length live, so the late module is started in
// order before success is reported, and Stop visits it first.  Also: registration during a stop phase.
func (g *gen) growing(maxN int) {
	cases := 0
	for app := 0; app < 3; app++ {
		for n := 1; n <= maxN; n++ {
			for p := 0; p < n; p++ {
				for _, tok := range []string{"A", "a"} {
					for v := 0; v < 3; v++ { // 0: delayed adder (fire pre=), 1: synchronous adder (p >= 1), 2: registration during the stop phase
						if v == 1 && p == 0 {
							continue
						}
						scr := func(i int) string {
							switch {
							case v == 0 && i == p, v == 1 && i == 0:
								return ""
							case v == 1 && i == p:
								return tok + "T"
							}
							return "T"
						}
						stopScr := func(i int) string {
							if v == 2 && i == p {
								return ""
							}
							return "T"
						}
						g.run(fmt.Sprintf("reset n=%d app=%d kind=gen start=%s stop=%s%s", n, app, join(n, scr), join(n, stopScr), g.svcOpt(app, cases)))
						g.run("begin ph=S")
						switch v {
						case 0:
							g.run(fmt.Sprintf("fire ph=S i=%d b=T via=%s pre=%s", p, vias[cases%3], tok))
						case 1:
							g.run(fmt.Sprintf("fire ph=S i=0 b=T via=%s", vias[cases%3]))
						}
						g.settle(0, allT)
						g.run("begin ph=X")
						if v == 2 {
							g.run(fmt.Sprintf("fire ph=X i=%d b=T via=%s pre=%s", p, vias[cases%3], tok))
						}
						g.settle(1, allT)
						cases++
					}
				}
			}
		}
	}
	g.h.Stats["growing.cases(app,n,pos,kind,when)"] = cases
}

// exhaustive: every list length, every failure position (or none), every choice of
// synchronous / delayed completion per module, in both phases; ModList, App and node in turn.
func (g *gen) exhaustive(maxN int) {
	cases := 0
	for n := 0; n <= maxN; n++ {
		for fail := -1; fail < n; fail++ {
			for mask := 0; mask < 1<<uint(n); mask++ {
				for ph := 0; ph < 2; ph++ {
					outcome := func(i int) string {
						if i == fail {
							return "F"
						}
						return "T"
					}
					scr := func(i int) string {
						if mask>>uint(i)&1 == 1 {
							return "" // delayed
						}
						return outcome(i)
					}
					app := (n + fail + 1 + mask + ph) % 3
					if ph == 0 {
						g.run(fmt.Sprintf("reset n=%d app=%d kind=gen start=%s stop=%s%s", n, app, join(n, scr), join(n, allT), g.svcOpt(app, cases)))
						g.drive(0, outcome)
						g.drive(1, allT) // app: refused unless the start succeeded
					} else {
						g.run(fmt.Sprintf("reset n=%d app=%d kind=gen start=%s stop=%s%s", n, app, join(n, allT), join(n, scr), g.svcOpt(app, cases)))
						g.drive(0, allT)
						g.drive(1, outcome)
						g.run("begin ph=X") // a second Stop: refused by the App guard, a fresh phase on a plain ModList
					}
					cases++
				}
			}
		}
	}
	g.h.Stats["exhaustive.cases(n,failpos,syncmask,phase)"] = cases
}

// panics: a module's Start / Stop panics before it reported (it may hold on to the callback: a report that
// arrives afterwards must be dropped) or after it reported, at every position, in both phases, inside a
// synchronous chain under Filter and in a chain that runs outside it (the module entered first completes
// later).  ModList recovers the panic; a panic before the report counts as that module's failure report.
func (g *gen) panics(maxN int) {
	cases := 0
	for app := 0; app < 3; app++ {
		for n := 1; n <= maxN; n++ {
			for p := 0; p < n; p++ {
				for ph := 0; ph < 2; ph++ {
					for v := 0; v < 3; v++ { // 0: synchronous chain, 1: chain outside Filter, 2: panic after the report
						first := 0
						if ph == 1 {
							first = n - 1
						}
						if v == 1 && p == first {
							continue
						}
						scr := func(i int) string {
							switch {
							case i == p && v == 2:
								return "T!"
							case i == p:
								return "!"
							case v == 1 && i == first:
								return ""
							}
							return "T"
						}
						st, sp := join(n, scr), join(n, allT)
						if ph == 1 {
							st, sp = sp, st
						}
						g.run(fmt.Sprintf("reset n=%d app=%d kind=gen start=%s stop=%s%s", n, app, st, sp, g.svcOpt(app, cases)))
						g.drive(0, allT)
						if ph == 0 && v != 2 { // the panicked module reports after all: dropped
							g.run(fmt.Sprintf("fire ph=S i=%d b=%s via=%s", p, tf(cases%2 == 0), vias[cases%3]))
						}
						g.drive(1, allT)
						if ph == 1 && v != 2 {
							g.run(fmt.Sprintf("fire ph=X i=%d b=%s via=%s", p, tf(cases%2 == 0), vias[cases%3]))
						}
						g.run("begin ph=X")
						cases++
					}
				}
			}
		}
	}
	g.h.Stats["panics.cases(app,n,pos,phase,kind)"] = cases
}

// nodecases: what StartNode does around LaunchApp (Node.step of the model): an unknown node id and a node that was
// never Prepared are refused silently and leave the node startable / untouched; a second StartNode runs the launch
// mode's PrepareModules again before the App's guard refuses it — with a launch mode that registers its modules every
// time the list grows, and the next Stop visits modules that were never started.
func (g *gen) nodecases() {
	cases := 0
	for n := 0; n <= 3; n++ {
		for _, svc := range []string{"", "PM", "MPP"} {
			for _, mode := range []string{"reg", "empty", "unreg"} {
				opt := fmt.Sprintf(" svc=%s mode=%s", svc, mode)
				// unknown node id first, then the real one
				g.run(fmt.Sprintf("reset n=%d app=2 kind=gen start=%s stop=%s%s", n, join(n, allT), join(n, allT), opt))
				g.run("begin ph=S node=bad")
				g.run("begin ph=X")
				g.drive(0, allT)
				g.run("begin ph=S node=bad")
				g.drive(1, allT)
				// never Prepared
				g.run(fmt.Sprintf("reset n=%d app=2 kind=gen start=%s stop=%s%s prep=0", n, join(n, allT), join(n, allT), opt))
				g.run("begin ph=S")
				g.run("begin ph=X")
				// StartNode again, with an idempotent launch mode and with one that registers its modules every time
				for _, readd := range []string{"", " readd=1"} {
					for d := 0; d < 2; d++ {
						scr := func(i int) string {
							if d == 1 && i == 0 {
								return ""
							}
							return "T"
						}
						g.run(fmt.Sprintf("reset n=%d app=2 kind=gen start=%s stop=%s%s%s", n, join(n, scr), join(n, allT), opt, readd))
						g.run("begin ph=S")
						g.run("begin ph=S")
						g.settle(0, allT)
						g.run("begin ph=S")
						g.drive(1, allT)
						g.run("begin ph=S")
						cases++
					}
				}
				cases += 2
			}
		}
	}
	g.h.Stats["nodecases.cases"] = cases
}

// how long the modules stay silent (ms of the bubble's virtual clock): from a moment to more than a day
var waits = []int{1, 999, 10001, 60000, 3600000, 90000000}

// slow: one module takes arbitrarily long to report — at every position, in both phases, on a plain ModList
// and on an App, under the virtual clock: while it is silent nothing happens (no later module entered, no
// completion reported), its report then goes on as usual, and nothing happens after the phase is over either.
func (g *gen) slow(maxN int) {
	cases := 0
	for app := 0; app < 2; app++ {
		for n := 1; n <= maxN; n++ {
			for p := 0; p < n; p++ {
				for ph := 0; ph < 2; ph++ {
					for _, b := range []string{"T", "F"} {
						scr := func(i int) string {
							if i == p {
								return ""
							}
							return "T"
						}
						st, sp := join(n, scr), join(n, allT)
						if ph == 1 {
							st, sp = sp, st
						}
						w := func() string {
							cases++
							return fmt.Sprintf("wait ms=%d", waits[cases%len(waits)])
						}
						g.run(fmt.Sprintf("reset n=%d app=%d kind=gen start=%s stop=%s clock=v", n, app, st, sp))
						g.run("begin ph=S")
						if ph == 0 {
							g.run(w())
							g.run(fmt.Sprintf("fire ph=S i=%d b=%s via=%s", p, b, vias[cases%3]))
							g.run(w())
						}
						g.run("begin ph=X")
						if ph == 1 {
							g.run(w())
							g.run(w())
							g.run(fmt.Sprintf("fire ph=X i=%d b=%s via=%s", p, b, vias[cases%3]))
						}
						g.run(w())
						g.h.Count("slow.case")
					}
				}
			}
		}
	}
}

// reentrant: the start-completion callback itself issues Stop (directly, or through another goroutine
// that runs before the callback returns); the stop-completion callback issues Start / Stop.
// ModList.Filter holds its (non-reentrant) lock while the synchronous chain of a Start()/Stop() call
// runs, so a Stop from a completion callback is only legal when the completion that ends the phase
// arrives after Filter has returned: module 0 always completes later (through `fire`).
func (g *gen) reentrant(maxN int) {
	cases := 0
	for n := 1; n <= maxN; n++ {
		for app := 0; app < 3; app++ {
			for _, cbS := range []string{"stop", "gostop"} {
				for fail := -1; fail < n; fail++ {
					for v := 0; v < 3; v++ {
						outcome := func(i int) string {
							if i == fail {
								return "F"
							}
							return "T"
						}
						scr := func(i int) string {
							if i == 0 || (v == 1 && i%2 == 0) || v == 2 {
								return ""
							}
							return outcome(i)
						}
						stopScr := func(i int) string {
							if v == 2 || (v == 1 && i%2 == 1) {
								return ""
							}
							return "T"
						}
						cbX := "none"
						if app > 0 { // on a plain ModList there is no guard: Start from the stop callback re-enters the lock
							cbX = []string{"none", "start", "stop"}[(n+fail+1+v)%3]
						}
						g.run(fmt.Sprintf("reset n=%d app=%d kind=gen start=%s stop=%s cbS=%s cbX=%s%s", n, app, join(n, scr), join(n, stopScr), cbS, cbX, g.svcOpt(app, cases)))
						g.drive(0, outcome)
						g.settle(1, allT) // the stop phase that the callback began
						g.run("begin ph=X")
						cases++
					}
				}
			}
		}
	}
	g.h.Stats["reentrant.cases(n,app,callback,failpos,delays)"] = cases
}

// cbpanic: the completion callback itself panics (user code).  In a synchronous chain the panic unwinds into the
// wrapper of the module whose report ended the phase (it has reported: only logged; the rest of that module's
// Start/Stop is cut off) — or, when the phase was ended by the wrapper's own next(false) after a module panic, on
// into the enclosing module's wrapper; with no module underneath (delayed completion, empty list, first module)
// it reaches the caller of next / Start / Stop.  Whatever happens, the callback has been invoked exactly once.
func (g *gen) cbpanic(maxN int) {
	cases := 0
	for n := 0; n <= maxN; n++ {
		for fail := -1; fail < n; fail++ {
			for mask := 0; mask < 1<<uint(n); mask++ {
				for ph := 0; ph < 2; ph++ {
					for v := 0; v < 3; v++ { // how the failing module fails: reports false / panics before reporting / reports and panics
						if fail < 0 && v == 1 {
							continue
						}
						outcome := func(i int) string {
							if i == fail {
								return "F"
							}
							return "T"
						}
						scr := func(i int) string {
							if i == fail && v == 1 {
								return "!"
							}
							if mask>>uint(i)&1 == 1 {
								return "" // delayed
							}
							if v == 2 && (i == fail || fail < 0) {
								return outcome(i) + "!"
							}
							return outcome(i)
						}
						app := (n + fail + 1 + mask + ph + v) % 3
						cb := " cbS=panic"
						if ph == 1 {
							cb = " cbX=panic"
						}
						if ph == 0 {
							g.run(fmt.Sprintf("reset n=%d app=%d kind=gen start=%s stop=%s%s%s", n, app, join(n, scr), join(n, allT), cb, g.svcOpt(app, cases)))
							g.drive(0, outcome)
							g.drive(1, allT)
						} else {
							g.run(fmt.Sprintf("reset n=%d app=%d kind=gen start=%s stop=%s%s%s", n, app, join(n, allT), join(n, scr), cb, g.svcOpt(app, cases)))
							g.drive(0, allT)
							g.drive(1, outcome)
							g.run("begin ph=X")
						}
						cases++
					}
				}
			}
		}
	}
	g.h.Stats["cbpanic.cases(n,failpos,syncmask,phase,kind)"] = cases
}

// nilcb: the optional completion callbacks are left out (App.Start(nil) / App.Stop(nil) / StopNode(nil)), one or both,
// at every list length 0..maxN x failure position or none x synchronous/delayed mask.  No fs / fx token exists then:
// the state the App reached is observed through what the following calls do - Stop after a successful start must
// visit the modules in reverse, after a failed one it is refused; a second Start and a second Stop are refused.
// StartNode(id, nil): its closure calls the nil callback unconditionally after the services were started - a callback
// that panics (swallowed by the wrapper of the module whose synchronous report ended the phase, else it reaches the
// caller of next / StartNode); the App's state has been set before.
func (g *gen) nilcb(maxN int) {
	cases := 0
	for n := 0; n <= maxN; n++ {
		for fail := -1; fail < n; fail++ {
			for mask := 0; mask < 1<<uint(n); mask++ {
				for which := 0; which < 3; which++ { // start callback absent / stop callback absent / both
					for fph := 0; fph < 2; fph++ { // the phase in which module `fail` fails
						if fail < 0 && fph == 1 {
							continue
						}
						app := 1 + (n+fail+1+mask+which+fph)%2
						cb := []string{" cbS=nil", " cbX=nil", " cbS=nil cbX=nil"}[which]
						outcome := func(i int) string {
							if i == fail {
								return "F"
							}
							return "T"
						}
						scr := func(i int) string {
							if mask>>uint(i)&1 == 1 {
								return "" // delayed
							}
							return outcome(i)
						}
						st, sp, po := join(n, scr), join(n, allT), [2]func(int) string{outcome, allT}
						if fph == 1 {
							st, sp, po = sp, st, [2]func(int) string{allT, outcome}
						}
						g.run(fmt.Sprintf("reset n=%d app=%d kind=gen start=%s stop=%s%s%s", n, app, st, sp, cb, g.svcOpt(app, cases)))
						g.run("begin ph=S")
						g.settle(0, po[0])
						g.run("begin ph=S") // refused
						g.run("begin ph=X")
						g.settle(1, po[1])
						g.run("begin ph=X") // refused
						g.run("begin ph=S") // refused
						cases++
						g.h.Count("nilcb.case")
					}
				}
			}
		}
	}
	g.h.Stats["nilcb.cases(n,failpos,syncmask,which,phase)"] = cases
}

func (g *gen) randomScript(neg bool) string {
	r := g.h.R.Intn(100)
	switch {
	case r < 45:
		return "T"
	case r < 75:
		return ""
	case r < 87:
		return "F"
	case r < 90:
		g.h.Count("script.panic-before-completion")
		return "!"
	case r < 93:
		g.h.Count("script.panic-after-completion")
		return "T!"
	}
	if neg {
		g.h.Count("script.double-completion")
		return []string{"TT", "FT", "TF", "FF", "TTT", "FT!"}[g.h.R.Intn(6)]
	}
	return "T"
}

func (g *gen) randomCase() {
	h := g.h
	n := h.R.Intn(7)
	neg := h.R.Intn(4) == 0
	kind := "gen"
	if neg {
		kind = "neg"
	}
	app := h.R.Intn(3)
	h.Count(fmt.Sprintf("case.n%d", n))
	h.Count(fmt.Sprintf("case.%s.app%d", kind, app))
	st := make([]string, n)
	sp := make([]string, n)
	for i := 0; i < n; i++ {
		st[i], sp[i] = g.randomScript(neg), g.randomScript(neg)
	}
	cb := ""
	if n >= 1 && h.R.Intn(4) == 0 {
		// scripted completion callbacks; module 0 completes later so that no callback runs under Filter's lock
		st[0] = ""
		cbX := "none"
		if app > 0 {
			cbX = []string{"none", "start", "stop"}[h.R.Intn(3)]
			if cbX != "none" {
				sp[n-1] = "" // ... and the stop phase cannot end inside Stop() either
			}
		}
		cb = fmt.Sprintf(" cbS=%s cbX=%s", []string{"stop", "gostop"}[h.R.Intn(2)], cbX)
		h.Count("case.callbacks")
	} else if h.R.Intn(8) == 0 {
		cb = []string{" cbS=panic", " cbX=panic", " cbS=panic cbX=panic"}[h.R.Intn(3)]
		h.Count("case.callback-panics")
	} else if !neg && app > 0 && h.R.Intn(8) == 0 {
		cb = []string{" cbS=nil", " cbX=nil", " cbS=nil cbX=nil"}[h.R.Intn(3)]
		h.Count("case.callback-absent")
	} else if n >= 2 && h.R.Intn(5) == 0 {
		// a later module registers a further module before completing; module 0 completes later, so the
		// registration never runs inside Filter
		st[0] = ""
		k := 1 + h.R.Intn(n-1)
		st[k] = []string{"A", "a"}[h.R.Intn(2)] + strings.TrimLeft(st[k], "!")
		h.Count("case.sync-addmodule")
	}
	virtual := app <= 1 && h.R.Intn(3) == 0 // under the virtual clock, with silences of any length between the ops
	clock := ""
	if virtual {
		clock = " clock=v"
		h.Count("case.virtual-clock")
	}
	g.run(fmt.Sprintf("reset n=%d app=%d kind=%s start=%s stop=%s%s%s%s", n, app, kind, strings.Join(st, ","), strings.Join(sp, ","), cb, g.svcOpt(app, h.R.Intn(len(svcPatterns))), clock))
	steps := 2 + h.R.Intn(10)
	for s := 0; s < steps; s++ {
		if virtual && h.R.Intn(3) == 0 {
			g.run(fmt.Sprintf("wait ms=%d", waits[h.R.Intn(len(waits))]))
			h.Count("op.wait")
		}
		r := h.R.Intn(10)
		switch {
		case r < 2:
			ph := 0
			if s > 0 && h.R.Intn(2) == 0 {
				ph = 1
			}
			if g.run("begin ph="+phName[ph]) != "-" {
				h.Count("op.begin.effective")
			} else {
				h.Count("op.begin.refused")
			}
		case r < 9 || !neg:
			// complete an outstanding module (the disciplined move)
			ph := h.R.Intn(2)
			out := outstanding(g.logs[ph], ph)
			if len(out) == 0 {
				ph = 1 - ph
				out = outstanding(g.logs[ph], ph)
			}
			if len(out) == 0 {
				// nothing pending: begin the phase that makes sense next
				ph = 0
				if len(g.logs[0]) > 0 {
					ph = 1
				}
				g.run("begin ph=" + phName[ph])
				continue
			}
			b := "T"
			if h.R.Intn(6) == 0 {
				b = "F"
			}
			pre := ""
			if h.R.Intn(12) == 0 {
				pre = " pre=" + []string{"A", "a"}[h.R.Intn(2)]
				h.Count("op.fire.with-addmodule")
			}
			via := vias[h.R.Intn(3)]
			if !neg && app > 0 && h.R.Intn(40) == 0 {
				via = "apptimer"
				h.Count("op.fire.own-run-service-timer")
			}
			g.run(fmt.Sprintf("fire ph=%s i=%d b=%s via=%s%s", phName[ph], out[0], b, via, pre))
			h.Count("op.fire.outstanding")
		default:
			// negative stream: any module, any phase, again and again, also ones that were never entered
			if n == 0 {
				continue
			}
			g.run(fmt.Sprintf("fire ph=%s i=%d b=%s via=%s", phName[h.R.Intn(2)], h.R.Intn(n), tf(h.R.Intn(3) > 0), vias[h.R.Intn(3)]))
			h.Count("op.fire.arbitrary")
		}
	}
}

type shippedJSON struct {
	Modules []struct {
		Name  string     `json:"name"`
		Phase string     `json:"phase"`
		Clean bool       `json:"clean"`
		Paths [][]string `json:"paths"`
	} `json:"modules"`
}

// shipped replays every path of every translated Start/Stop body as a scripted module.
func (g *gen) shipped() {
	p := hx.Env("VERIF_C11_JSON", hx.Env("VERIF_DIR", "/verif")+"/lean/Cell2v/Gen/C11Modules.json")
	b, err := os.ReadFile(p)
	var sj shippedJSON
	if err != nil || json.Unmarshal(b, &sj) != nil {
		g.h.Count("shipped.json-unreadable")
		return
	}
	for _, m := range sj.Modules {
		if !m.Clean {
			// the translator could not interpret the body: its path list is not a description of
			// what the module does, so there is nothing truthful to replay (the proof obligation fails)
			g.h.Count("shipped.uninterpreted-body")
			continue
		}
		for _, path := range m.Paths {
			script := strings.ReplaceAll(strings.Join(path, ""), "?", "T")
			for pos := 0; pos < 3; pos++ {
				scr := func(i int) string {
					if i == pos {
						return script
					}
					return "T"
				}
				st, sp := join(3, scr), join(3, allT)
				if m.Phase == "stop" {
					st, sp = sp, st
				}
				g.run(fmt.Sprintf("reset n=3 app=%d kind=shipped start=%s stop=%s name=%s%s", pos%3, st, sp, m.Name, g.svcOpt(pos%3, len(path)+pos)))
				g.run("begin ph=S")
				g.run("begin ph=X")
				g.h.Count("shipped.path-replayed")
				// the same path cut short by a panic of one of its statements: before the report (ModList's wrapper
				// reports the failure) and after it (only logged) — `shipped_module_one_next`
				for _, cut := range []string{"!", script + "!"} {
					cs := func(i int) string {
						if i == pos {
							return cut
						}
						return "T"
					}
					st, sp := join(3, cs), join(3, allT)
					if m.Phase == "stop" {
						st, sp = sp, st
					}
					g.run(fmt.Sprintf("reset n=3 app=%d kind=shipped start=%s stop=%s name=%s%s", pos%3, st, sp, m.Name, g.svcOpt(pos%3, len(path)+pos)))
					g.run("begin ph=S")
					g.run("begin ph=X")
					g.h.Count("shipped.path-with-panic-replayed")
				}
			}
		}
		g.h.Count("shipped.body")
	}
}

func TestRun(t *testing.T) {
	log.SetOutput(io.Discard)
	h := hx.Open()
	defer h.Close()
	theT = t
	defer bubbleClose()
	stuck := 0
	run := func(op string) string {
		if stuck >= 3 && hx.ReplayOps() == nil {
			return "-" // three ops already hung (each costs seconds): the witnesses are recorded, stop generating
		}
		obs := exec(op)
		h.Emit(op, obs)
		if strings.Contains(obs, "blocked") || strings.Contains(obs, "undelivered") {
			stuck++
		}
		return obs
	}
	if ops := hx.ReplayOps(); ops != nil {
		for _, op := range ops {
			run(op)
		}
		return
	}
	g := &gen{h: h, emit: run}
	for _, op := range hx.CorpusOps(hx.Env("VERIF_CORPUS", "corpus/C11")) {
		h.Count("corpus")
		run(op)
	}
	g.shipped()
	maxN := 5
	if h.Thorough() {
		maxN = 7
	}
	g.exhaustive(hx.EnvInt("VERIF_MAXN", maxN))
	g.panics(4)
	if h.Thorough() {
		g.cbpanic(4)
	} else {
		g.cbpanic(3)
	}
	g.nilcb(3)
	g.slow(3)
	g.nodecases()
	g.reentrant(4)
	g.inside()
	g.growing(4)
	g.realShipped()
	g.owntimer()
	n := hx.EnvInt("VERIF_N", 1500)
	for i := 0; i < n; i++ {
		g.randomCase()
	}
	dispose(cur)
	for _, d := range nodeCfgDirs {
		os.RemoveAll(d)
	}
}
