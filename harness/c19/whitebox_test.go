// White-box access for the C19 harness WITHOUT naming any unexported identifier of
// package scenem (a behaviour-preserving rename / move / split of one must not break
// the build of this package, cf. seeded/C19-h-rename).  Three means, in this order:
//
//  1. exported queries of the code under test (QueryScenes/GetScene, the SceneLine
//     getters, World.OnServiceLost, PublicScenes.Update, the exported fields of
//     SceneServiceStat / PublicScene, config.PerfTest / config.EnablePublicScene);
//  2. fields found by their TYPE: the one value of a given type reachable from the
//     manager through structs declared in package scenem (any field name, any nesting);
//     exactly one must exist, otherwise the harness panics with a message that says so;
//  3. callbacks taken where the code publishes them: the periodic keep-alive check is
//     the callback the real SceneServiceMgr.Start registered on the service's timer
//     manager (timer.Obj.CB is exported), recognised by the package its code lives in.
package c19

import (
	"fmt"
	"math"
	"reflect"
	"runtime"
	"sort"
	"strings"
	"sync"
	"unsafe"

	"github.com/dfklegend/cell2/utils/common"
	"github.com/dfklegend/cell2/utils/timer"

	"mmo/servers/scenem"
)

type vScene struct {
	SceneId   uint64
	CfgId     int32
	LineId    int32
	ServiceId string
}

type vLine struct {
	CfgId   int32
	SceneId uint64
	LineId  int32
}

type vStat struct {
	Name    string
	N       int
	Working bool
	Failed  int
	Last    int64
}

// the import path of the package under test (taken from an exported type, not spelled out)
var scenemPkg = reflect.TypeOf(scenem.SceneObj{}).PkgPath()

// open makes a field obtained through an unexported name readable and settable.
func open(f reflect.Value) reflect.Value {
	return reflect.NewAt(f.Type(), unsafe.Pointer(f.UnsafeAddr())).Elem()
}

func ownStruct(t reflect.Type) bool { return t.Kind() == reflect.Struct && t.PkgPath() == scenemPkg }

// reach collects every field of type want reachable from the addressable struct value v
// through fields that are structs (or non-nil pointers to structs) declared in package
// scenem; maxDepth 0 looks at v's own fields only.
func reach(v reflect.Value, want reflect.Type, depth, maxDepth int, seen map[unsafe.Pointer]bool, out *[]reflect.Value) {
	if p := unsafe.Pointer(v.UnsafeAddr()); seen[p] {
		return
	} else {
		seen[p] = true
	}
	for i := 0; i < v.NumField(); i++ {
		f := v.Field(i)
		ft := f.Type()
		if ft == want {
			*out = append(*out, open(f))
		}
		if depth >= maxDepth {
			continue
		}
		switch {
		case ownStruct(ft):
			reach(f, want, depth+1, maxDepth, seen, out)
		case ft.Kind() == reflect.Ptr && ownStruct(ft.Elem()) && !f.IsNil():
			reach(f.Elem(), want, depth+1, maxDepth, seen, out)
		}
	}
}

// theOne returns the single field of type want reachable from root (a pointer to a struct).
// Several fields that hold the same pointer / map count as one.
func theOne(root interface{}, want reflect.Type, maxDepth int, what string) reflect.Value {
	var out []reflect.Value
	reach(reflect.ValueOf(root).Elem(), want, 0, maxDepth, map[unsafe.Pointer]bool{}, &out)
	var uniq []reflect.Value
	for _, f := range out {
		dup := false
		switch f.Kind() {
		case reflect.Ptr, reflect.Map:
			for _, u := range uniq {
				if !f.IsNil() && u.Pointer() == f.Pointer() {
					dup = true
				}
			}
		}
		if !dup {
			uniq = append(uniq, f)
		}
	}
	if len(uniq) != 1 {
		panic(fmt.Sprintf("C19 harness: expected exactly one %s (a value of type %v reachable from %T through package %s), found %d - "+
			"the by-type lookup in harness/c19/whitebox_test.go must be adapted to the new layout", what, want, root, scenemPkg, len(uniq)))
	}
	return uniq[0]
}

type whitebox struct {
	mgr    *scenem.SceneServiceMgr
	world  *scenem.World
	public *scenem.PublicScenes
	stats  *map[string]*scenem.SceneServiceStat // the manager's table of scene services
	lineOf *map[int32]*scenem.SceneLines        // the world's lines per configuration
	tab    *map[int32]*scenem.PublicScene       // the keeper's table of public scenes
	next   *uint64                              // the scene id counter
	tm     *timer.Mgr
	reg    *sync.Map  // the timer manager's registry of live timers (id -> *timer.Obj); nil if not found
	check  *timer.Obj // the periodic keep-alive check, as registered by SceneServiceMgr.Start
	idFld  reflect.Value // fallback for keeperStarted when the timer registry cannot be read
}

const deep = 4

func openWhitebox(m *scenem.SceneServiceMgr, tm *timer.Mgr) *whitebox {
	w := &whitebox{mgr: m, tm: tm}
	w.world = theOne(m, reflect.TypeOf((*scenem.World)(nil)), deep, "world object").Interface().(*scenem.World)
	w.public = theOne(m, reflect.TypeOf((*scenem.PublicScenes)(nil)), deep, "public-scene keeper").Interface().(*scenem.PublicScenes)
	w.stats = theOne(m, reflect.TypeOf(map[string]*scenem.SceneServiceStat(nil)), deep, "table of scene services").Addr().Interface().(*map[string]*scenem.SceneServiceStat)
	w.lineOf = theOne(m, reflect.TypeOf(map[int32]*scenem.SceneLines(nil)), deep, "table of lines per configuration").Addr().Interface().(*map[int32]*scenem.SceneLines)
	w.tab = theOne(m, reflect.TypeOf(map[int32]*scenem.PublicScene(nil)), deep, "table of public scenes").Addr().Interface().(*map[int32]*scenem.PublicScene)
	// the id counter: the manager's own (not nested) field of type uint64
	w.next = theOne(m, reflect.TypeOf(uint64(0)), 0, "scene id counter").Addr().Interface().(*uint64)
	// the timer manager keeps its live timers in a sync.Map (by type; package utils/timer, not scenem)
	tv := reflect.ValueOf(tm).Elem()
	n := 0
	for i := 0; i < tv.NumField(); i++ {
		if f := tv.Field(i); f.Type() == reflect.TypeOf(sync.Map{}) {
			w.reg = open(f).Addr().Interface().(*sync.Map)
			n++
		}
	}
	if n != 1 {
		w.reg = nil
	}
	// Start has run: the timers it registered whose callback is code of package scenem
	own := w.ownTimers()
	if len(own) != 1 {
		panic(fmt.Sprintf("C19 harness: expected SceneServiceMgr.Start to have registered exactly one timer with a callback from package %s "+
			"(the periodic keep-alive check), found %d (timer registry readable: %v)", scenemPkg, len(own), w.reg != nil))
	}
	w.check = own[0]
	if w.reg == nil {
		w.idFld = theOne(w.public, reflect.TypeOf(timer.IdType(0)), 0, "keeper timer id")
	}
	return w
}

// ownTimers lists the live timers whose callback is a function of package scenem, by timer id.
func (w *whitebox) ownTimers() []*timer.Obj {
	var out []*timer.Obj
	if w.reg == nil {
		return out
	}
	w.reg.Range(func(_, v interface{}) bool {
		if o, ok := v.(*timer.Obj); ok && o != nil && o.CB != nil {
			if fn := runtime.FuncForPC(reflect.ValueOf(o.CB).Pointer()); fn != nil && strings.HasPrefix(fn.Name(), scenemPkg+".") {
				out = append(out, o)
			}
		}
		return true
	})
	sort.Slice(out, func(a, b int) bool { return out[a].TimerId < out[b].TimerId })
	return out
}

// scenes lists the world's scenes through the exported queries (map order; the caller sorts).
func (w *whitebox) scenes() []vScene {
	ids := w.mgr.QueryScenes(math.MaxInt)
	out := make([]vScene, 0, len(ids))
	for _, k := range ids {
		o := w.mgr.GetScene(k)
		if o == nil {
			out = append(out, vScene{SceneId: k, CfgId: -1, LineId: -1, ServiceId: "<nil>"})
			continue
		}
		// the key is reported, the object's own id only if it differs
		s := vScene{SceneId: k, CfgId: o.CfgId, LineId: o.LineId, ServiceId: o.ServiceId}
		if o.SceneId != k {
			s.ServiceId = o.ServiceId + "<key-mismatch>"
		}
		out = append(out, s)
	}
	return out
}

var lineSliceType = reflect.TypeOf([]*scenem.SceneLine(nil))

// lines lists per configuration the lines in slice order.
func (w *whitebox) lines() map[int32][]vLine {
	out := make(map[int32][]vLine)
	for cfg, ls := range *w.lineOf {
		if ls == nil {
			continue
		}
		for _, l := range theOne(ls, lineSliceType, 0, "slice of lines").Interface().([]*scenem.SceneLine) {
			out[cfg] = append(out[cfg], vLine{CfgId: l.GetCfgId(), SceneId: l.GetSceneId(), LineId: l.GetLineId()})
		}
	}
	return out
}

// services lists the manager's table of scene services (map order; the caller sorts).
func (w *whitebox) services() []vStat {
	out := make([]vStat, 0, len(*w.stats))
	for k, v := range *w.stats {
		out = append(out, vStat{Name: k, N: v.ActiveSceneNum, Working: v.Working, Failed: v.ActiveFailedTimes, Last: v.LastActiveTime})
	}
	return out
}

// tick is one run of the periodic keep-alive check: the callback of the manager's 1 s timer, called directly.
func (w *whitebox) tick() { w.check.CB(w.check.Args...) }

// lost declares a service lost the way the keep-alive check does, whatever the clock says; for a
// service the manager has never heard of only the world is told.  The manager's own code does it:
// for the duration of one run of the real keep-alive check (tick) the service is made to look
// overdue far beyond any threshold and every other service is hidden from the check (not working);
// afterwards everything the check did not decide is put back: the others' working flags, the
// service's failure counter and time stamp.  What remains is what the real loss handler did
// (working flag cleared, world told).
func (w *whitebox) lost(serviceId string) {
	st := (*w.stats)[serviceId]
	if st == nil {
		w.world.OnServiceLost(serviceId)
		return
	}
	type other struct {
		st      *scenem.SceneServiceStat
		working bool
	}
	var others []other
	for _, v := range *w.stats {
		if v != nil && v != st {
			others = append(others, other{v, v.Working})
			v.Working = false
		}
	}
	const many = 1 << 20
	sw, sf, sl := st.Working, st.ActiveFailedTimes, st.LastActiveTime
	st.Working, st.ActiveFailedTimes, st.LastActiveTime = true, many, 0
	defer func() {
		for _, o := range others {
			if !o.st.Working {
				o.st.Working = o.working
			}
		}
		if st.Working { // the loss handler was not reached
			st.Working = sw
		}
		if st.ActiveFailedTimes == many || st.ActiveFailedTimes == many+1 {
			st.ActiveFailedTimes = sf
		}
		if st.LastActiveTime == 0 || st.LastActiveTime == common.NowMs() {
			st.LastActiveTime = sl
		}
	}()
	w.tick()
}

// worldLost delivers the loss event to the world only.
func (w *whitebox) worldLost(serviceId string) { w.world.OnServiceLost(serviceId) }

// weightCmp compares the busy weights of two working services that report a and b active scenes: -1, 0, +1.
func weightCmp(a, b int) int {
	x := (&scenem.SceneServiceStat{Working: true, ActiveSceneNum: a}).GetBusyWeight()
	y := (&scenem.SceneServiceStat{Working: true, ActiveSceneNum: b}).GetBusyWeight()
	switch {
	case x < y:
		return -1
	case x > y:
		return 1
	}
	return 0
}

// keeper runs one round of the public-scene keeper (PublicScenes.Update, what its 1 s timer calls) with a
// table that holds exactly the public scene (cfgId, reqNum), and returns that entry's Spawned counter afterwards.
func (w *whitebox) keeper(cfgId, reqNum int32) int32 {
	sc := &scenem.PublicScene{CfgId: cfgId, ReqNum: reqNum}
	*w.tab = map[int32]*scenem.PublicScene{cfgId: sc}
	w.public.Update()
	return sc.Spawned
}

// table lists the public-scene table (configuration, required number), sorted by configuration.
func (w *whitebox) table() [][2]int32 {
	out := make([][2]int32, 0)
	for k, v := range *w.tab {
		if v == nil {
			out = append(out, [2]int32{k, -1})
			continue
		}
		out = append(out, [2]int32{k, v.ReqNum})
	}
	sort.Slice(out, func(a, b int) bool { return out[a][0] < out[b][0] })
	return out
}

// keeperStarted: has PublicScenes.Start armed the keeper's timer?  I.e. is there a live timer with a
// callback from package scenem besides the keep-alive check.
func (w *whitebox) keeperStarted() bool {
	if w.reg == nil {
		return w.idFld.Uint() != 0
	}
	for _, o := range w.ownTimers() {
		if o != w.check {
			return true
		}
	}
	return false
}

// addPublic registers a public scene in the keeper's table.  The code's own registration function is
// unexported and has no exported caller that takes arguments (Init calls it with constants - that real
// path runs at every `reset` and its result, including the duplicates of the two presets, is in the T=
// dump).  Here the entry is written into the table itself, first registration kept.
func (w *whitebox) addPublic(cfgId, reqNum int32) {
	if (*w.tab)[cfgId] != nil {
		return
	}
	(*w.tab)[cfgId] = &scenem.PublicScene{CfgId: cfgId, ReqNum: reqNum}
}

// update is one round of the keeper over the whole table (what its 1 s timer calls).
func (w *whitebox) update() { w.public.Update() }

// nextId is the scene id the next successful AllocScene will hand out.
func (w *whitebox) nextId() uint64 { return *w.next }
