// C19 correspondence harness: drives the real MMO scene manager
// (mmo/servers/scenem: SceneServiceMgr + World + SceneLines) with generated and
// replayed op lines inside a synctest bubble (virtual clock for the keep-alive
// bookkeeping) and records, after every op, the op's result and a sorted dump
// of the manager's state (scenes, lines per configuration in slice order,
// service stats).  There is no white-box shim: nothing is compiled into package scenem
// and no unexported identifier of it is named.  State that has no exported query is read
// by TYPE (reflect + unsafe, see whitebox_test.go); the periodic check is called through
// the callback the real Start registered on the service's timer manager.
package c19

import (
	"fmt"
	"sort"
	"strconv"
	"strings"
	"testing"
	"testing/synctest"
	"time"

	"cell2verif/hx"

	"github.com/asynkron/protoactor-go/actor"
	"github.com/asynkron/protoactor-go/remote"
	as "github.com/dfklegend/cell2/actorex/service"
	messages "github.com/dfklegend/cell2/actorex/service/servicemsgs"
	"github.com/dfklegend/cell2/node/app"
	"github.com/dfklegend/cell2/node/cluster"
	"github.com/dfklegend/cell2/node/service"
	"github.com/dfklegend/cell2/utils/common"
	"github.com/dfklegend/cell2/utils/logger"
	logproxy "github.com/dfklegend/cell2/utils/logger/proxy"
	"github.com/dfklegend/cell2/utils/runservice"

	"mmo/common/config"
	mymsg "mmo/messages"
	"mmo/servers/scenem"
	hscenem "mmo/servers/scenem/handler"
)

const svcPrefix = "scene-"

// service number 0 stands for the empty service id (FindIdleService uses "" for "none yet")
func svcName(k int) string {
	if k == 0 {
		return ""
	}
	return svcPrefix + strconv.Itoa(k)
}

func svcShow(name string) string {
	if name == "" {
		return "0"
	}
	if strings.HasPrefix(name, svcPrefix) {
		if _, err := strconv.Atoi(name[len(svcPrefix):]); err == nil {
			return name[len(svcPrefix):]
		}
	}
	return "?" + strings.ReplaceAll(name, " ", "_")
}

// sentReq is one `scene.remote.allocscene` request SpawnScene sent and nobody answered yet.
type sentReq struct {
	reqId int32
	sid   uint64
	cfg   int32
	svc   string
}

type env struct {
	hs   *hscenem.Service // the scenem service object (handler package): NodeService + Mgr
	mgr  *scenem.SceneServiceMgr
	ns   *service.NodeService
	self *actor.PID
	sent []sentReq
	acks []string // what clients of the AllocScene handler were answered, in order
	wb   *whitebox // by-type access to the manager's state (whitebox_test.go)
}

// stubCtx stands in for the actor context of the manager's NodeService: the
// service is not spawned as an actor; its Receive is called directly with the
// message to deliver, and what it sends is recorded.  Only Self/Send/Message
// are used by the exercised paths (anything else would nil-panic -> "panic").
type stubCtx struct {
	actor.Context
	e   *env
	msg interface{}
}

func (c *stubCtx) Self() *actor.PID      { return c.e.self }
func (c *stubCtx) Actor() actor.Actor    { return c.e.hs }
func (c *stubCtx) Message() interface{} { return c.msg }
func (c *stubCtx) Send(pid *actor.PID, m interface{}) {
	req, ok := m.(*messages.ServiceRequest)
	if !ok {
		return
	}
	r := sentReq{reqId: req.ReqId, svc: pid.Id}
	if body, err := remote.Deserialize(req.Body, req.Type, as.DefaultSerializeId); err == nil {
		if a, ok := body.(*mymsg.SAllocScene); ok && req.Route == "remote.allocscene" {
			r.sid, r.cfg = a.SceneId, a.CfgId
			c.e.sent = append(c.e.sent, r)
			return
		}
	}
	r.svc = "?unexpected-request:" + req.Route
	c.e.sent = append(c.e.sent, r)
}

// setRoutable publishes a cluster view in which exactly the given scene services exist.
func setRoutable(ks []int) {
	var names []string
	for _, k := range ks {
		names = append(names, "scene."+svcName(k))
	}
	if len(names) == 0 {
		app.Node.GetCluster().UpdateClusterTopology([]*cluster.Member{})
		return
	}
	app.Node.GetCluster().UpdateClusterTopology([]*cluster.Member{{Id: "c@n1", Host: "h", Port: 1, State: 1, Services: names}})
}

var cur *env

// pump runs what has been posted to the service's scheduler (the waterfall steps of
// the AllocScene handler), as the service's own loop would between two messages.
func (e *env) pump() {
	sc := e.ns.GetRunService().GetScheduler()
	for {
		select {
		case t := <-sc.GetChanTask():
			if t != nil {
				sc.DoTask(t)
			}
		default:
			return
		}
	}
}

func newEnv() *env {
	// the scenem service as the node builds it (NodeService + NewMgr), not spawned as an actor
	hs := hscenem.NewService()
	ns := hs.GetNodeService()
	// a run service that is never started: timers can be registered (the public
	// scene spawner and the manager's own 1 s update do that) but never run;
	// the keep-alive check is driven by the `tick` op instead, and posted tasks by pump().
	ns.SetRunService(runservice.NewStandardRunService("c19"))
	m := hs.Mgr
	m.Start()
	e := &env{hs: hs, mgr: m, ns: ns, self: actor.NewPID("h:9", "scenem-1")}
	e.wb = openWhitebox(m, ns.GetRunService().GetTimerMgr())
	// what actor.Started does for a spawned service: remember the context
	ns.Receive(&stubCtx{e: e, msg: &actor.Started{}})
	setRoutable(nil)
	return e
}

// showAck renders what the AllocScene handler answered to its client.
func showAck(err error, ret interface{}) string {
	if err != nil {
		return "nack"
	}
	if a, ok := ret.(*mymsg.SMAllocSceneAck); ok && a != nil {
		return fmt.Sprintf("ack:%d:%s", a.SceneId, svcShow(a.ServiceId))
	}
	return "ack:?"
}

func showScene(s vScene) string {
	return fmt.Sprintf("%d:%d:%d:%s", s.SceneId, s.CfgId, s.LineId, svcShow(s.ServiceId))
}

func (e *env) dump() string {
	var sb strings.Builder
	sc := e.wb.scenes()
	sort.Slice(sc, func(a, b int) bool { return sc[a].SceneId < sc[b].SceneId })
	sb.WriteString("S=")
	for i, s := range sc {
		if i > 0 {
			sb.WriteByte(',')
		}
		sb.WriteString(showScene(s))
	}
	ls := e.wb.lines()
	cfgs := make([]int, 0, len(ls))
	for c, l := range ls {
		if len(l) > 0 {
			cfgs = append(cfgs, int(c))
		}
	}
	sort.Ints(cfgs)
	sb.WriteString(" L=")
	for i, c := range cfgs {
		if i > 0 {
			sb.WriteByte(';')
		}
		fmt.Fprintf(&sb, "%d:", c)
		for j, l := range ls[int32(c)] {
			if j > 0 {
				sb.WriteByte(',')
			}
			fmt.Fprintf(&sb, "%d/%d", l.LineId, l.SceneId)
			if int(l.CfgId) != c {
				fmt.Fprintf(&sb, "!cfg%d", l.CfgId)
			}
		}
	}
	st := e.wb.services()
	sort.Slice(st, func(a, b int) bool { return st[a].Name < st[b].Name })
	now := common.NowMs()
	sb.WriteString(" V=")
	for i, s := range st {
		if i > 0 {
			sb.WriteByte(',')
		}
		fmt.Fprintf(&sb, "%s:%d:%d:%d:%d", svcShow(s.Name), hx.B2i(s.Working), s.N, s.Failed, now-s.Last)
	}
	// allocation requests SpawnScene sent and that are still unanswered (in send order)
	sb.WriteString(" P=")
	for i, r := range e.sent {
		if i > 0 {
			sb.WriteByte(',')
		}
		fmt.Fprintf(&sb, "%d:%d:%s", r.sid, r.cfg, svcShow(r.svc))
	}
	if len(e.ns.Handlers) != len(e.sent) {
		fmt.Fprintf(&sb, "!handlers=%d", len(e.ns.Handlers))
	}
	// the public-scene table (sorted) and whether the keeper's timer has been armed
	sb.WriteString(" T=")
	for i, t := range e.wb.table() {
		if i > 0 {
			sb.WriteByte(',')
		}
		fmt.Fprintf(&sb, "%d:%d", t[0], t[1])
	}
	fmt.Fprintf(&sb, " K=%d N=%d", hx.B2i(e.wb.keeperStarted()), e.wb.nextId())
	return sb.String()
}

// showSent renders the allocation requests sent since `before`, in send order.
func (e *env) showSent(before int) string {
	if len(e.sent) <= before {
		return "quiet"
	}
	var fs []string
	for _, q := range e.sent[before:] {
		fs = append(fs, fmt.Sprintf("%d:%s:%d", q.sid, svcShow(q.svc), q.cfg))
	}
	return strings.Join(fs, ";")
}

// serveTimers does what the service's loop does with its timer queue: every timer object that
// time.AfterFunc has put there is handed to the real timer.Mgr.Do (callback, then re-arm).
// These are the timers the real SceneServiceMgr.Start and PublicScenes.Start registered.
func (e *env) serveTimers() int {
	synctest.Wait() // let the AfterFunc goroutines that are due put their timers on the queue
	tm := e.ns.GetRunService().GetTimerMgr()
	fired := 0
	for {
		select {
		case t := <-tm.GetQueue():
			tm.Do(t)
			fired++
			continue
		default:
		}
		return fired
	}
}

// exec interprets one op line against the real code.
func exec(op string) string {
	ws := hx.Words(op)
	if len(ws) == 0 {
		return "bad-op"
	}
	if ws[0] == "reset" {
		cur = newEnv()
		return "r=ok " + cur.dump()
	}
	if cur == nil {
		cur = newEnv()
	}
	e := cur
	return hx.Guard(func() string {
		r := "ok"
		switch ws[0] {
		case "refresh":
			e.mgr.OnServiceRefresh(svcName(hx.KVInt(ws, "svc")), hx.KVInt(ws, "n"))
		case "adv":
			time.Sleep(time.Duration(hx.KVInt(ws, "ms")) * time.Millisecond)
		case "tick":
			e.wb.tick()
		case "lost":
			e.wb.lost(svcName(hx.KVInt(ws, "svc")))
		case "wlost":
			e.wb.worldLost(svcName(hx.KVInt(ws, "svc")))
		case "create":
			e.mgr.OnSceneCreateSucc(&scenem.SceneObj{SceneId: hx.KVU64(ws, "sid"), CfgId: int32(hx.KVInt(ws, "cfg")),
				ServiceId: svcName(hx.KVInt(ws, "svc"))})
		case "end":
			e.mgr.OnSceneEnd(hx.KVU64(ws, "sid"))
		case "alloc":
			o := e.mgr.AllocScene(int32(hx.KVInt(ws, "cfg")))
			if o == nil {
				r = "none"
			} else {
				r = fmt.Sprintf("%d:%s", o.SceneId, svcShow(o.ServiceId))
				if int(o.CfgId) != hx.KVInt(ws, "cfg") {
					r += "!cfg"
				}
			}
		case "req":
			o := e.mgr.ReqSceneByCfgId(int32(hx.KVInt(ws, "cfg")))
			if o == nil {
				r = "none"
			} else {
				r = showScene(vScene{SceneId: o.SceneId, CfgId: o.CfgId, LineId: o.LineId, ServiceId: o.ServiceId})
			}
		case "route":
			var ks []int
			v, _ := hx.KV(ws, "svcs")
			for _, f := range strings.Split(v, ",") {
				if k, err := strconv.Atoi(f); err == nil {
					ks = append(ks, k)
				}
			}
			setRoutable(ks)
		case "spawn":
			// the real SpawnScene: AllocScene + app.Request("scene.remote.allocscene") + callback
			before := len(e.sent)
			cfg := int32(hx.KVInt(ws, "cfg"))
			if !e.mgr.SpawnScene(cfg) {
				r = "false"
			} else if len(e.sent) == before+1 {
				q := e.sent[before]
				r = fmt.Sprintf("%d:%s:sent", q.sid, svcShow(q.svc))
				if q.cfg != cfg {
					r += "!cfg"
				}
			} else {
				// nothing was sent: the request failed at once (no such service in the cluster view)
				r = "noroute"
			}
		case "halloc":
			// the remote AllocScene handler (handler/remote.go): AllocScene + waterfall(app.Request + callback) + answer to the client
			before, nacks := len(e.sent), len(e.acks)
			cfg := int32(hx.KVInt(ws, "cfg"))
			(&hscenem.Entry{}).AllocScene(&as.RemoteContext{ActorContext: &stubCtx{e: e}}, &mymsg.SMAllocScene{UId: 1, CfgId: cfg},
				func(err error, ret interface{}) { e.acks = append(e.acks, showAck(err, ret)) })
			e.pump()
			switch {
			case len(e.sent) == before+1 && len(e.acks) == nacks:
				q := e.sent[before]
				r = fmt.Sprintf("%d:%s:sent", q.sid, svcShow(q.svc))
				if q.cfg != cfg {
					r += "!cfg"
				}
			case len(e.sent) == before && len(e.acks) == nacks+1:
				r = "answered:" + e.acks[nacks]
			case len(e.sent) == before && len(e.acks) == nacks:
				r = "silent" // nothing sent, the client is never answered
			default:
				r = fmt.Sprintf("confused:%d:%d", len(e.sent)-before, len(e.acks)-nacks)
			}
		case "keeper":
			// one round of the public-scene keeper for the public scene (cfg, n): trySpawnScene -> SpawnScene
			before := len(e.sent)
			cfg := int32(hx.KVInt(ws, "cfg"))
			cnt := e.wb.keeper(cfg, int32(hx.KVInt(ws, "n")))
			r = "quiet"
			if len(e.sent) == before+1 {
				q := e.sent[before]
				r = fmt.Sprintf("%d:%s:sent", q.sid, svcShow(q.svc))
				if q.cfg != cfg {
					r += "!cfg"
				}
			} else if len(e.sent) != before {
				r = "several-requests"
			}
			r += fmt.Sprintf("/%d", cnt)
		case "reply":
			// the scene service's answer to an allocation request (ok / error) reaches the manager
			sid := hx.KVU64(ws, "sid")
			r = "unknown"
			for i, q := range e.sent {
				if q.sid == sid {
					e.sent = append(e.sent[:i:i], e.sent[i+1:]...)
					res := &messages.ServiceResponse{ReqId: q.reqId}
					if v, _ := hx.KV(ws, "res"); v != "ok" {
						res.ErrCode, res.ErrInfo = 1, "alloc failed"
					}
					nacks := len(e.acks)
					e.ns.Receive(&stubCtx{e: e, msg: res})
					e.pump()
					r = "done"
					for _, a := range e.acks[nacks:] {
						r += "+" + a
					}
					break
				}
			}
		case "pubadd":
			e.wb.addPublic(int32(hx.KVInt(ws, "cfg")), int32(hx.KVInt(ws, "n")))
		case "update":
			// one round of the keeper over the whole table: the real PublicScenes.Update
			before := len(e.sent)
			e.wb.update()
			r = e.showSent(before)
		case "timers":
			// the service's loop serves its timer queue (keep-alive check and keeper, as armed by the real Start functions)
			before, nacks := len(e.sent), len(e.acks)
			fired := e.serveTimers()
			e.pump()
			r = fmt.Sprintf("f%d/%s", fired, e.showSent(before))
			// requests the request layer's expiry check completed with a timeout are no longer in flight
			kept := e.sent[:0:0]
			for _, q := range e.sent {
				if _, ok := e.ns.Handlers[q.reqId]; ok {
					kept = append(kept, q)
				}
			}
			e.sent = kept
			for _, a := range e.acks[nacks:] {
				r += "+" + a
			}
		case "weight":
			switch weightCmp(hx.KVInt(ws, "a"), hx.KVInt(ws, "b")) {
			case -1:
				r = "lt"
			case 0:
				r = "eq"
			default:
				r = "gt"
			}
		default:
			return "bad-op"
		}
		return "r=" + r + " " + e.dump()
	})
}

// ---------------------------------------------------------------- generator
//
// Every random choice comes from h.R.  The op stream is nevertheless not a pure
// function of the seed: create-successes confirm what AllocScene answered, and
// AllocScene breaks ties between equally busy services by Go map order.  Replay
// files are self-contained (every op carries explicit ids), so this does not
// affect reproduction of a reported witness.

type gen struct {
	h       *hx.T
	live    []uint64 // scene ids the generator believes live
	ended   []uint64
	pending []string // "sid cfg svc" returned by alloc and not yet confirmed
	nextOwn uint64   // ids for creations that do not come from alloc
	flight  []string // "sid/cfg" of SpawnScene requests nobody answered yet
	cfgIds  []int    // the configuration ids of this case
}

func routeOp(h *hx.T) string {
	switch h.R.Intn(6) {
	case 0:
		return "route svcs="
	case 1:
		return fmt.Sprintf("route svcs=%d", 1+h.R.Intn(3))
	case 2:
		return fmt.Sprintf("route svcs=%d,%d", 1+h.R.Intn(3), 1+h.R.Intn(3))
	}
	return "route svcs=1,2,3"
}

// Configuration ids are drawn per case from one of several families: the
// production-like ids, and small ids that coincide with line numbers (0,1,2,…),
// scene-service numbers and freshly allocated scene ids, so that a mix-up between
// the id spaces (all int32/uint64 in the Go code) shows in the dump.
var cfgFamilies = [][]int{{100, 101, 102}, {0, 1, 2}, {1, 2, 3}, {0, 1, 100}, {2, 3, 1000}}

func (g *gen) cfg() int { return g.cfgIds[g.h.R.Intn(len(g.cfgIds))] }

func (g *gen) svc() int {
	if g.h.R.Intn(25) == 0 {
		g.h.Count("svc.never-refreshed")
		return 4
	}
	return 1 + g.h.R.Intn(3)
}

func (g *gen) sceneNum() int {
	h := g.h
	switch h.R.Intn(6) {
	case 0:
		return 0
	case 1:
		return h.Pick(4999, 5000, 5001, 7000, 1<<24 - 1)
	case 2:
		return h.R.Intn(4) // ties between services
	}
	return h.R.Intn(60)
}

func (g *gen) removeLive(sid uint64) {
	for i, s := range g.live {
		if s == sid {
			g.live = append(g.live[:i], g.live[i+1:]...)
			g.ended = append(g.ended, sid)
			return
		}
	}
}

// syncLive re-reads the live set from the implementation's own dump (S=...).
func (g *gen) syncLive(obs string) {
	i := strings.Index(obs, "S=")
	if i < 0 {
		return
	}
	rest := obs[i+2:]
	if j := strings.IndexByte(rest, ' '); j >= 0 {
		rest = rest[:j]
	}
	old := g.live
	g.live = g.live[:0:0]
	if rest != "" {
		for _, e := range strings.Split(rest, ",") {
			f := strings.SplitN(e, ":", 2)
			if n, err := strconv.ParseUint(f[0], 10, 64); err == nil {
				g.live = append(g.live, n)
			}
		}
	}
	for _, o := range old {
		found := false
		for _, n := range g.live {
			if n == o {
				found = true
			}
		}
		if !found {
			g.ended = append(g.ended, o)
		}
	}
}

// workingSet extracts "svc" of the services considered working from a dump.
func workingSet(obs string) map[string]bool {
	out := map[string]bool{}
	i := strings.Index(obs, "V=")
	if i < 0 {
		return out
	}
	for _, e := range strings.Split(obs[i+2:], ",") {
		f := strings.Split(e, ":")
		if len(f) == 5 && f[1] == "1" {
			out[f[0]] = true
		}
	}
	return out
}

func dumpField(obs, key string) string {
	i := strings.Index(obs, key)
	if i < 0 {
		return ""
	}
	rest := obs[i+len(key):]
	if j := strings.IndexByte(rest, ' '); j >= 0 {
		rest = rest[:j]
	}
	return rest
}

func sceneCount(obs string) int {
	i := strings.Index(obs, "S=")
	if i < 0 {
		return 0
	}
	rest := obs[i+2:]
	if j := strings.IndexByte(rest, ' '); j >= 0 {
		rest = rest[:j]
	}
	if rest == "" {
		return 0
	}
	return strings.Count(rest, ",") + 1
}

// note records what an op reached, judged from the dumps before and after it.
func (g *gen) note(op, before, after string) {
	h := g.h
	nb, na := sceneCount(before), sceneCount(after)
	switch {
	case strings.HasPrefix(op, "tick"):
		wb, wa := workingSet(before), workingSet(after)
		for k := range wb {
			if !wa[k] {
				h.Count("reach.tick.declared-loss")
				if na < nb {
					h.Count("reach.tick.loss-removed-scenes")
				}
				break
			}
		}
	case strings.HasPrefix(op, "lost"), strings.HasPrefix(op, "wlost"):
		if na < nb {
			h.Count("reach.loss-removed-scenes")
			if na > 0 {
				h.Count("reach.loss-kept-other-scenes")
			}
		}
	case strings.HasPrefix(op, "create"):
		// the new line is not the last one of its configuration: a gap was filled
		if na == nb+1 {
			sid := hx.KVU64(hx.Words(op), "sid")
			li := strings.Index(after, "L=")
			rest := after[li+2:]
			if j := strings.IndexByte(rest, ' '); j >= 0 {
				rest = rest[:j]
			}
			for _, grp := range strings.Split(rest, ";") {
				es := strings.Split(grp[strings.IndexByte(grp, ':')+1:], ",")
				for i, e := range es {
					if strings.HasSuffix(e, fmt.Sprintf("/%d", sid)) && i < len(es)-1 {
						h.Count("reach.create.filled-a-gap")
					}
				}
			}
		}
	case strings.HasPrefix(op, "alloc"):
		if !strings.HasPrefix(after, "r=none") {
			w := workingSet(after)
			if len(w) > 1 {
				h.Count("reach.alloc.choice-among-several-working")
			}
		}
	case strings.HasPrefix(op, "req"):
		if !strings.HasPrefix(after, "r=none") && na > 1 {
			h.Count("reach.req.answered")
		}
	}
	if na >= 6 {
		h.Count("reach.world>=6scenes")
	}
}

// noteRound records the requests a keeper round sent (r=...sid:svc:cfg;...) as in flight.
func (g *gen) noteRound(obs string) {
	f := strings.Fields(obs)
	if len(f) == 0 || !strings.HasPrefix(f[0], "r=") {
		return
	}
	r := f[0][2:]
	if i := strings.IndexByte(r, '/'); i >= 0 {
		if r[:i] != "f0" {
			g.h.Count("reach.timers.fired." + r[:i])
		}
		r = r[i+1:]
	}
	if r == "quiet" {
		return
	}
	es := strings.Split(r, ";")
	if len(es) > 1 {
		g.h.Count("reach.round.several-requests")
	}
	for _, e := range es {
		q := strings.Split(e, ":")
		if len(q) == 3 {
			g.h.Count("reach.round.request-sent")
			g.flight = append(g.flight, q[0]+"/"+q[2])
		}
	}
}

// emptyIdCase: a scene service reports under the empty service id (outside the property's hypothesis: compared with
// the model's literal FindIdleService loop, not judged by the property).  Only bare placement decisions are made.
func (g *gen) emptyIdCase(run func(string) string, nops int) {
	h := g.h
	perf, pub := config.PerfTest, config.EnablePublicScene
	run(fmt.Sprintf("reset perf=%d pub=%d", hx.B2i(perf), hx.B2i(pub)))
	for i := 0; i < nops; i++ {
		switch c := h.R.Intn(10); {
		case c < 4:
			run(fmt.Sprintf("refresh svc=%d n=%d", h.R.Intn(4), h.Pick(0, 1, 2, 3, 5, 5000, 7000)))
		case c < 8:
			obs := run(fmt.Sprintf("alloc cfg=%d", 100+h.R.Intn(3)))
			if strings.HasPrefix(obs, "r=none") && len(workingSet(obs)) > 0 {
				h.Count("reach.empty-id.alloc-none-although-working")
			}
		case c < 9:
			run(fmt.Sprintf("lost svc=%d", h.R.Intn(4)))
		default:
			run(fmt.Sprintf("adv ms=%d", h.Pick(1000, 3000)))
			run("tick")
		}
	}
}

func (g *gen) oneCase(run0 func(string) string, nops int, malformed bool) {
	last := ""
	run := func(op string) string {
		obs := run0(op)
		g.note(op, last, obs)
		last = obs
		return obs
	}
	h := g.h
	g.live, g.ended, g.pending, g.flight = nil, nil, nil, nil
	g.nextOwn = 1000 + uint64(h.R.Intn(5))*1000
	fam := 0
	if h.R.Intn(2) == 0 {
		fam = 1 + h.R.Intn(len(cfgFamilies)-1)
	}
	g.cfgIds = cfgFamilies[fam]
	h.Count(fmt.Sprintf("case.cfg-family.%d", fam))
	perf, pub := config.PerfTest, config.EnablePublicScene
	run(fmt.Sprintf("reset perf=%d pub=%d", hx.B2i(perf), hx.B2i(pub)))
	if h.R.Intn(4) != 0 { // else: no scene service is routable (every spawn fails at once)
		run(routeOp(h))
	}
	// most cases start with some working services
	for k := 1; k <= 3; k++ {
		if h.R.Intn(5) != 0 {
			run(fmt.Sprintf("refresh svc=%d n=%d", k, g.sceneNum()))
		}
	}
	for i := 0; i < nops; i++ {
		var obs string
		switch c := h.R.Intn(100); {
		case c < 3: // one round of the public-scene keeper (trySpawnScene: spawn only below the required number)
			h.Count("op.keeper")
			cfg := g.cfg()
			obs = run(fmt.Sprintf("keeper cfg=%d n=%d", cfg, h.Pick(0, 1, 2, 2, 3, 5)))
			f := strings.Split(strings.SplitN(strings.Fields(obs)[0], "/", 2)[0], ":")
			switch {
			case len(f) == 3 && f[2] == "sent":
				h.Count("reach.keeper.request-sent")
				for _, fl := range g.flight {
					if fl[strings.IndexByte(fl, '/')+1:] == strconv.Itoa(cfg) {
						h.Count("reach.keeper.request-sent-while-another-outstanding")
						break
					}
				}
				g.flight = append(g.flight, f[0][2:]+"/"+strconv.Itoa(cfg))
			case strings.HasPrefix(obs, "r=quiet"):
				h.Count("keeper.quiet")
			}
		case c < 6: // the keeper's path: real SpawnScene (allocation + remote request)
			h.Count("op.spawn")
			cfg := g.cfg()
			obs = run(fmt.Sprintf("spawn cfg=%d", cfg))
			f := strings.Split(strings.Fields(obs)[0], ":")
			switch {
			case strings.HasPrefix(obs, "r=noroute"):
				h.Count("reach.spawn.failed-at-once(no-route)")
			case strings.HasPrefix(obs, "r=false"):
				h.Count("spawn.no-working-service")
			case len(f) == 3 && f[2] == "sent":
				h.Count("reach.spawn.request-sent")
				g.flight = append(g.flight, f[0][2:]+"/"+strconv.Itoa(cfg))
			}
		case c < 11: // the scene service answers an allocation request
			switch {
			case len(g.flight) > 0 && h.R.Intn(8) != 0:
				j := h.R.Intn(len(g.flight))
				sid := g.flight[j][:strings.IndexByte(g.flight[j], '/')]
				g.flight = append(g.flight[:j], g.flight[j+1:]...)
				if h.R.Intn(5) < 3 {
					h.Count("reach.reply.ok")
					before := last
					obs = run("reply sid=" + sid + " res=ok")
					if strings.HasPrefix(obs, "r=done+ack") {
						h.Count("reach.reply.client-told-ok")
					}
					// the answer arrived after its service was declared lost (the scene is registered all the same)
					if sceneCount(obs) == sceneCount(before)+1 {
						for _, sc := range strings.Split(dumpField(obs, "S="), ",") {
							f := strings.Split(sc, ":")
							if len(f) == 4 && f[0] == sid && !workingSet(obs)[f[3]] {
								h.Count("reach.reply.ok-after-service-lost")
							}
						}
					}
				} else {
					h.Count("reach.reply.error")
					obs = run("reply sid=" + sid + " res=err")
					if strings.HasPrefix(obs, "r=done+nack") {
						h.Count("reach.reply.client-told-error")
					}
				}
			case h.R.Intn(3) == 0:
				h.Count("op.reply.unknown-request")
				obs = run(fmt.Sprintf("reply sid=%d res=%s", h.Pick(0, 1, 2, 77), []string{"ok", "err"}[h.R.Intn(2)]))
			default:
				h.Count("op.route")
				obs = run(routeOp(h))
			}
		case c < 16 && h.R.Intn(2) == 0: // the remote AllocScene handler: allocation + request + answer to the client
			h.Count("op.halloc")
			cfg := g.cfg()
			obs = run(fmt.Sprintf("halloc cfg=%d", cfg))
			f := strings.Split(strings.Fields(obs)[0], ":")
			switch {
			case strings.HasPrefix(obs, "r=silent"):
				h.Count("reach.halloc.client-never-answered(no-working-service)")
			case strings.HasPrefix(obs, "r=answered:nack"):
				h.Count("reach.halloc.refused-at-once(no-route)")
			case len(f) == 3 && f[2] == "sent":
				h.Count("reach.halloc.request-sent")
				g.flight = append(g.flight, f[0][2:]+"/"+strconv.Itoa(cfg))
			}
		case c < 16: // allocation (placement decision)
			h.Count("op.alloc")
			cfg := g.cfg()
			obs = run(fmt.Sprintf("alloc cfg=%d", cfg))
			if strings.HasPrefix(obs, "r=none") {
				h.Count("alloc.none")
			} else if strings.HasPrefix(obs, "r=") {
				f := strings.SplitN(strings.Fields(obs)[0][2:], ":", 2)
				if len(f) == 2 {
					g.pending = append(g.pending, fmt.Sprintf("sid=%s cfg=%d svc=%s", f[0], cfg, f[1]))
				}
			}
		case c < 40: // creation succeeded
			if len(g.pending) > 0 && h.R.Intn(4) != 0 {
				j := h.R.Intn(len(g.pending))
				p := g.pending[j]
				g.pending = append(g.pending[:j], g.pending[j+1:]...)
				h.Count("op.create.allocated")
				obs = run("create " + p)
			} else if malformed && len(g.live) > 0 && h.R.Intn(3) == 0 {
				// outside the property's hypothesis: a create-success for a scene id that is live
				h.Count("op.create.DUPLICATE-ID(malformed)")
				obs = run(fmt.Sprintf("create sid=%d cfg=%d svc=%d", g.live[h.R.Intn(len(g.live))], g.cfg(), g.svc()))
			} else {
				g.nextOwn++
				h.Count("op.create.own-id")
				obs = run(fmt.Sprintf("create sid=%d cfg=%d svc=%d", g.nextOwn, g.cfg(), g.svc()))
			}
		case c < 53: // scene end
			switch {
			case len(g.live) > 0 && h.R.Intn(5) != 0:
				h.Count("op.end.known")
				obs = run(fmt.Sprintf("end sid=%d", g.live[h.R.Intn(len(g.live))]))
			case len(g.ended) > 0 && h.R.Intn(2) == 0:
				h.Count("op.end.already-ended")
				obs = run(fmt.Sprintf("end sid=%d", g.ended[h.R.Intn(len(g.ended))]))
			default:
				h.Count("op.end.unknown")
				obs = run(fmt.Sprintf("end sid=%d", h.Pick(0, 7, 999999, 1<<40)))
			}
		case c < 61: // keep-alive
			h.Count("op.refresh")
			obs = run(fmt.Sprintf("refresh svc=%d n=%d", 1+h.R.Intn(3), g.sceneNum()))
		case c < 68: // time passes
			h.Count("op.adv")
			obs = run(fmt.Sprintf("adv ms=%d", h.Pick(1, 999, 1000, 2999, 3000, 3001, 1+h.R.Intn(4000), 12000)))
		case c < 75:
			h.Count("op.tick")
			obs = run("tick")
		case c < 80: // silence: k rounds of 3 s + check (the 4th declares the loss)
			k := 1 + h.R.Intn(5)
			h.Count(fmt.Sprintf("op.silence.%d", k))
			for j := 0; j < k; j++ {
				run(fmt.Sprintf("adv ms=%d", h.Pick(3000, 3000, 2999, 3001, 1000)))
				obs = run("tick")
			}
		case c < 84: // loss (possibly repeated)
			s := g.svc()
			h.Count("op.lost")
			obs = run(fmt.Sprintf("lost svc=%d", s))
			if h.R.Intn(2) == 0 {
				h.Count("op.lost.repeated")
				obs = run(fmt.Sprintf("lost svc=%d", s))
			}
		case c < 86:
			h.Count("op.wlost")
			obs = run(fmt.Sprintf("wlost svc=%d", g.svc()))
		case c < 90: // the service's loop serves the timer queue (real timers of Start / PublicScenes.Start)
			h.Count("op.timers")
			obs = run("timers")
			g.noteRound(obs)
		case c < 91: // k seconds of normal operation: the clock moves by 1 s, the loop serves the timers
			k := 1 + h.R.Intn(14)
			h.Count("op.seconds")
			for j := 0; j < k; j++ {
				run(fmt.Sprintf("adv ms=%d", h.Pick(1000, 1000, 1000, 999, 1001, 500)))
				obs = run("timers")
				g.noteRound(obs)
				g.syncLive(obs)
			}
		case c < 92: // a round of the keeper over the whole table
			h.Count("op.update")
			obs = run("update")
			g.noteRound(obs)
		case c < 93: // another public scene is registered (an existing entry must be kept)
			h.Count("op.pubadd")
			cfg := g.cfg()
			if tb := strings.Split(dumpField(last, "T="), ","); len(tb) >= 4 {
				// keep the table small (the acceptance test tries every visiting order): re-register an existing entry
				cfg, _ = strconv.Atoi(strings.SplitN(tb[h.R.Intn(len(tb))], ":", 2)[0])
				h.Count("op.pubadd.existing-entry")
			}
			obs = run(fmt.Sprintf("pubadd cfg=%d n=%d", cfg, h.Pick(0, 1, 2, 3)))
		case c < 98:
			h.Count("op.req")
			cfg := g.cfg()
			if h.R.Intn(12) == 0 {
				cfg = 555
			}
			obs = run(fmt.Sprintf("req cfg=%d", cfg))
			if strings.HasPrefix(obs, "r=none") {
				h.Count("req.none")
			}
		default:
			h.Count("op.weight")
			a := g.sceneNum()
			obs = run(fmt.Sprintf("weight a=%d b=%d", a, h.Pick(a, a+1, g.sceneNum(), 5000)))
		}
		if obs != "" {
			g.syncLive(obs)
		}
	}
}

func TestRun(t *testing.T) {
	logger.SetLogLevel(0) // logrus.PanicLevel: the code under test logs every event
	if lp := logproxy.GetLogs().GetLog("exception"); lp != nil {
		lp.SetLogLevel(0) // the scheduler logs every recovered panic with its stack (halloc with no working service)
	}
	synctest.Test(t, func(t *testing.T) {
		h := hx.Open()
		defer h.Close()
		run := func(op string) string {
			obs := exec(op)
			h.Emit(op, obs)
			return obs
		}
		if ops := hx.ReplayOps(); ops != nil {
			for _, op := range ops {
				run(op)
			}
			return
		}
		for _, op := range hx.CorpusOps(hx.Env("VERIF_CORPUS", "corpus/C19")) {
			h.Count("corpus")
			run(op)
		}
		// the float32 busy weight against the model's integer key: every adjacent pair up to past the clamp
		run("reset")
		for n := 0; n <= 5100; n++ {
			run(fmt.Sprintf("weight a=%d b=%d", n, n+1))
		}
		h.Stats["exhaustive.weight.adjacent<=5100"] = 5101
		g := &gen{h: h}
		n := hx.EnvInt("VERIF_N", 300)
		for i := 0; i < n; i++ {
			malformed := h.R.Intn(8) == 0
			if malformed {
				h.Count("case.malformed")
			} else {
				h.Count("case.wellformed")
			}
			if h.R.Intn(16) == 0 {
				h.Count("case.empty-service-id")
				g.emptyIdCase(run, 10+h.R.Intn(20))
			}
			g.oneCase(run, 15+h.R.Intn(50), malformed)
		}
	})
}
