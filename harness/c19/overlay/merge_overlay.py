#!/usr/bin/env python3
"""
merge_overlay.py OUT.json /repo/path/a.go=/tmp/mine/a.go [more pairs...]

Writes a go build overlay that contains the C19 verification shim (see
overlay.json in this directory) PLUS the given replacements.  Needed because go
honours only the last -overlay flag: VERIF_GO_FLAGS=-overlay=... replaces the
one checks/C19.py passes, so a mutation overlay for C19 must carry the shim too:

  harness/c19/overlay/merge_overlay.py /tmp/mine/ov.json \
      /repo/_projects/mmo/server/servers/scenem/world.go=/tmp/mine/world.go
  VERIF_GO_FLAGS=-overlay=/tmp/mine/ov.json bin/check C19
"""
import json, os, sys

here = os.path.dirname(os.path.abspath(__file__))
ov = json.load(open(os.path.join(here, "overlay.json")))
for pair in sys.argv[2:]:
    src, dst = pair.split("=", 1)
    ov["Replace"][src] = dst
json.dump(ov, open(sys.argv[1], "w"))
print(sys.argv[1])
