// Verification shim for property C19.  This file is NOT part of the repository:
// it is added to package scenem at build time through `go test -overlay`
// (see overlay.json next to it).  It only reads the unexported state of the
// scene manager and calls its unexported periodic / loss functions directly.
package scenem

import (
	"reflect"
	"sort"

	"mmo/common/config"
)

type VScene struct {
	SceneId   uint64
	CfgId     int32
	LineId    int32
	ServiceId string
}

type VLine struct {
	CfgId   int32
	SceneId uint64
	LineId  int32
}

type VStat struct {
	Name    string
	N       int
	Working bool
	Failed  int
	Last    int64
}

// VScenes lists World.scenes (map order; the caller sorts).
func (m *SceneServiceMgr) VScenes() []VScene {
	out := make([]VScene, 0, len(m.world.scenes))
	for k, o := range m.world.scenes {
		if o == nil {
			out = append(out, VScene{SceneId: k, CfgId: -1, LineId: -1, ServiceId: "<nil>"})
			continue
		}
		// the key is reported, the object's own id only if it differs
		s := VScene{SceneId: k, CfgId: o.CfgId, LineId: o.LineId, ServiceId: o.ServiceId}
		if o.SceneId != k {
			s.ServiceId = o.ServiceId + "<key-mismatch>"
		}
		out = append(out, s)
	}
	return out
}

// VLines lists World.sceneLines: per configuration the lines in slice order.
func (m *SceneServiceMgr) VLines() map[int32][]VLine {
	out := make(map[int32][]VLine)
	for cfg, ls := range m.world.sceneLines {
		if ls == nil {
			continue
		}
		for _, l := range ls.lines {
			out[cfg] = append(out[cfg], VLine{CfgId: l.cfgId, SceneId: l.sceneId, LineId: l.lineId})
		}
	}
	return out
}

// VServices lists SceneServiceMgr.services (map order; the caller sorts).
func (m *SceneServiceMgr) VServices() []VStat {
	out := make([]VStat, 0, len(m.services))
	for k, v := range m.services {
		out = append(out, VStat{Name: k, N: v.ActiveSceneNum, Working: v.Working, Failed: v.ActiveFailedTimes, Last: v.LastActiveTime})
	}
	return out
}

// VTick is one run of the periodic keep-alive check (what the 1 s timer calls).
func (m *SceneServiceMgr) VTick() { m.onUpdate() }

// VLost declares a service lost the way the keep-alive check does; for a
// service the manager has never heard of only the world is told.
func (m *SceneServiceMgr) VLost(serviceId string) {
	if st := m.services[serviceId]; st != nil {
		m.onServiceLost(serviceId, st)
		return
	}
	m.world.OnServiceLost(serviceId)
}

// VWorldLost delivers the loss event to the world only.
func (m *SceneServiceMgr) VWorldLost(serviceId string) { m.world.OnServiceLost(serviceId) }

// VWeightCmp compares the busy weights of two working services that report
// a and b active scenes: -1, 0, +1.
func VWeightCmp(a, b int) int {
	x := (&SceneServiceStat{Working: true, ActiveSceneNum: a}).GetBusyWeight()
	y := (&SceneServiceStat{Working: true, ActiveSceneNum: b}).GetBusyWeight()
	switch {
	case x < y:
		return -1
	case x > y:
		return 1
	}
	return 0
}

// VKeeper runs one round of the public-scene keeper (PublicScenes.Update, what its 1 s
// timer calls) with a table that holds exactly the public scene (cfgId, reqNum), and
// returns that entry's Spawned counter afterwards.
func (m *SceneServiceMgr) VKeeper(cfgId, reqNum int32) int32 {
	ps := m.world.publicScenes
	sc := &PublicScene{CfgId: cfgId, ReqNum: reqNum}
	ps.scenes = map[int32]*PublicScene{cfgId: sc}
	ps.Update()
	return sc.Spawned
}

// VFlags reports the two configuration switches PublicScenes.Init reads.
func VFlags() (perf, pub bool) { return config.PerfTest, config.EnablePublicScene }

// VTable lists the public-scene table (configuration, required number), sorted by configuration.
func (m *SceneServiceMgr) VTable() [][2]int32 {
	out := make([][2]int32, 0)
	for k, v := range m.world.publicScenes.scenes {
		if v == nil {
			out = append(out, [2]int32{k, -1})
			continue
		}
		out = append(out, [2]int32{k, v.ReqNum})
	}
	sort.Slice(out, func(a, b int) bool { return out[a][0] < out[b][0] })
	return out
}

// VKeeperStarted: has PublicScenes.Start armed the keeper's timer?
// (The id field is found by its type, not by its name: an unexported field may be renamed.)
func (m *SceneServiceMgr) VKeeperStarted() bool {
	v := reflect.ValueOf(m.world.publicScenes).Elem()
	for i := 0; i < v.NumField(); i++ {
		if f := v.Field(i); f.Kind() == reflect.Uint64 && f.Type().Name() == "IdType" {
			return f.Uint() != 0
		}
	}
	panic("C19 shim: PublicScenes has no timer id field")
}

// VAddPublic registers a public scene the way Init does.
func (m *SceneServiceMgr) VAddPublic(cfgId, reqNum int32) { m.world.publicScenes.addPublicScene(cfgId, reqNum) }

// VUpdate is one round of the keeper over the whole table (what its 1 s timer calls).
func (m *SceneServiceMgr) VUpdate() { m.world.publicScenes.Update() }

// VNextId is the scene id the next successful AllocScene will hand out.
// (The counter is the manager's only uint64 field; it is found by its type, not by its name.)
func (m *SceneServiceMgr) VNextId() uint64 {
	v := reflect.ValueOf(m).Elem()
	for i := 0; i < v.NumField(); i++ {
		if f := v.Field(i); f.Kind() == reflect.Uint64 && f.Type().Name() == "uint64" {
			return f.Uint()
		}
	}
	panic("C19 shim: SceneServiceMgr has no uint64 scene id counter")
}
