// C10 correspondence harness — session data set by any service is what routing
// and later handlers see.
//
// Two layers in one process (one synctest bubble, one node):
//
//  1. pure layer (`p.*` ops): the real cs.FrontSession / cs.BackSession /
//     cs.SessionData objects driven directly (Set/Get/Bind/GetID/ToJson,
//     SessionData.UpdateFromJson, BackSession.FromJson, malformed JSON);
//  2. bubble-node layer: the real node assembled by cell2verif/node — fronts
//     gate-1, gate-2, backs chat-1, chat-2, route rule `chat` = session key
//     `chatid` — driven through real client connections.  The handler zoo
//     (`<type>.zoo.run` request-shaped, `<type>.zoo.tell` notify-shaped) runs
//     a *script* of session operations on the session object the framework
//     handed to it (FrontSession for front-local, BackSession for forwarded
//     requests): get/set/bind/id/push/query/json/keep.  Kept BackSessions
//     (`keep`) and sessions made with cs.NewBackSession (`mk`) are driven
//     later from their own service (`on`), also after the connection died.
//
// Every op line is interpreted by exec (so replay files re-execute).  Values
// travel as tokens `raw~nrm`: raw = the Go value handed to Set, nrm = its JSON
// round trip (computed here with encoding/json, independently of the code
// under test) — the model's abstract `norm`.
package c10

import (
	"encoding/hex"
	"encoding/json"
	"fmt"
	"math"
	"sort"
	"strconv"
	"strings"
	"sync"
	"testing"
	"testing/synctest"

	api "github.com/dfklegend/cell2/apimapper"
	"github.com/dfklegend/cell2/apimapper/apientry"
	"github.com/dfklegend/cell2/node/client/impls"
	cs "github.com/dfklegend/cell2/node/client/session"
	"github.com/dfklegend/cell2/node/cluster"
	"github.com/dfklegend/cell2/node/service"

	"cell2verif/hx"
	"cell2verif/node"
)

// ---------------------------------------------------------------- value tokens

// tokOf renders a Go value (by dynamic type) without spaces, '/', ';', '~', '='.
func tokOf(v interface{}) string {
	switch x := v.(type) {
	case nil:
		return "z"
	case int:
		return "i" + strconv.Itoa(x)
	case int64:
		return "I" + strconv.FormatInt(x, 10)
	case uint32:
		return "u" + strconv.FormatUint(uint64(x), 10)
	case float64:
		return "f" + strconv.FormatFloat(x, 'g', -1, 64)
	case float32:
		return "F" + strconv.FormatFloat(float64(x), 'g', -1, 32)
	case string:
		return "s" + hex.EncodeToString([]byte(x))
	case bool:
		if x {
			return "bt"
		}
		return "bf"
	case []interface{}:
		parts := make([]string, len(x))
		for i, e := range x {
			parts[i] = tokOf(e)
		}
		return "L[" + strings.Join(parts, ",") + "]"
	case []int:
		parts := make([]string, len(x))
		for i, e := range x {
			parts[i] = strconv.Itoa(e)
		}
		return "A[" + strings.Join(parts, ",") + "]"
	case map[string]interface{}:
		return mapTok(x)
	}
	return "?" + strings.Map(func(r rune) rune {
		if r == ' ' || r == '/' || r == ';' || r == '~' || r == '=' {
			return '_'
		}
		return r
	}, fmt.Sprintf("%T", v))
}

func mapTok(m map[string]interface{}) string {
	keys := make([]string, 0, len(m))
	for k := range m {
		keys = append(keys, k)
	}
	sort.Strings(keys) // byte order of the keys = order of their hex
	parts := make([]string, 0, len(m))
	for _, k := range keys {
		parts = append(parts, hex.EncodeToString([]byte(k))+":"+tokOf(m[k]))
	}
	return "M{" + strings.Join(parts, ",") + "}"
}

// parseTok is the inverse of tokOf on the tokens the generator produces.
func parseTok(t string) (v interface{}, rest string) {
	if t == "" {
		return nil, ""
	}
	end := func(s string) int {
		i := strings.IndexAny(s, ",]}")
		if i < 0 {
			return len(s)
		}
		return i
	}
	switch t[0] {
	case 'z':
		return nil, t[1:]
	case 'i':
		e := end(t)
		n, _ := strconv.Atoi(t[1:e])
		return n, t[e:]
	case 'I':
		e := end(t)
		n, _ := strconv.ParseInt(t[1:e], 10, 64)
		return n, t[e:]
	case 'u':
		e := end(t)
		n, _ := strconv.ParseUint(t[1:e], 10, 32)
		return uint32(n), t[e:]
	case 'f':
		e := end(t)
		f, _ := strconv.ParseFloat(t[1:e], 64)
		return f, t[e:]
	case 'F':
		e := end(t)
		f, _ := strconv.ParseFloat(t[1:e], 32)
		return float32(f), t[e:]
	case 's':
		e := end(t)
		b, _ := hex.DecodeString(t[1:e])
		return string(b), t[e:]
	case 'b':
		return t[1] == 't', t[2:]
	case 'L':
		l := []interface{}{}
		r := t[2:]
		for len(r) > 0 && r[0] != ']' {
			var e interface{}
			e, r = parseTok(r)
			l = append(l, e)
			if len(r) > 0 && r[0] == ',' {
				r = r[1:]
			}
		}
		return l, strings.TrimPrefix(r, "]")
	case 'A':
		l := []int{}
		r := t[2:]
		for len(r) > 0 && r[0] != ']' {
			e := end(r)
			n, _ := strconv.Atoi(r[:e])
			l = append(l, n)
			r = r[e:]
			if len(r) > 0 && r[0] == ',' {
				r = r[1:]
			}
		}
		return l, strings.TrimPrefix(r, "]")
	case 'M':
		m := map[string]interface{}{}
		r := t[2:]
		for len(r) > 0 && r[0] != '}' {
			c := strings.IndexByte(r, ':')
			kb, _ := hex.DecodeString(r[:c])
			var e interface{}
			e, r = parseTok(r[c+1:])
			m[string(kb)] = e
			if len(r) > 0 && r[0] == ',' {
				r = r[1:]
			}
		}
		return m, strings.TrimPrefix(r, "}")
	}
	return nil, ""
}

// normTok: the JSON round trip of a value (what the other side of a push or a
// query holds), "!" when encoding/json can not represent it.
func normTok(v interface{}) string {
	b, err := json.Marshal(v)
	if err != nil {
		return "!"
	}
	var o interface{}
	if json.Unmarshal(b, &o) != nil {
		return "!"
	}
	return tokOf(o)
}

func hk(k string) string { return hex.EncodeToString([]byte(k)) }

func unhex(s string) string {
	b, _ := hex.DecodeString(s)
	return string(b)
}

// ---------------------------------------------------------------- harness state

var frontNames = []string{"gate-1", "gate-2"}

type handle struct {
	svc string // service the object lives in ("" = pure layer)
	bs  *cs.BackSession
}

type world struct {
	h *hx.T
	n *node.Node

	total map[string]uint32 // connections ever opened per front (process lifetime)
	base  map[string]uint32 // real netId = base + ordinal (per case)
	conns map[string]*node.Client
	nOpen map[string]int // ordinals handed out per front in this case

	handles map[string]*handle
	pfronts map[string]*cs.FrontSession // pure layer, key "name#ord"
	parked  map[string]*parkedH
	relay   map[string]string
	atClose map[string]string // connection key -> its map as the close handler saw it (since the last op)

	mu   sync.Mutex
	recs map[int]*rec
	seq  int
}

var w *world

// rec collects what one script execution observed (written by handler code on
// a service goroutine, read by the harness after quiescence).
type rec struct {
	mu     sync.Mutex
	head   string
	out    []string
	done   bool
	starts int
}

func (r *rec) add(s string) {
	r.mu.Lock()
	r.out = append(r.out, s)
	r.mu.Unlock()
}

func (w *world) newRec() (int, *rec) {
	w.mu.Lock()
	defer w.mu.Unlock()
	w.seq++
	r := &rec{}
	w.recs[w.seq] = r
	return w.seq, r
}

func (w *world) getRec(q int) *rec {
	w.mu.Lock()
	defer w.mu.Unlock()
	return w.recs[q]
}

func (w *world) dropRec(q int) {
	w.mu.Lock()
	delete(w.recs, q)
	w.mu.Unlock()
}

// `room` is a service type nobody registered a route rule for: app.defaultRoute sends its messages to the first
// WORKING member of the type (in the order of the last topology update), whatever the session holds
var svcTypes = map[string]string{"gate-1": "gate", "gate-2": "gate", "chat-1": "chat", "chat-2": "chat", "room-1": "room", "room-2": "room"}

const fullTopology = "gate-1:1,gate-2:1,chat-1:1,chat-2:1,room-1:1,room-2:1"

func (w *world) setTopology(spec string) {
	var ms []*cluster.Member
	for _, e := range strings.Split(spec, ",") {
		p := strings.SplitN(e, ":", 2)
		ty, ok := svcTypes[p[0]]
		if !ok || len(p) != 2 {
			continue
		}
		st, _ := strconv.Atoi(p[1])
		ms = append(ms, &cluster.Member{Id: "c@n-" + p[0], Host: "h", Port: 1, State: st, Services: []string{ty + "." + p[0]}})
	}
	w.n.SetTopology(ms)
	w.n.Wait()
}

// ordinal of a real connection id of a front in the current case
func (w *world) ordTok(front string, real float64, norm bool) string {
	b, ok := w.base[front]
	o := real - float64(b)
	if !ok || o != math.Trunc(o) || o < 1 || o > 1000 {
		if norm {
			return "f" + strconv.FormatFloat(real, 'g', -1, 64)
		}
		return "u" + strconv.FormatFloat(real, 'f', 0, 64)
	}
	if norm {
		return "nf" + strconv.Itoa(int(o))
	}
	return "n" + strconv.Itoa(int(o))
}

func (w *world) realNet(front string, ord int) uint32 { return w.base[front] + uint32(ord) }

// canonical token of a value stored under key k of a session of `front`
func (w *world) valTok(front, k string, v interface{}) string {
	if k == cs.KeyNetId {
		switch x := v.(type) {
		case uint32:
			return w.ordTok(front, float64(x), false)
		case float64:
			return w.ordTok(front, x, true)
		}
	}
	return tokOf(v)
}

// canonical token of a session's ToJson() text
func (w *world) jsonTok(front, js string) string {
	var m map[string]interface{}
	if js == "" || json.Unmarshal([]byte(js), &m) != nil || m == nil {
		return "!"
	}
	keys := make([]string, 0, len(m))
	for k := range m {
		keys = append(keys, k)
	}
	sort.Strings(keys)
	parts := make([]string, 0, len(m))
	for _, k := range keys {
		parts = append(parts, hk(k)+":"+w.valTok(front, k, m[k]))
	}
	return "M{" + strings.Join(parts, ",") + "}"
}

// ---------------------------------------------------------------- script interpreter (runs inside handlers)

type absent struct{}

func frontOf(s cs.IServerSession, nsName string) string {
	if b, ok := s.(*cs.BackSession); ok {
		return b.ServerId
	}
	if nsName == "" {
		return pureFront
	}
	return nsName
}

// runScript executes ops[i:] on session s; push/query continue in their
// callbacks.  Every op is guarded: a panic of the code under test is the
// observation "panic".
func runScript(nsName string, get func() cs.IServerSession, ops []string, i int, r *rec, done func()) {
	// `busy`: the front-end of the session is busy (inside a task of its own) until this turn of the handler
	// ends, so everything the handler sends to it in this turn is waiting in its mailbox and is handled in
	// one go, in order, BEFORE anything the front-end posts to itself meanwhile (the removal of a session
	// whose socket was closed)
	var release []chan struct{}
	defer func() {
		for _, c := range release {
			close(c)
		}
	}()
	for ; i < len(ops); i++ {
		// a handler re-reads its session from its context on every step (also when it resumes after a callback)
		s := get()
		f := strings.Split(ops[i], "/")
		async := false
		res := hx.Guard(func() string {
			switch f[0] {
			case "get":
				k := unhex(f[1])
				v := s.Get(k, absent{})
				if _, no := v.(absent); no {
					return "-"
				}
				return w.valTok(frontOf(s, nsName), k, v)
			case "set":
				raw := f[2]
				if j := strings.IndexByte(raw, '~'); j >= 0 {
					raw = raw[:j]
				}
				v, _ := parseTok(raw)
				s.Set(unhex(f[1]), v)
				return "ok"
			case "bind":
				s.Bind(unhex(f[1]))
				return "ok"
			case "id":
				return "s" + hk(s.GetID())
			case "json":
				return w.jsonTok(frontOf(s, nsName), s.ToJson())
			case "keep":
				b, ok := s.(*cs.BackSession)
				if !ok || nsName == "" {
					return "nokeep"
				}
				for _, h := range w.handles {
					if h.bs == b {
						return "nokeep"
					}
				}
				w.handles[f[1]] = &handle{svc: nsName, bs: b}
				return "ok"
			case "clone": // cs.CloneBackSession: a new session object for the same connection, kept under a handle
				b, ok := s.(*cs.BackSession)
				if !ok || nsName == "" || w.handles[f[1]] != nil {
					return "nokeep"
				}
				c := cs.CloneBackSession(b)
				w.handles[f[1]] = &handle{svc: nsName, bs: c}
				return "ok"
			case "busy":
				if nsName == "" {
					return "nons"
				}
				if b, ok := s.(*cs.BackSession); ok && isFront(b.ServerId) && b.ServerId != nsName {
					if ns := w.n.Service(b.ServerId); ns != nil {
						started, rel := make(chan struct{}), make(chan struct{})
						ns.GetRunService().GetScheduler().Post(func() { close(started); <-rel })
						<-started
						release = append(release, rel)
					}
				}
				return "ok"
			case "kick": // IServerSession.Kick: the front-end closes the connection's socket; the removal is queued
				if nsName == "" {
					return "nons"
				}
				s.Kick()
				return "ok"
			case "pushnw": // PushSession(nil): not waited for, the handler goes on in the same turn
				if nsName == "" {
					return "nons"
				}
				s.PushSession(nil)
				return "ok"
			case "push", "query":
				if nsName == "" {
					return "nons"
				}
				async = true
				idx, calls := i, 0
				cb := func(err error) {
					calls++
					if calls > 1 {
						r.add("CALLBACK-TWICE")
						return
					}
					if err != nil {
						r.add("err")
					} else {
						r.add("ok")
					}
					runScript(nsName, get, ops, idx+1, r, done)
				}
				if f[0] == "push" {
					s.PushSession(cb)
				} else {
					s.QuerySession(cb)
				}
				return ""
			// ---- pure layer only
			case "pushto": // F.Data.UpdateFromJson(B.NewData.ToJson())
				b, fs := s.(*cs.BackSession), w.pfronts[f[1]+"#"+f[2]]
				if b == nil || fs == nil {
					return "bad-op"
				}
				fs.Data.UpdateFromJson(b.NewData.ToJson())
				return "ok"
			case "from": // B.FromJson(F.ToJson())
				b, fs := s.(*cs.BackSession), w.pfronts[f[1]+"#"+f[2]]
				if b == nil || fs == nil {
					return "bad-op"
				}
				b.FromJson(fs.ToJson())
				return "ok"
			case "updraw": // malformed push payload
				fs, ok := s.(*cs.FrontSession)
				if !ok {
					return "bad-op"
				}
				fs.Data.UpdateFromJson([]byte(unhex(f[1])))
				return "ok"
			case "fromraw": // malformed query answer
				b, ok := s.(*cs.BackSession)
				if !ok {
					return "bad-op"
				}
				b.FromJson(unhex(f[1]))
				return "ok"
			}
			return "bad-op"
		})
		if async && res == "" {
			return // the callback continues (or never comes: the script stalls)
		}
		r.add(res)
	}
	r.mu.Lock()
	r.done = true
	r.mu.Unlock()
	if done != nil {
		done()
	}
}

// ---------------------------------------------------------------- handler zoo

type zooArg struct {
	Q int    `json:"q"`
	S string `json:"s"`
	P string `json:"p"` // park: run S, then suspend under this tag without answering
}

// parkedH is a suspended handler: it holds its CONTEXT (not the session) and its completion
// function, like application code that resumes after a timer / nested request / posted closure.
type parkedH struct {
	svc   string
	ctx   *impls.HandlerContext
	cb    apientry.HandlerCBFunc
	conn  string
	mid   uint
	front bool
}
type zooRet struct {
	Q int `json:"q"`
}

// ZooEntry is registered for both service types.
type ZooEntry struct {
	api.APIEntry
}

func header(ctx *impls.HandlerContext, nsName string) string {
	if b, ok := ctx.Session.(*cs.BackSession); ok {
		id := hx.Guard(func() string { return "s" + hk(b.GetID()) })
		return fmt.Sprintf("at=%s uid=%s front=%s conn=%s", nsName, id, b.ServerId, w.ordTok(b.ServerId, float64(b.NetId), false))
	}
	return fmt.Sprintf("at=%s local", nsName)
}

func split(s string) []string {
	if s == "" {
		return nil
	}
	return strings.Split(s, ";")
}

func (e *ZooEntry) Run(ctx *impls.HandlerContext, a *zooArg, cb apientry.HandlerCBFunc) {
	ns := node.NSOf(ctx)
	r := w.getRec(a.Q)
	if r == nil {
		return
	}
	r.mu.Lock()
	r.starts++
	r.head = header(ctx, ns.Name)
	r.mu.Unlock()
	runScript(ns.Name, ctx.GetSession, split(a.S), 0, r, func() {
		if a.P != "" {
			_, isFront := ctx.GetSession().(*cs.FrontSession)
			w.parked[a.P] = &parkedH{svc: ns.Name, ctx: ctx, cb: cb, front: isFront}
			return
		}
		apientry.CheckInvokeCBFunc(cb, nil, &zooRet{Q: a.Q})
	})
}

func (e *ZooEntry) Tell(ctx *impls.HandlerContext, a *zooArg) {
	ns := node.NSOf(ctx)
	r := w.getRec(a.Q)
	if r == nil {
		return
	}
	r.mu.Lock()
	r.starts++
	r.head = header(ctx, ns.Name)
	r.mu.Unlock()
	runScript(ns.Name, ctx.GetSession, split(a.S), 0, r, nil)
}

// spy wraps the client session a FrontSession answers through: it records the connection's map at
// the moment the front relays a response (everything pushed before the answer must already be there)
type spy struct {
	cs.IClientSession
	fs    *cs.FrontSession
	front string
	key   string
}

func (s *spy) ResponseMID(mid uint, v interface{}, e error) error {
	tok := w.jsonTok(s.front, s.fs.ToJson())
	w.mu.Lock()
	w.relay[s.key+":"+strconv.Itoa(int(mid))] = tok
	w.mu.Unlock()
	return s.IClientSession.ResponseMID(mid, v, e)
}

func (w *world) takeRelay(key string, mid uint) string {
	w.mu.Lock()
	defer w.mu.Unlock()
	k := key + ":" + strconv.Itoa(int(mid))
	v, ok := w.relay[k]
	delete(w.relay, k)
	if !ok {
		return "MISSING"
	}
	return v
}

// stub client session for the pure layer's real NewFrontSession
type stubClient struct{ id uint32 }

func (s *stubClient) Reserve()                                           {}
func (s *stubClient) GetId() uint32                                      { return s.id }
func (s *stubClient) SetId(id uint32)                                    { s.id = id }
func (s *stubClient) Push(route string, v interface{}) error             { return nil }
func (s *stubClient) ResponseMID(mid uint, v interface{}, e error) error { return nil }
func (s *stubClient) Close()                                             {}
func (s *stubClient) IsClosed() bool                                     { return false }

// ---------------------------------------------------------------- op interpreter

func (r *rec) render() string {
	r.mu.Lock()
	defer r.mu.Unlock()
	s := strings.Join(r.out, ";")
	if !r.done {
		if s != "" {
			s += ";"
		}
		s += "STALL"
	}
	if r.starts > 1 {
		s += ";RAN-TWICE"
	}
	return s
}

// exec interprets one op line; whatever the close handlers of connections removed during the op saw is
// appended (` closed=<conn>=<map>|...`), and connections the server closed are forgotten
func exec(op string) string {
	obs := exec1(op)
	w.mu.Lock()
	var keys []string
	for k := range w.atClose {
		keys = append(keys, k)
	}
	sort.Strings(keys)
	var parts []string
	for _, k := range keys {
		parts = append(parts, k+"="+w.atClose[k])
	}
	w.atClose = map[string]string{}
	w.mu.Unlock()
	for k, c := range w.conns {
		if c.Closed() {
			delete(w.conns, k)
		}
	}
	if len(parts) > 0 && obs != "unguarded" && !strings.HasPrefix(op, "reset") {
		obs += " closed=" + strings.Join(parts, "|")
	}
	return obs
}

// noteClose is what every connection's close callback does first
func noteClose(front, key string, fs *cs.FrontSession) {
	tok := hx.Guard(func() string { return w.jsonTok(front, fs.ToJson()) })
	w.mu.Lock()
	w.atClose[key] = tok
	w.mu.Unlock()
}

// reqObs: what a finished (not suspended) client request reports — where the handler ran and with which
// envelope, the statement results, the answer, the connection's map when the front relayed the answer
func (w *world) reqObs(c *node.Client, ckey string, q int, r *rec) string {
	resp := "none"
	for _, m := range c.Take() {
		if m.Kind == "response" && m.ID == uint(1+q%60000) {
			if resp != "none" {
				resp = "TWICE"
			} else if m.Err {
				resp = "err"
			} else {
				resp = "ok"
			}
		}
	}
	r.mu.Lock()
	head, starts := r.head, r.starts
	r.mu.Unlock()
	if starts == 0 {
		return "at=none resp=" + resp
	}
	relay := "-"
	if resp == "ok" {
		relay = w.takeRelay(ckey, uint(1+q%60000))
	}
	return head + " r=" + r.render() + " resp=" + resp + " relay=" + relay
}

func connKey(front string, ord int) string { return front + "#" + strconv.Itoa(ord) }

func isFront(name string) bool {
	for _, f := range frontNames {
		if f == name {
			return true
		}
	}
	return false
}

func exec1(op string) string {
	ws := hx.Words(op)
	if len(ws) == 0 {
		return "bad-op"
	}
	if strings.HasPrefix(ws[0], "u.") {
		// unguarded stream: reserved keys written by handlers.  Outside the
		// property's guard; the behaviour is recorded in the histogram only.
		obs := exec1(op[2:])
		cat := "other"
		switch {
		case strings.Contains(obs, "panic"):
			cat = "panic"
		case strings.Contains(obs, "STALL"):
			cat = "stall"
		case strings.Contains(obs, "resp=none") && strings.Contains(op, "ntf=0"):
			cat = "request-unanswered"
		case strings.Contains(obs, "err"):
			cat = "err"
		default:
			cat = "completed"
		}
		w.h.Count("unguarded." + ws[0][2:] + "." + cat)
		return "unguarded"
	}
	n := w.n
	kv := func(k string) string { v, _ := hx.KV(ws, k); return v }
	switch ws[0] {
	case "reset":
		for k, c := range w.conns {
			c.Close()
			delete(w.conns, k)
		}
		n.Wait()
		for _, f := range frontNames {
			w.base[f] = w.total[f] + 1
			w.nOpen[f] = 0
		}
		w.setTopology(fullTopology)
		w.handles = map[string]*handle{}
		w.pfronts = map[string]*cs.FrontSession{}
		w.parked = map[string]*parkedH{}
		w.mu.Lock()
		w.relay = map[string]string{}
		w.recs = map[int]*rec{}
		w.atClose = map[string]string{}
		w.mu.Unlock()
		return "ok"

	case "open":
		f := kv("f")
		if !isFront(f) {
			return "bad-op"
		}
		c := n.Connect(f)
		if !c.Open() {
			return "fail"
		}
		c.Take()
		w.total[f]++
		w.nOpen[f]++
		if c.NetId() != w.realNet(f, w.nOpen[f]) {
			w.h.Count("ASSUMPTION-BROKEN.netid-sequence")
		}
		key := connKey(f, w.nOpen[f])
		w.conns[key] = c
		n.RunOn(f, func(ns *service.NodeService) {
			if fs := n.Sessions(f).GetSession(c.NetId()); fs != nil {
				fs.Session = &spy{IClientSession: fs.Session, fs: fs, front: f, key: key}
			}
			// the application's per-connection close callback: it looks at the session's data
			impls.AddOnSessionOnClose(ns, c.NetId(), func(_ *service.NodeService, fs *cs.FrontSession) { noteClose(f, key, fs) })
		})
		return w.ordTok(f, float64(c.NetId()), false)

	case "openreq":
		// a client connects while the front-end is BUSY (inside a task of its own) and sends its first message at
		// once: the connection's reader goroutine hands over OnSessionCreate and then the message while the
		// front-end has not yet registered the session (AddSession is still queued); the front-end then runs both,
		// in the order they were posted.  Observation: the connection id, then what `req` reports.
		f := kv("f")
		// `cl=1`: the client hangs up right behind its first message (the reader sees EOF: Close(), RemoveSession is
		// queued behind the message task).  Only for a front-local first message: a forwarded one would race the
		// queued removal against what the back-end handler sends.
		hangup := kv("cl") == "1"
		if !isFront(f) || (hangup && svcTypes[f] != kv("svc")) {
			return "bad-op"
		}
		sched := n.Service(f).GetRunService().GetScheduler()
		started, rel := make(chan struct{}), make(chan struct{})
		sched.Post(func() { close(started); <-rel })
		<-started
		released := false
		release := func() {
			if !released {
				released = true
				close(rel)
				n.Wait()
			}
		}
		defer release()
		c := n.Connect(f)
		early := c.NetId() // 0 as long as the front-end has not registered the session
		key := connKey(f, w.nOpen[f]+1)
		// queued right behind AddSession, before the first message (what `open` does after the fact)
		sched.Post(func() {
			if fs := n.Sessions(f).GetSession(c.NetId()); fs != nil {
				fs.Session = &spy{IClientSession: fs.Session, fs: fs, front: f, key: key}
			}
			impls.AddOnSessionOnClose(n.Service(f), c.NetId(), func(_ *service.NodeService, fs *cs.FrontSession) { noteClose(f, key, fs) })
		})
		if !c.Open() {
			return "fail"
		}
		q, r := w.newRec()
		defer w.dropRec(q)
		arg, _ := json.Marshal(&zooArg{Q: q, S: kv("s")})
		ntf := kv("ntf") == "1"
		if ntf {
			c.Notify(kv("svc")+".zoo.tell", arg)
		} else {
			c.Request(uint(1+q%60000), kv("svc")+".zoo.run", arg)
		}
		if hangup {
			c.Close()
		}
		r.mu.Lock()
		if early != 0 || r.starts != 0 || c.NetId() != 0 {
			w.h.Count("ASSUMPTION-BROKEN.openreq-front-not-busy")
		}
		r.mu.Unlock()
		release()
		w.total[f]++
		w.nOpen[f]++
		if c.NetId() != w.realNet(f, w.nOpen[f]) {
			w.h.Count("ASSUMPTION-BROKEN.netid-sequence")
		}
		w.conns[key] = c
		w.h.Count("openreq." + svcTypes[f] + "->" + kv("svc") + map[bool]string{true: ".hangup", false: ""}[hangup])
		return w.ordTok(f, float64(c.NetId()), false) + " " + w.reqObs(c, key, q, r)

	case "close":
		key := connKey(kv("f"), hx.KVInt(ws, "n"))
		c := w.conns[key]
		if c == nil {
			return "closed"
		}
		// close callbacks of the application: benign, panicking (recovered by the owner's scheduler),
		// per connection (AddOnSessionOnClose) or the sessions' own handler (SetOnCloseHandler)
		front := kv("f")
		switch cb := kv("cb"); cb {
		case "ok", "panic":
			n.RunOn(front, func(ns *service.NodeService) {
				impls.AddOnSessionOnClose(ns, c.NetId(), func(_ *service.NodeService, fs *cs.FrontSession) {
					noteClose(front, key, fs)
					if cb == "panic" {
						panic("verif: close callback panics")
					}
				})
			})
		case "glob":
			n.RunOn(front, func(ns *service.NodeService) {
				n.Sessions(front).SetOnCloseHandler(func(_ *service.NodeService, fs *cs.FrontSession) {
					panic("verif: sessions close handler panics")
				})
			})
		}
		c.Close()
		n.Wait()
		if kv("cb") == "glob" {
			n.RunOn(front, func(ns *service.NodeService) { n.Sessions(front).SetOnCloseHandler(nil) })
		}
		delete(w.conns, key)
		return "ok"

	case "req", "park":
		tag := ""
		if ws[0] == "park" {
			tag = kv("t")
			if tag == "" || hasKeep(kv("s")) || w.parked[tag] != nil {
				return "bad-op"
			}
		}
		ckey := connKey(kv("f"), hx.KVInt(ws, "n"))
		c := w.conns[ckey]
		if c == nil {
			return "closed"
		}
		q, r := w.newRec()
		defer w.dropRec(q)
		arg, _ := json.Marshal(&zooArg{Q: q, S: kv("s"), P: tag})
		ntf := kv("ntf") == "1" && tag == ""
		if ntf {
			c.Notify(kv("svc")+".zoo.tell", arg)
		} else {
			c.Request(uint(1+q%60000), kv("svc")+".zoo.run", arg)
		}
		n.Wait()
		resp := "none"
		for _, m := range c.Take() {
			if m.Kind == "response" && m.ID == uint(1+q%60000) {
				if resp != "none" {
					resp = "TWICE"
				} else if m.Err {
					resp = "err"
				} else {
					resp = "ok"
				}
			}
		}
		r.mu.Lock()
		head, starts := r.head, r.starts
		r.mu.Unlock()
		if starts == 0 {
			return "at=none resp=" + resp
		}
		if tag != "" {
			if p := w.parked[tag]; p != nil {
				p.conn, p.mid = ckey, uint(1+q%60000)
				if resp == "none" {
					resp = "parked"
				}
			}
			return head + " r=" + r.render() + " resp=" + resp
		}
		relay := "-"
		if resp == "ok" {
			relay = w.takeRelay(ckey, uint(1+q%60000))
		}
		return head + " r=" + r.render() + " resp=" + resp + " relay=" + relay

	case "resume":
		p := w.parked[kv("t")]
		if p == nil {
			return "noparked"
		}
		delete(w.parked, kv("t"))
		if hasKeep(kv("s")) {
			return "bad-op"
		}
		c := w.conns[p.conn]
		if p.front && c == nil {
			return "closed"
		}
		_, r := w.newRec()
		n.RunOn(p.svc, func(ns *service.NodeService) {
			// the handler resumes: it re-reads its session from ITS context and finally answers
			runScript(p.svc, p.ctx.GetSession, split(kv("s")), 0, r, func() {
				apientry.CheckInvokeCBFunc(p.cb, nil, &zooRet{})
			})
		})
		n.Wait()
		if c == nil {
			return "r=" + r.render() + " resp=gone relay=-"
		}
		resp := "none"
		for _, m := range c.Take() {
			if m.Kind == "response" && m.ID == p.mid {
				if resp != "none" {
					resp = "TWICE"
				} else if m.Err {
					resp = "err"
				} else {
					resp = "ok"
				}
			}
		}
		relay := "-"
		if resp == "ok" {
			relay = w.takeRelay(p.conn, p.mid)
		}
		return "r=" + r.render() + " resp=" + resp + " relay=" + relay

	case "mk":
		svc, h := kv("at"), kv("h")
		if n.Service(svc) == nil || w.handles[h] != nil {
			return "bad-op"
		}
		sid := kv("f")
		net := w.realNet(sid, hx.KVInt(ws, "n"))
		if !isFront(sid) {
			net = uint32(hx.KVInt(ws, "n"))
		}
		n.RunOn(svc, func(ns *service.NodeService) {
			w.handles[h] = &handle{svc: svc, bs: cs.NewBackSession(ns, sid, net, unhex(kv("uid")))}
		})
		return "ok"

	case "on":
		h := w.handles[kv("h")]
		if h == nil || h.svc == "" {
			return "nohandle"
		}
		_, r := w.newRec()
		n.RunOn(h.svc, func(ns *service.NodeService) {
			runScript(h.svc, constSess(h.bs), split(kv("s")), 0, r, nil)
		})
		n.Wait()
		return "r=" + r.render()

	case "topo":
		// Cluster.UpdateClusterTopology: one member per listed service, published with the given node
		// state (0 Init, 1 Working, 2 Retiring, 3 Retired); services not listed are not in the view
		w.setTopology(kv("m"))
		return "ok"

	case "snap":
		var parts []string
		for _, f := range frontNames {
			type ent struct {
				id uint32
				js string
			}
			var ents []ent
			n.RunOn(f, func(ns *service.NodeService) {
				n.Sessions(f).VisitSession(func(fs *cs.FrontSession) {
					ents = append(ents, ent{fs.Session.GetId(), fs.ToJson()})
				})
			})
			sort.Slice(ents, func(i, j int) bool { return ents[i].id < ents[j].id })
			for _, e := range ents {
				parts = append(parts, f+"#"+strings.TrimPrefix(w.ordTok(f, float64(e.id), false), "n")+"="+w.jsonTok(f, e.js))
			}
		}
		return "snap " + strings.Join(parts, " ")

	// ---- pure layer: bare objects
	case "p.mkf":
		f, ord := kv("f"), hx.KVInt(ws, "n")
		if isFront(f) {
			return "bad-op"
		}
		w.base[f] = 0
		w.pfronts[connKey(f, ord)] = cs.NewFrontSession(f, &stubClient{id: uint32(ord)})
		return "ok"
	case "p.mkb":
		if w.handles[kv("h")] != nil {
			return "bad-op"
		}
		w.handles[kv("h")] = &handle{bs: cs.NewBackSession(nil, kv("f"), uint32(hx.KVInt(ws, "n")), unhex(kv("uid")))}
		return "ok"
	case "p.on":
		var s cs.IServerSession
		front := kv("f")
		if h := kv("h"); h != "" {
			hd := w.handles[h]
			if hd == nil || hd.svc != "" {
				return "nohandle"
			}
			s = hd.bs
		} else {
			fs := w.pfronts[connKey(front, hx.KVInt(ws, "n"))]
			if fs == nil {
				return "nohandle"
			}
			s = fs
		}
		r := &rec{}
		// nsName "" marks the pure layer; for a pure front session its own name resolves `_NetId`
		if _, ok := s.(*cs.FrontSession); ok {
			runScriptPure(front, s, split(kv("s")), r)
		} else {
			runScriptPure("", s, split(kv("s")), r)
		}
		return "r=" + r.render()
	}
	return "bad-op"
}

// runScriptPure: as runScript, without a node (push/query answer "nons").
func runScriptPure(front string, s cs.IServerSession, ops []string, r *rec) {
	if _, ok := s.(*cs.FrontSession); ok {
		// frontOf falls back to nsName for front sessions; keep "" semantics for push/query
		pureFront = front
		defer func() { pureFront = "" }()
	}
	runScript("", constSess(s), ops, 0, r, nil)
}

func constSess(s cs.IServerSession) func() cs.IServerSession {
	return func() cs.IServerSession { return s }
}

func hasKeep(script string) bool { return strings.Contains(script, "keep/") }

var pureFront string

// ---------------------------------------------------------------- generator

type gen struct {
	h       *hx.T
	open    map[string][]int // live ordinals per front
	nOpen   map[string]int
	handles []string
	nh      int
	sets    map[string][]string // handle -> the set statements it ran so far
	target  map[string]string   // handle -> "front#ord" it addresses
}

// remember records the set/bind statements of a script under the handle that ran it
func (g *gen) remember(h, script string) {
	for _, o := range strings.Split(script, ";") {
		if strings.HasPrefix(o, "set/") || strings.HasPrefix(o, "bind/") {
			g.sets[h] = append(g.sets[h], o)
		}
	}
}

// withClone inserts a `clone/<new handle>` statement at a random statement boundary of a back-end script
func (g *gen) withClone(sc, target string) string {
	g.nh++
	hn := "h" + strconv.Itoa(g.nh)
	g.handles = append(g.handles, hn)
	g.target[hn] = target
	g.h.Count("sop.clone")
	parts := strings.Split(sc, ";")
	i := g.h.R.Intn(len(parts) + 1)
	parts = append(parts[:i], append([]string{"clone/" + hn}, parts[i:]...)...)
	return strings.Join(parts, ";")
}

func keptHandle(script string) string {
	for _, o := range strings.Split(script, ";") {
		if strings.HasPrefix(o, "keep/") {
			return o[5:]
		}
	}
	return ""
}

// user keys: plain, unicode, empty / blank-ish, and keys that merely LOOK reserved (leading underscore,
// other case, reserved name plus a suffix).  The reserved names themselves (`_ServerId`, `_NetId`) are
// outside the guard and only written in the unguarded stream.
var keyPool = []string{"k", "level", "名前", "a.b", "<&>", "", "ключ", "k2", "x y",
	"_", "_x", "__", "_zone", "_id", "_Id", "_NetId2", "_serverid", "_ID_", " ", "\u00a0", "é", "_名"}

func (g *gen) key() string {
	r := g.h.R
	switch r.Intn(10) {
	case 0, 1:
		return "chatid"
	case 2:
		return cs.KeyUId
	}
	return keyPool[r.Intn(len(keyPool))]
}

// value draws a Go value: JSON-representable scalars, nested lists/maps, large
// ints (float64 normalisation), strings with invalid UTF-8 / HTML characters.
func (g *gen) value(depth int) interface{} {
	r := g.h.R
	switch r.Intn(16) {
	case 0:
		return nil
	case 1:
		return r.Intn(2) == 0
	case 2:
		return r.Intn(100)
	case 3:
		return -r.Intn(1000)
	case 4: // ints around 2^53: not exactly representable as float64
		g.h.Count("val.bigint")
		return []int{1<<53 + 1, 1<<53 - 1, 1 << 53, 1<<62 + 12345, -(1<<53 + 1), 1<<63 - 1}[r.Intn(6)]
	case 5:
		return int64(r.Int63()) >> uint(r.Intn(63))
	case 6:
		return uint32(r.Uint32())
	case 7:
		return []float64{0, 1.5, -2.25, 1e21, 1e-7, 3, 0.1, 1e300, math.Copysign(0, -1)}[r.Intn(9)]
	case 8:
		return float32(1.1)
	case 9:
		return []string{"", "a", "chat-1", "héllo", "日本", "<b>&", "\xff\xfe", "a\x00b", " ", "tab\there"}[r.Intn(10)]
	case 10:
		if depth < 2 {
			g.h.Count("val.list")
			n := r.Intn(4)
			l := make([]interface{}, n)
			for i := range l {
				l[i] = g.value(depth + 1)
			}
			return l
		}
	case 11:
		if depth < 2 {
			g.h.Count("val.map")
			n := r.Intn(3)
			m := map[string]interface{}{}
			for i := 0; i < n; i++ {
				m[keyPool[r.Intn(len(keyPool))]] = g.value(depth + 1)
			}
			return m
		}
	case 12:
		return []int{1, 2, 1<<53 + 1}[:r.Intn(4)]
	}
	return "v" + strconv.Itoa(r.Intn(50))
}

func valField(v interface{}) string {
	raw, nrm := tokOf(v), normTok(v)
	if raw != nrm {
		w.h.Count("val.norm-changes")
	}
	// the model's assumption: norm is idempotent
	if nrm != "!" {
		nv, _ := parseTok(nrm)
		if normTok(nv) != nrm {
			w.h.Count("ASSUMPTION-BROKEN.norm-idempotent")
		}
		if rv, _ := parseTok(raw); tokOf(rv) != raw {
			w.h.Count("ASSUMPTION-BROKEN.token-roundtrip")
		}
	}
	return raw + "~" + nrm
}

var uids = []string{"u1", "u2", "user-3", "ユーザ", ""}

func (g *gen) setOp(front bool) string {
	r := g.h.R
	k := g.key()
	var v interface{}
	switch k {
	case "chatid":
		switch r.Intn(12) {
		case 0:
			v = "chat-9" // unknown instance
		case 1:
			v = 7 // not a string
		case 2:
			v = ""
		case 3:
			if r.Intn(4) == 0 {
				g.h.Count("set.chatid.wrong-type-service")
				v = "gate-2" // a known service of another type: the forwarded message is dropped there
			} else {
				v = "chat-2"
			}
		default:
			v = []string{"chat-1", "chat-2"}[r.Intn(2)]
		}
	case cs.KeyUId:
		if r.Intn(8) == 0 {
			g.h.Count("set._ID.nonstring")
			v = 5
		} else {
			v = uids[r.Intn(len(uids))]
		}
	default:
		v = g.value(0)
		if r.Intn(60) == 0 {
			g.h.Count("val.unrepresentable")
			v = []interface{}{math.NaN(), math.Inf(1)}[r.Intn(2)]
		}
	}
	return "set/" + hk(k) + "/" + valField(v)
}

// script draws a handler script for a front (local) or back session.
func (g *gen) script(front bool, canKeep bool) string {
	r := g.h.R
	n := 1 + r.Intn(6)
	var ops []string
	for i := 0; i < n; i++ {
		var o string
		switch x := r.Intn(20); {
		case x < 6:
			o = g.setOp(front)
		case x < 8:
			o = "bind/" + hk(uids[r.Intn(len(uids))])
		case x < 11:
			o = "get/" + hk(g.key())
		case x == 11:
			o = "get/" + hk([]string{cs.KeyNetId, cs.KeyServerId}[r.Intn(2)])
		case x < 13:
			o = "push"
		case x < 15:
			o = "pushnw"
		case x < 17:
			o = "query"
		case x == 17:
			o = "id"
		case x == 18 && canKeep && !front:
			g.nh++
			hn := "h" + strconv.Itoa(g.nh)
			g.handles = append(g.handles, hn)
			o = "keep/" + hn
			canKeep = false
		default:
			o = "json"
		}
		g.h.Count("sop." + strings.SplitN(o, "/", 2)[0])
		ops = append(ops, o)
	}
	return strings.Join(ops, ";")
}

// topology draws a cluster view: every service usually a member, in a random node state
// (the fronts mostly NOT Working); now and then a service is missing
func (g *gen) topology() string {
	r := g.h.R
	if r.Intn(4) == 0 {
		g.h.Count("topo.full-working")
		return fullTopology
	}
	var parts []string
	names := []string{"gate-1", "gate-2", "chat-1", "chat-2", "room-1", "room-2"}
	if r.Intn(3) == 0 { // the members come in another order: the default route takes the first Working one
		g.h.Count("topo.rooms-swapped")
		names = []string{"room-2", "gate-1", "gate-2", "chat-1", "chat-2", "room-1"}
	}
	for _, s := range names {
		if r.Intn(9) == 0 {
			g.h.Count("topo.away." + svcTypes[s])
			continue
		}
		st := r.Intn(4)
		if svcTypes[s] == "chat" && r.Intn(2) == 0 {
			st = 1
		}
		g.h.Count(fmt.Sprintf("topo.state%d.%s", st, svcTypes[s]))
		parts = append(parts, fmt.Sprintf("%s:%d", s, st))
	}
	return strings.Join(parts, ",")
}

func (g *gen) pickConn(liveBias bool) (string, int) {
	r := g.h.R
	f := frontNames[0]
	if r.Intn(4) == 0 {
		f = frontNames[1]
	}
	if l := g.open[f]; len(l) > 0 && (liveBias || r.Intn(5) > 0) {
		return f, l[r.Intn(len(l))]
	}
	// a closed one, or one that never existed
	if g.nOpen[f] > 0 && r.Intn(2) == 0 {
		return f, 1 + r.Intn(g.nOpen[f])
	}
	return f, 40 + r.Intn(5)
}

func (g *gen) caseOps(nops int) []string {
	r := g.h.R
	g.open = map[string][]int{}
	g.nOpen = map[string]int{}
	g.handles = nil
	g.nh = 0
	g.sets = map[string][]string{}
	g.target = map[string]string{}
	ops := []string{"reset"}
	open := func(f string) {
		g.nOpen[f]++
		g.open[f] = append(g.open[f], g.nOpen[f])
		ops = append(ops, "open f="+f)
	}
	open("gate-1")
	open("gate-1")
	if r.Intn(2) == 0 {
		open("gate-2")
	}
	if r.Intn(2) == 0 {
		open("gate-1")
	}
	// most connections get a chat instance (and often a uid) from a front-local handler first
	for _, f := range frontNames {
		for _, n := range g.open[f] {
			if r.Intn(8) == 0 {
				continue
			}
			sc := "set/" + hk("chatid") + "/" + valField([]string{"chat-1", "chat-2"}[r.Intn(2)])
			if r.Intn(2) == 0 {
				sc += ";bind/" + hk(uids[r.Intn(len(uids))])
			}
			ops = append(ops, fmt.Sprintf("req f=%s n=%d svc=gate ntf=0 s=%s", f, n, sc))
		}
	}
	for i := 0; i < nops; i++ {
		if r.Intn(16) == 0 { // the cluster view changes: node states of the members, sometimes a service leaves
			g.h.Count("op.topo")
			ops = append(ops, "topo m="+g.topology())
			if r.Intn(2) == 0 { // the next message for the rule-less type goes wherever the NEW view says
				f, n := g.pickConn(true)
				ops = append(ops, fmt.Sprintf("req f=%s n=%d svc=room ntf=0 s=%s", f, n, []string{"id", "get/" + hk("chatid"), "set/" + hk("k") + "/" + valField("r") + ";push"}[r.Intn(3)]))
			}
			// a back-end that still holds a session of some connection queries / pushes right away
			if len(g.handles) > 0 && r.Intn(3) > 0 {
				ops = append(ops, fmt.Sprintf("on h=%s s=%s", g.handles[r.Intn(len(g.handles))], []string{"query;json", "set/" + hk("k") + "/" + valField("t") + ";push;query", "query;get/" + hk("chatid")}[r.Intn(3)]))
			}
			continue
		}
		if r.Intn(14) == 0 {
			// a handler suspends (asynchronous step), requests of OTHER connections are handled by the same
			// service type meanwhile, then it resumes, works on "its" session and answers
			f, n := g.pickConn(true)
			svc := []string{"chat", "chat", "gate"}[r.Intn(3)]
			g.nh++
			tag := "t" + strconv.Itoa(g.nh)
			g.h.Count("op.park." + svc)
			ops = append(ops, fmt.Sprintf("park f=%s n=%d svc=%s t=%s s=%s", f, n, svc, tag, strings.ReplaceAll(g.script(svc == "gate", false), "keep/", "get/")))
			for j := 0; j < 1+r.Intn(3); j++ {
				f2, n2 := g.pickConn(true)
				if svc == "gate" {
					f2 = f
					if l := g.open[f]; len(l) > 0 {
						n2 = l[r.Intn(len(l))]
					}
				}
				ops = append(ops, fmt.Sprintf("req f=%s n=%d svc=%s ntf=%d s=%s", f2, n2, svc, hx.B2i(r.Intn(5) == 0), g.script(svc == "gate", false)))
			}
			if r.Intn(8) == 0 {
				ops = append(ops, fmt.Sprintf("close f=%s n=%d", f, n))
				l := g.open[f]
				for i, o := range l {
					if o == n {
						g.open[f] = append(append([]int{}, l[:i]...), l[i+1:]...)
					}
				}
			}
			tail := []string{"push", "pushnw", "push;query;json", "pushnw;id"}[r.Intn(4)]
			ops = append(ops, fmt.Sprintf("resume t=%s s=%s;%s", tag, g.setOp(svc == "gate"), tail), "snap")
			continue
		}
		if r.Intn(14) == 0 {
			// a connection's socket is closed (Kick) while its front-end still has work queued for it: the session
			// is still in the front-end's table until the queued removal runs; what is pushed / queried / set in
			// that window must behave as for any live session, and the close handlers must see the result
			f, n := g.pickConn(true)
			kind := r.Intn(3)
			g.h.Count(fmt.Sprintf("op.kick.kind%d", kind))
			var sc []string
			if kind == 0 { // a front-local handler kicks its own connection and goes on in the same turn
				for j := r.Intn(3); j > 0; j-- {
					sc = append(sc, []string{g.setOp(true), "get/" + hk(g.key()), "bind/" + hk(uids[r.Intn(len(uids))])}[r.Intn(3)])
				}
				sc = append(sc, "kick")
				for j := r.Intn(4); j > 0; j-- {
					sc = append(sc, []string{g.setOp(true), "get/" + hk(g.key()), "json", "id", "kick", "push"}[r.Intn(6)])
				}
				ops = append(ops, fmt.Sprintf("req f=%s n=%d svc=gate ntf=%d s=%s", f, n, hx.B2i(r.Intn(5) == 0), strings.Join(sc, ";")))
			} else {
				// a back-end handler kicks the connection, then sets and pushes without waiting, then (at most once)
				// waits for a push / query: everything reaches the busy front-end as one batch, before the removal
				sc = append(sc, "busy")
				if r.Intn(3) == 0 {
					sc = append(sc, g.setOp(false))
				}
				sc = append(sc, "kick")
				for j := 1 + r.Intn(2); j > 0; j-- {
					sc = append(sc, g.setOp(false), "pushnw")
				}
				if r.Intn(4) == 0 {
					sc = append(sc, g.setOp(false)) // set, never pushed: the close handler must NOT see it
				}
				switch r.Intn(4) {
				case 0:
					sc = append(sc, "push")
				case 1, 2:
					sc = append(sc, "query")
				}
				for j := r.Intn(3); j > 0; j-- {
					sc = append(sc, []string{"json", "get/" + hk(g.key()), "id"}[r.Intn(3)])
				}
				if kind == 1 {
					ops = append(ops, fmt.Sprintf("req f=%s n=%d svc=chat ntf=%d s=%s", f, n, hx.B2i(r.Intn(6) == 0), strings.Join(sc, ";")))
				} else {
					var holders []string
					for _, h := range g.handles {
						if g.target[h] == connKey(f, n) {
							holders = append(holders, h)
						}
					}
					var h string
					if len(holders) > 0 && r.Intn(3) > 0 {
						h = holders[r.Intn(len(holders))]
					} else {
						g.nh++
						h = "h" + strconv.Itoa(g.nh)
						g.handles = append(g.handles, h)
						g.target[h] = connKey(f, n)
						ops = append(ops, fmt.Sprintf("mk h=%s at=%s f=%s n=%d uid=%s", h, []string{"chat-1", "chat-2", "gate-2", "gate-1"}[r.Intn(4)], f, n, hk(uids[r.Intn(len(uids))])))
					}
					g.remember(h, strings.Join(sc, ";"))
					ops = append(ops, fmt.Sprintf("on h=%s s=%s", h, strings.Join(sc, ";")))
				}
			}
			l := g.open[f]
			for i, o := range l {
				if o == n {
					g.open[f] = append(append([]int{}, l[:i]...), l[i+1:]...)
				}
			}
			ops = append(ops, "snap")
			// afterwards the connection is gone: its own next message, and whoever still holds a session of it
			if r.Intn(2) == 0 {
				ops = append(ops, fmt.Sprintf("req f=%s n=%d svc=%s ntf=0 s=json", f, n, []string{"gate", "chat"}[r.Intn(2)]))
			}
			for _, h := range g.handles {
				if g.target[h] == connKey(f, n) && r.Intn(2) == 0 {
					ops = append(ops, fmt.Sprintf("on h=%s s=%s", h, []string{"set/" + hk("k") + "/" + valField("late") + ";push;query", "query;json", "kick;query"}[r.Intn(3)]))
					break
				}
			}
			continue
		}
		switch x := r.Intn(100); {
		case x < 22: // front-local request
			f, n := g.pickConn(true)
			g.h.Count("op.req.local")
			ops = append(ops, fmt.Sprintf("req f=%s n=%d svc=gate ntf=%d s=%s", f, n, hx.B2i(r.Intn(6) == 0), g.script(true, false)))
		case x < 55: // forwarded request
			f, n := g.pickConn(true)
			g.h.Count("op.req.forward")
			sc := g.script(false, true)
			if h := keptHandle(sc); h != "" {
				g.remember(h, sc)
				g.target[h] = connKey(f, n)
			}
			if r.Intn(8) == 0 {
				sc = g.withClone(sc, connKey(f, n))
			}
			svc := "chat"
			if r.Intn(5) == 0 {
				g.h.Count("op.req.forward.room")
				svc = "room" // no route rule: default route
			}
			ops = append(ops, fmt.Sprintf("req f=%s n=%d svc=%s ntf=%d s=%s", f, n, svc, hx.B2i(r.Intn(6) == 0), sc))
		case x < 72: // a kept / made back session acts later
			if len(g.handles) == 0 {
				continue
			}
			g.h.Count("op.on")
			h := g.handles[r.Intn(len(g.handles))]
			sc := g.script(false, false)
			if prev := g.sets[h]; len(prev) > 0 && r.Intn(5) < 2 {
				// set a key AGAIN to the value this very session set before (someone else may have
				// pushed another value for it meanwhile) and push: the later push must win
				g.h.Count("op.on.reset-same-value")
				sc = prev[r.Intn(len(prev))] + ";push"
				if r.Intn(3) == 0 {
					sc += ";" + g.script(false, false)
				}
			}
			g.remember(h, sc)
			if r.Intn(8) == 0 {
				sc = g.withClone(sc, g.target[h])
			}
			ops = append(ops, fmt.Sprintf("on h=%s s=%s", h, sc))
		case x < 78: // NewBackSession made directly inside a service
			g.nh++
			hn := "h" + strconv.Itoa(g.nh)
			g.handles = append(g.handles, hn)
			f, n := g.pickConn(false)
			if r.Intn(12) == 0 {
				f = "gate-9" // unknown front
				g.h.Count("mk.unknown-front")
			} else if r.Intn(16) == 0 {
				f = "chat-2" // a cluster member that is not a front-end: it has no sys.* entries, push / query / kick fail
				g.h.Count("mk.nonfront-member")
			}
			g.h.Count("op.mk")
			g.target[hn] = connKey(f, n)
			ops = append(ops, fmt.Sprintf("mk h=%s at=%s f=%s n=%d uid=%s", hn, []string{"chat-1", "chat-2", "gate-2", "room-2"}[r.Intn(4)], f, n, hk(uids[r.Intn(len(uids))])))
		case x < 81: // A sets k=v and pushes, B sets k=w and pushes, A sets k=v again and pushes
			f, n := g.pickConn(true)
			g.nh += 2
			a, b := "h"+strconv.Itoa(g.nh-1), "h"+strconv.Itoa(g.nh)
			g.handles = append(g.handles, a, b)
			g.target[a], g.target[b] = connKey(f, n), connKey(f, n)
			k := hk(keyPool[r.Intn(len(keyPool))])
			if r.Intn(3) == 0 {
				k = hk("chatid")
			}
			va, vb := valField([]string{"chat-1", "v-a"}[r.Intn(2)]), valField([]string{"chat-2", "v-b"}[r.Intn(2)])
			if r.Intn(3) == 0 {
				va = valField(g.value(0))
			}
			sa := "set/" + k + "/" + va
			g.h.Count("op.aba")
			ops = append(ops,
				fmt.Sprintf("mk h=%s at=chat-1 f=%s n=%d uid=", a, f, n),
				fmt.Sprintf("mk h=%s at=chat-2 f=%s n=%d uid=", b, f, n),
				fmt.Sprintf("on h=%s s=%s;push", a, sa),
				fmt.Sprintf("on h=%s s=set/%s/%s;push", b, k, vb),
				fmt.Sprintf("on h=%s s=%s;push", a, sa), "snap")
			g.remember(a, sa)
			g.remember(b, "set/"+k+"/"+vb)
		case x < 87:
			f, n := g.pickConn(true)
			l := g.open[f]
			for i, o := range l {
				if o == n {
					g.open[f] = append(append([]int{}, l[:i]...), l[i+1:]...)
				}
			}
			g.h.Count("op.close")
			cb := []string{"", "", "ok", "panic", "panic", "glob"}[r.Intn(6)]
			if cb != "" {
				g.h.Count("op.close.cb=" + cb)
				cb = " cb=" + cb
			}
			ops = append(ops, fmt.Sprintf("close f=%s n=%d%s", f, n, cb))
			// whoever still holds a session of the closed connection acts right after the close
			var holders []string
			for _, h := range g.handles {
				if g.target[h] == connKey(f, n) {
					holders = append(holders, h)
				}
			}
			if r.Intn(4) > 0 {
				if len(holders) > 0 {
					g.h.Count("op.close.then-dead-push-query")
					ops = append(ops, fmt.Sprintf("on h=%s s=%s", holders[r.Intn(len(holders))], []string{"set/" + hk("k") + "/" + valField("late") + ";push;query", "query;json", "bind/" + hk("u2") + ";push"}[r.Intn(3)]), "snap")
				}
			}
		case x < 91:
			f := frontNames[r.Intn(2)]
			if r.Intn(2) == 0 {
				// a client connects while the front-end is busy and sends its first message at once: the message is
				// handed over by the reader goroutine BEFORE the front-end has registered the connection (AddSession
				// still queued).  It must be handled as a message of exactly that connection: envelope, routing
				// (mostly the rule-less type: a fresh session names no chat instance), the handler's pushes / queries,
				// the answer; then the connection's next forwarded request and the maps.
				svc := []string{"room", "room", "room", "gate", "chat"}[r.Intn(5)]
				sc := g.script(svc == "gate", false)
				switch r.Intn(3) {
				case 0:
					sc = "query;get/" + hk(cs.KeyNetId) + ";" + sc
				case 1:
					sc = "set/" + hk("chatid") + "/" + valField([]string{"chat-1", "chat-2"}[r.Intn(2)]) + ";push;" + sc
				}
				g.nOpen[f]++
				if svc == "gate" && r.Intn(2) == 0 {
					// ... and hangs up right behind it: the message is still handled (the session exists when its task
					// runs), the answer is lost, then the queued removal runs — the connection must not stay registered:
					// a session made for it pushes into nothing and its query reports an error
					g.h.Count("op.openreq.hangup")
					ops = append(ops, fmt.Sprintf("openreq f=%s svc=%s ntf=%d s=%s cl=1", f, svc, hx.B2i(r.Intn(6) == 0), sc))
					g.nh++
					hn := "h" + strconv.Itoa(g.nh)
					g.handles = append(g.handles, hn)
					g.target[hn] = connKey(f, g.nOpen[f])
					ops = append(ops, fmt.Sprintf("mk h=%s at=chat-1 f=%s n=%d uid=", hn, f, g.nOpen[f]),
						fmt.Sprintf("on h=%s s=set/%s/%s;push;query;json", hn, hk("k"), valField("ghost")), "snap")
					break
				}
				g.open[f] = append(g.open[f], g.nOpen[f])
				g.h.Count("op.openreq." + svc)
				ops = append(ops, fmt.Sprintf("openreq f=%s svc=%s ntf=%d s=%s", f, svc, hx.B2i(r.Intn(6) == 0), sc))
				if r.Intn(2) == 0 {
					ops = append(ops, fmt.Sprintf("req f=%s n=%d svc=%s ntf=0 s=%s", f, g.nOpen[f], []string{"chat", "room"}[r.Intn(2)], "id;query;json"), "snap")
				}
				break
			}
			g.h.Count("op.open")
			open(f)
			if r.Intn(3) > 0 {
				ops = append(ops, fmt.Sprintf("req f=%s n=%d svc=gate ntf=0 s=set/%s/%s", f, g.nOpen[f], hk("chatid"), valField([]string{"chat-1", "chat-2"}[r.Intn(2)])))
			}
		default:
			g.h.Count("op.snap")
			ops = append(ops, "snap")
		}
		if r.Intn(3) == 0 {
			ops = append(ops, "snap")
		}
	}
	ops = append(ops, "snap")
	return ops
}

// pureCase: the merge algebra on bare objects, with malformed JSON.
func (g *gen) pureCase(nops int) []string {
	r := g.h.R
	ops := []string{"reset"}
	fronts := []string{}
	for i := 0; i < 1+r.Intn(2); i++ {
		f := fmt.Sprintf("pf%d", i+1)
		ord := 1 + r.Intn(3)
		fronts = append(fronts, fmt.Sprintf("%s %d", f, ord))
		ops = append(ops, fmt.Sprintf("p.mkf f=%s n=%d", f, ord))
	}
	backs := []string{}
	for i := 0; i < 1+r.Intn(3); i++ {
		var f string
		var ord int
		fmt.Sscanf(fronts[r.Intn(len(fronts))], "%s %d", &f, &ord)
		h := fmt.Sprintf("b%d", i+1)
		backs = append(backs, h)
		ops = append(ops, fmt.Sprintf("p.mkb h=%s f=%s n=%d uid=%s", h, f, ord, hk(uids[r.Intn(len(uids))])))
	}
	bad := []string{"", "{", "[1,2]", "\"str\"", "{\"a\":}", "{\"a\":1,}", "nul", "{\"a\":1}x", "17", "{'a':1}"}
	for i := 0; i < nops; i++ {
		var f string
		var ord int
		fmt.Sscanf(fronts[r.Intn(len(fronts))], "%s %d", &f, &ord)
		if r.Intn(3) == 0 { // script on a front object
			var so []string
			for j := 0; j < 1+r.Intn(4); j++ {
				switch r.Intn(7) {
				case 0, 1:
					so = append(so, g.setOp(true))
				case 2:
					so = append(so, "bind/"+hk(uids[r.Intn(len(uids))]))
				case 3:
					so = append(so, "get/"+hk(g.key()))
				case 4:
					so = append(so, "id")
				case 5:
					g.h.Count("pure.updraw")
					so = append(so, "updraw/"+hk(bad[r.Intn(len(bad))]))
				default:
					so = append(so, "json")
				}
			}
			g.h.Count("op.p.on.front")
			ops = append(ops, fmt.Sprintf("p.on f=%s n=%d s=%s", f, ord, strings.Join(so, ";")))
			continue
		}
		var so []string
		for j := 0; j < 1+r.Intn(5); j++ {
			switch r.Intn(10) {
			case 0, 1, 2:
				so = append(so, g.setOp(false))
			case 3:
				so = append(so, "bind/"+hk(uids[r.Intn(len(uids))]))
			case 4:
				so = append(so, "get/"+hk(g.key()))
			case 5:
				so = append(so, "id")
			case 6:
				g.h.Count("pure.pushto")
				so = append(so, fmt.Sprintf("pushto/%s/%d", f, ord))
			case 7:
				g.h.Count("pure.from")
				so = append(so, fmt.Sprintf("from/%s/%d", f, ord))
			case 8:
				if r.Intn(3) == 0 {
					g.h.Count("pure.fromraw")
					so = append(so, "fromraw/"+hk(bad[r.Intn(len(bad))]))
				} else {
					so = append(so, "json")
				}
			default:
				so = append(so, "json")
			}
		}
		g.h.Count("op.p.on.back")
		ops = append(ops, fmt.Sprintf("p.on h=%s s=%s", backs[r.Intn(len(backs))], strings.Join(so, ";")))
	}
	return ops
}

// unguardedCase: handlers write the reserved keys `_NetId` / `_ServerId`
// (outside the property's guard).  Recorded, never compared.
func (g *gen) unguardedCase() []string {
	r := g.h.R
	ops := []string{"reset", "u.open f=gate-1", "u.open f=gate-1"}
	rk := []string{cs.KeyNetId, cs.KeyServerId}
	vals := []interface{}{5, "gate-2", 2.0, uint32(1), nil, "x"}
	ops = append(ops, "u.req f=gate-1 n=1 svc=gate ntf=0 s=set/"+hk("chatid")+"/"+valField("chat-1"))
	ops = append(ops, "u.req f=gate-1 n=2 svc=gate ntf=0 s=set/"+hk("chatid")+"/"+valField("chat-2"))
	for i := 0; i < 6; i++ {
		set := "set/" + hk(rk[r.Intn(2)]) + "/" + valField(vals[r.Intn(len(vals))])
		tail := []string{"push;query;json", "query;push;json", "push;json", "query;id;json"}[r.Intn(4)]
		svc := []string{"chat", "chat", "gate"}[r.Intn(3)]
		ops = append(ops, fmt.Sprintf("u.req f=gate-1 n=%d svc=%s ntf=0 s=%s;%s", 1+r.Intn(2), svc, set, tail))
		ops = append(ops, fmt.Sprintf("u.req f=gate-1 n=%d svc=chat ntf=0 s=query;json", 1+r.Intn(2)))
	}
	ops = append(ops, "u.close f=gate-1 n=1", "u.close f=gate-1 n=2")
	return ops
}

// ---------------------------------------------------------------- test

func TestRun(t *testing.T) {
	synctest.Test(t, func(t *testing.T) {
		h := hx.Open()
		node.RegisterHandler("gate", &ZooEntry{}, "zoo")
		node.RegisterHandler("chat", &ZooEntry{}, "zoo")
		node.RegisterHandler("room", &ZooEntry{}, "zoo")
		node.RouteBySessionKey("chat", "chatid")
		n := node.Start(node.Options{Services: []node.Svc{
			{Name: "gate-1", Type: "gate", Front: true}, {Name: "gate-2", Type: "gate", Front: true},
			{Name: "chat-1", Type: "chat"}, {Name: "chat-2", Type: "chat"},
			{Name: "room-1", Type: "room"}, {Name: "room-2", Type: "room"}}})
		w = &world{h: h, n: n, total: map[string]uint32{}, base: map[string]uint32{}, conns: map[string]*node.Client{},
			nOpen: map[string]int{}, handles: map[string]*handle{}, pfronts: map[string]*cs.FrontSession{}, recs: map[int]*rec{},
			parked: map[string]*parkedH{}, relay: map[string]string{}, atClose: map[string]string{}}
		run := func(op string) {
			obs := exec(op)
			h.Emit(op, obs)
			if i := strings.Index(obs, "at="); i >= 0 {
				h.Count("routed." + strings.Fields(obs[i:])[0])
			}
			for _, tag := range []string{"resp=err", "resp=none", "panic", "STALL", ";err", "=err"} {
				if strings.Contains(obs, tag) {
					h.Count("obs." + tag)
				}
			}
		}
		exec("reset")
		if ops := hx.ReplayOps(); ops != nil {
			for _, op := range ops {
				run(op)
			}
			node.Finish(h)
		}
		for _, op := range hx.CorpusOps(hx.Env("VERIF_CORPUS", "corpus/C10")) {
			h.Count("corpus")
			run(op)
		}
		g := &gen{h: h}
		cases := hx.EnvInt("VERIF_N", 150)
		for i := 0; i < cases; i++ {
			var ops []string
			switch {
			case i%4 == 3:
				h.Count("case.pure")
				ops = g.pureCase(25 + h.R.Intn(30))
			default:
				h.Count("case.node")
				ops = g.caseOps(15 + h.R.Intn(30))
			}
			for _, op := range ops {
				run(op)
			}
		}
		// unguarded stream last: whatever it leaves behind can not disturb a compared case
		for i := 0; i < 3+cases/50; i++ {
			h.Count("case.unguarded")
			for _, op := range g.unguardedCase() {
				run(op)
			}
		}
		run("reset")
		node.Finish(h)
	})
}
