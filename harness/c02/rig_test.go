// White-box access of the C02 harness WITHOUT naming any unexported identifier of /repo (there is no
// overlay shim any more: nothing of this package is compiled into a /repo package, so a rename / move /
// split of an unexported identifier there cannot break this package's build).
//
//   - tcpRig: the TCP acceptor's own PlayerConn (stream reassembly: GetNextMessage) around an in-memory
//     connection.  acceptor.NewTCPAcceptor + ListenAndServe (exported) run the REAL accept loop on a
//     loopback listener; the ONE field of type net.Listener of the TCPAcceptor is then replaced (found by
//     type, reflect) with a stand-in whose Accept hands out the server ends of the harness's net.Pipe
//     pairs, the loopback listener is closed so that the loop comes round and asks the stand-in, and
//     GetConnChan (exported) yields the PlayerConn the loop built around each of them — the very value a
//     TCP client's session would read from.  The rig is assembled BEFORE the synctest bubble starts (its
//     goroutine and channels do not belong to the bubble: handing a connection over is a plain blocking
//     rendezvous, the virtual clock stands still meanwhile).
//   - reqCounter: the request-id counter of an actorex Service, found by BEHAVIOUR: the one int32 field
//     that holds what the exported AllocReqId just returned.
//
// Degraded modes (histogram key whitebox=unavailable:<what>): without the rig the sessions read through
// the engine's verbatim copy of the framing (harness/node pipeConn.GetNextMessage) — op lines and
// observations are the same, the tie to tcp_acceptor.go is lost for that run; without the counter op wrap
// leaves the counter where it is.
package c02

import (
	"fmt"
	"io"
	"net"
	"os"
	"reflect"
	"sync"
	"time"
	"unsafe"

	as "github.com/dfklegend/cell2/actorex/service"
	"github.com/dfklegend/cell2/pomelonet/server/acceptor"
	"github.com/dfklegend/cell2/utils/logger"
	"github.com/sirupsen/logrus"
)

func rigNote(format string, a ...any) { fmt.Fprintf(os.Stderr, "c02 rig: "+format+"\n", a...) }

// fieldsWhere: settable views of every field of *ptr that satisfies pred (nested struct values
// included, pointers not followed)
func fieldsWhere(ptr any, pred func(reflect.Value) bool) []reflect.Value {
	var out []reflect.Value
	var walk func(v reflect.Value)
	walk = func(v reflect.Value) {
		for i := 0; i < v.NumField(); i++ {
			f := v.Field(i)
			if pred(f) {
				out = append(out, reflect.NewAt(f.Type(), unsafe.Pointer(f.UnsafeAddr())).Elem())
			} else if f.Kind() == reflect.Struct {
				walk(f)
			}
		}
	}
	walk(reflect.ValueOf(ptr).Elem())
	return out
}

var listenerType = reflect.TypeOf((*net.Listener)(nil)).Elem()

type fakeListener struct {
	ch   chan net.Conn
	done chan struct{}
	once sync.Once
}

func (l *fakeListener) Accept() (net.Conn, error) {
	select {
	case c := <-l.ch:
		return c, nil
	case <-l.done:
		return nil, net.ErrClosed
	}
}
func (l *fakeListener) Close() error   { l.once.Do(func() { close(l.done) }); return nil }
func (l *fakeListener) Addr() net.Addr { return &net.TCPAddr{IP: net.IPv4(127, 0, 0, 1), Port: 1} }

// probeConn: a read-only connection that delivers the given fragments, then io.EOF
type probeConn struct {
	net.Conn
	frags [][]byte
	reads int
}

func (p *probeConn) Read(b []byte) (int, error) {
	p.reads++
	for len(p.frags) > 0 && len(p.frags[0]) == 0 {
		p.frags = p.frags[1:]
	}
	if len(p.frags) == 0 {
		return 0, io.EOF
	}
	n := copy(b, p.frags[0])
	p.frags[0] = p.frags[0][n:]
	return n, nil
}

type tcpRig struct {
	mode string // listener-swap | unavailable
	a    *acceptor.TCPAcceptor
	fl   *fakeListener
	mu   sync.Mutex
}

// newTCPRig must run OUTSIDE the synctest bubble (real socket, real-time waits).
func newTCPRig() *tcpRig {
	r := &tcpRig{mode: "unavailable"}
	logger.SetLogLevel(logrus.PanicLevel) // the loop reports the closed loopback listener once (node.Start sets the same level)
	a := acceptor.NewTCPAcceptor("127.0.0.1:0")
	go a.ListenAndServe()
	for end := time.Now().Add(3 * time.Second); a.GetAddr() == "" && time.Now().Before(end); {
		time.Sleep(time.Millisecond)
	}
	if a.GetAddr() == "" {
		rigNote("acceptor: no loopback listener; sessions read through the engine's copy of the framing")
		return r
	}
	fs := fieldsWhere(a, func(f reflect.Value) bool { return f.Type() == listenerType })
	if len(fs) != 1 || fs[0].IsNil() {
		rigNote("acceptor: %d fields of type net.Listener (want 1); sessions read through the engine's copy of the framing", len(fs))
		a.Stop()
		return r
	}
	real := fs[0].Interface().(net.Listener)
	fl := &fakeListener{ch: make(chan net.Conn), done: make(chan struct{})}
	fs[0].Set(reflect.ValueOf(fl))
	real.Close() // the accept loop comes round and asks the stand-in
	// self-test of the PLUMBING only: a connection handed to Accept comes back as a PlayerConn around it
	// (its promoted net.Conn.Read reads from the probe).  GetNextMessage is deliberately not part of the
	// self-test: a defect in the stream reassembly must show up in the run, not switch the rig off.
	probe := &probeConn{frags: [][]byte{{42}}}
	ok := false
	select {
	case fl.ch <- probe:
		select {
		case pc := <-a.GetConnChan():
			if pc != nil {
				b := make([]byte, 1)
				n, err := pc.Read(b)
				ok = err == nil && n == 1 && b[0] == 42 && probe.reads == 1
			}
		case <-time.After(3 * time.Second):
		}
	case <-time.After(3 * time.Second):
	}
	if !ok {
		rigNote("acceptor: the accept loop does not serve the stand-in listener; sessions read through the engine's copy of the framing")
		fl.Close()
		a.Stop()
		return r
	}
	r.a, r.fl, r.mode = a, fl, "listener-swap"
	return r
}

// playerConn: the PlayerConn the real accept loop builds around c (callable inside the bubble: both
// channels were made outside it)
func (r *tcpRig) playerConn(c net.Conn) acceptor.PlayerConn {
	r.mu.Lock()
	defer r.mu.Unlock()
	r.fl.ch <- c
	return <-r.a.GetConnChan()
}

// reqCounter: the int32 request-id counter of s, found by behaviour (AllocReqId returns the new value
// of exactly one int32 field that it has just changed).  nil if there is no such field.  The one id the
// probe allocates is not used; the caller overwrites the counter anyway.
func reqCounter(s *as.Service) *int32 {
	fs := fieldsWhere(s, func(f reflect.Value) bool { return f.Kind() == reflect.Int32 })
	before := make([]int64, len(fs))
	for i, f := range fs {
		before[i] = f.Int()
	}
	got := int64(s.AllocReqId())
	var hit []reflect.Value
	for i, f := range fs {
		if f.Int() == got && before[i] != got {
			hit = append(hit, f)
		}
	}
	if len(hit) != 1 {
		for i, f := range fs { // leave everything as it was
			f.SetInt(before[i])
		}
		return nil
	}
	return (*int32)(unsafe.Pointer(hit[0].UnsafeAddr()))
}
