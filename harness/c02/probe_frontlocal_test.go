//go:build probe

// Reproduction of suspected defects on the FRONT-LOCAL path (not part of the check: build tag
// `probe`).  Run:
//
//	cd /verif/harness && GOFLAGS=-mod=mod GOPROXY=off GOSUMDB=off GOTOOLCHAIN=local go1.26 test -vet=off \
//	  -tags 'verif probe' -run TestProbeFrontLocal -count=1 ./c02
//	cat /tmp/c02-probe.out
//
// Expected on /repo 7b326e6 (D23 repaired; zoo.okboom is part of the check's zoo now):
//
//	reqs q=0,1,gate.zoo.okboom,v1 => one response (before 7b326e6: TWO, data then error — SafeCall completed again)
//	reqs q=0,2,chat.zoo.okboom,v2 => one response
//	reqs q=0,3,gate.zoo.hang,v3   => no response, not even after the 45 s flush (no timeout net front-locally)
//	reqs q=0,4,chat.zoo.hang,v4   => the request-timeout error at 31 s
package c02

import (
	"fmt"
	"os"
	"testing"
	"testing/synctest"
	"time"

	"cell2verif/hx"
	"cell2verif/node"

	"github.com/dfklegend/cell2/apimapper/apientry"
	"github.com/dfklegend/cell2/node/client/impls"
)

// Hang is asynchronous; its continuation panics before completing (timer.Mgr swallows the panic).
func (z *Zoo) Hang(ctx *impls.HandlerContext, a *Arg, cb apientry.HandlerCBFunc) {
	ns, _ := enter(ctx, "hang", a)
	ns.GetRunService().GetTimerMgr().After(1*time.Second, func(args ...interface{}) {
		panic("continuation failed")
	})
}

func TestProbeFrontLocal(t *testing.T) {
	rig = newTCPRig()
	synctest.Test(t, func(t *testing.T) {
		h := hx.Open()
		w := start(h)
		f, _ := os.Create("/tmp/c02-probe.out")
		for _, op := range []string{"reset nc=1", "bind c=0 to=chat-1",
			"reqs q=0,1,gate.zoo.okboom,v1", "reqs q=0,2,chat.zoo.okboom,v2",
			"reqs q=0,3,gate.zoo.hang,v3", "reqs q=0,4,chat.zoo.hang,v4", "adv", "flush"} {
			fmt.Fprintf(f, "%s => %s\n", op, w.exec(op))
		}
		f.Close()
		node.Finish(h)
	})
}
