//go:build probe

// Reproduction of two suspected defects on the FRONT-LOCAL path (not part of the check: build tag
// `probe`).  Run:
//
//	cd /verif/harness && GOFLAGS=-mod=mod GOPROXY=off GOSUMDB=off GOTOOLCHAIN=local go1.26 test -vet=off \
//	  -tags 'verif probe' -overlay=/verif/harness/c02/overlay/overlay.json -run TestProbeFrontLocal -count=1 ./c02
//	cat /tmp/c02-probe.out
//
// Expected on /repo 1112075:
//
//	reqs q=0,1,gate.zoo.okboom,v1 => TWO responses with id 1 (data, then error): SafeCall completes again after the panic
//	reqs q=0,2,chat.zoo.okboom,v2 => one response (the second reply is a "miss response" at the front)
//	reqs q=0,3,gate.zoo.hang,v3   => no response, not even after the 45 s flush (no timeout net front-locally)
//	reqs q=0,4,chat.zoo.hang,v4   => the request-timeout error at 31 s
package c02

import (
	"fmt"
	"os"
	"testing"
	"testing/synctest"
	"time"

	"cell2verif/hx"
	"cell2verif/node"

	"github.com/dfklegend/cell2/apimapper/apientry"
	"github.com/dfklegend/cell2/node/client/impls"
)

// Okboom completes, then panics in the same frame.
func (z *Zoo) Okboom(ctx *impls.HandlerContext, a *Arg, cb apientry.HandlerCBFunc) {
	_, r := enter(ctx, "okboom", a)
	apientry.CheckInvokeCBFunc(cb, nil, r)
	panic("after completion")
}

// Hang is asynchronous; its continuation panics before completing (timer.Mgr swallows the panic).
func (z *Zoo) Hang(ctx *impls.HandlerContext, a *Arg, cb apientry.HandlerCBFunc) {
	ns, _ := enter(ctx, "hang", a)
	ns.GetRunService().GetTimerMgr().After(1*time.Second, func(args ...interface{}) {
		panic("continuation failed")
	})
}

func TestProbeFrontLocal(t *testing.T) {
	synctest.Test(t, func(t *testing.T) {
		h := hx.Open()
		w := start(h)
		f, _ := os.Create("/tmp/c02-probe.out")
		for _, op := range []string{"reset nc=1", "bind c=0 to=chat-1",
			"reqs q=0,1,gate.zoo.okboom,v1", "reqs q=0,2,chat.zoo.okboom,v2",
			"reqs q=0,3,gate.zoo.hang,v3", "reqs q=0,4,chat.zoo.hang,v4", "adv", "flush"} {
			fmt.Fprintf(f, "%s => %s\n", op, w.exec(op))
		}
		f.Close()
		node.Finish(h)
	})
}
