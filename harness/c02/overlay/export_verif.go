package acceptor

import "net"

// White-box shim of the C02 harness (NOT part of /repo; mapped into the package directory at build
// time only: go test -overlay=/verif/harness/c02/overlay/overlay.json).  It builds the unexported
// tcpPlayerConn exactly as TCPAcceptor.serve does around every accepted net.Conn, so that the
// sessions of the C02 node read their packets through the real GetNextMessage (stream reassembly
// of the TCP acceptor) instead of a copy of it.
func VerifTCPPlayerConn(c net.Conn) PlayerConn { return &tcpPlayerConn{Conn: c} }
